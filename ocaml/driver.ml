(* one request per line on stdin, one reply per line on stdout *)
let explode s = List.init (String.length s) (String.get s)
let implode l = String.of_seq (List.to_seq l)
let () =
  try
    while true do
      let line = input_line stdin in
      print_string (implode (Model.dispatch (explode line)));
      print_char '\n';
      flush stdout
    done
  with End_of_file -> ()
