"""Shared harness code for the ODE family (C01, C02, C03, C04, C13):
network generators, implementation drivers (channels A and B), the canonical
parser of emitted sums of products, and the exact rational evaluator used by the
oracles."""
from __future__ import annotations

import os
import random
import re
import shutil
import tempfile
from fractions import Fraction
from pathlib import Path

from . import framework as fw
from .impl import Species, Network, Reaction, ReactionType, reset_globals, quiet

from naunet.templateloader import TemplateLoader, NetworkInfo
from naunet.thermalprocess import ThermalProcess

# --------------------------------------------------------------------------
# generators

GAS = ["H", "H2", "C", "O", "CO", "OH", "H2O", "He", "N", "N2", "CH", "D", "HD", "O2", "Si", "SiO", "oH2", "pH2", "HCN", "HNC"]
IONS = ["H+", "C+", "He+", "HCO+", "H3+", "He++", "H-", "O-", "Si+", "oH3+"]
ELECTRON = ["e-", "E"]
ICE = ["#H", "#CO", "#H2O", "#OH", "#O", "#N2", "#HCN", "#HNC"]      # incl. an isomer pair of one composition (binding energies known)
GRAINS = ["GRAIN0", "GRAIN-", "GRAIN+"]


def gen_network(rng: random.Random, size="small", ions=True, ice=True, grains=False, electron_spelling=None):
    """abstract network description: dict(reactions=[(reactants, products)], required=[...])"""
    pool = rng.sample(GAS, rng.randint(2, min(len(GAS), 6 if size == "small" else 12)))
    if ions and rng.random() < 0.7:
        pool += rng.sample(IONS, rng.randint(1, 3 if size == "small" else 6))
        pool.append(electron_spelling or rng.choice(ELECTRON))
    if ice and rng.random() < 0.4:
        pool += rng.sample(ICE, rng.randint(1, 3))
    if grains and rng.random() < 0.5:
        pool += rng.sample(GRAINS, rng.randint(1, 2))
    nre = rng.randint(0, 8) if size == "small" else rng.randint(8, 40)
    reactions = []
    for _ in range(nre):
        nr = rng.choice([1, 2, 2, 2, 3])
        reac = [rng.choice(pool) for _ in range(nr)]
        if rng.random() < 0.25 and nr >= 2:
            reac[1] = reac[0]                 # repeated reactant (H + H -> H2)
        npd = rng.choice([0, 1, 1, 2, 2, 3, 4, 5])
        prod = [rng.choice(pool) for _ in range(npd)]
        if rng.random() < 0.2 and prod:
            prod[0] = reac[0]                 # catalyst
        if rng.random() < 0.15 and len(prod) >= 2:
            prod[1] = prod[0]                 # repeated product
        if rng.random() < 0.2:
            reac = reac + [rng.choice(["CR", "PHOTON", "CRPHOT", "CRP"])]   # pseudo reactant
        reactions.append((reac, prod))
    if rng.random() < 0.2 and reactions:
        reactions.append(reactions[rng.randrange(len(reactions))])           # duplicate reaction
    required = [rng.choice(GAS + IONS) for _ in range(rng.choice([0, 0, 1, 2]))]
    return {"reactions": reactions, "required": required}


def build_network(desc, **kw) -> Network:
    reset_globals()
    rl = []
    for i, (r, p) in enumerate(desc["reactions"]):
        rl.append(Reaction(list(r), list(p), desc.get("tmin", {}).get(i, -1.0), desc.get("tmax", {}).get(i, -1.0),
                           desc.get("alpha", {}).get(i, 1e-10), desc.get("beta", 0.5), desc.get("gamma", 10.0),
                           ReactionType.GAS_TWOBODY, idxfromfile=desc.get("idx", {}).get(i, i)))
    net = Network(reactions=rl, required_species=list(desc.get("required", [])),
                  cooling=list(desc.get("cooling", [])),
                  rate_modifier=desc.get("rate_modifier"), ode_modifier=desc.get("ode_modifier"), **kw)
    # edits made after the modifiers were attached: ["remove", position] / ["add", reactants, products, index]
    for e in desc.get("edits", []):
        if e[0] == "remove":
            net.remove_reaction(int(e[1]))
        else:
            net.add_reaction(Reaction(list(e[1]), list(e[2]), -1.0, -1.0, 1e-10, 0.5, 10.0, ReactionType.GAS_TWOBODY, idxfromfile=int(e[3])))
    return net


def follow_up(rng, desc):
    """the same network with one more reaction among the species it already has: same species set, usually another
    species order (the order follows the number of reaction partners) - to be generated right after `desc` in the same process"""
    sp = sorted({x for r, p in desc["reactions"] for x in list(r) + list(p) if x not in ("CR", "CRP", "PHOTON", "CRPHOT")})
    if len(sp) < 2:
        return None
    d2 = dict(desc)
    d2["reactions"] = list(desc["reactions"]) + [([rng.choice(sp), rng.choice(sp)], [rng.choice(sp)])]
    for key in ("tmin", "tmax", "idx"):
        if key in d2:
            d2[key] = dict(d2[key])
    return d2


def final_indices(desc):
    """the file indices of the reactions a description ends up with (after its edits)"""
    idx = [desc.get("idx", {}).get(i, i) for i in range(len(desc["reactions"]))]
    for e in desc.get("edits", []):
        if e[0] == "remove":
            idx.pop(int(e[1]))
        else:
            idx.append(int(e[3]))
    return idx


class FakeThermal(ThermalProcess):
    pass


_LOADERS, _LOADER_CALLS = {}, [0]


def loader(solver, method, device):
    """a TemplateLoader: two calls out of three return ONE object per back-end that is reused for every network of the run
    (the API allows it; anything a loader or its class remembers from an earlier network then shows), every third a fresh one"""
    _LOADER_CALLS[0] += 1
    if _LOADER_CALLS[0] % 3 == 0:
        return TemplateLoader(solver, method, device)
    key = (solver, method, device)
    if key not in _LOADERS:
        _LOADERS[key] = TemplateLoader(solver, method, device)
    return _LOADERS[key]


def impl_ode(net: Network, heating=None, cooling=None, method="dense"):
    """channel A: the ODEContent the generator hands to the templates"""
    tl = loader("cvode", method, "cpu")
    species = net.species
    info = NetworkInfo(net.elements, species,
                       net.reactions, heating if heating is not None else net.heating,
                       cooling if cooling is not None else net.cooling, net.grains, net.shielding)
    ode = tl._prepare_ode_content(info, net._species_kwargs, net.rate_modifier, net.ode_modifier)
    return info, ode


# --------------------------------------------------------------------------
# canonical parser of emitted sums of products

WRAP_PRE = "(gamma - 1.0) * ( "
WRAP_POST = " ) / kerg / npar"


class ParseError(Exception):
    pass


def split_top(s: str, seps):
    """split s at top level (outside () and []) on any of the separator strings; returns
    [(sep_before, piece)]"""
    out = []
    depth = 0
    i = 0
    cur = []
    sep = ""
    while i < len(s):
        c = s[i]
        if c in "([":
            depth += 1
        elif c in ")]":
            depth -= 1
        if depth == 0:
            hit = next((q for q in seps if s.startswith(q, i)), None)
            if hit is not None:
                out.append((sep, "".join(cur)))
                cur = []
                sep = hit
                i += len(hit)
                continue
        cur.append(c)
        i += 1
    out.append((sep, "".join(cur)))
    return out


def parse_sum(text: str):
    """'0.0 - k[0]*y[IDX_A]*y[IDX_B] + (f) * y[IDX_C]' -> (wrapped, [(neg, kind, id, [syms])])"""
    t = " ".join(text.split())
    wrapped = False
    if t.startswith(WRAP_PRE) and t.endswith(WRAP_POST):
        wrapped = True
        t = t[len(WRAP_PRE):len(t) - len(WRAP_POST)].strip()
    pieces = split_top(t, [" + ", " - "])
    if pieces[0][1].strip() != "0.0":
        raise ParseError(f"sum does not start with 0.0: {text[:80]}")
    terms = []
    for sep, body in pieces[1:]:
        neg = sep == " - "
        facs = [f.strip() for _, f in split_top(body, ["*"])]
        head = facs[0]
        m = re.fullmatch(r"(k|kh|kc)\[(\d+)\]", head)
        if m:
            kind, ident = m.group(1), int(m.group(2))
        elif head.startswith("(") and head.endswith(")"):
            kind, ident = "f", head[1:-1]
        else:
            raise ParseError(f"unrecognised coefficient {head!r} in {text[:120]}")
        syms = []
        for f in facs[1:]:
            if f == "":
                # "(fact) * " with no dependency: '*'.join of an empty list
                continue
            if not re.fullmatch(r"y(_cur)?\[IDX_[^\]]*\]", f):
                raise ParseError(f"unrecognised factor {f!r} in {text[:120]}")
            syms.append(f.replace("y_cur[", "y["))
        terms.append((neg, kind, ident, tuple(sorted(syms))))
    return wrapped, terms


def canon(wrapped, terms):
    return (bool(wrapped), tuple(sorted((bool(n), k, str(i), tuple(s)) for n, k, i, s in terms)))


def model_eqn(x, ysyms):
    """sexp (wrapped ((neg kind id (vars))...)) from the model -> canonical form"""
    w, ts = x
    terms = []
    for neg, kind, ident, vs in ts:
        terms.append((neg == "1", kind, ident, tuple(sorted(ysyms[int(v)] for v in vs))))
    return canon(w == "1", terms)


def strip_lhs(stmt: str):
    lhs, rhs = stmt.split(" = ", 1)
    return lhs.strip(), rhs.rstrip().rstrip(";")


# --------------------------------------------------------------------------
# exact evaluation (oracle side; independent of the parser above)

NUM_RE = re.compile(r"(?<![\w.\]])(\d+\.\d*(?:[eE][-+]?\d+)?|\d+(?:[eE][-+]?\d+)?)(?![\w.])")


def eval_expr(text: str, env: dict) -> Fraction:
    """evaluate a C arithmetic expression exactly over the rationals using Python's own
    parser: numeric literals become Fractions, names come from env."""
    src = " ".join(text.split())
    src = NUM_RE.sub(lambda m: f"F('{m.group(1)}')", src)
    return eval(src, {"__builtins__": {}, "F": Fraction}, env)


class Vec(dict):
    """y[IDX_X] / k[3] lookups"""

    def __getitem__(self, k):
        return dict.__getitem__(self, k)


def rand_frac(rng):
    return Fraction(rng.randint(1, 97), rng.randint(1, 13)) * rng.choice([1, 1, 1, -1])


def parse_macros(text: str) -> dict:
    """#define NAME value (integers and simple references) from naunet_macros.h"""
    out = {}
    for m in re.finditer(r"^#define\s+(\S+)[ \t]+(.+?)\s*$", text, re.M):
        out.setdefault(m.group(1), m.group(2).split("//")[0].strip())
    return out


def macro_int(macros: dict, name: str):
    v = macros.get(name)
    seen = 0
    while v is not None and not re.fullmatch(r"-?\d+", v) and seen < 5:
        v = macros.get(v, None) if re.fullmatch(r"\w+", v) else None
        seen += 1
    return None if v is None else int(v)


# --------------------------------------------------------------------------
# channel B: render to a scratch directory

def scratch_dir():
    d = fw.BUILD / "scratch" / f"{os.getpid()}"
    d.mkdir(parents=True, exist_ok=True)
    return Path(tempfile.mkdtemp(dir=d))


def cleanup_scratch():
    shutil.rmtree(fw.BUILD / "scratch" / f"{os.getpid()}", ignore_errors=True)


def render(net: Network, solver="cvode", method="dense", device="cpu", jac_pattern=False, templates=None) -> Path:
    d = scratch_dir()
    tl = loader(solver, method, device)
    with quiet():
        tl.render("naunet", net, templates=templates, path=d, save=True, jac_pattern=jac_pattern)
    return d


def read_macros(d: Path) -> dict:
    return parse_macros((d / "include" / "naunet_macros.h").read_text())


def extract_statements(src: str, lhs_re: str):
    """all `lhs = rhs;` statements whose lhs matches lhs_re (rhs may span lines)"""
    out = []
    for m in re.finditer(rf"({lhs_re})\s*=\s*(.*?);[ \t]*$", src, re.S | re.M):
        out.append((m.group(1), " ".join(m.group(m.lastindex).split())))
    return out


# --------------------------------------------------------------------------
# channel C: the rendered CVODE right-hand side and Jacobian, compiled as they stand and executed

CXX_DIR = Path(__file__).resolve().parent / "cxx"
FEXJAC_TEMPLATES = ["src/naunet_fex.cpp.j2", "src/naunet_jac.cpp.j2", "src/naunet_physics.cpp.j2", "include/naunet_macros.h.j2",
                    "include/naunet_data.h.j2", "include/naunet_ode.h.j2", "include/naunet_physics.h.j2", "include/naunet_constants.h.j2",
                    "include/naunet_utilities.h.j2"]


LAST_KERG = [None]        # Boltzmann's constant as the constants file rendered last defines it (None: file not rendered)


def _render_with_constants(net_builder, solver, method, device, templates):
    """render the given templates plus the constants source (physical constants such as kerg are defined there); that file needs
    a binding energy for every ice species of the network: when it cannot be rendered the constants stay unresolved symbols
    (the temperature row is then not comparable, the species rows do not use them)"""
    try:
        d = render(net_builder(), solver, method, device, templates=templates + ["src/naunet_constants.cpp.j2"])
        f = d / "src" / ("naunet_constants.cu" if (d / "src" / "naunet_constants.cu").exists() else "naunet_constants.cpp")
        m = re.search(r"\bdouble\s+kerg\s*=\s*([0-9.eE+-]+)\s*;", f.read_text())
        LAST_KERG[0] = float(m.group(1)) if m else None
        return d, [str(f)]
    except Exception:
        LAST_KERG[0] = None
        return render(net_builder(), solver, method, device, templates=templates), []


def prep_fexjac(desc, method):
    """render `desc` for cvode/<method> (dense or sparse); returns (compile command, executable path) of the Fex / Jac driver in
    which the rate routines are stubs that return the coefficients of each case"""
    d, consts = _render_with_constants(lambda: build_network(desc), "cvode", method, "cpu", FEXJAC_TEMPLATES)
    exe = d / "fexjac"
    cmd = ["g++", "-std=c++17", "-O0", "-w", "-Wl,--unresolved-symbols=ignore-all", f"-DFEXJAC_SPARSE={1 if method == 'sparse' else 0}",
           "-I", str(CXX_DIR / "sundials"), "-I", str(d / "include"), "-o", str(exe),
           str(d / "src" / "naunet_fex.cpp"), str(d / "src" / "naunet_jac.cpp"), str(d / "src" / "naunet_physics.cpp"), *consts, str(CXX_DIR / "fexjac_cvode.cpp")]
    return cmd, exe


def rewrite_launches(text: str) -> str:
    """`Kernel<<<grid, block, shmem, stream>>>(args)` -> `SHIM_LAUNCH(Kernel, grid, block, args)` (cuda_shim.h runs the threads of
    the launch one after the other); nothing else of the rendered file is touched"""
    def one(m):
        cfg = [c.strip() for c in m.group(2).split(",")]
        return f"SHIM_LAUNCH({m.group(1)}, {cfg[0]}, {cfg[1] if len(cfg) > 1 else '1'}, "
    return re.sub(r"(\b\w+)\s*<<<([^;]*?)>>>\s*\(", one, text)


def prep_cusparse(desc):
    """render `desc` for cvode/cusparse (gpu); the kernel launches `Kernel<<<...>>>(args)` are rewritten to plain calls in copies of
    the two rendered files (nothing else is touched) and compiled by g++ against the CUDA stand-in header; returns (compile
    command, executable path) of the driver that runs a batch of two systems"""
    d, consts = _render_with_constants(lambda: build_network(desc), "cvode", "cusparse", "gpu", FEXJAC_TEMPLATES)
    srcs = list(consts)
    for f in ("naunet_fex", "naunet_jac"):
        text = (d / "src" / f"{f}.cu").read_text()
        text = rewrite_launches(text)
        (d / "src" / f"{f}_host.cpp").write_text(text)
        srcs.append(str(d / "src" / f"{f}_host.cpp"))
    phys = d / "src" / ("naunet_physics.cu" if (d / "src" / "naunet_physics.cu").exists() else "naunet_physics.cpp")
    exe = d / "fexjac"
    cmd = ["g++", "-std=c++17", "-O0", "-w", "-x", "c++", "-DUSE_CUDA", "-D__global__=", "-D__device__=", "-D__host__=", "-D__constant__=", "-include", str(CXX_DIR / "cuda" / "cuda_shim.h"), "-Wl,--unresolved-symbols=ignore-all",
           "-I", str(CXX_DIR / "cuda"), "-I", str(CXX_DIR / "sundials"), "-I", str(d / "include"), "-o", str(exe),
           *srcs, str(phys), str(CXX_DIR / "fexjac_cusparse.cpp")]
    return cmd, exe


def prep_odeint(desc, alphas):
    """render `desc` for Odeint with the literal alphas[l] as the coefficient of reaction l (beta = gamma = 0); returns (compile
    command, executable path) of the driver that calls the rendered functors (Boost stand-in headers)"""
    d2 = dict(desc, alpha={l: float(x) for l, x in enumerate(alphas)}, beta=0.0, gamma=0.0)
    net = build_network(d2)
    d = render(net, "odeint", "rosenbrock4", "cpu", templates=["src/naunet_ode.cpp.j2", "src/naunet_physics.cpp.j2", "include/naunet_macros.h.j2",
                                                              "include/naunet_data.h.j2", "include/naunet_ode.h.j2", "include/naunet_physics.h.j2",
                                                              "include/naunet_constants.h.j2", "include/naunet_utilities.h.j2"])
    exe = d / "fexjac"
    cmd = ["g++", "-std=c++17", "-O0", "-w", "-Wl,--unresolved-symbols=ignore-all", "-I", str(CXX_DIR / "boost"), "-I", str(d / "include"), "-o", str(exe),
           str(d / "src" / "naunet_ode.cpp"), str(d / "src" / "naunet_physics.cpp"), str(CXX_DIR / "fexjac_odeint.cpp")]
    return cmd, exe


def compile_all(cmds):
    """run the compile commands concurrently; returns the list of diagnostics (None = compiled)"""
    import subprocess
    from concurrent.futures import ThreadPoolExecutor

    def one(cmd):
        r = subprocess.run(cmd, stdout=subprocess.PIPE, stderr=subprocess.STDOUT, text=True)
        return None if r.returncode == 0 else "does not compile: " + r.stdout[-700:]
    with ThreadPoolExecutor(max_workers=max(1, len(cmds))) as ex:
        return list(ex.map(one, cmds))


def run_fexjac(exe, rows, per_case=1, threads=None):
    """run a Fex / Jac driver on the input rows (lists of numbers); returns ([{"F", "J", "S", "J_ok"}], None) or (None, diagnostic)"""
    import subprocess
    inp = "\n".join(" ".join(repr(float(x)) for x in row) for row in rows) + "\n"
    env = dict(os.environ, SHIM_THREADS=str(threads)) if threads else None
    r = subprocess.run([str(exe)], input=inp, stdout=subprocess.PIPE, stderr=subprocess.STDOUT, text=True, timeout=120, env=env)
    out, cur = [], None
    for line in r.stdout.splitlines():
        t = line.split()
        if not t:
            continue
        if t[0] == "F":
            cur = {"F": [float(x) for x in t[1:]], "S": None, "J": None, "J_ok": True}
            out.append(cur)
        elif t[0] == "S" and cur is not None:
            i = t.index("|")
            cur["S"] = ([int(x) for x in t[1:i]], [int(x) for x in t[i + 1:]])
        elif t[0] in ("J", "J!") and cur is not None:
            n = len(cur["F"])
            v = [float(x) for x in t[1:]]
            cur["J"] = [v[i * n:(i + 1) * n] for i in range(n)]
            cur["J_ok"] = t[0] == "J"
    if r.returncode != 0 or len(out) != per_case * len(rows) or any(c["J"] is None for c in out):
        return None, f"driver exit {r.returncode}, {len(out)} results for {len(rows)} cases: {r.stdout[-300:]}"
    return out, None


# --------------------------------------------------------------------------
# reading rendered C++ bodies: local pointer aliases and array writes

_PTR = re.compile(r"\b(?:const\s+)?(?:realtype|double|float|sunrealtype)\s*\*\s*(?:const\s+)?(\w+)\s*=\s*(\w+)\s*\+\s*([^;]+);")
_PTR2 = re.compile(r"\b(?:const\s+)?(?:realtype|double|float|sunrealtype)\s*\*\s*(?:const\s+)?(\w+)\s*=\s*&\s*(\w+)\s*\[([^;\]]+)\]\s*;")
_REF = re.compile(r"\b(?:const\s+)?[A-Za-z_][\w:<>]*\s*&\s*(\w+)\s*=\s*(\w+)\s*;")
_INT = re.compile(r"\b(?:const\s+)?(?:int|size_t|sunindextype|long)\s+(\w+)\s*=\s*([^;]+);")


def resolve_aliases(body: str) -> str:
    """rewrite a C function body so that array accesses through local pointer aliases read as accesses to the
    underlying array with the species macro as the only subscript:  with `realtype *p = a + off;`  (or `= &a[off]`),
    `p[IDX_x]` becomes `a[IDX_x]`; with `int o = <expr>;`, `a[o + IDX_x]` becomes `a[IDX_x]`.  The offset itself is the
    per-system stride of the batched kernels and is not interpreted (the reader sees one system)."""
    alias = {}
    for m in list(_PTR.finditer(body)) + list(_PTR2.finditer(body)):
        alias[m.group(1)] = m.group(2)
    ints = {m.group(1) for m in _INT.finditer(body)}
    refs = {m.group(1): m.group(2) for m in _REF.finditer(body)}        # `matrix_type &jm = j;`: jm(r, c) is j(r, c), jm[i] is j[i]
    alias.update(refs)

    def base(n, depth=0):
        while n in alias and depth < 8:
            n, depth = alias[n], depth + 1
        return n
    out = body
    for n in sorted(alias, key=len, reverse=True):
        out = re.sub(rf"\b{re.escape(n)}\[", base(n) + "[", out)
        if n in refs:
            out = re.sub(rf"(?<![\w&]){re.escape(n)}\(", base(n) + "(", out)
    for o in sorted(ints, key=len, reverse=True):
        out = re.sub(rf"\[\s*{re.escape(o)}\s*\+\s*(IDX_\w+|\d+)\s*\]", r"[\1]", out)
        out = re.sub(rf"\[\s*(IDX_\w+|\d+)\s*\+\s*{re.escape(o)}\s*\]", r"[\1]", out)
    return out


_WRITE = re.compile(r"\b(\w+)\s*\[([^\]=;]*IDX_\w+[^\]=;]*)\]\s*([-+*/%|&^]|<<|>>)?=(?!=)")


def array_writes(body: str):
    """every statement that assigns to an array element at a species/element macro subscript: (array, subscript, operator)"""
    return [(m.group(1), " ".join(m.group(2).split()), (m.group(3) or "") + "=") for m in _WRITE.finditer(body)]


# --------------------------------------------------------------------------
# dual numbers over the rationals: exact first derivatives for the C02 oracle

class Dual:
    __slots__ = ("a", "b")

    def __init__(self, a, b=0):
        self.a = Fraction(a)
        self.b = Fraction(b)

    @staticmethod
    def lift(x):
        return x if isinstance(x, Dual) else Dual(x, 0)

    def __add__(self, o):
        o = Dual.lift(o)
        return Dual(self.a + o.a, self.b + o.b)
    __radd__ = __add__

    def __sub__(self, o):
        o = Dual.lift(o)
        return Dual(self.a - o.a, self.b - o.b)

    def __rsub__(self, o):
        return Dual.lift(o) - self

    def __mul__(self, o):
        o = Dual.lift(o)
        return Dual(self.a * o.a, self.a * o.b + self.b * o.a)
    __rmul__ = __mul__

    def __truediv__(self, o):
        o = Dual.lift(o)
        return Dual(self.a / o.a, (self.b * o.a - self.a * o.b) / (o.a * o.a))

    def __rtruediv__(self, o):
        return Dual.lift(o) / self

    def __neg__(self):
        return Dual(-self.a, -self.b)

    def __pos__(self):
        return self


# --------------------------------------------------------------------------
# one analysed network: implementation (channel A) + model reply

class Analysis:
    pass


def species_index_lists(net, species, reactions):
    rx = []
    for r in reactions:
        rx.append([[species.index(s) for s in r.reactants], [species.index(s) for s in r.products]])
    return rx


def analyse(desc, model, heating=None, cooling=None, net_kw=None):
    """build the network, run the generator (A) and the model on the same index-level input"""
    a = Analysis()
    a.desc = desc
    net = build_network(desc, **(net_kw or {}))
    a.net = net
    if heating is None and desc.get("heating"):
        # user-registered heating processes (the package ships none): reactant lists, with repeats; channel A only
        heating = [ThermalProcess(list(names), "1.0e-27 * sqrt(Temp)") for names in desc["heating"]]
    info, ode = impl_ode(net, heating=heating, cooling=cooling)
    a.info, a.ode = info, ode
    species = info.species
    a.species = species
    a.nspec = len(species)
    a.aliases = [s.alias for s in species]
    a.ysyms = [f"y[IDX_{s.alias}]" for s in species] + ["y[IDX_TGAS]"]
    a.rx = species_index_lists(net, species, [r for r in info.reactions])
    kw = net._species_kwargs
    mods = []
    for sname, expr in net.ode_modifier.items():
        sidx = species.index(Species(sname, **kw))
        fds = []
        for fact, dep in zip(expr["factors"], expr["reactants"]):
            fds.append([str(fact), [species.index(Species(d, **kw)) for d in dep]])
        mods.append([sidx, fds])
    a.mods = mods
    a.heat = [[species.index(s) for s in h.reactants] for h in info.heating]
    a.cool = [[species.index(s) for s in c.reactants] for c in info.cooling]
    a.model = None
    a.m_model_obj = model
    if model is not None:
        rep = model.call("ode.terms", a.nspec, a.rx, mods, a.heat, a.cool)
        if rep and rep[0] == "error":
            raise RuntimeError(f"model error: {rep}")
        a.model = rep
        a.m_neq = int(rep[0])
        a.m_rhs = [model_eqn(x, a.ysyms) for x in rep[1]]
        a.m_jac = [model_eqn(x, a.ysyms) for x in rep[2]]
        a.m_csr = rep[3]
        a.m_dense = rep[4]
        a.m_triples = rep[5]
        a.m_pattern = rep[6]
        # text of the species rows as Model.OdeText writes them (C01.rhs_text_is_mass_action)
        a.m_rowtext = model.call("ode.rowtext", a.nspec, a.rx, mods, a.heat, a.cool, a.aliases)
    return a


def nontrivial_sig(desc):
    return (tuple((tuple(r), tuple(p)) for r, p in desc["reactions"]), tuple(desc.get("required", [])),
            repr(desc.get("ode_modifier")), tuple(desc.get("cooling", [])))


# --------------------------------------------------------------------------
# a tiny C preprocessor emulation (conditionals only) for text scans of rendered code

def _pp_eval(cond: str, macros: dict) -> bool:
    def sub(m):
        name = m.group(0)
        if name in ("defined",):
            return name
        v = macro_int(macros, name)
        return str(v if v is not None else (1 if macros.get(name) not in (None,) and not re.fullmatch(r"\w+", macros.get(name, "")) and name in macros else 0))
    c = re.sub(r"defined\s*\(?\s*(\w+)\s*\)?", lambda m: "1" if m.group(1) in macros else "0", cond)
    # THERMAL-like macros defined by expressions
    for _ in range(3):
        c = re.sub(r"[A-Za-z_]\w*", lambda m: ("(" + macros[m.group(0)] + ")") if (m.group(0) in macros and not re.fullmatch(r"-?\d+", macros[m.group(0)])) else m.group(0), c)
    c = re.sub(r"[A-Za-z_]\w*", lambda m: macros.get(m.group(0), "0") if re.fullmatch(r"-?\d+", macros.get(m.group(0), "0")) else "0", c)
    c = c.replace("||", " or ").replace("&&", " and ").replace("!", " not ")
    try:
        return bool(eval(c, {"__builtins__": {}}, {}))
    except Exception:
        return True


def preprocess(src: str, macros: dict) -> str:
    """drop the inactive branches of #if/#ifdef/#else/#endif"""
    out = []
    stack = []  # (parent_active, taken, active)
    active = True
    for line in src.split("\n"):
        s = line.strip()
        if s.startswith("#if"):
            if s.startswith("#ifdef"):
                val = s.split()[1] in macros
            elif s.startswith("#ifndef"):
                val = s.split()[1] not in macros
            else:
                val = _pp_eval(s[3:].split("//")[0], macros)
            stack.append((active, val))
            active = active and val
        elif s.startswith("#elif"):
            parent, taken = stack[-1]
            val = (not taken) and _pp_eval(s[5:].split("//")[0], macros)
            stack[-1] = (parent, taken or val)
            active = parent and val
        elif s.startswith("#else"):
            parent, taken = stack[-1]
            active = parent and not taken
            stack[-1] = (parent, True)
        elif s.startswith("#endif"):
            parent, _ = stack.pop()
            active = parent
        elif active:
            out.append(line)
    return "\n".join(out)
