"""Run the naunet command line in a fresh interpreter (clean process-global state)."""
import os
import subprocess
from . import framework as fw


def naunet_cli(args, cwd, hashseed="0", timeout=600):
    env = fw.env_for_impl(hashseed)
    env["TQDM_DISABLE"] = "1"
    p = subprocess.run([fw.PY, "-c", "import sys; from naunet.console import main; sys.exit(main())", *args],
                       cwd=str(cwd), env=env, stdout=subprocess.PIPE, stderr=subprocess.PIPE, text=True,
                       timeout=timeout, stdin=subprocess.DEVNULL)
    return p.returncode, p.stdout, p.stderr
