"""Helpers around the implementation under test (imported from /repo)."""
import io
import logging
import os
import sys
import contextlib

os.environ.setdefault("TQDM_DISABLE", "1")
logging.disable(logging.CRITICAL)

import naunet  # noqa: E402
from naunet.species import Species  # noqa: E402
from naunet.network import Network  # noqa: E402
from naunet.reactions.reaction import Reaction  # noqa: E402
from naunet.reactiontype import ReactionType  # noqa: E402
from naunet import chemistrydata  # noqa: E402

logging.disable(logging.CRITICAL)


def reset_globals():
    """Bring the process-global state of naunet back to a fresh interpreter's."""
    Species.reset()
    chemistrydata.user_binding_energy.clear() if hasattr(chemistrydata, "user_binding_energy") else None
    chemistrydata.user_photon_yield.clear() if hasattr(chemistrydata, "user_photon_yield") else None


@contextlib.contextmanager
def quiet():
    """silence prints of the implementation (render prints every path)"""
    old = sys.stdout
    sys.stdout = io.StringIO()
    try:
        yield
    finally:
        sys.stdout = old


def fnum(x: float) -> str:
    """canonical text of a float for equality comparison (-0.0 == 0.0)"""
    x = float(x)
    return repr(x + 0.0)
