"""Translator: the gas-phase rateexpr() methods of /repo's reaction classes -> coq/gen/RateLive.v.

Fail-closed Python-ast walk.  For every class the method must have the shape
    <simple assignments>  ;  if/elif/.../else chain assigning `rate`  ;  <tail statements>
and every branch becomes one entry (test text, src_branch):
    SText t   - the branch is straight-line assignments of f-strings / " * ".join(...) to names and `rate`
                is translated to the atom-string term t over a, b, c (the three coefficients)
    SGrain    - rate = grain.rateexpr(self)
    SRaise e  - raise e(...)
    SOther s  - anything else: the unparsed source text of the branch (pinned textually, not translated)
Anything outside this shape aborts the translation (the build then reports a broken tie)."""
import ast
import sys
from pathlib import Path

COEF = {"a": "alpha", "b": "beta", "c": "gamma"}
CLS = {"a": "ka", "b": "kb", "c": "kc"}


class Untranslatable(Exception):
    pass


def qs(s):
    return '"' + s.replace('"', '""') + '"'


def tr(e, env):
    """expression -> Coq term of type txt"""
    if isinstance(e, ast.Constant) and isinstance(e.value, str):
        return "[]" if e.value == "" else f"(tx {qs(e.value)})"
    if isinstance(e, ast.JoinedStr):
        parts = []
        for v in e.values:
            if isinstance(v, ast.Constant):
                parts.append(f"tx {qs(v.value)}")
            elif isinstance(v, ast.FormattedValue) and v.conversion == -1 and v.format_spec is None and isinstance(v.value, ast.Name) \
                    and v.value.id in env:
                parts.append(env[v.value.id])
            else:
                raise Untranslatable(ast.unparse(v))
        return "(" + " ++ ".join(parts) + ")" if parts else "[]"
    if isinstance(e, ast.IfExp) and isinstance(e.test, ast.Name) and e.test.id in CLS:
        return f"(if truthy {CLS[e.test.id]} then {tr(e.body, env)} else {tr(e.orelse, env)})"
    if isinstance(e, ast.Call) and isinstance(e.func, ast.Attribute) and e.func.attr == "join" \
            and isinstance(e.func.value, ast.Constant) and e.func.value.value == " * " and len(e.args) == 1 \
            and isinstance(e.args[0], ast.GeneratorExp):
        g = e.args[0]
        if (len(g.generators) == 1 and isinstance(g.elt, ast.Name) and isinstance(g.generators[0].target, ast.Name)
                and g.elt.id == g.generators[0].target.id and isinstance(g.generators[0].iter, ast.List)
                and len(g.generators[0].ifs) == 1 and isinstance(g.generators[0].ifs[0], ast.Name)
                and g.generators[0].ifs[0].id == g.elt.id):
            return "(join_star (nonempty [" + "; ".join(tr(x, env) for x in g.generators[0].iter.elts) + "]))"
    raise Untranslatable(ast.unparse(e))


def branch(body, env):
    if len(body) == 1 and isinstance(body[0], ast.Raise) and isinstance(body[0].exc, ast.Call) and isinstance(body[0].exc.func, ast.Name):
        return f"SRaise {qs(body[0].exc.func.id)}"
    if len(body) == 1 and isinstance(body[0], ast.Assign) and ast.unparse(body[0]) == "rate = grain.rateexpr(self)":
        return "SGrain"
    try:
        loc = dict(env)
        for st in body:
            if not (isinstance(st, ast.Assign) and len(st.targets) == 1 and isinstance(st.targets[0], ast.Name)):
                raise Untranslatable(ast.unparse(st))
            loc[st.targets[0].id] = tr(st.value, loc)
        if "rate" not in loc:
            raise Untranslatable("no rate")
        return f"SText {loc['rate']}"
    except Untranslatable:
        return "SOther " + qs(" ; ".join(" ".join(l.split()) for st in body for l in ast.unparse(st).splitlines()))


def translate(path, cls, tag):
    tree = ast.parse(Path(path).read_text())
    fn = None
    for c in tree.body:
        if isinstance(c, ast.ClassDef) and c.name == cls:
            for f in c.body:
                if isinstance(f, ast.FunctionDef) and f.name == "rateexpr":
                    fn = f
    if fn is None:
        raise SystemExit(f"gen_ratesrc: {cls}.rateexpr not found in {path}")
    body = [s for s in fn.body if not (isinstance(s, ast.Expr) and isinstance(s.value, ast.Constant))]   # docstring
    k = next((i for i, s in enumerate(body) if isinstance(s, ast.If)), None)
    if k is None:
        raise SystemExit(f"gen_ratesrc: {cls}.rateexpr has no if-chain")
    env, binds = {}, []
    for st in body[:k]:
        if not (isinstance(st, ast.Assign) and len(st.targets) == 1 and isinstance(st.targets[0], ast.Name)):
            raise SystemExit(f"gen_ratesrc: {cls}.rateexpr: unexpected statement before the if-chain: {ast.unparse(st)}")
        n, v = st.targets[0].id, ast.unparse(st.value)
        binds.append((n, v))
        if n in COEF:
            if v != f"self.{COEF[n]}":
                raise SystemExit(f"gen_ratesrc: {cls}.rateexpr binds {n} to {v}")
            env[n] = n
        else:
            try:
                env[n] = tr(st.value, env)
            except Untranslatable:
                pass                       # an opaque local (a species object ...): usable only inside SOther branches
    if set(COEF) - set(env):
        raise SystemExit(f"gen_ratesrc: {cls}.rateexpr does not bind a, b, c")
    branches = []
    node = body[k]
    while True:
        branches.append((ast.unparse(node.test), branch(node.body, env)))
        if len(node.orelse) == 1 and isinstance(node.orelse[0], ast.If):
            node = node.orelse[0]
        else:
            branches.append(("else", branch(node.orelse, env) if node.orelse else "SOther \"\""))
            break
    tail = [ast.unparse(s) for s in body[k + 1:]]
    out = [f"(* {cls}.rateexpr *)",
           f"Definition {tag}_src_bind : list (string * string) := [" + "; ".join(f"({qs(n)}, {qs(v)})" for n, v in binds) + "].",
           f"Definition {tag}_src_branches : list (string * src_branch) :=\n  [ " +
           ";\n    ".join(f"({qs(t)}, {b})" for t, b in branches) + " ].",
           f"Definition {tag}_src_tail : list string := [" + "; ".join(qs(t) for t in tail) + "]."]
    return "\n".join(out)


SOURCES = [("naunet/reactions/kidareaction.py", "KIDAReaction", "kida"),
           ("naunet/reactions/umistreaction.py", "UMISTReaction", "umist"),
           ("naunet/reactions/leedsreaction.py", "LEEDSReaction", "leeds"),
           ("naunet/reactions/uclchemreaction.py", "UCLCHEMReaction", "uclchem"),
           ("naunet/reactions/reaction.py", "Reaction", "native")]


def main(repo, outdir, name="RateLive.v"):
    parts = ["(* GENERATED on every run by harness/gen_ratesrc.py from the rateexpr() methods of /repo - do not edit *)",
             "From Coq Require Import List String Ascii ZArith.",
             "From Naunet Require Import Lib.ListX Lib.PyStr Model.CExpr Model.RateGas Model.RateSrc.",
             "Import ListNotations.", "Open Scope string_scope.", "Open Scope list_scope.", "",
             "Section Src.", "Variables ka kb kc : cls.", "Let a := coef ka 0.", "Let b := coef kb 1.", "Let c := coef kc 2.", ""]
    for rel, cls, tag in SOURCES:
        parts.append(translate(Path(repo) / rel, cls, tag))
        parts.append("")
    parts.append("End Src.")
    Path(outdir, name).write_text("\n".join(parts) + "\n")


if __name__ == "__main__":
    main(sys.argv[1], sys.argv[2])
