import json,sys
pid, wt, focus = sys.argv[1], sys.argv[2], sys.argv[3]
for l in open('/verif/properties.jsonl'):
    d = json.loads(l)
    if d['id'] == pid:
        break
mech = "; ".join(f"{m['name']} ({m['where']})" for m in d.get('anchors', {}).get('mechanism', []))
print(f"""You are helping to evaluate a verification effort by producing a realistic *seeded defect*.

The project is the Python package `naunet` (an astrochemistry code generator: Python + Jinja2 templates that render C++). You have your own scratch git worktree of it at {wt} (work ONLY there; never touch /repo or /verif, and do not read anything under /verif). Run Python as `/venv/bin/python` with `PYTHONPATH={wt}` (cd into {wt} first). The test suite runs with:
  cd {wt} && PYTHONPATH={wt} TQDM_DISABLE=1 /venv/bin/python -m pytest -q -p no:cacheprovider --timeout=900 --deselect tests/console/commands/test_example.py::test_command_example --deselect tests/test_network.py::test_export_empty_network --deselect tests/test_network.py::test_export_network
(those three deselected tests fail on the unchanged tree too). There is no network access; SUNDIALS and Boost are not installed, g++ is. IMPORTANT: never use `git stash` (the stash is shared with other worktrees of this repository); to test without your change use `git diff > seeded.diff; git apply -R seeded.diff; ...; git apply seeded.diff`.

Here is a semantic property the package is supposed to satisfy:

  TITLE: {d['title']}
  STATEMENT: {d.get('text') or d.get('statement')}
  Code involved (hints): {mech}

Your task: make ONE small, realistic change to the package source or to a template under naunet/templates (the kind of slip a maintainer could make in a refactor or "optimisation") such that:
  1. the property above is now violated for SOME inputs, but
  2. the package still imports, the templates still render, and the whole existing test suite above still passes exactly as before, and
  3. the violation needs something specific to manifest -- NOT something ordinary use would expose at once (a change that breaks every input is useless).
Focus for this task: {focus}

Do not edit tests, do not add new files to the package, keep the diff small (a few lines).

Deliver, in {wt}:
  - `seeded.diff`: output of `git diff` for your change (make sure seeded.diff and demo_seeded.py themselves are not part of the diff),
  - `demo_seeded.py`: a standalone script, run as `cd <repo root> && PYTHONPATH=<repo root> /venv/bin/python demo_seeded.py` (it must import naunet from the current directory / PYTHONPATH, not from a hard-coded path; temporary files under tempfile.mkdtemp()), that checks the property on the specific input(s): exit code 0 and a short "holds" message when the property holds (unchanged tree), exit code 1 with a short explanation when it does not (your changed tree). Deterministic, under a minute. Useful API: `from naunet.network import Network; from naunet.reactions.reaction import Reaction; from naunet.reactiontype import ReactionType; from naunet.templateloader import TemplateLoader, NetworkInfo`; `TemplateLoader("cvode","dense","cpu").render("naunet", net, templates=["src/naunet_fex.cpp.j2", ...], path=tmp, save=True)` renders selected templates (solver "cvode" with methods dense / sparse, or solver "odeint" with method "rosenbrock4"); `tl._prepare_ode_content(NetworkInfo(net.elements, net.species, net.reactions, net.heating, net.cooling, net.grains, net.shielding), net._species_kwargs, net.rate_modifier, net.ode_modifier)` gives the generator's own lists (.fex, .jac.rhs/.rows/.cols/.vals, .rateeqns).
Verify yourself: the demo fails with your change and passes without it, and the test suite passes with your change. Leave the worktree WITH your change applied and the two files present.

In your final answer, state in 3-6 lines: what you changed, which inputs expose it (what it needs to manifest), and the outputs you observed (demo with/without the change, test suite result).""")
