import json,sys
pid, wt, focus = sys.argv[1], sys.argv[2], sys.argv[3]
for l in open('/verif/properties.jsonl'):
    d = json.loads(l)
    if d['id'] == pid:
        break
mech = "; ".join(f"{m['name']} ({m['where']})" for m in d.get('anchors', {}).get('mechanism', []))
print(f"""You are helping to evaluate a verification effort by producing a realistic *behaviour-preserving refactoring* (an "equivalent change").

The project is the Python package `naunet` (an astrochemistry code generator: Python + Jinja2 templates that render C++). You have your own scratch git worktree of it at {wt} (work ONLY there; never touch /repo or /verif, and do not read anything under /verif). Run Python as `/venv/bin/python` with `PYTHONPATH={wt}` (cd into {wt} first). The test suite runs with:
  cd {wt} && PYTHONPATH={wt} TQDM_DISABLE=1 /venv/bin/python -m pytest -q -p no:cacheprovider --timeout=900 --deselect tests/console/commands/test_example.py::test_command_example --deselect tests/test_network.py::test_export_empty_network --deselect tests/test_network.py::test_export_network
(those three deselected tests fail on the unchanged tree too). There is no network access. IMPORTANT: never use `git stash`.

Here is a semantic property the package is supposed to satisfy:

  TITLE: {d['title']}
  STATEMENT: {d.get('text') or d.get('statement')}
  Code involved (hints): {mech}

Your task: make ONE realistic refactoring of the code involved (20-60 changed lines is fine) that a maintainer could make for readability or speed and that changes NO behaviour relevant to the property: Python-side results (decoded values, network state, exceptions) stay the same, and the generated C++ stays semantically the same program - when you edit a Jinja template the rendered text MAY change in layout (whitespace, line breaks, comments, the name of a C++ local variable, the order of independent declarations or statements, an equivalent way of writing the same C++ expression or loop) as long as every generated function computes exactly the same values for all inputs. Typical examples: renaming local variables, extracting a helper function, replacing a loop by a comprehension or vice versa, reordering independent statements, replacing string concatenation by a join or an f-string by str.format with the same result, replacing `dict.get` chains by equivalent lookups, simplifying a condition to an equivalent one, caching something that is provably invalidated correctly. Focus for this task: {focus}

Be careful: it must really be equivalent for ALL inputs (including unusual ones: empty networks, species in no reaction, repeated species, zero or negative coefficients, other back-ends). Verify this yourself by rendering / decoding a few varied inputs with and without your change and comparing the outputs (byte for byte where nothing may change, otherwise by reasoning and by compiling / evaluating the generated code where you can) (use `git diff > seeded.diff; git apply -R seeded.diff; ...; git apply seeded.diff`), and run the test suite.

Deliver, in {wt}:
  - `seeded.diff`: output of `git diff` for your change,
  - `demo_seeded.py`: a standalone script, run as `cd <repo root> && PYTHONPATH=<repo root> /venv/bin/python demo_seeded.py`, that exercises the refactored code on several varied inputs and checks the property on them: it must exit 0 ("holds") both with and without your change.
Leave the worktree WITH your change applied and the two files present.

In your final answer, state in 3-6 lines: what you refactored, why it is behaviour-preserving, and what you compared.""")
