import json,sys
pid, wt = sys.argv[1], sys.argv[2]
hint = sys.argv[3] if len(sys.argv) > 3 else ""
for l in open('/verif/properties.jsonl'):
    d = json.loads(l)
    if d['id'] == pid:
        break
print(f"""You are helping to evaluate a verification effort by producing a realistic *seeded defect*.

The project is the Python package `naunet` (an astrochemistry code generator). You have your own scratch git worktree of it at {wt} (work ONLY there; never touch /repo or /verif, and do not read anything under /verif). Run Python as `/venv/bin/python` with `PYTHONPATH={wt}` (cd into {wt} first). The test suite runs with:
  cd {wt} && PYTHONPATH={wt} TQDM_DISABLE=1 /venv/bin/python -m pytest -q -p no:cacheprovider --timeout=900 --deselect tests/console/commands/test_example.py::test_command_example --deselect tests/test_network.py::test_export_empty_network --deselect tests/test_network.py::test_export_network
(those three deselected tests fail on the unchanged tree too). There is no network access.

Here is a semantic property the package is supposed to satisfy:

  TITLE: {d['title']}
  STATEMENT: {d.get('text') or d.get('statement')}
  Code involved (hints): {json.dumps(d.get('anchors', {}).get('mechanism', []))}

Your task: make ONE small, realistic change to the package source (the kind of slip a maintainer could make in a refactor or "optimisation": an off-by-one, a dropped case, a wrong variable, a changed order, a cache not invalidated, a condition that is slightly too narrow or too wide, ...) such that:
  1. the property above is now violated for SOME inputs, but
  2. the package still imports, and the whole existing test suite above still passes exactly as before, and
  3. the violation needs something specific to manifest -- an unusual but legitimate input, a particular multi-step sequence, a particular combination of options, two cooperating sites -- NOT something ordinary use would expose at once (a change that breaks every input is useless).
{hint}
Do not edit tests, do not add new files to the package, keep the diff small (a few lines, in files under naunet/). Templates (*.j2) under naunet/templates are fair game too.

Deliver, in {wt}:
  - `seeded.diff`: output of `git diff` for your change (run `git diff > seeded.diff` from {wt}; make sure seeded.diff and demo_seeded.py themselves are not part of the diff),
  - `demo_seeded.py`: a standalone script, run as `cd <repo root> && PYTHONPATH=<repo root> /venv/bin/python demo_seeded.py` (it must import naunet from the current directory / PYTHONPATH, not from a hard-coded path), that checks the property on the specific input(s): exit code 0 and a short "holds" message when the property holds (unchanged tree), exit code 1 with a short explanation of what went wrong when it does not (your changed tree). It must be deterministic and finish within a minute.
Verify yourself: the demo fails with your change and passes after `git stash` (then `git stash pop`), and the test suite passes with your change. Leave the worktree WITH your change applied and the two files present.

In your final answer, state in 3-6 lines: what you changed, which inputs expose it (what it needs to manifest), and the outputs you observed (demo with/without the change, test suite result).""")
