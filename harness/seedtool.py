"""Evaluate a seeded change:  seedtool.py <seed-id> <property> <worktree-or-dir> "<what it needs to manifest>"
Copies patch + demo into /verif/seeded/<seed-id>/, applies the patch to /repo, runs the demo and the
property's quick check, undoes the patch, runs the demo again, writes meta.json."""
import json
import os
import shutil
import subprocess
import sys
from pathlib import Path

VERIF = Path(__file__).resolve().parent.parent


def sh(cmd, cwd=None, env=None, timeout=3600):
    p = subprocess.run(cmd, shell=True, cwd=cwd, env=env, stdout=subprocess.PIPE, stderr=subprocess.STDOUT, text=True, timeout=timeout)
    return p.returncode, p.stdout


def main():
    sid, prop, src, needs = sys.argv[1:5]
    extra_checks = sys.argv[5:]            # other properties' checks to run as well
    d = VERIF / "seeded" / sid
    d.mkdir(parents=True, exist_ok=True)
    src = Path(src)
    if (src / "seeded.diff").exists():
        shutil.copy(src / "seeded.diff", d / "patch.diff")
    if (src / "demo_seeded.py").exists():
        shutil.copy(src / "demo_seeded.py", d / "demo.py")
    assert (d / "patch.diff").exists(), "no patch"
    env = dict(os.environ, PYTHONPATH="/repo", TQDM_DISABLE="1")
    rc, out = sh("git -C /repo status --short")
    assert out.strip() == "", f"/repo not clean: {out}"
    meta = {"seed": sid, "property": prop, "needs": needs, "ran": []}
    try:
        rc, out = sh(f"git -C /repo apply {d / 'patch.diff'}")
        assert rc == 0, out
        rc_demo, out_demo = sh(f"/venv/bin/python {d / 'demo.py'}", cwd="/repo", env=env)
        meta["demo_with_change"] = {"exit": rc_demo, "tail": out_demo[-400:]}
        results = {}
        for p in [prop] + extra_checks:
            rc_chk, out_chk = sh(f"./check {p} --tier quick", cwd=str(VERIF))
            lines = [l for l in out_chk.splitlines() if l.startswith("VIOLATION") or l.startswith(p) or l.startswith("KNOWN")]
            results[p] = {"exit": rc_chk, "lines": lines[:6]}
            # keep one replay as illustration
            for l in lines:
                if l.startswith("VIOLATION") and "replay=" in l:
                    rp = l.split("replay=")[1].split()[0]
                    if os.path.exists(rp) and p == prop:
                        shutil.copy(rp, d / "replay_example.json")
                    break
        meta["checks_with_change"] = results
        tests_rc, tests_out = sh("/venv/bin/python -m pytest -q -p no:cacheprovider --timeout=900 -q "
                                 "--deselect tests/console/commands/test_example.py::test_command_example "
                                 "--deselect tests/test_network.py::test_export_empty_network "
                                 "--deselect tests/test_network.py::test_export_network 2>&1 | tail -3", cwd="/repo", env=env)
        meta["tests_with_change"] = tests_out.strip().splitlines()[-1:] 
    finally:
        sh("git -C /repo checkout -- . && git -C /repo clean -fdq -- naunet tests")
    # the checks wrote their evidence files with the patch applied: rewrite them on the unchanged tree
    for p in [prop] + extra_checks:
        rc0, _ = sh(f"./check {p} --tier quick", cwd=str(VERIF))
        meta.setdefault("check_on_unchanged_tree", {})[p] = rc0
    rc_demo0, out_demo0 = sh(f"/venv/bin/python {d / 'demo.py'}", cwd="/repo", env=env)
    meta["demo_without_change"] = {"exit": rc_demo0, "tail": out_demo0[-200:]}
    meta["detected"] = meta["checks_with_change"][prop]["exit"] != 0
    meta["ran"] = [f"git -C /repo apply seeded/{sid}/patch.diff", f"python seeded/{sid}/demo.py (cwd=/repo)",
                   f"./check {prop} --tier quick", "pytest (baseline selection)", "git -C /repo checkout -- .", "demo again"]
    (d / "meta.json").write_text(json.dumps(meta, indent=1))
    print(json.dumps({k: meta[k] for k in ("seed", "detected", "demo_with_change", "demo_without_change", "checks_with_change", "tests_with_change")}, indent=1)[:3000])


if __name__ == "__main__":
    main()
