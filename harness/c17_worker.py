"""Worker for C17 (runs in a fresh interpreter under a given PYTHONHASHSEED): executes a list of
steps in ONE process and prints one JSON line per step.
steps: {"op": "render", "desc": {...}, "tag": str} | {"op": "build", "desc": {...}} | {"op": "tables"}"""
import hashlib
import io
import json
import logging
import os
import re
import sys
import tempfile
import shutil
from pathlib import Path

os.environ.setdefault("TQDM_DISABLE", "1")
logging.disable(logging.CRITICAL)
from naunet.species import Species
from naunet.network import Network
from naunet.reactions.reaction import Reaction
from naunet.reactiontype import ReactionType
from naunet import chemistrydata
from naunet.templateloader import TemplateLoader

MASK = re.compile(rb"(\d{2}/\d{2}/\d{4}|\d{2}\.\d{2}\b)")


def make(desc):
    kw = {}
    lists = {}
    if desc.get("elements") or desc.get("pseudo"):
        kw["elements"] = list(desc.get("elements", []))
        kw["pseudo_elements"] = list(desc.get("pseudo", []))
        lists = dict(kw)
    for key in ("cooling", "heating", "shielding"):
        if desc.get(key):
            kw[key] = dict(desc[key]) if key == "shielding" else list(desc[key])
    if desc.get("binding"):
        chemistrydata.update_binding_energy(dict(desc["binding"]))
    if desc.get("file"):
        net = Network(filelist=desc["file"], fileformats=desc["format"], grain_model=desc.get("grain_model", ""),
                      required_species=list(desc.get("required", [])), **kw)
    elif desc.get("network_first"):
        # the documented API flow: the network is created with its own lists and required species, reactions are added afterwards;
        # nothing is installed by hand - the network itself must parse every name under its own lists
        net = Network(required_species=list(desc.get("required", [])), grain_model=desc.get("grain_model", ""), **kw)
        for i, (r, p) in enumerate(desc["reactions"]):
            net.add_reaction(Reaction(list(r), list(p), -1.0, -1.0, 1e-10, 0.5, 10.0, ReactionType.GAS_TWOBODY, idxfromfile=i))
    else:
        # as the render command does: the description's own lists are installed before any species is parsed
        if lists:
            Species.set_known_elements(list(lists["elements"]))
            Species.set_known_pseudoelements(list(lists["pseudo_elements"]))
        rl = [Reaction(list(r), list(p), -1.0, -1.0, 1e-10, 0.5, 10.0, ReactionType.GAS_TWOBODY, idxfromfile=i) for i, (r, p) in enumerate(desc["reactions"])]
        net = Network(reactions=rl, required_species=list(desc.get("required", [])), grain_model=desc.get("grain_model", ""), **kw)
    if desc.get("edit"):
        net.remove_reaction(0)
    return net


def tree_hash(root):
    h = hashlib.sha256()
    for sub in ("include", "src", "python"):
        for p in sorted((root / sub).rglob("*")):
            if p.is_file():
                h.update(str(p.relative_to(root)).encode())
                h.update(MASK.sub(b"<date>", p.read_bytes()))
    return h.hexdigest()


def main():
    steps = json.load(sys.stdin)
    for st in steps:
        out = {"op": st["op"], "tag": st.get("tag")}
        try:
            if st["op"] == "tables":
                out["elements"] = list(Species.known_elements())
                out["pseudo"] = list(Species.known_pseudoelements())
                out["binding"] = [[k, repr(float(v))] for k, v in chemistrydata.user_binding_energy.items()]
            else:
                net = make(st["desc"])
                if st["op"] == "render":
                    d = Path(tempfile.mkdtemp(dir=st["scratch"]))
                    old = sys.stdout
                    sys.stdout = io.StringIO()
                    try:
                        TemplateLoader(st["desc"].get("solver", "cvode"), st["desc"].get("method", "dense"), "cpu").render("naunet", net, path=d, save=True)
                    finally:
                        sys.stdout = old
                    out["sha"] = tree_hash(d)
                    out["species"] = [s.name for s in net.species]
                    shutil.rmtree(d, ignore_errors=True)
        except Exception as e:
            out["error"] = f"{type(e).__name__}: {e}"[:300]
        print(json.dumps(out))
        sys.stdout.flush()


if __name__ == "__main__":
    main()
