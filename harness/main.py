"""./check <property> [--tier quick|thorough] | --replay <file> | --build"""
import argparse
import importlib
import json
import os
import sys
import traceback

from . import framework as fw


def main():
    ap = argparse.ArgumentParser()
    ap.add_argument("prop", nargs="?")
    ap.add_argument("--tier", default=os.environ.get("VERIF_TIER", "quick"))
    ap.add_argument("--replay")
    ap.add_argument("--build", action="store_true")
    a = ap.parse_args()
    raw = os.environ.get("VERIF_SEED", "0") or "0"
    try:
        seed = int(raw)
    except ValueError:                      # any text is a seed
        seed = int.from_bytes(raw.encode()[:8], "big")
    if a.build:
        info = fw.build(verbose=False)
        print(json.dumps({k: v for k, v in info.items() if k != "log"}))
        if not info["ok"] or info["failed"]:
            print(info["log"][-4000:])
            sys.exit(1)
        gate = fw.gate_scan()
        if gate:
            print("gate:", gate)
            sys.exit(1)
        sys.exit(0)
    if a.replay:
        rp = json.load(open(a.replay))
        prop = rp["property"]
        mod = importlib.import_module(f"harness.props.{prop.lower()}")
        info = fw.build()
        sys.exit(mod.replay(rp, info))
    prop = a.prop.upper()
    tier = "thorough" if a.tier.startswith("t") else "quick"
    mod = importlib.import_module(f"harness.props.{prop.lower()}")
    info = fw.build()
    res = fw.Result(prop, tier, seed)
    proof = fw.proof_status(prop, info)
    if not info["ok"]:
        # the model itself does not build: nothing can be run against it
        res.violation("proof", "model/runner build failed: " + fw._first_error(info["log"]), {})
        res.notes.append("model build failed; implementation-side oracle still run")
    try:
        mod.run(res, info)
    except Exception:
        tb = traceback.format_exc()
        res.violation("correspondence", "check crashed: " + tb[-2000:], {})
    sys.exit(fw.finish(res, proof, trusted=fw.BASE_TRUST + getattr(mod, "TRUST", [])))


if __name__ == "__main__":
    main()
