"""Evaluate a behaviour-preserving refactoring:  equivtool.py <id> <worktree-or-dir> <prop> [<prop> ...]
Copies patch + demo into /verif/equivalent/<id>/, applies the patch to /repo, runs the demo (must hold) and the quick checks of
the given properties, undoes the patch, writes meta.json.  Expected of every check: exit 0, or a violation that ends with
`no-failing-input-found` (a proof obligation / correspondence that no longer checks).  A violation with a failing input on
behaviour-preserving code is a false alarm of the check."""
import json
import os
import shutil
import subprocess
import sys
from pathlib import Path

VERIF = Path(__file__).resolve().parent.parent


def sh(cmd, cwd=None, env=None, timeout=3600):
    p = subprocess.run(cmd, shell=True, cwd=cwd, env=env, stdout=subprocess.PIPE, stderr=subprocess.STDOUT, text=True, timeout=timeout)
    return p.returncode, p.stdout


def main():
    eid, src = sys.argv[1:3]
    props = sys.argv[3:]
    d = VERIF / "equivalent" / eid
    d.mkdir(parents=True, exist_ok=True)
    src = Path(src)
    if (src / "seeded.diff").exists():
        shutil.copy(src / "seeded.diff", d / "patch.diff")
    if (src / "demo_seeded.py").exists():
        shutil.copy(src / "demo_seeded.py", d / "demo.py")
    env = dict(os.environ, PYTHONPATH="/repo", TQDM_DISABLE="1")
    rc, out = sh("git -C /repo status --short")
    assert out.strip() == "", f"/repo not clean: {out}"
    meta = {"id": eid, "properties": props, "checks_with_change": {}}
    try:
        rc, out = sh(f"git -C /repo apply {d / 'patch.diff'}")
        assert rc == 0, out
        rc_demo, out_demo = sh(f"/venv/bin/python {d / 'demo.py'}", cwd="/repo", env=env)
        meta["demo_with_change"] = {"exit": rc_demo, "tail": out_demo[-300:]}
        for p in props:
            rc, out = sh(f"./check {p} --tier quick", cwd=str(VERIF))
            lines = [l for l in out.splitlines() if l.startswith(("VIOLATION", p + " tier="))]
            with_input = [l for l in lines if l.startswith("VIOLATION") and not l.rstrip().endswith("no-failing-input-found")]
            what = []
            for l in with_input[:3]:
                rp = l.split("replay=")[1].split()[0]
                try:
                    what.append(json.load(open(rp)).get("what", "")[:400])
                except Exception:
                    pass
            meta["checks_with_change"][p] = {"exit": rc, "lines": lines[-6:], "violations_with_failing_input": len(with_input), "what": what}
        rc, out = sh("cd /repo && PYTHONPATH=/repo TQDM_DISABLE=1 /venv/bin/python -m pytest -q -p no:cacheprovider --timeout=900 "
                     "--deselect tests/console/commands/test_example.py::test_command_example --deselect tests/test_network.py::test_export_empty_network "
                     "--deselect tests/test_network.py::test_export_network 2>&1 | tail -1")
        meta["tests_with_change"] = out.strip()[-120:]
    finally:
        sh("git -C /repo checkout -- .")
    for p in props:                       # evidence of the unchanged tree
        sh(f"./check {p} --tier quick", cwd=str(VERIF))
    meta["false_alarm"] = any(v["violations_with_failing_input"] for v in meta["checks_with_change"].values())
    (d / "meta.json").write_text(json.dumps(meta, indent=1))
    print(json.dumps({"id": eid, "false_alarm": meta["false_alarm"], "demo": meta["demo_with_change"]["exit"], "tests": meta.get("tests_with_change"),
                      "checks": {p: (v["exit"], v["violations_with_failing_input"], v["lines"][-1:]) for p, v in meta["checks_with_change"].items()}}, indent=1)[:2500])


if __name__ == "__main__":
    main()
