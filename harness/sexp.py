"""S-expression wire format shared with coq/theories/Lib/Sexp.v."""

_SPECIAL = set(' \t\n\r()"\\')


def dumps(x) -> str:
    if isinstance(x, bool):
        return "1" if x else "0"
    if isinstance(x, int):
        return str(x)
    if isinstance(x, str):
        if x == "":
            return '""'
        if any(c in _SPECIAL for c in x):
            return '"' + x.replace("\\", "\\\\").replace('"', '\\"').replace("\n", "\\n").replace("\t", "\\t").replace("\r", "\\r") + '"'
        return x
    if isinstance(x, (list, tuple)):
        return "(" + " ".join(dumps(e) for e in x) + ")"
    raise TypeError(f"cannot encode {x!r}")


def loads(s: str):
    pos = 0
    n = len(s)
    stack = []
    cur = None
    result = None
    while pos < n:
        c = s[pos]
        if c in " \t\r\n":
            pos += 1
        elif c == "(":
            stack.append(cur)
            cur = []
            pos += 1
        elif c == ")":
            done = cur
            cur = stack.pop()
            if cur is None:
                result = done
            else:
                cur.append(done)
            pos += 1
        elif c == '"':
            pos += 1
            buf = []
            while s[pos] != '"':
                if s[pos] == "\\":
                    pos += 1
                    e = s[pos]
                    buf.append({"n": "\n", "t": "\t", "r": "\r"}.get(e, e))
                else:
                    buf.append(s[pos])
                pos += 1
            pos += 1
            atom = "".join(buf)
            if cur is None:
                result = atom
            else:
                cur.append(atom)
        else:
            st = pos
            while pos < n and s[pos] not in _SPECIAL:
                pos += 1
            atom = s[st:pos]
            if cur is None:
                result = atom
            else:
                cur.append(atom)
    return result


def ints(x):
    return [int(e) for e in x]
