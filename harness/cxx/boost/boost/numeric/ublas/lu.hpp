#include <boost/numeric/odeint.hpp>
