// Minimal stand-in for the Boost names used by the generated Odeint sources (modelled API,
// channel C only).  integrate_adaptive calls the observer a scripted number of times.
#ifndef BOOST_SHIM_ODEINT_HPP
#define BOOST_SHIM_ODEINT_HPP
#include <cmath>
#include <cstddef>
#include <cstdio>
#include <algorithm>
#include <stdexcept>
#include <utility>
#include <vector>
namespace boost { namespace numeric { namespace ublas {
template <class T> class vector {
    std::vector<T> d_;
   public:
    vector() {}
    explicit vector(std::size_t n) : d_(n) {}
    T &operator[](std::size_t i) { return d_.at(i); }
    const T &operator[](std::size_t i) const { return d_.at(i); }
    T &operator()(std::size_t i) { return d_.at(i); }
    const T &operator()(std::size_t i) const { return d_.at(i); }
    std::size_t size() const { return d_.size(); }
};
template <class T> class matrix {
    std::size_t r_, c_;
    std::vector<T> d_;
   public:
    matrix() : r_(0), c_(0) {}
    matrix(std::size_t r, std::size_t c) : r_(r), c_(c), d_(r * c) {}
    T &operator()(std::size_t i, std::size_t j) { return d_.at(i * c_ + j); }
    const T &operator()(std::size_t i, std::size_t j) const { return d_.at(i * c_ + j); }
    std::size_t size1() const { return r_; }
    std::size_t size2() const { return c_; }
};
template <class T> matrix<T> zero_matrix(std::size_t r, std::size_t c) { return matrix<T>(r, c); }
// uBLAS's documented LU: lu_factorize(m, pm) factorises in place with partial pivoting (row of largest modulus in the
// column) and records the row interchanges in pm; lu_substitute(m, pm, v) applies the interchanges to v and then
// solves with the unit-lower and the upper factor; the two-argument lu_substitute(m, v) applies NO interchange.
template <class T> class permutation_matrix {
    std::vector<T> p_;
   public:
    explicit permutation_matrix(std::size_t n) : p_(n) { for (std::size_t i = 0; i < n; i++) p_[i] = (T)i; }
    T &operator()(std::size_t i) { return p_.at(i); }
    const T &operator()(std::size_t i) const { return p_.at(i); }
    std::size_t size() const { return p_.size(); }
};
template <class M, class P> int lu_factorize(M &m, P &pm) {
    std::size_t n = m.size1();
    int singular = 0;
    for (std::size_t i = 0; i < n; i++) {
        std::size_t piv = i;
        for (std::size_t r = i + 1; r < n; r++) if (std::fabs(m(r, i)) > std::fabs(m(piv, i))) piv = r;
        if (m(piv, i) != 0.0) {
            if (piv != i) {
                pm(i) = piv;
                for (std::size_t c = 0; c < n; c++) std::swap(m(i, c), m(piv, c));
            }
            for (std::size_t r = i + 1; r < n; r++) m(r, i) /= m(i, i);
        } else if (singular == 0) {
            singular = (int)i + 1;
        }
        for (std::size_t r = i + 1; r < n; r++)
            for (std::size_t c = i + 1; c < n; c++) m(r, c) -= m(r, i) * m(i, c);
    }
    return singular;
}
template <class M, class V> void lu_substitute(const M &m, V &v) {
    std::size_t n = m.size1();
    for (std::size_t i = 0; i < n; i++)
        for (std::size_t k = 0; k < i; k++) v[i] -= m(i, k) * v[k];
    for (std::size_t ii = n; ii-- > 0;) {
        for (std::size_t k = ii + 1; k < n; k++) v[ii] -= m(ii, k) * v[k];
        v[ii] /= m(ii, ii);
    }
}
template <class M, class P, class V> void lu_substitute(const M &m, const P &pm, V &v) {
    for (std::size_t i = 0; i < pm.size(); i++) if (pm(i) != i) std::swap(v[i], v[pm(i)]);
    lu_substitute(m, v);
}
}  // namespace ublas
namespace odeint {
extern long shim_observer_calls;   // scripted: how many times the observer is called
template <class T> struct rosenbrock4 {};
template <class S> struct controlled_stepper {};
template <class S> controlled_stepper<S> make_controlled(double, double) { return controlled_stepper<S>(); }
template <class Stepper, class System, class State, class Obs>
std::size_t integrate_adaptive(Stepper, System, State &y, double t0, double t1, double, Obs obs) {
    long n = shim_observer_calls;
    for (long k = 0; k < n; k++) obs(y, t0 + (t1 - t0) * (n > 1 ? (double)k / (double)(n - 1) : 1.0));
    for (std::size_t i = 0; i < y.size(); i++) y[i] += (t1 - t0);
    return n > 0 ? (std::size_t)(n - 1) : 0;
}
}  // namespace odeint
}}  // namespace boost::numeric
#endif
