// Minimal stand-in for the Boost names used by the generated Odeint sources (modelled API,
// channel C only).  integrate_adaptive calls the observer a scripted number of times.
#ifndef BOOST_SHIM_ODEINT_HPP
#define BOOST_SHIM_ODEINT_HPP
#include <cmath>
#include <cstddef>
#include <cstdio>
#include <stdexcept>
#include <utility>
#include <vector>
namespace boost { namespace numeric { namespace ublas {
template <class T> class vector {
    std::vector<T> d_;
   public:
    vector() {}
    explicit vector(std::size_t n) : d_(n) {}
    T &operator[](std::size_t i) { return d_.at(i); }
    const T &operator[](std::size_t i) const { return d_.at(i); }
    T &operator()(std::size_t i) { return d_.at(i); }
    const T &operator()(std::size_t i) const { return d_.at(i); }
    std::size_t size() const { return d_.size(); }
};
template <class T> class matrix {
    std::size_t r_, c_;
    std::vector<T> d_;
   public:
    matrix() : r_(0), c_(0) {}
    matrix(std::size_t r, std::size_t c) : r_(r), c_(c), d_(r * c) {}
    T &operator()(std::size_t i, std::size_t j) { return d_.at(i * c_ + j); }
    const T &operator()(std::size_t i, std::size_t j) const { return d_.at(i * c_ + j); }
    std::size_t size1() const { return r_; }
    std::size_t size2() const { return c_; }
};
template <class T> matrix<T> zero_matrix(std::size_t r, std::size_t c) { return matrix<T>(r, c); }
template <class T> class permutation_matrix { public: explicit permutation_matrix(std::size_t) {} };
template <class M, class P> int lu_factorize(M &, P &) { return 0; }
template <class P, class M, class V> void lu_substitute(const M &, const P &, V &) {}
}  // namespace ublas
namespace odeint {
extern long shim_observer_calls;   // scripted: how many times the observer is called
template <class T> struct rosenbrock4 {};
template <class S> struct controlled_stepper {};
template <class S> controlled_stepper<S> make_controlled(double, double) { return controlled_stepper<S>(); }
template <class Stepper, class System, class State, class Obs>
std::size_t integrate_adaptive(Stepper, System, State &y, double t0, double t1, double, Obs obs) {
    long n = shim_observer_calls;
    for (long k = 0; k < n; k++) obs(y, t0 + (t1 - t0) * (n > 1 ? (double)k / (double)(n - 1) : 1.0));
    for (std::size_t i = 0; i < y.size(); i++) y[i] += (t1 - t0);
    return n > 0 ? (std::size_t)(n - 1) : 0;
}
}  // namespace odeint
}}  // namespace boost::numeric
#endif
