// Stand-in for the CUDA runtime, nvector_cuda and sunmatrix_cusparse names used by the generated cuSPARSE sources, so that
// the rendered kernels can be compiled by g++ and run sequentially on the host (one thread, one block: the grid-stride loop of a
// kernel then visits every system in turn).  The harness rewrites `Kernel<<<g, b, ...>>>(args)` to `SHIM_LAUNCH(Kernel, g, b, args)` in a copy
// of the rendered file; nothing else of the file is touched.  Modelled API (not CUDA): in the trusted base of channel C only.
#ifndef CUDA_SHIM_H
#define CUDA_SHIM_H
#include <algorithm>
#include <cstdlib>
#include <cstring>
using std::max;   // CUDA declares min / max in the global namespace
using std::min;
#include "sundials_shim.h"
#ifndef __global__
#define __global__
#endif
#ifndef __device__
#define __device__
#endif
#ifndef __host__
#define __host__
#endif
#ifndef __constant__
#define __constant__
#endif
struct _Dim3Shim { unsigned x, y, z; };
static _Dim3Shim blockIdx{0, 0, 0}, threadIdx{0, 0, 0}, blockDim{1, 1, 1}, gridDim{1, 1, 1};
typedef int cudaStream_t;
typedef int cudaError_t;
enum { cudaSuccess = 0 };
enum { cudaMemcpyHostToDevice = 1, cudaMemcpyDeviceToHost = 2 };
inline cudaError_t cudaMalloc(void **p, size_t n) { *p = malloc(n ? n : 1); return cudaSuccess; }
inline cudaError_t cudaMemcpyAsync(void *d, const void *s, size_t n, int, cudaStream_t) { memcpy(d, s, n); return cudaSuccess; }
inline cudaError_t cudaMemcpy(void *d, const void *s, size_t n, int) { memcpy(d, s, n); return cudaSuccess; }
inline cudaError_t cudaFree(void *p) { free(p); return cudaSuccess; }
inline cudaError_t cudaGetLastError() { return cudaSuccess; }
inline cudaError_t cudaDeviceSynchronize() { return cudaSuccess; }
inline const char *cudaGetErrorName(cudaError_t) { return "cudaShim"; }
// launch geometry of the host run: one block of SHIM_THREADS threads (environment variable, default 1).  With 1 thread the
// grid-stride loop of a kernel visits every system in turn; with as many threads as systems every thread serves one system (the
// geometry of the package's own execution policy).  The threads run one after the other.
inline size_t _shim_threads() { const char *e = getenv("SHIM_THREADS"); long t = e ? atol(e) : 1; return t > 0 ? (size_t)t : 1; }
struct _ExecPolicyShim {
    cudaStream_t s = 0;
    cudaStream_t *stream() { return &s; }
    size_t blockSize() { return _shim_threads(); }
    size_t gridSize(size_t) { return 1; }
};
// `Kernel<<<grid, block, shmem, stream>>>(args)` is rewritten by the harness to `SHIM_LAUNCH(Kernel, grid, block, args)`
#define SHIM_LAUNCH(K, G, B, ...)                                                                   \
    do {                                                                                            \
        gridDim.x = (unsigned)(G); blockDim.x = (unsigned)(B);                                      \
        for (blockIdx.x = 0; blockIdx.x < gridDim.x; blockIdx.x++)                                  \
            for (threadIdx.x = 0; threadIdx.x < blockDim.x; threadIdx.x++) K(__VA_ARGS__);          \
        blockIdx.x = 0; threadIdx.x = 0;                                                            \
    } while (0)
struct _N_VectorContent_CudaShim { _ExecPolicyShim *stream_exec_policy; };
typedef _N_VectorContent_CudaShim *N_VectorContent_Cuda;
inline realtype *N_VGetDeviceArrayPointer_Cuda(N_Vector v) { return v->data; }
inline realtype *N_VGetHostArrayPointer_Cuda(N_Vector v) { return v->data; }
inline void N_VSpace_Cuda(N_Vector v, sunindextype *lrw, sunindextype *liw) { *lrw = v->len; *liw = 0; }
inline realtype *SUNMatrix_cuSparse_Data(SUNMatrix A) { return A->data; }
inline int SUNMatrix_cuSparse_NumBlocks(SUNMatrix A) { return (int)A->nblocks; }
inline int SUNMatrix_cuSparse_CopyToDevice(SUNMatrix A, realtype *data, int *rowptrs, int *colvals) {
    // one block's pattern, shared by all blocks: rows + 1 pointers, nnz column indices
    if (rowptrs) for (sunindextype i = 0; i <= A->rows; i++) A->rowptrs[i] = rowptrs[i];
    if (colvals) for (sunindextype i = 0; i < A->nnz; i++) A->colvals[i] = colvals[i];
    if (data) for (sunindextype i = 0; i < A->nnz * A->nblocks; i++) A->data[i] = data[i];
    return 0;
}
// ---- names used by the cuSPARSE variant of naunet.cpp (C19): streams, handles, execution policies, device vectors, the batched
// matrix and linear solver.  All of them are inert containers: the integrator is the scripted mock CVode of mock_cvode.cpp.
typedef int cusparseHandle_t;
typedef int cusolverSpHandle_t;
inline int cusparseCreate(cusparseHandle_t *h) { *h = 1; return 0; }
inline int cusparseDestroy(cusparseHandle_t) { return 0; }
inline int cusparseSetStream(cusparseHandle_t, cudaStream_t) { return 0; }
inline int cusolverSpCreate(cusolverSpHandle_t *h) { *h = 1; return 0; }
inline int cusolverSpDestroy(cusolverSpHandle_t) { return 0; }
inline int cusolverSpSetStream(cusolverSpHandle_t, cudaStream_t) { return 0; }
inline cudaError_t cudaStreamCreate(cudaStream_t *s) { *s = 0; return cudaSuccess; }
inline cudaError_t cudaStreamDestroy(cudaStream_t) { return cudaSuccess; }
inline cudaError_t cudaMallocHost(void **p, size_t n) { *p = calloc(n ? n : 1, 1); return cudaSuccess; }
inline cudaError_t cudaFreeHost(void *p) { free(p); return cudaSuccess; }
struct SUNCudaExecPolicy : _ExecPolicyShim {};
struct SUNCudaThreadDirectExecPolicy : SUNCudaExecPolicy { SUNCudaThreadDirectExecPolicy(size_t, cudaStream_t = 0) {} };
struct SUNCudaBlockReduceExecPolicy : SUNCudaExecPolicy { SUNCudaBlockReduceExecPolicy(size_t, size_t = 0, cudaStream_t = 0) {} };
inline N_Vector N_VNew_Cuda(sunindextype n, SUNContext) { return new _N_VectorShim{new realtype[n > 0 ? n : 1](), n, true, new _N_VectorContent_CudaShim{new _ExecPolicyShim}}; }
inline N_Vector N_VNewEmpty_Cuda(SUNContext) { return new _N_VectorShim{nullptr, 0, false, new _N_VectorContent_CudaShim{new _ExecPolicyShim}}; }
inline int N_VSetKernelExecPolicy_Cuda(N_Vector, SUNCudaExecPolicy *, SUNCudaExecPolicy *) { return 0; }
// host and device memory are one and the same here: setting the host pointer makes the vector work on the caller's array
inline void N_VSetHostArrayPointer_Cuda(realtype *h, N_Vector v) { if (v->own) { delete[] v->data; v->own = false; } v->data = h; }
inline void N_VFreeEmpty(N_Vector v) { delete v; }
inline void N_VCopyToDevice_Cuda(N_Vector) {}
inline void N_VCopyFromDevice_Cuda(N_Vector) {}
inline SUNMatrix SUNMatrix_cuSparse_NewBlockCSR(int nblocks, int rows, int cols, int nnz, cusparseHandle_t, SUNContext) {
    return new _SUNMatrixShim{new realtype[(size_t)nblocks * nnz + 1](), rows, cols, nnz, new sunindextype[rows + 2](), new sunindextype[nnz + 1](), nblocks}; }
inline int SUNMatrix_cuSparse_SetFixedPattern(SUNMatrix, int) { return 0; }
inline SUNLinearSolver SUNLinSol_cuSolverSp_batchQR(N_Vector, SUNMatrix, cusolverSpHandle_t, SUNContext) { return (void *)1; }
inline void SUNLinSol_cuSolverSp_batchQR_GetDeviceSpace(SUNLinearSolver, size_t *a, size_t *b) { *a = 0; *b = 0; }
#endif
