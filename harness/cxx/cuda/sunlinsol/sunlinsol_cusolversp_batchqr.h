#include "cuda_shim.h"
