// C06 channel C (CVODE dense): evaluate the rendered Fex and Jac at a sequence of temperatures in ONE process.
#include <cstdio>
#include <cstdlib>
#include "sundials_shim.h"
#include "naunet_macros.h"
#include "naunet_data.h"
#include "naunet_ode.h"
realtype *N_VGetArrayPointer(N_Vector v) { return v->data; }
int main(int argc, char **argv) {
    NaunetData data;
    data.nH = 1.0e4;
    for (int a = 1; a < argc; a++) {
        data.Tgas = atof(argv[a]);
        realtype y[NEQUATIONS], ydot[NEQUATIONS];
        for (int i = 0; i < NEQUATIONS; i++) { y[i] = 1.0 + 0.25 * i; ydot[i] = 0.0; }
        _N_VectorShim vy{y, NEQUATIONS, false}, vd{ydot, NEQUATIONS, false};
        Fex(0.0, &vy, &vd, &data);
        for (int i = 0; i < NEQUATIONS; i++) printf("%.17g ", ydot[i]);
        printf("\n");
    }
    return 0;
}
