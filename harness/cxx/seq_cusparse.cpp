// C06 channel C (cuSPARSE, compiled for the host): the rendered FexKernel with the rendered __device__ EvalRates, run ONCE on a batch
// whose systems have the temperatures given in argv[1..] (one system per temperature, same abundances); prints one line of
// derivatives per system.  A system outside a reaction's window must not see the coefficient another system of the batch got.
#include <cstdio>
#include <cstdlib>
#include <vector>
#include "cuda_shim.h"
#include "naunet_macros.h"
#include "naunet_data.h"
#include "naunet_ode.h"
int main(int argc, char **argv) {
    const int nsys = argc - 1, n = NEQUATIONS;
    if (nsys < 1) return 0;
    std::vector<NaunetData> data(nsys);
    std::vector<double> y((size_t)nsys * n), ydot((size_t)nsys * n, 0.0);
    for (int s = 0; s < nsys; s++) {
        data[s].nH   = 1.0e4;
        data[s].Tgas = atof(argv[s + 1]);
        for (int i = 0; i < n; i++) y[(size_t)s * n + i] = 1.0 + 0.25 * i;
    }
    _ExecPolicyShim pol;
    _N_VectorContent_CudaShim content{&pol};
    _N_VectorShim vy{y.data(), nsys * n, false, &content}, vd{ydot.data(), nsys * n, false, &content};
    Fex(0.0, &vy, &vd, data.data());
    for (int s = 0; s < nsys; s++) {
        for (int i = 0; i < n; i++) printf("%.17g ", ydot[(size_t)s * n + i]);
        printf("\n");
    }
    return 0;
}
