// Scripted mock of CVODE for channel C of C19: the "solution" is y(t) = y0 + t, so the final
// state measures the integrated time.  Script (argv[1]): comma-separated events consumed in order,
//   c:ok | c:<flag>:<rho>   for CVode      (rho in [0,1): fraction of the requested interval reached)
//   r:ok | r:<flag>         for CVodeReInit
// absent events default to ok.  argv[2] = dt, argv[3] = y0.
#include <cstring>
#include <string>
#include <vector>
#include <utility>
#include <cmath>
#include "sundials_shim.h"
#include "naunet.h"
#include "naunet_ode.h"

struct Ev { int flag; double rho; };
static std::vector<Ev> cev, rev;
static size_t ci = 0, ri = 0;
static double tcur = 0.0;
static long ncalls = 0, nreinit = 0;
// as in CVODE, the integrator owns its state: CVodeInit/CVodeReInit copy y0 in, CVode copies the
// state out into yout (so the order of 'restore the user array' and 'CVodeReInit' matters)
static std::vector<double> zn;

int SUNContext_Create(void *, SUNContext *c) { *c = (void *)1; return 0; }
int SUNContext_Free(SUNContext *) { return 0; }
N_Vector N_VNewEmpty_Serial(sunindextype n, SUNContext) { return new _N_VectorShim{nullptr, n, false}; }
N_Vector N_VNew_Serial(sunindextype n, SUNContext) { return new _N_VectorShim{new realtype[n](), n, true}; }
N_Vector N_VMake_Serial(sunindextype n, realtype *d, SUNContext) { return new _N_VectorShim{d, n, false}; }
void N_VConst(realtype c, N_Vector v) { for (sunindextype i = 0; i < v->len; i++) v->data[i] = c; }
realtype *N_VGetArrayPointer(N_Vector v) { return v->data; }
void N_VSetArrayPointer(realtype *d, N_Vector v) { v->data = d; }
void N_VDestroy(N_Vector v) { if (v->own) delete[] v->data; delete v; }
SUNMatrix SUNDenseMatrix(sunindextype r, sunindextype c, SUNContext) { return new _SUNMatrixShim{new realtype[r * c](), r, c, r * c, nullptr, nullptr}; }
SUNMatrix SUNSparseMatrix(sunindextype r, sunindextype c, sunindextype nnz, int, SUNContext) {
    return new _SUNMatrixShim{new realtype[nnz + 1](), r, c, nnz, new sunindextype[r + 1](), new sunindextype[nnz + 1]()}; }
void SUNMatDestroy(SUNMatrix) {}
int SUNMatZero(SUNMatrix) { return 0; }
SUNLinearSolver SUNLinSol_Dense(N_Vector, SUNMatrix, SUNContext) { return (void *)1; }
SUNLinearSolver SUNLinSol_KLU(N_Vector, SUNMatrix, SUNContext) { return (void *)1; }
int SUNLinSolSetup(SUNLinearSolver, SUNMatrix) { return 0; }
// a real dense solve (Gaussian elimination with partial pivoting on copies): A x = b; x may alias b
int SUNLinSolSolve(SUNLinearSolver, SUNMatrix A, N_Vector x, N_Vector b, realtype) {
    if (!A || !A->data || !x || !b) return 0;
    sunindextype n = A->rows;
    std::vector<double> M(A->data, A->data + n * n), r(b->data, b->data + n);
    auto at = [&](sunindextype i, sunindextype j) -> double & { return M[j * n + i]; };
    for (sunindextype c = 0; c < n; c++) {
        sunindextype p = c;
        for (sunindextype i = c + 1; i < n; i++) if (std::fabs(at(i, c)) > std::fabs(at(p, c))) p = i;
        if (at(p, c) == 0.0) return -1;
        if (p != c) { for (sunindextype j = 0; j < n; j++) std::swap(at(p, j), at(c, j)); std::swap(r[p], r[c]); }
        for (sunindextype i = c + 1; i < n; i++) {
            double f = at(i, c) / at(c, c);
            for (sunindextype j = c; j < n; j++) at(i, j) -= f * at(c, j);
            r[i] -= f * r[c];
        }
    }
    for (sunindextype i = n - 1; i >= 0; i--) {
        double v = r[i];
        for (sunindextype j = i + 1; j < n; j++) v -= at(i, j) * x->data[j];
        x->data[i] = v / at(i, i);
    }
    return 0;
}
int SUNLinSolFree(SUNLinearSolver) { return 0; }
void *CVodeCreate(int, SUNContext) { return (void *)1; }
int CVodeSetErrFile(void *, FILE *) { return 0; }
int CVodeSetMaxNumSteps(void *, long) { return 0; }
int CVodeInit(void *, CVRhsFn, realtype t0, N_Vector y0) {
    tcur = t0;
    zn.assign(y0->data, y0->data + y0->len);
    return 0;
}
// as CVODE: negative tolerances are illegal input (CV_ILL_INPUT = -22), and an integrator whose tolerances were never set refuses to run
static bool tol_ill = false;
int CVodeSStolerances(void *, realtype rtol, realtype atol) { tol_ill = (rtol < 0.0 || atol < 0.0); return tol_ill ? -22 : 0; }
int CVodeSetLinearSolver(void *, SUNLinearSolver, SUNMatrix) { return 0; }
int CVodeSetJacFn(void *, CVLsJacFn) { return 0; }
int CVodeSetUserData(void *, void *) { return 0; }
void CVodeFree(void **) {}
int CVodeGetNumSteps(void *, long *x) { *x = 0; return 0; }
int CVodeGetNumRhsEvals(void *, long *x) { *x = 0; return 0; }
int CVodeGetNumLinSolvSetups(void *, long *x) { *x = 0; return 0; }
int CVodeGetNumErrTestFails(void *, long *x) { *x = 0; return 0; }
int CVodeGetNumNonlinSolvIters(void *, long *x) { *x = 0; return 0; }
int CVodeGetNumNonlinSolvConvFails(void *, long *x) { *x = 0; return 0; }
int CVodeGetNumJacEvals(void *, long *x) { *x = 0; return 0; }
int CVodeGetNumGEvals(void *, long *x) { *x = 0; return 0; }

int CVode(void *, realtype tout, N_Vector y, realtype *t, int) {
    ncalls++;
    if (tol_ill) { *t = tcur; return -22; }
    Ev e = ci < cev.size() ? cev[ci] : Ev{0, 1.0};
    ci++;
    double delta = (e.flag >= 0 ? 1.0 : e.rho) * (tout - tcur);
    if ((sunindextype)zn.size() != y->len) zn.assign(y->data, y->data + y->len);
    for (sunindextype i = 0; i < y->len; i++) { zn[i] += delta; y->data[i] = zn[i]; }
    tcur = e.flag >= 0 ? tout : tcur + delta;
    *t = tcur;
    return e.flag;
}
int CVodeReInit(void *, realtype t0, N_Vector y0) {
    nreinit++;
    Ev e = ri < rev.size() ? rev[ri] : Ev{0, 0.0};
    ri++;
    if (e.flag >= 0) {
        tcur = t0;
        zn.assign(y0->data, y0->data + y0->len);
    }
    return e.flag;
}
// the generated right-hand side and Jacobian are not exercised by the mock
int Fex(realtype, N_Vector, N_Vector, void *) { return 0; }
int Jac(realtype, N_Vector, N_Vector, SUNMatrix, void *, N_Vector, N_Vector, N_Vector) { return 0; }
#ifdef MOCK_CUDA
int InitJac(SUNMatrix) { return 0; }      // cuSPARSE variant: the pattern is not exercised by the mock either
#endif

#ifndef MOCK_NO_MAIN
int main(int argc, char **argv) {
    std::string s = argc > 1 ? argv[1] : "";
    double dt = argc > 2 ? atof(argv[2]) : 1.0, y0 = argc > 3 ? atof(argv[3]) : 0.0;
    size_t pos = 0;
    while (pos < s.size()) {
        size_t q = s.find(',', pos);
        std::string it = s.substr(pos, q == std::string::npos ? std::string::npos : q - pos);
        pos = q == std::string::npos ? s.size() : q + 1;
        if (it.size() < 3) continue;
        char kind = it[0];
        std::string rest = it.substr(2);
        Ev e{0, 1.0};
        if (rest != "ok") {
            size_t c2 = rest.find(':');
            e.flag = atoi(rest.substr(0, c2).c_str());
            e.rho = c2 == std::string::npos ? 0.0 : atof(rest.substr(c2 + 1).c_str());
        }
        (kind == 'c' ? cev : rev).push_back(e);
    }
    remove("naunet_error_record.txt");
    Naunet n;
    // argv[4] (cuSPARSE variant only): the number of systems of the batch; every system starts at y0
    const int nsys = argc > 4 ? atoi(argv[4]) : 1;
    const double rtol = getenv("MOCK_RTOL") ? atof(getenv("MOCK_RTOL")) : 1e-5;      // a negative value: illegal input to the integrator
    if (n.Init(nsys, 1e-20, rtol, 500) != NAUNET_SUCCESS) { printf("init-failed\n"); return 2; }
    // every system and equation of a batch starts at its own value (y0 + system + equation / 1024)
    auto fill = [&](std::vector<realtype> &v, int ns) {
        v.assign((size_t)NEQUATIONS * ns, y0);
        if (ns > 1) for (int sidx = 0; sidx < ns; sidx++) for (int j = 0; j < NEQUATIONS; j++) v[(size_t)sidx * NEQUATIONS + j] = y0 + sidx + j / 1024.0;
    };
    // smallest and largest (final - start - dt) over all systems and equations: both 0 when every one advanced over dt
    auto report = [&](const char *tag, const std::vector<realtype> &fin, const std::vector<realtype> &start) {
        double lo = 0.0, hi = 0.0;
        for (size_t i = 0; i < fin.size(); i++) { double dv = fin[i] - start[i] - dt; if (i == 0 || dv < lo) lo = dv; if (i == 0 || dv > hi) hi = dv; }
        printf("%s %.17g %.17g\n", tag, lo, hi);
    };
    std::vector<realtype> abv, start;
    fill(abv, nsys);
    start = abv;
    realtype *ab = abv.data();
    std::vector<NaunetData> datav(nsys);
    int flag = n.Solve(ab, dt, datav.data());
    if (nsys > 1) report("batch", abv, start);
#ifdef MOCK_CUDA
    if (argc > 5) {      // argv[5]: Reset to this number of systems, then one more Solve on a fresh batch
        const int nsys2 = atoi(argv[5]);
        int rflag = n.Reset(nsys2, 1e-20, 1e-5, 500);
        std::vector<realtype> ab2, start2;
        fill(ab2, nsys2);
        start2 = ab2;
        std::vector<NaunetData> data2(nsys2);
        ci = 0; ri = 0;
        int flag2 = rflag == NAUNET_SUCCESS ? n.Solve(ab2.data(), dt, data2.data()) : rflag;
        report("after-reset", ab2, start2);
        printf("after-reset-flag %d\n", flag2);
    }
#endif
    n.Finalize();
    // was the initial state logged?
    // was the initial state logged, and with which value?
    int logged = 0;
    double logged_y0 = 0.0;
    FILE *f = fopen("naunet_error_record.txt", "r");
    if (f) {
        char line[512];
        while (fgets(line, sizeof line, f)) {
            const char *p = strstr(line, "y[0] =");
            if (p && !logged) { logged = 1; logged_y0 = atof(p + 6); }
        }
        fclose(f);
    }
    printf("%d %.17g %ld %ld %d %.17g\n", flag, ab[0], ncalls, nreinit, logged, logged_y0);
    return 0;
}
#endif
