// driver for the Odeint back-end: argv[1] = number of observer calls, argv[2] = mxsteps, argv[3] = dt, argv[4] = y0,
// argv[5] (optional) = the budget given to Init, argv[2] then being set afterwards through Reset
#include <cstdio>
#include <cstdlib>
#include "naunet.h"
namespace boost { namespace numeric { namespace odeint { long shim_observer_calls = 0; } } }
int main(int argc, char **argv) {
    boost::numeric::odeint::shim_observer_calls = argc > 1 ? atol(argv[1]) : 1;
    int mx = argc > 2 ? atoi(argv[2]) : 500;
    double dt = argc > 3 ? atof(argv[3]) : 1.0, y0 = argc > 4 ? atof(argv[4]) : 0.0;
    remove("naunet_error_record.txt");
    Naunet n;
    if (argc > 5) {
        if (n.Init(1, 1e-20, 1e-5, atoi(argv[5])) != NAUNET_SUCCESS) { printf("init-failed\n"); return 2; }
        if (n.Reset(1, 1e-20, 1e-5, mx) != NAUNET_SUCCESS) { printf("reset-failed\n"); return 2; }
    } else if (n.Init(1, 1e-20, 1e-5, mx) != NAUNET_SUCCESS) { printf("init-failed\n"); return 2; }
    double ab[NEQUATIONS];
    for (int i = 0; i < NEQUATIONS; i++) ab[i] = y0;
    NaunetData data;
    int flag = n.Solve(ab, dt, &data);
    n.Finalize();
    printf("%d %.17g\n", flag, ab[0]);
    return 0;
}
