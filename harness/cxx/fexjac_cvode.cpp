// Channel C of C01 / C02 / C03 (CVODE dense and sparse): the rendered Fex and Jac are compiled as they stand and
// called on (rate coefficients, abundances) read from stdin.  The rate routines are replaced by stubs that hand the given
// coefficients to the right-hand side, so that every reaction has a coefficient of its own and the result can be compared with
// the mass-action law in those coefficients.  Input per case: NREACTIONS + NHEATPROCS + NCOOLPROCS + NEQUATIONS numbers.
// Output per case: one line `F <ydot...>`, one line `J <row-major NEQUATIONS x NEQUATIONS>` (sparse: rebuilt from the CSR arrays
// the routine filled, preceded by a line `S <rowptrs...> | <colvals...>`).
#include <cstdio>
#include <cstdlib>
#include <vector>
#include "sundials_shim.h"
#include "naunet_macros.h"
#include "naunet_data.h"
#include "naunet_ode.h"

#ifndef NHEATPROCS
#define NHEATPROCS 0
#endif
#ifndef NCOOLPROCS
#define NCOOLPROCS 0
#endif
#ifndef FEXJAC_SPARSE
#define FEXJAC_SPARSE 0
#endif

static std::vector<double> K, KH, KC;
int EvalRates(realtype *k, realtype *y, NaunetData *u) { for (int i = 0; i < NREACTIONS; i++) k[i] = K[i]; return 0; }
#if NHEATPROCS
int EvalHeatingRates(realtype *kh, realtype *y, NaunetData *u) { for (int i = 0; i < NHEATPROCS; i++) kh[i] = KH[i]; return 0; }
#endif
#if NCOOLPROCS
int EvalCoolingRates(realtype *kc, realtype *y, NaunetData *u) { for (int i = 0; i < NCOOLPROCS; i++) kc[i] = KC[i]; return 0; }
#endif
realtype *N_VGetArrayPointer(N_Vector v) { return v->data; }
int SUNMatZero(SUNMatrix A) { for (sunindextype i = 0; i < A->rows * A->cols; i++) A->data[i] = 0.0; return 0; }
sunindextype *SUNSparseMatrix_IndexPointers(SUNMatrix A) { return A->rowptrs; }
sunindextype *SUNSparseMatrix_IndexValues(SUNMatrix A) { return A->colvals; }
realtype *SUNSparseMatrix_Data(SUNMatrix A) { return A->data; }

static bool rd(std::vector<double> &v, int n) {
    v.assign(n > 0 ? n : 1, 0.0);
    for (int i = 0; i < n; i++) if (scanf("%lf", &v[i]) != 1) return false;
    return true;
}

int main() {
    const int n = NEQUATIONS;
    for (;;) {
        std::vector<double> y, ydot(n > 0 ? n : 1, 0.0);
        if (!rd(K, NREACTIONS) || !rd(KH, NHEATPROCS) || !rd(KC, NCOOLPROCS) || !rd(y, n)) return 0;
        NaunetData data;
        _N_VectorShim vy{y.data(), n, false}, vd{ydot.data(), n, false};
        Fex(0.0, &vy, &vd, &data);
        printf("F");
        for (int i = 0; i < n; i++) printf(" %.17g", ydot[i]);
        printf("\n");
#if FEXJAC_SPARSE
        const int nnz = NNZ;
        std::vector<double> dat(nnz + 1, 0.0);
        std::vector<sunindextype> rp(n + 2, -1), cv(nnz + 1, -1);
        _SUNMatrixShim A{dat.data(), n, n, nnz, rp.data(), cv.data()};
        Jac(0.0, &vy, &vd, &A, &data, nullptr, nullptr, nullptr);
        printf("S");
        for (int i = 0; i <= n; i++) printf(" %ld", rp[i]);
        printf(" |");
        for (int i = 0; i < nnz; i++) printf(" %ld", cv[i]);
        printf("\n");
        std::vector<double> full((size_t)n * n + 1, 0.0);
        bool ok = true;
        for (int r = 0; r < n && ok; r++)
            for (sunindextype p = rp[r]; p < rp[r + 1]; p++) {
                if (p < 0 || p >= nnz || cv[p] < 0 || cv[p] >= n) { ok = false; break; }
                full[(size_t)r * n + cv[p]] += dat[p];
            }
        printf(ok ? "J" : "J!");
        for (size_t i = 0; i < (size_t)n * n; i++) printf(" %.17g", full[i]);
        printf("\n");
#else
        std::vector<double> dat((size_t)n * n + 1, 0.0);
        _SUNMatrixShim A{dat.data(), n, n, 0, nullptr, nullptr};
        Jac(0.0, &vy, &vd, &A, &data, nullptr, nullptr, nullptr);
        printf("J");
        for (int r = 0; r < n; r++) for (int c = 0; c < n; c++) printf(" %.17g", SM_ELEMENT_D(&A, r, c));
        printf("\n");
#endif
    }
}
