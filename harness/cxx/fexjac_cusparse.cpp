// Channel C of C01 / C02 / C03 (cuSPARSE): the rendered FexKernel / JacKernel / InitJac and their host wrappers, compiled by g++
// against harness/cxx/cuda/cuda_shim.h (kernel launches rewritten to plain calls by the harness) and run on a batch of NSYS = 2
// systems.  The rate routines are stubs that return the coefficients read from stdin.  Input per case:
// NREACTIONS + NHEATPROCS + NCOOLPROCS coefficients, then NSYS * NEQUATIONS abundances.  Output per case and system: `F ...`,
// `S rowptrs | colvals` (as InitJac copied them), `J ...` (the system's block rebuilt from the pattern).
#include <cstdio>
#include <vector>
#include "cuda_shim.h"
#include "naunet_macros.h"
#include "naunet_data.h"
#include "naunet_ode.h"
#ifndef NHEATPROCS
#define NHEATPROCS 0
#endif
#ifndef NCOOLPROCS
#define NCOOLPROCS 0
#endif
#define NSYS 2
static std::vector<double> K, KH, KC;
int EvalRates(realtype *k, realtype *y, NaunetData *u) { for (int i = 0; i < NREACTIONS; i++) k[i] = K[i]; return 0; }
#if NHEATPROCS
int EvalHeatingRates(realtype *kh, realtype *y, NaunetData *u) { for (int i = 0; i < NHEATPROCS; i++) kh[i] = KH[i]; return 0; }
#endif
#if NCOOLPROCS
int EvalCoolingRates(realtype *kc, realtype *y, NaunetData *u) { for (int i = 0; i < NCOOLPROCS; i++) kc[i] = KC[i]; return 0; }
#endif
int SUNMatZero(SUNMatrix A) { for (sunindextype i = 0; i < A->nnz * A->nblocks; i++) A->data[i] = 0.0; return 0; }
static bool rd(std::vector<double> &v, int n) {
    v.assign(n > 0 ? n : 1, 0.0);
    for (int i = 0; i < n; i++) if (scanf("%lf", &v[i]) != 1) return false;
    return true;
}
int main() {
    const int n = NEQUATIONS, nnz = NNZ;
    for (;;) {
        std::vector<double> y, ydot((size_t)NSYS * n + 1, 0.0);
        if (!rd(K, NREACTIONS) || !rd(KH, NHEATPROCS) || !rd(KC, NCOOLPROCS) || !rd(y, NSYS * n)) return 0;
        std::vector<NaunetData> data(NSYS);
        _ExecPolicyShim pol;
        _N_VectorContent_CudaShim content{&pol};
        _N_VectorShim vy{y.data(), NSYS * n, false, &content}, vd{ydot.data(), NSYS * n, false, &content};
        Fex(0.0, &vy, &vd, data.data());
        std::vector<double> dat((size_t)NSYS * nnz + 1, 12345.0);
        std::vector<sunindextype> rp(n + 2, -1), cv(nnz + 1, -1);
        _SUNMatrixShim A{dat.data(), n, n, nnz, rp.data(), cv.data(), NSYS};
        InitJac(&A);
        Jac(0.0, &vy, &vd, &A, data.data(), nullptr, nullptr, nullptr);
        for (int s = 0; s < NSYS; s++) {
            printf("F");
            for (int i = 0; i < n; i++) printf(" %.17g", ydot[(size_t)s * n + i]);
            printf("\nS");
            for (int i = 0; i <= n; i++) printf(" %ld", rp[i]);
            printf(" |");
            for (int i = 0; i < nnz; i++) printf(" %ld", cv[i]);
            printf("\n");
            std::vector<double> full((size_t)n * n + 1, 0.0);
            bool ok = true;
            for (int r = 0; r < n && ok; r++)
                for (sunindextype p = rp[r]; p < rp[r + 1]; p++) {
                    if (p < 0 || p >= nnz || cv[p] < 0 || cv[p] >= n) { ok = false; break; }
                    full[(size_t)r * n + cv[p]] += dat[(size_t)s * nnz + p];
                }
            printf(ok ? "J" : "J!");
            for (size_t i = 0; i < (size_t)n * n; i++) printf(" %.17g", full[i]);
            printf("\n");
        }
    }
}
