// C16 channel C, Odeint back-end: the rendered Naunet::SetReferenceAbund / Naunet::Renorm (uBLAS LU through the stand-in,
// which factorises with partial pivoting as uBLAS documents) run on one object; same arguments and output as mock_renorm.cpp.
#include <cstdio>
#include <cstdlib>
#include <sstream>
#include <string>
#include <vector>
#include "naunet.h"
namespace boost { namespace numeric { namespace odeint { long shim_observer_calls = 0; } } }
static std::vector<double> parse(const char *s) {
    std::vector<double> v;
    std::stringstream ss(s);
    std::string it;
    while (std::getline(ss, it, ',')) v.push_back(atof(it.c_str()));
    return v;
}
int main(int argc, char **argv) {
    Naunet n;
    if (n.Init(1, 1e-20, 1e-5, 500) != NAUNET_SUCCESS) { printf("init-failed\n"); return 2; }
    std::string a1 = argv[1];
    int opt = a1.rfind("opt0:", 0) == 0 ? 0 : 1;
    std::vector<double> ref = parse(opt == 0 ? argv[1] + 5 : argv[1]);
    n.SetReferenceAbund(ref.data(), opt);
    for (int a = 2; a < argc; a++) {
        std::vector<double> ab = parse(argv[a]);
        int flag = n.Renorm(ab.data());
        printf("%d", flag);
        for (double x : ab) printf(" %.17g", x);
        printf("\n");
    }
    n.Finalize();
    return 0;
}
