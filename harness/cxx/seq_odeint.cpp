// C06 channel C (Odeint): evaluate the rendered Fex and Jac at a sequence of temperatures in ONE process.
// argv[1..] = temperatures; prints one line per temperature: ydot[0..N) then the N*N Jacobian entries.
#include <cstdio>
#include <cstdlib>
#include "naunet_macros.h"
#include "naunet_data.h"
#include "naunet_ode.h"
namespace boost { namespace numeric { namespace odeint { long shim_observer_calls = 0; } } }
int main(int argc, char **argv) {
    NaunetData data;
    data.nH = 1.0e4;
    for (int a = 1; a < argc; a++) {
        data.Tgas = atof(argv[a]);
        Fex fex(&data);        // the functors copy the data they are given
        Jac jac(&data);
        vector_type y(NEQUATIONS), ydot(NEQUATIONS), dfdt(NEQUATIONS);
        matrix_type j(NEQUATIONS, NEQUATIONS);
        for (int i = 0; i < NEQUATIONS; i++) { y[i] = 1.0 + 0.25 * i; ydot[i] = 0.0; dfdt[i] = 0.0; }
        for (int r = 0; r < NEQUATIONS; r++) for (int c = 0; c < NEQUATIONS; c++) j(r, c) = 0.0;
        fex(y, ydot, 0.0);
        jac(y, j, 0.0, dfdt);
        for (int i = 0; i < NEQUATIONS; i++) printf("%.17g ", ydot[i]);
        for (int r = 0; r < NEQUATIONS; r++) for (int c = 0; c < NEQUATIONS; c++) printf("%.17g ", j(r, c));
        printf("\n");
    }
    return 0;
}
