// Channel C of C04 / C16: the rendered naunet_physics.cpp is compiled as it stands and its element totals are
// called on abundance vectors read from stdin (one vector of NEQUATIONS numbers per line of input).  Output, one line
// per vector: NELEMENTS values of GetElementAbund(y, e) for e = 0..NELEMENTS-1, then GetMantleDens, GetHNuclei,
// GetMu, GetNumDens.
#include <cstdio>
#include <vector>

#include "naunet_macros.h"
#include "naunet_physics.h"

#ifndef NELEMENTS
#define NELEMENTS 0
#endif

int main() {
    const int n = NEQUATIONS > 0 ? NEQUATIONS : 1;
    std::vector<double> y(n, 0.0);
    for (;;) {
        for (int i = 0; i < NEQUATIONS; i++) {
            if (scanf("%lf", &y[i]) != 1) return 0;
        }
        if (NEQUATIONS == 0) return 0;
        for (int e = 0; e < NELEMENTS; e++) printf("%.17g ", GetElementAbund(y.data(), e));
        printf("%.17g %.17g %.17g %.17g\n", GetMantleDens(y.data()), GetHNuclei(y.data()), GetMu(y.data()), GetNumDens(y.data()));
    }
}
