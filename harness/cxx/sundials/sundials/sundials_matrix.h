#include "sundials_shim.h"
