// Minimal stand-in for the SUNDIALS API names used by the generated CVODE sources.
// Modelled API (not SUNDIALS): in the trusted base of channel C only.
#ifndef SUNDIALS_SHIM_H
#define SUNDIALS_SHIM_H
#include <cstdio>
#include <cstdlib>
#include <cmath>
typedef double realtype;
typedef long sunindextype;
struct _N_VectorShim { realtype *data; sunindextype len; bool own; void *content = nullptr; };
typedef _N_VectorShim *N_Vector;
struct _SUNMatrixShim { realtype *data; sunindextype rows, cols, nnz; sunindextype *rowptrs; sunindextype *colvals; sunindextype nblocks = 1; };
typedef _SUNMatrixShim *SUNMatrix;
typedef void *SUNLinearSolver;
typedef void *SUNContext;
#define CV_BDF 2
#define CV_NORMAL 1
#define CSR_MAT 1
#define CV_SUCCESS 0
typedef int (*CVRhsFn)(realtype, N_Vector, N_Vector, void *);
typedef int (*CVLsJacFn)(realtype, N_Vector, N_Vector, SUNMatrix, void *, N_Vector, N_Vector, N_Vector);
#define SM_ELEMENT_D(A, i, j) ((A)->data[(j) * (A)->rows + (i)])
#define SM_DATA_S(A) ((A)->data)
#define SM_INDEXPTRS_S(A) ((A)->rowptrs)
#define SM_INDEXVALS_S(A) ((A)->colvals)
#define NV_DATA_S(v) ((v)->data)
#define NV_Ith_S(v, i) ((v)->data[i])
int SUNContext_Create(void *, SUNContext *);
int SUNContext_Free(SUNContext *);
N_Vector N_VNewEmpty_Serial(sunindextype, SUNContext);
N_Vector N_VNew_Serial(sunindextype, SUNContext);
N_Vector N_VMake_Serial(sunindextype, realtype *, SUNContext);
void N_VConst(realtype, N_Vector);
realtype *N_VGetArrayPointer(N_Vector);
void N_VSetArrayPointer(realtype *, N_Vector);
void N_VDestroy(N_Vector);
SUNMatrix SUNDenseMatrix(sunindextype, sunindextype, SUNContext);
SUNMatrix SUNSparseMatrix(sunindextype, sunindextype, sunindextype, int, SUNContext);
void SUNMatDestroy(SUNMatrix);
int SUNMatZero(SUNMatrix);
sunindextype *SUNSparseMatrix_IndexPointers(SUNMatrix);
sunindextype *SUNSparseMatrix_IndexValues(SUNMatrix);
realtype *SUNSparseMatrix_Data(SUNMatrix);
SUNLinearSolver SUNLinSol_Dense(N_Vector, SUNMatrix, SUNContext);
SUNLinearSolver SUNLinSol_KLU(N_Vector, SUNMatrix, SUNContext);
int SUNLinSolSetup(SUNLinearSolver, SUNMatrix);
int SUNLinSolSolve(SUNLinearSolver, SUNMatrix, N_Vector, N_Vector, realtype);
int SUNLinSolFree(SUNLinearSolver);
void *CVodeCreate(int, SUNContext);
int CVodeSetErrFile(void *, FILE *);
int CVodeSetMaxNumSteps(void *, long);
int CVodeInit(void *, CVRhsFn, realtype, N_Vector);
int CVodeReInit(void *, realtype, N_Vector);
int CVodeSStolerances(void *, realtype, realtype);
int CVodeSetLinearSolver(void *, SUNLinearSolver, SUNMatrix);
int CVodeSetJacFn(void *, CVLsJacFn);
int CVodeSetUserData(void *, void *);
int CVode(void *, realtype, N_Vector, realtype *, int);
void CVodeFree(void **);
int CVodeGetNumSteps(void *, long *);
int CVodeGetNumRhsEvals(void *, long *);
int CVodeGetNumLinSolvSetups(void *, long *);
int CVodeGetNumErrTestFails(void *, long *);
int CVodeGetNumNonlinSolvIters(void *, long *);
int CVodeGetNumNonlinSolvConvFails(void *, long *);
int CVodeGetNumJacEvals(void *, long *);
int CVodeGetNumGEvals(void *, long *);
#endif
