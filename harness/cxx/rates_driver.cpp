// Channel C of C06: the rendered EvalRates is compiled as it stands and called at the temperatures read from stdin
// (one per line), each on a freshly zeroed coefficient array; prints k[0..NREACTIONS) per temperature.
#include <cstdio>
#include <vector>
#ifdef RATES_ODEINT
#include "naunet_macros.h"
#include "naunet_data.h"
#include "naunet_ode.h"
namespace boost { namespace numeric { namespace odeint { long shim_observer_calls = 0; } } }
typedef double realtype;
#else
#include "sundials_shim.h"
#include "naunet_macros.h"
#include "naunet_data.h"
#include "naunet_ode.h"
#endif
int main() {
    double T;
    while (scanf("%lf", &T) == 1) {
        NaunetData data{};
        data.Tgas = T;
        data.nH = 1.0e4;
        std::vector<realtype> k(NREACTIONS + 1, 0.0), y(NEQUATIONS + 1, 1.0);
        EvalRates(k.data(), y.data(), &data);
        for (int i = 0; i < NREACTIONS; i++) printf("%.17g ", k[i]);
        printf("\n");
    }
    return 0;
}
