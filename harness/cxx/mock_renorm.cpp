// C16 channel C: the rendered Naunet::SetReferenceAbund / Naunet::Renorm (cvode) run on one object:
// argv[1] = reference vector (comma separated, NEQUATIONS values), argv[2..] = vectors to renormalise in order.
// Prints one line per vector: the renormalised abundances.
#define MOCK_NO_MAIN
#include "mock_cvode.cpp"
#include <sstream>
static std::vector<double> parse(const char *s) {
    std::vector<double> v;
    std::stringstream ss(s);
    std::string it;
    while (std::getline(ss, it, ',')) v.push_back(atof(it.c_str()));
    return v;
}
int main(int argc, char **argv) {
    Naunet n;
    if (n.Init(1, 1e-20, 1e-5, 500) != NAUNET_SUCCESS) { printf("init-failed\n"); return 2; }
    std::vector<double> ref = parse(argv[1]);
    n.SetReferenceAbund(ref.data(), 1);
    for (int a = 2; a < argc; a++) {
        std::vector<double> ab = parse(argv[a]);
        int flag = n.Renorm(ab.data());
        printf("%d", flag);
        for (double x : ab) printf(" %.17g", x);
        printf("\n");
    }
    n.Finalize();
    return 0;
}
