// Channel C of C01 / C02 (Odeint): the rendered Fex and Jac functors are compiled as they stand and called on abundance vectors
// read from stdin (NEQUATIONS numbers per case).  The rate coefficients are those of the rendered EvalRates: the harness gives
// every reaction a coefficient of its own (a literal).  Output per case: `F <ydot...>` and `J <row-major NEQUATIONS x NEQUATIONS>`.
#include <cstdio>
#include <cstdlib>
#include "naunet_macros.h"
#include "naunet_data.h"
#include "naunet_ode.h"
namespace boost { namespace numeric { namespace odeint { long shim_observer_calls = 0; } } }
int main() {
    const int n = NEQUATIONS;
    for (;;) {
        vector_type y(n > 0 ? n : 1), ydot(n > 0 ? n : 1), dfdt(n > 0 ? n : 1);
        for (int i = 0; i < n; i++) { double v; if (scanf("%lf", &v) != 1) return 0; y[i] = v; ydot[i] = 0.0; dfdt[i] = 0.0; }
        if (n == 0) return 0;
        NaunetData data{};
        Fex fex(&data);
        Jac jac(&data);
        matrix_type j(n, n);
        for (int r = 0; r < n; r++) for (int c = 0; c < n; c++) j(r, c) = 12345.0;     // the routine has to zero what it omits
        fex(y, ydot, 0.0);
        jac(y, j, 0.0, dfdt);
        printf("F");
        for (int i = 0; i < n; i++) printf(" %.17g", ydot[i]);
        printf("\nJ");
        for (int r = 0; r < n; r++) for (int c = 0; c < n; c++) printf(" %.17g", j(r, c));
        printf("\n");
    }
}
