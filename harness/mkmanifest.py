"""Regenerate MANIFEST.json from the table below (keeps it valid at all times)."""
import json
from pathlib import Path

VERIF = Path(__file__).resolve().parent.parent

# property -> (technique, level text, level note, design_ref)
CLAIMED = {
    "C15": ("Coq proof (induction over the dict loop, refinement to an index-level spec) + extracted-model correspondence + pairwise oracle",
            "Theorems in coq/theories/Props/C15.v state, for every list and every comparison that is an equivalence, that the reported indices are exactly those equivalent to an earlier entry (ascending), that 'first' is exactly the first member of every class of size >= 2, that removing the report leaves one representative per class and no duplicate, and that reactant/product order never matters; the model is tied to Network.find_duplicate_reaction/remove_reaction by running both on generated duplicate-rich lists in all four modes.",
            "Model of the dict loop is hand-written (Model/Dup.v); dict lookup modelled as first equal key (needs hash consistent with ==, i.e. one spelling per species); default mode proved on lists without UNKNOWN types, refuted in general (known finding).",
            "7 C15"),
}

NOT_YET = {}


def main():
    props = [json.loads(l) for l in (VERIF / "properties.jsonl").read_text().splitlines() if l.strip()]
    checks = []
    na = []
    for p in props:
        pid = p["id"]
        if pid in CLAIMED:
            tech, text, note, ref = CLAIMED[pid]
            checks.append({
                "property_id": pid,
                "quick_cmd": f"./check {pid} --tier quick",
                "thorough_cmd": f"./check {pid} --tier thorough",
                "evidence_file": f"/verif/evidence/{pid}.json",
                "replay_cmd_template": "./check --replay {path}",
                "engine": "coq-model",
                "level_claimed": {"category": "proof", "text": text, "design_ref": f"DESIGN.md section {ref}"},
                "level_note": note,
                "technique": tech,
            })
        else:
            na.append({"property_id": pid, "reason": NOT_YET.get(pid, "no check registered yet: the Coq model and correspondence for this property are not built at this commit (planned, see DESIGN.md section 7)")})
    man = {
        "version": 1,
        "setup_cmd": "./check --build",
        "hooks": {
            "guard": "NAUNET_VERIF",
            "enable": "no source hooks are needed: every anchor is observed through the public Python API, the rendered files, or the rendered C++ compiled against shim headers; checks export NAUNET_VERIF=1 for uniformity",
            "baseline_off_cmd": "cd /repo && /venv/bin/python -m pytest -ra -q -p no:cacheprovider --timeout=900 --continue-on-collection-errors",
            "source_commits": [],
            "add_only": True,
        },
        "engines": [{
            "name": "coq-model",
            "path": "/verif/coq",
            "serves_properties": sorted(CLAIMED),
            "kind_free_text": "hand-written executable Gallina model + theorems (Coq 8.16.1), Tables.v regenerated from the live /repo on every run, model extracted to OCaml and run against the implementation on generated inputs; implementation-side oracles search for failing inputs",
        }],
        "checks": checks,
        "not_applicable": na,
        "notes": "Every check: regenerate coq/gen/Tables.v from /repo, full make of the Coq development, recompile Props/<id>.v and compare Print Assumptions with the allow-list, then correspondence and oracle runs against /repo's working tree. See DESIGN.md.",
    }
    (VERIF / "MANIFEST.json").write_text(json.dumps(man, indent=1) + "\n")


if __name__ == "__main__":
    main()
