"""Regenerate MANIFEST.json from the table below (keeps it valid at all times)."""
import json
from pathlib import Path

VERIF = Path(__file__).resolve().parent.parent

# property -> (technique, level text, level note, design_ref)
CLAIMED = {
    "C15": ("Coq proof (induction over the dict loop, refinement to an index-level spec) + extracted-model correspondence + pairwise oracle",
            "Theorems in coq/theories/Props/C15.v state, for every list and every comparison that is an equivalence, that the reported indices are exactly those equivalent to an earlier entry (ascending), that 'first' is exactly the first member of every class of size >= 2, that removing the report leaves one representative per class and no duplicate, and that reactant/product order never matters; the model is tied to Network.find_duplicate_reaction/remove_reaction by running both on generated duplicate-rich lists in all four modes.",
            "Model of the dict loop is hand-written (Model/Dup.v); dict lookup is modelled as first equal key, which needs hash consistent with ==: theorem equal_reactions_hash_alike proves it for the model of Reaction.__hash__ (one tuple of sorted species hashes), and hash() is compared on sampled pairs; the pairwise oracle uses the harness's own equivalence per mode, not Reaction.__eq__; default mode proved on lists without UNKNOWN types, refuted in general (known finding).",
            "7 C15"),
}

CLAIMED.update({
    "C01": ("Coq proof (refinement of the assembly loops to lists of additions + ring semantics, any commutative ring) + extracted-model correspondence (channels A, B) + exact rational oracle",
            "Theorems in Props/C01.v: for every well-formed index-level network, every species row of the generated right-hand side evaluates (in any commutative ring, for every k and y) to the mass-action sum with multiplicities plus the modifier terms; unreacting species get the literal 0.0; the temperature row is heating minus cooling under the (gamma-1)/kerg/npar wrap. Text level (rhs_text_parses, rhs_text_is_mass_action): the string the generator writes for a species row - '0.0' followed by ' - k[l]*y[IDX_a]*y[IDX_b]' ... - lexed with C's maximal munch and parsed with C precedence is, for EVERY list of terms, the left-nested sum of the products, and its value is the mass-action law; rows holding ODE-modifier terms (rhs_text_with_modifiers_is_law): for ALL factor texts that parse on their own as C, the row parses with each factor as its own expression (parser and lexer frame lemmas) and denotes the law plus the modifier sum. Tied to TemplateLoader._prepare_ode_content (terms, and the exact text of every species row against the model's text) and to the rendered Fex of dense/sparse/cusparse/rosenbrock4 by term-level comparison with the extracted model, by exact evaluation of the emitted text, and by compiling the rendered routines as they stand (CVODE dense/sparse, the cuSPARSE kernels for the host on a batch of two systems, the Odeint functors) and comparing what they compute with the law in rationals. Batched kernels (Model/Batch.v): every system of a batch is visited by exactly one thread exactly once whatever the launch geometry, so the per-system claim is about the loop body alone.",
            "Index-level model (species already resolved to slots by the implementation's own species.index; identity of species is C08/C09); species rows are compared as exact text with the model (the rendered sources and rows holding a user modifier factor - arbitrary text - after parsing sums of products with the harness canonicaliser); stmwrap line breaking and floating-point evaluation order not modelled; compiled routines are compared at relative 1e-9 of the sum of the magnitudes of the terms; the host run of the CUDA kernels (stand-in header, launches rewritten to calls) says nothing about device execution.",
            "7 C01"),
    "C02": ("Coq proof (formal derivative by linearity+Leibniz over any commutative ring; Coquelicot is_derive over R) + correspondence + dual-number oracle",
            "Theorems in Props/C02.v: every Jacobian entry evaluates to the formal partial derivative of the emitted row (reactions, ODE modifiers with any number of repeated dependencies, thermal terms); omitted entries are identically zero derivatives; over R the formal derivative is Coquelicot's is_derive with rates held fixed; text level (jac_text_is_derivative, jac_thermal_text_is_derivative): the string of an entry, read as C, evaluates to that formal derivative; the wrapped entries of the temperature row parse as the wrapping of the derivative of the unwrapped row; entries holding modifier terms (jac_text_with_modifiers_is_derivative) for all factor texts that parse as C. Tied to ode.jac.rhs/vals (terms and exact text) and to the four rendered Jacobians by term comparison and by exact dual-number differentiation of the emitted right-hand side.",
            "Derivative with respect to explicit occurrences of y[IDX_j]; gamma, npar, kerg, rate coefficients are parameters. Axioms: the three standard real-number axioms (ClassicalDedekindReals.sig_forall_dec, sig_not_dec, functional_extensionality_dep) only for the is_derive theorems.",
            "7 C02"),
    "C03": ("Coq proof (CSR loop refined to per-row entry lists; layouts proved equal as triple lists) + correspondence + structural oracle on rendered files",
            "Theorems in Props/C03.v: row pointers start at 0, are monotone, end at NNZ = |cols| = |vals|; columns strictly increasing and in range per row; csr_triples = dense_assign (same (row, col, value) in the same order) for every n x n flat matrix; stored entries are exactly the non-'0.0' ones; pattern marks exactly those; generated matrices have the declared shape and only species subscripts. Tied to ode.jac.*, the dense/sparse/cusparse/odeint renderings, jac_pattern.dat and the macros.",
            "Template index decoding (loop.index0/neqns)|int is float division (exact below 2^53); subscripts of rendered sources are scanned textually after emulating the preprocessor conditionals.",
            "7 C03"),
    "C04": ("Coq proof (weighted-sum identity over any commutative ring) + correspondence + exact oracle on balanced networks",
            "Theorems in Props/C04.v: for any weight per species slot, if every reaction carries equal weight on both sides the weighted sum of the generated species derivatives is identically zero (all abundances, all rate values). The statement GetElementAbund returns for an element evaluates to the count-weighted sum of all abundances and GetMantleDens to the sum over the ice species (any ring; Model/Physics). Tied to the code by the C01 correspondence on generated balanced networks, by exact evaluation of the emitted/rendered equations and of GetElementAbund with generator-side compositions, and by comparing the text of every rendered helper branch with the model.",
            "Which reactions are balanced is decided by the generator's composition table; species identity (two spellings, one slot) is C08/C09.",
            "7 C04"),
    "C06": ("Coq proof (guard semantics over Q, partition of adjacent windows by induction) + correspondence + probe oracle",
            "Theorems in Props/C06.v: the generated assignment, with k[] initialised to 0, equals the rate expression iff Tmin <= T < Tmax (non-positive bound = unbounded) and 0 otherwise; adjacent positive boundaries give exactly one active reaction on [b0, bn) boundaries included; a rate modifier drops the guard. Tied to _assign_rates, the rendered EvalRates of all back-ends and the presence/position of the zero initialiser in every Fex/Jac.",
            "Temperatures are exact rationals; the C-level zero initialisation is checked textually in every rendered source and by running the compiled Odeint and CVODE-dense right-hand sides at a sequence of temperatures in one process against fresh processes, and by calling the compiled EvalRates of both back-ends at, next to and far from every bound (stand-in headers trusted). A routine that nests the two comparisons is the same statement (theorem nested_window_is_the_window).",
            "7 C06"),
    "C13": ("Coq proof (list-level characterisation of the overwrite loop; refinement theorem for ODE modifiers) + correspondence + differential oracle incl. the configuration-file path",
            "Theorems in Props/C13.v: a rate modifier replaces exactly the assignments whose reaction index equals its key (last key wins) and re-indexing happens only for fully unindexed networks; an ODE modifier appends its terms to the target equation only; the --rate-modifier / --ode-modifier texts written for a list of modifiers are parsed back to that list (model of `naunet init`); text level (modifier_factor_stays_one_operand, parser_frame, lexer_frame): whatever the factor text is, if it parses on its own as C the emitted row parses with the factor kept together as one operand. Tied to the API (also on networks edited after the modifiers were attached), TemplateLoader.render, Network.export -> `naunet render` and `naunet init` -> TOML.",
            "tomlkit and cleo option tokenisation are exercised, not modelled.",
            "7 C13"),
})

CLAIMED.update({
    "C14": ("Coq proof (invariant by induction over fold_left step; exact per-operation characterisation; permutation argument for late allowed lists) + extracted-model correspondence on exhaustive short and long random histories + invariant oracle + `naunet extend` runs",
            "Theorems in Props/C14.v: for every history of add / remove by index, index list, instance, instance list / set allowed / set required / remove duplicates / reindex from an empty network, the cached reactant and product sets are exactly those of the held reactions, held reactions mention allowed species only and parked ones a disallowed species; each operation's exact effect on the held and parked lists; setting the allowed list loses nothing and yields the same reactions (multiset) and species as constructing with it. Tied to Network by comparing, after every operation, object identities, indices, parked list, sets, sources, sinks and species with the extracted model. The network-editing command is modelled as the pipeline read -> reduce -> remove -> de-duplicate -> append -> re-index (Model.Network.extend): extend_consistent (the result satisfies the invariant for all options), reduce_keeps_listed_only, append_step_spec (an append step adds x -> counterpart only for species of the network as it is after the reductions); the extracted pipeline is compared with every `naunet extend` variant.",
            "Species are identity classes under Species.__eq__ (computed by the implementation on the alphabet); Python sets are duplicate-free lists compared sorted; remove_reaction(int) only for 0 <= i < len; the append steps of `extend` are exercised through the command line, modelled (append_by) but not part of the proved invariant.",
            "7 C14"),
})

CLAIMED.update({
    "C08": ("Coq proof (invariants of the priority-ordered masking scan: soundness, disjointness, coverage, exactness under a decidable premise; the whole parser as a fold over the rendered items; charge arithmetic) + extracted-model correspondence on rendered compositions and malformed names, theorem premises evaluated per name + composition oracle",
            "Theorems in Props/C08.v, for every table configuration without blanks in a symbol: components are tried longest first; every match is an occurrence of a configured symbol in the name; characters claimed by one symbol are never re-read as another (Si never S+i); every character of an accepted name is a digit or inside a matched symbol, hence names with a foreign character are rejected; the net charge is the number of trailing '+' minus trailing '-'; round trip (scan_exact, name_roundtrip): for every table configuration and every list of items (symbol, digit run) whose rendering is `unambiguous` (decidable: every occurrence of a configured symbol in the name is an intended token or overlaps an intended token of a symbol tried earlier) the scan finds exactly the intended tokens and the parser returns the fold of the counting step over the items - same error or same element counts, surface group, grain group and name. Closed computations on the tables regenerated from /repo give the examples of the property text. Tied to Species by comparing every field (counts in order, groups, charge, basename, gasname, alias, mass number, is_atom, is_electron, ==, hash key) with the extracted model over six table configurations; the premises of name_roundtrip are evaluated by the model on every generated name and its conclusion compared with the implementation.",
            "Names outside the `unambiguous` premise are compared with the model only (no abstract expectation); regular-expression metacharacters other than a backslash escape are outside the model; the '*' label is a known finding.",
            "7 C08"),
})

CLAIMED.update({
    "C09": ("Coq proof (insertion sort is a canonical permutation under a total order; index_of on duplicate-free lists is a bijection; identifier legality and alias decoding) + extracted-model correspondence (species order, aliases, macro and constant lines) + identifier oracle across artefacts",
            "Theorems in Props/C09.v: the ordered species list is a duplicate-free rearrangement of the species set, sorted by (connected species, name) and independent of the set's iteration order; the index macros are a bijection onto 0..N-1; every identifier is legal when the basename is alphanumeric (symbol table regenerated from /repo); the identifier determines phase, normalised basename and charge under a decidable side condition. Tied to Network.species, Species.alias, naunet_macros.h, constant_indexes.py, the configuration summary (API and `naunet render`) and the Enzo patch tables.",
            "Species identity classes come from the implementation's __eq__; four known findings (label characters in identifiers, GRAIN/GRAIN0 hash, surface-group alias collision, labelled atoms) are proved as *_refuted theorems and replayed on every run; tomlkit and the patch renderer are exercised only.",
            "7 C09"),
})

CLAIMED.update({
    "C07": ("Coq proof (decode-after-encode round trips for all six formats from split/join, strip and fixed-column lemmas; filter and no-data-line theorems; closed computation on the live code tables) + extracted-model correspondence line by line + abstract-reaction oracle",
            "Theorems in Props/C07.v: for KIDA, UMIST, Leeds, UCLCHEM and the native format a well-formed line (fields without the separator / words padded inside their columns) decodes to exactly the fields it was written from - reactants and products in order with multiplicity, alpha/beta/gamma, window, index, format code and the type the live code table assigns; KROME species fields follow the current @format; whatever the line, marker tokens and empty slots never become species and every other name is kept; blank lines (all formats) and KROME comment/directive lines add no reaction; a file yields one reaction per data line in file order. The code tables themselves are checked against the ReactionType enum regenerated from /repo. Tied to Network(filelist, fileformats) by decoding the same lines with the extracted model.",
            "Numeric fields are texts handed to float()/int() (CPython trusted); species-name parsing of the kept names is C08; KROME directives other than @format/@var/@common are rejected by the implementation with an error (outside the property: no reaction is added) and are not generated; UMIST lines with several fits keep the first fit.",
            "7 C07"),
})

CLAIMED.update({
    "C05": ("Coq proof (atom-string emitters + sign clean-up + maximal-munch lexer + precedence parser evaluated symbolically; 64 sign/zero classes x every gas-phase type discharged by computation and ring reasoning over R, for all magnitudes and all interpretations of the library functions) + exact-text correspondence + tokenizer / g++ / numeric-law oracle",
            "Theorems in Props/C05.v: for KIDA formulae 1-5, UMIST two-body / photo / cosmic-ray proton / cosmic-ray photon, Leeds types 1-4, 11, 12 (with self-shielding), UCLCHEM two-body / cosmic ray / cosmic-ray photon / photo (with the CO special case) and the native types, the emitted text - after the sign clean-up, lexed with C's maximal munch and parsed with C precedence - denotes the database's law for every value of |alpha|, |beta|, |gamma|, each of the 4x4x4 sign/zero classes (+, -, 0.0, -0.0) and every value of temperature, extinction, ionisation rate ... (any interpretation with pow(x,0)=1, exp(0)=1, in particular the real functions); formula 6 and unknown codes are refused; every emitted string parses and holds no fused operator. The type codes and the presence of the clean-up in the native class are regenerated from /repo. Tied to rateexpr() by exact comparison of the text for all classes and several magnitude shapes.",
            "Tie by translation as well: harness/gen_ratesrc.py translates the five rateexpr() methods of /repo into coq/gen/RateLive.v on every run; live_rate_sources proves the translated branches are the model templates, rate_models_are_source_branches that the model functions return the beautified text of each branch (three branches with an inner if are pinned as source text). The bridge between Python's str.replace on characters and the model's replace on atom strings is proved (beautify_bridge) under a decidable premise on the atoms that the extracted model evaluates for every magnitude sent; the reference laws are a transcription; inf/nan coefficients excluded; floating-point evaluation is outside the theorems (numeric oracle uses a relative tolerance).",
            "7 C05"),
})

CLAIMED.update({
    "C11": ("Coq proof (atom-string emitters of the four dust models with opaque identifier and magnitude atoms, C lexer/parser with ternaries, relations and subscripts, symbolic evaluation and ring reasoning over R) + exact-text correspondence over models x processes x formats x classes x species x groups + compiled-expression oracle",
            "Theorems in Props/C11.v: for accretion (base, HH93, RR07 neutral/ion/electron), thermal / photo / cosmic-ray / H2-formation desorption, grain recombination, electron capture, surface two-body reactions (four tunnelling variants) and reactive desorption, the emitted text - after the reaction class's sign clean-up - denotes the dust model's formula for every |alpha| and each of its four sign/zero classes, every printed mass number, binding energy and yield of the reacting species, and every value of the physical parameters, whatever names the reaction format and the grain group give the registry symbols; every emitted string is valid C; exactly the (model, process) pairs the live dispatch table marks NotImplemented are refused; the binding-energy look-up order is explicit > user table > RATE12. Tied to reac.rateexpr(grain) by exact comparison of the text. Tie by translation as well: harness/gen_grainsrc.py evaluates the 15 rate_* methods of the dust-model classes symbolically (grain symbols looked up on live instances) into coq/gen/GrainLive.v on every run; live_grain_sources proves the translated strings are the model's templates.",
            "Reference formulae are a transcription of Hasegawa & Herbst (1993) / UCLCHEM 1.3; symbols a reaction format does not register raise AttributeError (counted as refusal); electron accretion outside RR07 divides by a zero mass number (reference skipped); str.replace bridge proved in C05 (beautify_bridge), premise evaluated per case.",
            "7 C11"),
})

CLAIMED.update({
    "C18": ("Coq proof (decode-after-format round trip of the native line from the split/join, padding and strip lemmas; idempotence of name sorting for the second cycle; law-preservation table from the C05 law theorems, with separating interpretations for the pairs that differ) + extracted-model correspondence on written lines, re-read reactions and second-cycle lines + network-level oracle and per-type export/re-render evaluation",
            "Theorems in Props/C18.v: a well-formed reaction written by Reaction.__format__('naunet') reads back with the same index, window, type code, source tag and printed alpha/beta/gamma, its reactants and products in name order (a permutation: multiplicities kept); writing what was read back gives the same line (second cycle is the identity); a whole network keeps its reactions in order. For export + re-render: KIDA formulae 1-5, UMIST two-body / photo / cosmic-ray photon, Leeds type 1 and UCLCHEM two-body keep their law under the native class for every coefficient and interpretation; UMIST CP, Leeds 2/3/4 and UCLCHEM CR/CP/PH provably do not (known finding, separating interpretation given). Tied to Network.write / Network(filelist, 'naunet') / Network.export + `naunet render`.",
            "Numbers are carried as printed texts (CPython %10.3e / %9.2f / float() trusted: re-formatting a parsed printed value reproduces it - sampled by the byte-identical second write); two known findings (format laws re-read as native laws; Leeds G-prefixed ice names unreadable by the native reader).",
            "7 C18"),
})

CLAIMED.update({
    "C16": ("Coq proof (term-list model of the coupling matrix and the per-species factor; finite-sum algebra over R: exchange of the species and element sums, the weight cancels) + extracted-model correspondence on the emitted terms + exact rational solve-and-apply oracle on generator output and rendered naunet_renorm.cpp",
            "Theorems in Props/C16.v, for arbitrary real abundances, any solution r of the generated system M r = ref and any Hn <> 0: after the generated update the total of every element is Hn x ref_i (so its abundance relative to hydrogen nuclei is the reference ratio) - with no assumption on the mass numbers, the weight (mass number, or 1 for a dust grain) being provably non-zero and cancelling; electrons are untouched; with additive mass numbers r = 1 solves the system exactly when the totals already match and then changes nothing. Text level (matrix_text_is_entry, factor_text_is_factor): the strings '0.0 + q * ab[IDX_k] / d / Hnuclei + ...' and 'q * rptr[IDX_ELEM_j] / d + ...', lexed and parsed as C, have exactly these values, for every list of terms. Tied to _prepare_renorm_content (terms and exact text) and the rendered InitRenorm / RenormAbundance (entry positions through the rendered macros).",
            "The dense linear solve of SUNDIALS is not modelled (the theorem is for any exact solution; the oracle uses exact rational elimination; channel C runs the rendered Naunet::SetReferenceAbund / Renorm four times on one object against a stand-in with a floating-point dense solve); floating-point rounding outside the model; known finding: no identity when an element occurs only inside molecules; two fixed defects (grain mass number 0, empty factor).",
            "7 C16"),
})

CLAIMED.update({
    "C19": ("Coq proof (accounting invariant of the recovery ladder - progress made + time still to integrate = requested span - by induction over levels and sub-steps, for every fault script and every tout schedule ending at the remaining span) + correspondence of the extracted model with the rendered dense / sparse naunet.cpp compiled against a scripted mock CVODE, and of the Odeint budget with the rendered Odeint sources against a Boost stand-in + structural oracle",
            "Theorems in Props/C19.v: for every script of integrator outcomes obeying CVODE's contract, every dt, y0 and every sub-step schedule whose last sub-step of each level is the whole remaining span, a successful return of Solve means the state advanced over exactly dt (nothing skipped, nothing integrated twice across levels and restarts); failure <=> the initial state is logged; an unrecoverable flag or a failing re-initialisation is a failure at once; five failed levels are a failure after 6 calls / 5 re-initialisations; the Odeint observer turns more calls than mxsteps into failure. Tied to the generated C++ (which exists only as template text) by compiling the rendered naunet.cpp of both CVODE back-ends and of Odeint and running them on hundreds of fault scripts; the cuSPARSE variant of Solve is compiled for the host against a CUDA stand-in header and run on the same scripts (its disregard of the CVode flag is a recorded finding, stated by cusparse_refuted).",
            "CVODE's contract, the mock integrators (which own their state like CVODE: CVodeInit/CVodeReInit copy in, CVode copies out) and the SUNDIALS/Boost stand-in headers are modelled API (trusted for channel C); the value logged as the initial condition is compared with the state Solve was called with; pow(10, log10(dt)...) is exact only up to double rounding (final state compared to 1e-9); CUDA cannot be compiled here: the cuSPARSE branch is a known finding established from the rendered text, as is the Odeint PyWrapSolve that drops the flag.",
            "7 C19"),
})

CLAIMED.update({
    "C12": ("Coq proof (verified translation validator: an independent Fortran-precedence reading of the source and the C reading of the output are normalised and compared; soundness of sign normalisation and of structural agreement over R for every interpretation) applied to every tree the implementation produces + exact-text correspondence of the transformer and the regex pre-pass + Fortran-vs-C numeric oracle",
            "Theorems in Props/C12.v: if the validator accepts a parse tree, the emitted C text (read with C precedence, pow(a,b), y[IDX_x]) and the Fortran source (read with ** right-associative and above unary minus, n(idx_x)) have the same value for every interpretation of literals, variables, abundances, intrinsic functions and exponentiation; sign normalisation keeps values. The extracted validator runs on the tree Lark returned for every bundled and generated rate string; a rejection is a concrete failing expression. Three known findings are proved on Lark's actual trees (a**b**c left-associative with values 512 vs 64, signed literal base, n(idx_X) unresolved for multi-character names).",
            "Which tree Lark's Earley parser returns is observed per expression, not modelled, so the guarantee is per translated expression, not for a grammar class; the pre-pass model covers non-overlapping matches; intrinsic names are passed through unchanged (a Fortran-only intrinsic surfaces as an undeclared name in C10).",
            "7 C12"),
})

CLAIMED.update({
    "C20": ("Coq proof (parse-after-print round trip of every option kind - comma lists, key/value tables with and without stripping, repeated rate-modifier options, ODE-modifier items - from the split/join and strip lemmas, composed field by field for the whole description) + extracted-model correspondence against `naunet init` on generated option strings + request-vs-file oracle and command-line-vs-API rendering comparison",
            "Theorems in Props/C20.v: a network description whose values hold no separator of their own field, no blank at either end and no substring 'null' reaches the configuration exactly as written on the command line - element and pseudo-element lists, replacements, the three species symbols, allowed and extra species, binding energies and yields, files and formats, grain model, thermal processes, shielding, rate modifiers, solver / device / method; each option kind separately; the configuration writes the bulk prefix it is given (probed on every run). Two separator behaviours are proved as known findings ('null' removed from every value; rate-modifier values cut at a second colon). Tied to `naunet init` -> naunet_config.toml -> `naunet render` and to Network(...).to_code(). Solver selection (selection_kept_or_refused, for every table; live_selection_table on the table read from init.py on this run): the stored method is the one asked for or the entry's first method when none is given - an unsupported solver/device/method is refused, never replaced.",
            "cleo's tokenisation and tomlkit are exercised, not modelled (a TOML document is the record of values put into it); ODE modifiers are part of the composed theorem (options_roundtrip_full: distinct species, items free of the separators : , ; [ ] and blank-free dependency names); the render comparison needs a description the network files support.",
            "7 C20"),
})

CLAIMED.update({
    "C17": ("Coq proof (the species order is invariant under permutation of the underlying set - any hash seed; frame theorem for descriptions that carry their own element lists over a model of the process-global tables) + extracted-model correspondence of the global tables after construction histories + exploration of rendered-tree hashes across hash seeds, repetitions and interleavings",
            "Theorems in Props/C17.v: the species order (hence every slot, equation and Jacobian entry position) does not depend on the iteration order of the hash set it is computed from; a description with its own element lists is rendered with exactly those lists whatever was built before; a description relying on the defaults provably inherits the previous network's lists and user binding energies (known finding). The byte-identity of whole rendered trees across interpreters with different PYTHONHASHSEED, repeated rendering and renderings after other networks were built, edited and rendered is explored (sha256, dates masked), not proved.",
            "Partial: CPython's set/dict behaviour is explored, not modelled; only the species order and the global element/binding tables are inside the model.",
            "7 C17"),
})

CLAIMED.update({
    "C10": ("Coq proof (the ordered merge of the components' registries holds every registered symbol exactly once; soundness of the declaration-before-use test of the EvalRates unit) + extracted-model correspondence of the merged parameter / derived / constant tables and of the closure verdict against g++ + g++ -fsyntax-only on every rendered translation unit of every configuration",
            "Theorems in Props/C10.v: _collect_variable_items yields each symbol once and misses none that any component registers; a unit that passes the closure test declares every name exactly once and before its first use (each derived quantity uses only fixed names, index / binding-energy macros, constants, parameters and earlier derived quantities; each rate assignment only declared names). The extracted test runs on the live registries and rate assignments of every configuration and must agree with g++ on the rendered naunet_rates.cpp; all rendered .cpp files of 12 configurations x cvode dense / sparse / odeint are syntax-checked against stand-in SUNDIALS / Boost headers. Four known findings are confirmed by the compiler.",
            "Partial: only name closure of EvalRates is modelled; diagnostics about types or arity and all other units are observed with g++ (trusted together with the stand-in headers); CUDA sources are not compiled.",
            "7 C10"),
})

NOT_YET = {}


def main():
    props = [json.loads(l) for l in (VERIF / "properties.jsonl").read_text().splitlines() if l.strip()]
    checks = []
    na = []
    for p in props:
        pid = p["id"]
        if pid in CLAIMED:
            tech, text, note, ref = CLAIMED[pid]
            checks.append({
                "property_id": pid,
                "quick_cmd": f"./check {pid} --tier quick",
                "thorough_cmd": f"./check {pid} --tier thorough",
                "evidence_file": f"/verif/evidence/{pid}.json",
                "replay_cmd_template": "./check --replay {path}",
                "engine": "coq-model",
                "level_claimed": {"category": "proof", "text": text, "design_ref": f"DESIGN.md section {ref}"},
                "level_note": note,
                "technique": tech,
            })
        else:
            na.append({"property_id": pid, "reason": NOT_YET.get(pid, "no check registered yet: the Coq model and correspondence for this property are not built at this commit (planned, see DESIGN.md section 7)")})
    man = {
        "version": 1,
        "setup_cmd": "./check --build",
        "hooks": {
            "guard": "NAUNET_VERIF",
            "enable": "no source hooks are needed: every anchor is observed through the public Python API, the rendered files, or the rendered C++ compiled against shim headers; checks export NAUNET_VERIF=1 for uniformity",
            "baseline_off_cmd": "cd /repo && /venv/bin/python -m pytest -ra -q -p no:cacheprovider --timeout=900 --continue-on-collection-errors",
            "source_commits": [],
            "add_only": True,
        },
        "engines": [{
            "name": "coq-model",
            "path": "/verif/coq",
            "serves_properties": sorted(CLAIMED),
            "kind_free_text": "hand-written executable Gallina model + theorems (Coq 8.16.1), Tables.v (enums, code tables, source literals read with ast) and the translated rate-law sources RateLive.v / GrainLive.v regenerated from the live /repo on every run, model extracted to OCaml and run against the implementation on generated inputs; implementation-side oracles search for failing inputs",
        }],
        "checks": checks,
        "not_applicable": na,
        "notes": "Every check: regenerate coq/gen/Tables.v from /repo, full make of the Coq development, recompile Props/<id>.v and compare Print Assumptions with the allow-list, then correspondence and oracle runs against /repo's working tree. See DESIGN.md.",
    }
    (VERIF / "MANIFEST.json").write_text(json.dumps(man, indent=1) + "\n")


if __name__ == "__main__":
    main()
