"""C06 — a reaction acts only inside its declared temperature window.
(A) guards of TemplateLoader rate assignments vs Model.Rates.assign_rates / active; (B) the zero
initialiser of k[] and the order initialise -> EvalRates -> use in every rendered Fex/Jac, and the
guards in the rendered EvalRates; oracle: the guard evaluated at probe temperatures (below / at /
between / above each bound) against Tmin <= T < Tmax with non-positive bounds unbounded, and exactly one
active reaction among adjacent windows; KROME window fields."""
import os
import random
import re
import subprocess
from fractions import Fraction

from .. import framework as fw
from .. import odelib as ol
from .. import ratelib as rl
from ..impl import Network, Reaction, ReactionType, reset_globals
from naunet.reactions.kromereaction import KROMEReaction

TRUST = ["the zero outside the window comes from the template's initialiser `k[NREACTIONS] = {0.0}`; its presence and "
         "position are checked textually, and the rendered Odeint and CVODE-dense right-hand sides are compiled against the "
         "stand-in headers and run at a sequence of temperatures in one process (channel C)"]

BOUNDS = [-9999.0, -1.0, 0.0, 5.0, 10.0, 10.5, 100.0, 300.0, 1000.0, 9999.0, 41000.0, 1e5,
          11604.525, 1234567.0, 0.1 + 0.2, 2.7255, 1e-3, 123456.789, 1e99, 157807.13, 5e-324, 99999.99999]


def guard_active(g, T):
    if g[0] == "none":
        return True
    if g[0] == "lower":
        return g[1] <= T
    if g[0] == "upper":
        return T < g[1]
    return g[1] <= T < g[2]


def prop_active(tmin, tmax, T):
    return (tmin <= 0 or tmin <= T) and (tmax <= 0 or T < tmax)


def probes(bounds):
    out = set()
    for b in bounds:
        b = Fraction(b)
        out |= {b, b - Fraction(1, 1000), b + Fraction(1, 1000), b / 2, b * 2,
                b * (1 - Fraction(1, 10**9)), b * (1 + Fraction(1, 10**9)), b * (1 - Fraction(1, 10**15)), b * (1 + Fraction(1, 10**15))}
    out |= {Fraction(1, 100), Fraction(10**6)}
    return sorted(t for t in out if t > 0)


def gen_desc(rng):
    desc = ol.gen_network(rng, "small", ice=False)
    while not desc["reactions"]:
        desc = ol.gen_network(rng, "small", ice=False)
    n = len(desc["reactions"])
    desc["tmin"] = {i: rng.choice(BOUNDS) for i in range(n)}
    desc["tmax"] = {i: rng.choice(BOUNDS) for i in range(n)}
    # adjacent piecewise fits of one reaction
    if rng.random() < 0.6:
        bs = sorted(rng.sample([5.0, 10.0, 50.0, 300.0, 1000.0, 5000.0, 41000.0, 11604.525, 1234567.0, 2.7255, 123456.789], rng.randint(2, 5)))
        base = desc["reactions"][0]
        start = len(desc["reactions"])
        for a, b in zip(bs, bs[1:]):
            desc["reactions"].append(base)
            i = len(desc["reactions"]) - 1
            desc["tmin"][i], desc["tmax"][i] = a, b
        desc["adjacent"] = (start, bs)
    return desc


def exec_rates(res, desc, case):
    """channel C: the rendered EvalRates (CVODE and Odeint) compiled as it stands and called on a zeroed array at temperatures at,
    next to and far from every bound: k[i] is non-zero exactly when Tmin <= T < Tmax (every reaction gets a coefficient that
    is positive at every positive temperature).  Independent of how the guards are written."""
    d2 = dict(desc, beta=0.0, gamma=0.0, alpha={i: 0.25 * (i % 7 + 1) for i in range(len(desc["reactions"]))})
    d2.pop("rate_modifier", None)
    net = ol.build_network(d2)
    info, _ = ol.impl_ode(net)
    win = [(Fraction(r.temp_min), Fraction(r.temp_max)) for r in info.reactions]
    temps = sorted({float(T) for T in probes([b for w in win for b in w if b > 0])} - {0.0})
    preps = []
    for solver, srcs, inc, flag in [("cvode", ["naunet_rates.cpp"], "sundials", []), ("odeint", ["naunet_ode.cpp"], "boost", ["-DRATES_ODEINT"])]:
        net = ol.build_network(d2)
        tm = ["include/naunet_macros.h.j2", "include/naunet_data.h.j2", "include/naunet_ode.h.j2", "include/naunet_physics.h.j2",
              "include/naunet_constants.h.j2", "include/naunet_utilities.h.j2"] + [f"src/{f}.j2" for f in srcs]
        d = ol.render(net, solver, "dense" if solver == "cvode" else "rosenbrock4", "cpu", templates=tm)
        exe = d / "rates"
        preps.append((["g++", "-std=c++17", "-O0", "-w", "-Wl,--unresolved-symbols=ignore-all", *flag, "-I", str(CXX / inc), "-I", str(d / "include"),
                       "-o", str(exe), *[str(d / "src" / f) for f in srcs], str(CXX / "rates_driver.cpp")], exe, solver))
    diags = ol.compile_all([c for c, _, _ in preps])
    for (cmd, exe, solver), diag in zip(preps, diags):
        where = f"channel C ({solver} EvalRates, compiled)"
        if diag is not None:
            res.corr_disagreements += 1
            res.violation("correspondence", f"{where}: {diag}", case)
            continue
        r = subprocess.run([str(exe)], input="\n".join(repr(t) for t in temps) + "\n", stdout=subprocess.PIPE, text=True, timeout=120)
        rows = [[float(x) for x in l.split()] for l in r.stdout.splitlines()]
        if r.returncode != 0 or len(rows) != len(temps) or any(len(row) != len(win) for row in rows):
            res.corr_disagreements += 1
            res.violation("correspondence", f"{where}: the driver printed {len(rows)} rows for {len(temps)} temperatures", case)
            continue
        res.count(f"rates executed:{solver}")
        bad = None
        for T, row in zip(temps, rows):
            for i, (lo, hi) in enumerate(win):
                want = prop_active(lo, hi, Fraction(T))
                if (row[i] != 0.0) != want:
                    bad = f"{where}: reaction {i} with window [{float(lo)}, {float(hi)}) gets k = {row[i]!r} at T = {T!r}: it should be {'active' if want else 'inactive (0)'}"
                    break
            if bad:
                break
        if bad:
            res.violation("oracle", bad, dict(case, T=T))
    ol.cleanup_scratch()


def check_desc(res, model, desc, tag, channel_b=False):
    case = {"kind": "c06", "desc": desc}
    net = ol.build_network(desc)
    info, ode = ol.impl_ode(net)
    guards = []
    for pos, (r, st) in enumerate(zip(info.reactions, ode.rateeqns)):
        try:
            g, sym, ix, expr = rl.parse_assign(st)
        except ValueError as e:
            # the reader knows `if (Tgas>=a && Tgas<b) { k[i] = ...; }` and nested ifs; anything else it does not understand
            # (the compiled routine of channel C decides what the statement does)
            res.corr_disagreements += 1
            res.violation("correspondence", f"assignment {pos}: {e}", case)
            exec_rates(res, desc, case)
            return
        guards.append(g)
        tmin, tmax = Fraction(r.temp_min), Fraction(r.temp_max)
        shape = ("none" if tmin <= 0 and tmax <= 0 else "lower" if tmax <= 0 else "upper" if tmin <= 0 else "both")
        res.count(f"window={shape}")
        if ix != pos or sym != "k":
            res.violation("oracle", f"assignment {pos} writes {sym}[{ix}]", case)
            return
        for T in probes([x for x in (tmin, tmax) if x > 0]):
            if guard_active(g, T) != prop_active(tmin, tmax, T):
                res.violation("oracle", f"reaction {pos} with window [{float(tmin)}, {float(tmax)}) is {'active' if guard_active(g, T) else 'inactive'} at T={float(T)}; guard: {st.splitlines()[0]}", case)
                return
    if "adjacent" in desc:
        start, bs = desc["adjacent"]
        res.count("adjacent-fits")
        for T in probes(bs):
            act = [i for i in range(start, start + len(bs) - 1) if guard_active(guards[i], T)]
            inside = Fraction(bs[0]) <= T < Fraction(bs[-1])
            if (inside and len(act) != 1) or (not inside and act):
                res.violation("oracle", f"adjacent windows {bs}: {len(act)} reactions active at T={float(T)}", case)
                return
    if model is not None:
        srcs = [[rl.q(r.temp_min), rl.q(r.temp_max), "x"] for r in info.reactions]
        rep = model.call("rates.assign", srcs, [], [r.idxfromfile for r in info.reactions])
        for pos, ms in enumerate(rep[0]):
            if rl.model_guard(ms[0]) != guards[pos] or int(ms[1]) != pos:
                res.corr_disagreements += 1
                res.violation("correspondence", f"guard {pos}: model {ms[0]} vs implementation {guards[pos]}", case)
                return
    if channel_b:
        for solver, method, device, files in [("cvode", "dense", "cpu", ["src/naunet_fex.cpp", "src/naunet_jac.cpp", "src/naunet_rates.cpp"]),
                                              ("cvode", "sparse", "cpu", ["src/naunet_fex.cpp", "src/naunet_jac.cpp", "src/naunet_rates.cpp"]),
                                              ("cvode", "cusparse", "gpu", ["src/naunet_fex.cu", "src/naunet_jac.cu", "src/naunet_rates.cu"]),
                                              ("odeint", "rosenbrock4", "cpu", ["src/naunet_ode.cpp"])]:
            net = ol.build_network(desc)
            d = ol.render(net, solver, method, device)
            res.count(f"rendered:{method}")
            for f in files:
                src = (d / f).read_text()
                where = f"channel B ({solver}/{method} {f})"
                if "rates" in f or "ode.cpp" in f:
                    sts = rl.rates_statements(src)
                    try:
                        differ = len(sts) != len(ode.rateeqns) or any(rl.parse_assign(a)[0] != g for a, g in zip(sts, guards))
                    except ValueError as e:
                        res.corr_disagreements += 1
                        res.violation("correspondence", f"{where}: {e}", case)
                        differ = False
                    if differ:
                        res.violation("oracle", f"{where}: rendered EvalRates guards differ from the generator's", case)
                if "rates" in f:
                    continue
                # every function that calls EvalRates(k, ...) must zero-initialise k before and use it only after
                for m in re.finditer(r"EvalRates\(k, ", src):
                    if src[max(0, m.start() - 4):m.start()].strip().startswith("int"):
                        continue      # the definition itself
                    before = src[:m.start()]
                    decl = list(re.finditer(r"(?:realtype|double) k\[NREACTIONS\]\s*=\s*\{\s*(?:0(?:\.0*)?)?\s*\};", before))
                    fn_start = max(before.rfind("\nint "), before.rfind("\nvoid "), before.rfind("__global__ void"))
                    if not decl or decl[-1].start() < fn_start:
                        seg = src[max(fn_start, 0):m.start()]
                        bare = re.search(r"(?:static\s+)?(?:realtype|double) k\[NREACTIONS\]\s*;|static\s+(?:realtype|double) k\[NREACTIONS\]", seg)
                        # a declaration without initialiser followed by something that writes k before the call (a zeroing loop, memset,
                        # std::fill, a helper that is handed k): the reader cannot tell what it writes; the compiled sequence drivers decide
                        writes = bare and not bare.group(0).startswith("static") and re.search(r"\bk\s*\[[^\]]*\]\s*=[^=]|\(\s*k\s*[,)]|\bk\s*,|\bk\s*\+", seg[bare.end():])
                        if bare and not writes:
                            res.violation("oracle", f"{where}: k[] is not zero-initialised before EvalRates is called ({bare.group(0)!r}): a reaction outside its window keeps an indeterminate or stale coefficient", case)
                        else:
                            res.corr_disagreements += 1
                            res.violation("correspondence", f"{where}: the reader does not find how k[] is declared before EvalRates is called", case)
                        break
                    use = re.search(r"\bk\[\d+\]", src[fn_start:m.start()])
                    if use:
                        res.violation("oracle", f"{where}: k[] used before EvalRates", case)
                        break
        ol.cleanup_scratch()
        exec_rates(res, desc, case)
    res.case(("c06", tag, repr(desc)), sample={"windows": [(desc["tmin"][i], desc["tmax"][i]) for i in range(min(5, len(desc["reactions"])))],
                                             "rateeqns[0]": ode.rateeqns[0][:90]},
             nontrivial=any(g[0] != "none" for g in guards))


CXX = fw.VERIF / "harness" / "cxx"
SEQ_DESCS = [
    {"reactions": [(["C", "O"], ["CO"]), (["C", "O"], ["CO"]), (["CO"], ["C", "O"])], "tmin": {0: 10.0, 1: 100.0}, "tmax": {0: 100.0, 1: 1000.0}},
    {"reactions": [(["H", "H"], ["H2"]), (["H2"], ["H", "H"]), (["H", "CO"], ["HCO"])], "tmin": {0: 300.0, 2: -1.0}, "tmax": {0: -1.0, 2: 50.0}},
]


def check_sequence(res, desc, tag):
    """channel C: the rendered right-hand side (and the Odeint Jacobian) evaluated at a sequence of temperatures in one
    process must give, at each temperature, what a fresh process gives there: a reaction that has left its window
    contributes nothing, whatever was evaluated before"""
    temps = sorted({t for b in list(desc.get("tmin", {}).values()) + list(desc.get("tmax", {}).values()) if b > 0 for t in (b * 0.5, b, b * 2.0)})
    if not temps:
        return
    order = [temps[len(temps) // 2]] + temps[::-1] + temps + [temps[0]]
    for solver, method, srcs, driver, inc in [
            ("odeint", "rosenbrock4", ["naunet_ode.cpp", "naunet_constants.cpp", "naunet_physics.cpp", "naunet_utilities.cpp"], "seq_odeint.cpp", "boost"),
            ("cvode", "dense", ["naunet_fex.cpp", "naunet_rates.cpp", "naunet_constants.cpp", "naunet_physics.cpp", "naunet_utilities.cpp"], "seq_cvode.cpp", "sundials")]:
        case = {"kind": "c06-sequence", "desc": desc, "backend": f"{solver}/{method}", "temperatures": order}
        net = ol.build_network(desc)
        d = ol.render(net, solver, method, "cpu")
        exe = d / "seq"
        r = subprocess.run(["g++", "-std=c++17", "-O0", "-w", "-I", str(CXX / inc), "-I", str(d / "include"), "-o", str(exe),
                            *[str(d / "src" / f) for f in srcs], str(CXX / driver)], stdout=subprocess.PIPE, stderr=subprocess.STDOUT, text=True)
        if r.returncode != 0:
            res.violation("correspondence", f"{solver}/{method}: rendered sources do not compile against the stand-in headers: {r.stdout[-500:]}", case)
            ol.cleanup_scratch()
            continue
        run = lambda ts: subprocess.run([str(exe)] + [repr(t) for t in ts], stdout=subprocess.PIPE, text=True).stdout.splitlines()
        together = run(order)
        nonzero = any(float(x) != 0.0 for l in together for x in l.split())
        res.count(f"sequence-run:{'some derivative non-zero' if nonzero else 'all derivatives zero'}")
        if tag[0] == "fixed" and not nonzero:
            res.violation("correspondence", f"{solver}/{method}: the sequence driver saw only zero derivatives on a network with an unwindowed reaction "
                                            f"(the driver no longer reaches the rendered right-hand side)", case)
        for k, T in enumerate(order):
            alone = run([T])
            if k >= len(together) or not alone or together[k].split() != alone[0].split():
                res.violation("oracle", f"{solver}/{method}: the derivative at T={T} differs when T={order[:k]} were evaluated before it in the same process: "
                                        f"{(together[k] if k < len(together) else '')[:120]} vs fresh {alone[0][:120] if alone else ''} (a reaction outside its "
                                        f"window keeps a stale coefficient)", case)
                break
        res.count(f"sequence-run:{solver}")
        ol.cleanup_scratch()
    # the batched kernel: all temperatures as the systems of ONE batch against one-system batches
    case = {"kind": "c06-sequence", "desc": desc, "backend": "cvode/cusparse (compiled for the host)", "temperatures": order}
    net = ol.build_network(desc)
    d = ol.render(net, "cvode", "cusparse", "gpu")
    srcs = []
    for f in ("naunet_fex", "naunet_rates", "naunet_constants", "naunet_physics", "naunet_utilities"):
        src_f = d / "src" / f"{f}.cu"
        if not src_f.exists():
            src_f = d / "src" / f"{f}.cpp"
        text = src_f.read_text()
        text = ol.rewrite_launches(text)       # kernel launches through SHIM_LAUNCH; nothing else is touched
        (d / "src" / f"{f}_host.cpp").write_text(text)
        srcs.append(str(d / "src" / f"{f}_host.cpp"))
    exe = d / "seq"
    r = subprocess.run(["g++", "-std=c++17", "-O0", "-w", "-x", "c++", "-DUSE_CUDA", "-D__global__=", "-D__device__=", "-D__host__=", "-D__constant__=",
                        "-include", str(CXX / "cuda" / "cuda_shim.h"), "-Wl,--unresolved-symbols=ignore-all", "-I", str(CXX / "cuda"), "-I", str(CXX / "sundials"),
                        "-I", str(d / "include"), "-o", str(exe), *srcs, str(CXX / "seq_cusparse.cpp")], stdout=subprocess.PIPE, stderr=subprocess.STDOUT, text=True)
    if r.returncode != 0:
        res.violation("correspondence", f"cvode/cusparse: rendered sources do not compile for the host against the CUDA stand-in: {r.stdout[-500:]}", case)
    else:
        run = lambda ts, th=1: subprocess.run([str(exe)] + [repr(t) for t in ts], stdout=subprocess.PIPE, text=True,
                                              env=dict(os.environ, SHIM_THREADS=str(th))).stdout.splitlines()
        # two launch geometries: one thread that serves every system in turn, and one thread per system (the package's own policy)
        for th in (1, len(order), 2):
            together = run(order, th)
            bad = False
            for k, T in enumerate(order):
                alone = run([T])
                if k >= len(together) or not alone or together[k].split() != alone[0].split():
                    res.violation("oracle", f"cvode/cusparse, {th} thread(s) for {len(order)} systems: system {k} of a batch (T={T}) gets another derivative than a batch "
                                            f"holding this system alone: {(together[k] if k < len(together) else '')[:120]} vs {alone[0][:120] if alone else ''} "
                                            f"(the other systems have T={order[:k]})", dict(case, threads=th))
                    bad = True
                    break
            if bad:
                break
        res.count("sequence-run:cusparse")
    ol.cleanup_scratch()
    res.case(("c06-sequence", tag, repr(desc)), sample={"temperatures": order[:6]}, nontrivial=True)


KROME_FIELDS = [("10", 10.0), ("1d4", 1e4), (">10", 10.0), (".GE.2.73d0", 2.73), ("<1e4", 1e4), (".LT.3d2", 300.0), (".LE.41000", 41000.0),
                ("NONE", None), ("N", None), ("none", None), ("", None), ("N/A", None), ("2.5d2", 250.0), (".GT.1.5d1", 15.0),
                # exponents with an explicit sign
                (".LE.1.0d+4", 1e4), ("1e+16", 1e16), (">1.0d+3", 1e3), ("4.1E+04", 41000.0), ("1.0d-1", 0.1)]


def check_krome(res, rng, tag):
    """KROME window fields -> temp_min/temp_max"""
    reset_globals()
    KROMEReaction.initialize()
    KROMEReaction.preprocessing("@format:idx,R,R,P,P,Tmin,Tmax,rate")
    (f1, v1), (f2, v2) = rng.choice(KROME_FIELDS), rng.choice(KROME_FIELDS)
    line = f"7,H,H,H2,,{f1},{f2},1.0d-10"
    case = {"kind": "c06-krome", "line": line}
    try:
        r = KROMEReaction(KROMEReaction.preprocessing(line))
    except Exception as e:
        res.violation("oracle", f"KROME line {line!r} raised {e!r}", case)
        return
    finally:
        KROMEReaction.finalize()
    want = (v1 if v1 is not None else -1.0, v2 if v2 is not None else -1.0)
    if (r.temp_min, r.temp_max) != want:
        res.violation("oracle", f"KROME window fields {f1!r},{f2!r} decoded to {(r.temp_min, r.temp_max)}, expected {want}", case)
    res.case(("c06-krome", f1, f2), sample={"krome_line": line, "window": [r.temp_min, r.temp_max]}, nontrivial=(v1 is not None or v2 is not None))
    res.count("krome-window-field")


def run(res, info):
    rng = random.Random(res.seed * 7919 + 6)
    model = fw.Model() if info["ok"] else None
    res.rule = ("networks x window shapes (none, zero, negative, lower only, upper only, both, adjacent piecewise fits) probed "
                "below / at / next to / above every bound; KROME Tmin/Tmax field spellings; non-trivial = at least one guarded reaction")
    res.assumptions = ["temperatures are exact rationals (each float bound is one)"]
    n_a = 300 if res.tier == "quick" else 5000
    n_b = 3 if res.tier == "quick" else 25
    for i in range(n_a):
        check_desc(res, model, gen_desc(rng), i, channel_b=(i < n_b))
    for i, d in enumerate(SEQ_DESCS):
        check_sequence(res, d, ("fixed", i))
    for i in range(0 if res.tier == "quick" else 10):
        d = gen_desc(rng)
        if any(v > 0 for v in list(d["tmin"].values()) + list(d["tmax"].values())):
            check_sequence(res, d, ("gen", i))
    for i in range(60 if res.tier == "quick" else 400):
        check_krome(res, rng, i)
    if model is not None:
        # the model's two readings (guard text vs property) agree on a grid, incl. boundaries
        for a in BOUNDS:
            for b in BOUNDS:
                for T in probes([x for x in (a, b) if x > 0])[:6]:
                    rep = model.call("rates.active", rl.q(a), rl.q(b), f"{T.numerator}/{T.denominator}")
                    if rep[0] != rep[1] or (rep[0] == "1") != prop_active(Fraction(a), Fraction(b), T):
                        res.violation("correspondence", f"model active({a},{b},{float(T)}) = {rep}", {"kind": "c06-model"})
        model.close()


def replay(rp, info):
    res = fw.Result("C06", "quick", 0)
    model = fw.Model() if info["ok"] else None
    case = rp.get("case") or {}
    if "desc" in case:
        d = case["desc"]
        d["reactions"] = [tuple(x) for x in d["reactions"]]
        for k in ("idx", "tmin", "tmax"):
            if k in d:
                d[k] = {int(a): b for a, b in d[k].items()}
        if case.get("kind") == "c06-sequence":
            check_sequence(res, d, ("replay", 0))
        else:
            check_desc(res, model, d, "replay", channel_b=True)
    for v in res.violations:
        print(v["kind"], v["what"][:600])
    print("replay:", "FAILS" if res.violations else "passes")
    return 1 if res.violations else 0
