"""C19 — Solve integrates exactly the requested interval or reports failure.
Channel C is the only way to reach Naunet::Solve / HandleError (they exist only as generated C++): the
rendered dense and sparse naunet.cpp are compiled against a SUNDIALS stand-in and a scripted mock CVODE whose
'solution' is y(t) = y0 + t, so the final state measures the integrated time.  Correspondence: return code,
final state, number of integrator calls and re-initialisations, logging of the initial state against
Model.Solve on the same scripts.  Oracle (no model): success => state advanced by exactly dt; failure <=>
initial state logged; unrecoverable first flag => immediate failure; nothing but failures => failure.
Odeint: rendered naunet.cpp + naunet_ode.cpp against a Boost stand-in whose integrate_adaptive calls the
observer a scripted number of times.  cuSPARSE (no nvcc here): rendered text only."""
import itertools
import math
import os
import random
import re
import subprocess
from fractions import Fraction

from .. import framework as fw
from .. import odelib as ol
from ..impl import Network, Reaction, ReactionType, reset_globals, quiet
from naunet.templateloader import TemplateLoader

TRUST = ["harness/cxx: the SUNDIALS / Boost stand-in headers and the scripted mock integrators (CVode contract: success returns tout, failure returns "
         "a negative flag and the time reached with the state advanced to it; CVodeReInit resets the clock)", "g++",
         "pow(10, log10(dt) - level + level*step/n) is compared through its double value (relative tolerance 1e-9 on the final state)"]
CXX = fw.VERIF / "harness" / "cxx"
FLAGS = [-1, -2, -3, -4, -5, -6, -7, -9, -22]
MODEL_CACHE = {}


def network():
    reset_globals()
    return Network(reactions=[Reaction(["He", "C"], ["He", "C"], -1.0, -1.0, 1e-10, 0.0, 0.0, ReactionType.GAS_TWOBODY, idxfromfile=0)])


def build_cvode(method):
    d = ol.scratch_dir()
    tl = TemplateLoader("cvode", method, "cpu")
    with quiet():
        tl.render("naunet", network(), path=d, save=True)
    exe = d / "mock"
    r = subprocess.run(["g++", "-std=c++17", "-O0", "-w", "-I", str(CXX / "sundials"), "-I", str(d / "include"), "-o", str(exe),
                        str(d / "src" / "naunet.cpp"), str(CXX / "mock_cvode.cpp")], stdout=subprocess.PIPE, stderr=subprocess.STDOUT, text=True)
    return d, exe, r


def build_odeint():
    d = ol.scratch_dir()
    tl = TemplateLoader("odeint", "rosenbrock4", "cpu")
    with quiet():
        tl.render("naunet", network(), path=d, save=True)
    exe = d / "mock"
    srcs = [str(d / "src" / f) for f in ("naunet.cpp", "naunet_ode.cpp", "naunet_constants.cpp", "naunet_physics.cpp", "naunet_utilities.cpp")]
    r = subprocess.run(["g++", "-std=c++17", "-O0", "-w", "-I", str(CXX / "boost"), "-I", str(d / "include"), "-o", str(exe), *srcs,
                        str(CXX / "mock_odeint.cpp")], stdout=subprocess.PIPE, stderr=subprocess.STDOUT, text=True)
    return d, exe, r


def script_text(cs, rs):
    items = []
    for e in cs:
        items.append("c:ok" if e == "ok" else f"c:{e[0]}:{float(e[1])!r}")
    for e in rs:
        items.append("r:ok" if e == "ok" else f"r:{e}")
    return ",".join(items)


def g_table():
    tab = []
    for level in range(1, 6):
        n = 10 * level
        row = []
        for step in range(1, n + 1):
            expo = -float(level) + float(level) * float(step) / float(n)
            row.append(Fraction(1) if step == n else Fraction(math.pow(10.0, expo)))
        tab.append(row)
    return tab


def q(x):
    f = Fraction(x)
    return f"{f.numerator}/{f.denominator}"


def gen_scripts(rng, n_random):
    out = []
    rhos = [Fraction(0), Fraction(3, 10), Fraction(9, 10)]
    # exhaustive: every first outcome; every pair (first failure, second event at each of the first 12 call positions)
    out.append(([], []))
    for f in FLAGS:
        for rho in rhos[:2]:
            out.append(([(f, rho)], []))
    for f1 in (-1, -4, -6):
        for pos in range(1, 13):
            for f2 in (-1, -3, -5, -6, -8):
                cs = [(f1, Fraction(1, 4))] + ["ok"] * (pos - 1) + [(f2, Fraction(1, 2))]
                out.append((cs, []))
    # one failure in each level up to level k, then success
    for k in range(1, 7):
        for f in (-1, -2, -6):
            out.append(([(f, Fraction(1, 3))] * k, []))
    # re-initialisation failures
    for k in range(0, 4):
        out.append(([(-1, Fraction(1, 5))] * (k + 1), ["ok"] * k + [-1]))
    out.append(([(-6, Fraction(1, 5))], [-3]))
    # random long scripts
    for _ in range(n_random):
        ncall = rng.randint(1, 160)
        cs = ["ok"] * ncall
        for _ in range(rng.randint(1, 8)):
            cs[rng.randrange(ncall)] = (rng.choice(FLAGS[:4] * 3 + [-6, -6] + FLAGS[4:]), rng.choice(rhos + [Fraction(rng.randint(0, 99), 100)]))
        rs = []
        if rng.random() < 0.15:
            rs = ["ok"] * rng.randint(0, 3) + [rng.choice([-1, -22])]
        out.append((cs, rs))
    return out


def run_bin(exe, cwd, *args):
    r = subprocess.run([str(exe), *[str(a) for a in args]], cwd=str(cwd), stdout=subprocess.PIPE, stderr=subprocess.STDOUT, text=True, timeout=60)
    return r.stdout.split()


def check_method(res, model, method, scripts, tab):
    d, exe, r = build_cvode(method)
    if r.returncode != 0:
        res.violation("correspondence", f"rendered cvode/{method} naunet.cpp does not compile against the SUNDIALS stand-in: {r.stdout[-600:]}", {"method": method})
        return
    tabq = [[q(x) for x in row] for row in tab]
    for k, (cs, rs) in enumerate(scripts):
        dt, y0 = (100.0, 5.0) if k % 3 else (3.0e7, 0.25)
        case = {"kind": "c19", "method": method, "script": script_text(cs, rs), "dt": dt, "y0": y0}
        out = run_bin(exe, d, script_text(cs, rs), repr(dt), repr(y0))
        if len(out) != 6:
            res.violation("correspondence", f"{method}: mock run produced {out}", case)
            continue
        flag, y, calls, reinits, logged = int(out[0]), float(out[1]), int(out[2]), int(out[3]), int(out[4])
        fails = [e for e in cs if e != "ok"]
        res.count(f"method={method}")
        res.count("success" if flag == 0 else "failure")
        res.count(f"integrator calls={'1' if calls == 1 else '2-11' if calls < 12 else '12-40' if calls < 41 else '41+'}")
        # ---- oracle
        if flag == 0 and abs(y - (y0 + dt)) > 1e-9 * dt:
            res.violation("oracle", f"{method}: Solve returns success but the state advanced by {y - y0!r}, requested {dt!r} (script {script_text(cs, rs)[:200]})", case)
        if flag != 0 and not logged:
            res.violation("oracle", f"{method}: Solve returns failure but the initial state is not in the error record", case)
        if flag != 0 and logged and abs(float(out[5]) - y0) > 1e-6 * abs(y0):
            res.violation("oracle", f"{method}: Solve returns failure and logs y[0] = {float(out[5])!r} as the initial condition, but it was called with {y0!r} "
                                    f"(script {script_text(cs, rs)[:200]})", case)
        if flag == 0 and logged:
            res.violation("oracle", f"{method}: Solve returns success but logs an unrecoverable error", case)
        if not fails and (flag != 0 or calls != 1):
            res.violation("oracle", f"{method}: no integrator failure, yet flag={flag} calls={calls}", case)
        if cs and cs[0] != "ok" and (cs[0][0] <= -5 and cs[0][0] != -6) and (flag == 0 or calls != 1):
            res.violation("oracle", f"{method}: first call fails with unrecoverable flag {cs[0][0]} but Solve returns {flag} after {calls} calls", case)
        if cs and all(e != "ok" for e in cs) and len(cs) >= 6 and not rs and flag == 0:
            res.violation("oracle", f"{method}: every integrator call fails, yet Solve returns success", case)
        # ---- correspondence
        if model is not None:
            key = (k, dt, y0)
            if key not in MODEL_CACHE:
                MODEL_CACHE[key] = model.call("solve.run", q(dt), q(y0), ["ok" if e == "ok" else [e[0], q(e[1])] for e in cs],
                                              ["ok" if e == "ok" else e for e in rs], tabq)
            m = MODEL_CACHE[key]
            mres, my, mcalls, mre, mlog = m
            n, dd = my.split("/")
            myf = int(n) / int(dd)
            same = ((mres == "success") == (flag == 0) and int(mcalls) == calls and int(mre) == reinits and (mlog != "none") == bool(logged)
                    and abs(myf - y) <= 1e-9 * max(abs(y), dt))
            if not same:
                res.corr_disagreements += 1
                res.violation("correspondence", f"{method}: script {script_text(cs, rs)[:200]}: implementation flag={flag} y={y!r} calls={calls} reinits={reinits} "
                                                f"logged={logged} vs model {mres} y={myf!r} calls={mcalls} reinits={mre} logged={mlog}", case)
        res.case(("c19", method, k), sample={"method": method, "script": script_text(cs, rs)[:80], "out": out}, nontrivial=bool(fails))
    ol.cleanup_scratch()


def check_odeint(res, model):
    d, exe, r = build_odeint()
    if r.returncode != 0:
        res.violation("correspondence", f"rendered odeint sources do not compile against the Boost stand-in: {r.stdout[-600:]}", {"method": "odeint"})
        return
    # the budget is given to Init, or to Init and then changed through Reset (the budget in force is the last one given)
    for (mx, n), via in itertools.product(itertools.product((1, 5, 500), (0, 1, 4, 5, 6, 499, 500, 501, 1000)), (None, 3, 700)):
        if via == mx:
            continue
        out = run_bin(exe, d, n, mx, 100.0, 5.0, *([via] if via is not None else []))
        case = {"kind": "c19-odeint", "mxsteps": mx, "observer_calls": n, "init_budget_before_reset": via}
        flag = int(out[0])
        if (n > mx) != (flag != 0):
            res.violation("oracle", f"odeint: {n} observer calls with mxsteps={mx}"
                                    + (f" (set through Reset after Init with {via})" if via is not None else "") + f": Solve returns {flag}", case)
        if model is not None:
            m = model.call("solve.odeint", mx, n, *([via] if via is not None else []))
            if (m == "success") != (flag == 0):
                res.corr_disagreements += 1
                res.violation("correspondence", f"odeint: mxsteps={mx} calls={n}: implementation {flag}, model {m}", case)
        res.count("odeint runs")
        res.case(("c19-odeint", mx, n, via), nontrivial=n > 0)
    # PyWrapSolve of the odeint back-end drops the flag (text)
    src = (d / "src" / "naunet.cpp").read_text()
    m = re.search(r"PyWrapSolve\(.*?\n\}", src, re.S)
    if m and re.search(r"^\s*Solve\(abund, dt, data\);", m.group(0), re.M):
        res.violation("oracle", "odeint PyWrapSolve calls Solve(abund, dt, data) and discards the returned flag: a failure is delivered to Python as success",
                      {"kind": "c19-text", "finding": "C19-odeint-pywrap-drops-flag"})
    ol.cleanup_scratch()


def check_cusparse_text(res, model):
    d = ol.scratch_dir()
    tl = TemplateLoader("cvode", "cusparse", "gpu")
    with quiet():
        tl.render("naunet", network(), templates=["src/naunet.cpp.j2"], path=d, save=True)
    src = next(d.glob("src/naunet.c*")).read_text()
    body = src[src.index("int Naunet::Solve("):]
    body = body[:body.index("\n}\n") + 3] if "\n}\n" in body else body
    after = body[body.index("cvflag = CVode("):] if "cvflag = CVode(" in body else ""
    checked = bool(re.search(r"HandleError\(|CheckFlag\(&cvflag, \"CVode\"|if \(cvflag < 0\)", after))
    if model is not None:
        m = model.call("solve.cusparse", "100/1", "5/1", [[-4, "0/1"]])
        if (m[0] == "success") == checked:
            res.corr_disagreements += 1
            res.violation("correspondence", f"cusparse Solve: the rendered text {'checks' if checked else 'ignores'} the flag of CVode, the model returns {m[0]}", {"kind": "c19-text"})
    if not checked:
        res.violation("oracle", "cusparse Solve ignores the flag returned by CVode and returns NAUNET_SUCCESS (rendered text: no HandleError / flag test after "
                                "'cvflag = CVode('): an integrator failure is reported as success", {"kind": "c19-text", "finding": "C19-cusparse-ignores-failure"})
    res.count("cusparse text checked")
    ol.cleanup_scratch()


def network_thermal():
    """a network with a temperature equation: NEQUATIONS = NSPECIES + 1"""
    reset_globals()
    return Network(reactions=[Reaction(["H", "e-"], ["H+", "e-", "e-"], -1.0, -1.0, 1e-10, 0.0, 0.0, ReactionType.GAS_TWOBODY, idxfromfile=0)],
                   cooling=["CIC_HI"])


def check_cusparse_exec(res, model, scripts, thermal=False):
    """channel C for the cuSPARSE variant: the rendered naunet.cpp (gpu) compiled for the host against the CUDA stand-in header and the
    scripted mock CVode, one system.  The same oracle as for dense / sparse; the executed form of the recorded finding
    C19-cusparse-ignores-failure (a failing CVode, Solve returns success) carries the finding id, anything else does not."""
    d = ol.scratch_dir()
    tl = TemplateLoader("cvode", "cusparse", "gpu")
    with quiet():
        tl.render("naunet", network_thermal() if thermal else network(), path=d, save=True)
    src = next(d.glob("src/naunet.c*"))
    exe = d / "mock"
    r = subprocess.run(["g++", "-std=c++17", "-O0", "-w", "-x", "c++", "-DUSE_CUDA", "-DMOCK_CUDA", "-no-pie", "-Wl,--unresolved-symbols=ignore-all", "-D__global__=", "-D__device__=", "-D__host__=", "-D__constant__=",
                        "-include", str(CXX / "cuda" / "cuda_shim.h"), "-I", str(CXX / "cuda"), "-I", str(CXX / "sundials"), "-I", str(d / "include"),
                        "-o", str(exe), str(src), *[str(f) for f in sorted(d.glob("src/naunet_renorm.c*")) + sorted(d.glob("src/naunet_physics.c*"))],
                        str(CXX / "mock_cvode.cpp")], stdout=subprocess.PIPE, stderr=subprocess.STDOUT, text=True)
    if r.returncode != 0:
        res.corr_disagreements += 1
        res.violation("correspondence", f"rendered cvode/cusparse naunet.cpp does not compile for the host against the CUDA stand-in: {r.stdout[-600:]}", {"method": "cusparse"})
        ol.cleanup_scratch()
        return
    for k, (cs, rs) in enumerate(scripts):
        dt, y0 = (100.0, 5.0) if k % 3 else (3.0e7, 0.25)
        case = {"kind": "c19", "method": "cusparse", "script": script_text(cs, rs), "dt": dt, "y0": y0}
        out = run_bin(exe, d, script_text(cs, rs), repr(dt), repr(y0))
        if len(out) != 6:
            res.corr_disagreements += 1
            res.violation("correspondence", f"cusparse: mock run produced {out}", case)
            continue
        flag, y, calls = int(out[0]), float(out[1]), int(out[2])
        res.count("method=cusparse (executed)")
        if model is not None:
            m = model.call("solve.cusparse", q(dt), q(y0), ["ok" if e == "ok" else [e[0], q(e[1])] for e in cs])
            my = Fraction(m[1]) if isinstance(m, list) and len(m) == 2 else None
            if my is None or (m[0] == "success") != (flag == 0) or abs(float(my) - y) > 1e-9 * max(abs(y), 1.0):
                res.corr_disagreements += 1
                res.violation("correspondence", f"cusparse: implementation returns {flag} with state {y!r} after {calls} call(s), the model {m}", case)
        if flag == 0 and abs(y - (y0 + dt)) > 1e-9 * dt:
            first_fails = bool(cs) and cs[0] != "ok"
            res.violation("oracle", f"cusparse (executed): Solve returns success but the state advanced by {y - y0!r}, requested {dt!r}: the flag of the failing CVode call "
                                    f"is ignored (script {script_text(cs, rs)[:120]})",
                          dict(case, finding="C19-cusparse-ignores-failure") if first_fails and calls == 1 else case)
        if flag != 0 and not any(e != "ok" for e in cs):
            res.violation("oracle", f"cusparse (executed): no integrator failure, yet Solve returns {flag}", case)
    # batches: every system of a batch is handed to the integrator and copied back (success script)
    for nsys in (2, 3, 7, 64):
        case = {"kind": "c19", "method": "cusparse", "script": "", "dt": 100.0, "y0": 5.0, "nsystem": nsys}
        out = run_bin(exe, d, "", repr(100.0), repr(5.0), nsys)
        if len(out) != 9 or out[0] != "batch":
            res.corr_disagreements += 1
            res.violation("correspondence", f"cusparse: batch run of {nsys} systems produced {out}", case)
            continue
        lo, hi, flag = float(out[1]), float(out[2]), int(out[3])
        res.count("method=cusparse (executed, batch)")
        if flag != 0 or abs(lo) > 1e-9 or abs(hi) > 1e-9:
            res.violation("oracle", f"cusparse (executed): a batch of {nsys} systems with distinct states, no integrator failure: Solve returns {flag} and (final - start - dt) "
                                    f"ranges over [{lo!r}, {hi!r}]: not every system advanced from its own state by 100.0", case)
    # Reset to another batch size, then Solve again
    # illegal tolerances: the integrator rejects them and refuses to run; a successful return would mean nothing was integrated
    case = {"kind": "c19", "method": "cusparse", "script": "", "dt": 100.0, "y0": 5.0, "rtol": -1e-5}
    r_ = subprocess.run([str(exe), "", repr(100.0), repr(5.0)], cwd=str(d), stdout=subprocess.PIPE, stderr=subprocess.STDOUT, text=True, timeout=60,
                        env=dict(os.environ, MOCK_RTOL="-1e-5"))
    out = r_.stdout.split()
    if out[:1] == ["init-failed"]:
        res.count("method=cusparse (executed, illegal tolerance refused by Init)")
    elif len(out) == 6:
        res.count("method=cusparse (executed, illegal tolerance)")
        if int(out[0]) == 0 and abs(float(out[1]) - 105.0) > 1e-9:
            res.violation("oracle", f"cusparse (executed): a negative relative tolerance is rejected by the integrator, which then refuses to run, yet Solve returns success "
                                    f"with the state advanced by {float(out[1]) - 5.0!r} instead of 100.0", case)
    else:
        res.corr_disagreements += 1
        res.violation("correspondence", f"cusparse: run with an illegal tolerance produced {out}", case)
    for n1, n2 in ((3, 7), (7, 3), (1, 5), (64, 2), (3, 4100), (4100, 6000)):
        case = {"kind": "c19", "method": "cusparse", "script": "", "dt": 100.0, "y0": 5.0, "nsystem": n1, "reset_to": n2}
        out = run_bin(exe, d, "", repr(100.0), repr(5.0), n1, n2)
        try:
            i = out.index("after-reset")
            lo, hi, flag2 = float(out[i + 1]), float(out[i + 2]), int(out[out.index("after-reset-flag") + 1])
        except (ValueError, IndexError):
            res.corr_disagreements += 1
            res.violation("correspondence", f"cusparse: Reset run {n1} -> {n2} produced {out}", case)
            continue
        res.count("method=cusparse (executed, reset)")
        if flag2 != 0 or abs(lo) > 1e-9 or abs(hi) > 1e-9:
            res.violation("oracle", f"cusparse (executed): Init({n1}), Solve, Reset({n2}), Solve without integrator failure: the second Solve returns {flag2} and "
                                    f"(final - start - dt) ranges over [{lo!r}, {hi!r}]", case)
    ol.cleanup_scratch()


def run(res, info):
    rng = random.Random(res.seed * 7919 + 19)
    model = fw.Model() if info["ok"] else None
    res.rule = ("fault scripts for the scripted integrator: every first outcome (9 flags x 2 progress fractions), every second failure at the first 12 call "
                "positions x 5 flags after 3 kinds of first failure, one failure per level up to six levels, failing re-initialisations, random scripts "
                "of up to 160 calls with 1-8 failures; two (dt, y0) pairs; dense and sparse back-ends; Odeint observer budgets; non-trivial = at least one failure")
    res.assumptions = ["the integrator obeys CVODE's contract (see trusted base)", "no nvcc here: the cuSPARSE branch of Solve is read as text and compiled for the host against a CUDA stand-in header (one system, the scripted integrator)"]
    scripts = gen_scripts(rng, 120 if res.tier == "quick" else 4000)
    tab = g_table()
    for method in ("dense", "sparse"):
        check_method(res, model, method, scripts, tab)
    check_odeint(res, model)
    check_cusparse_text(res, model)
    check_cusparse_exec(res, model, scripts[:40] if res.tier == 'quick' else scripts[:400])
    check_cusparse_exec(res, model, scripts[:10] if res.tier == 'quick' else scripts[:100], thermal=True)
    if model:
        model.close()


def replay(rp, info):
    print("replay: case", str(rp.get("case"))[:800])
    return 0
