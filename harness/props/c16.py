"""C16 — renormalisation restores the reference elemental abundances.
Correspondence: the term lists of TemplateLoader._prepare_renorm_content (matrix, factor) against
Model.Renorm.  Oracle (no model, exact rationals): with the emitted matrix and factors - from the generator
(channel A) and from the rendered naunet_renorm.cpp (channel B, indices through the rendered macros) - solve
M r = ref, apply the update, and check with generator-side compositions that every element total relative to
hydrogen nuclei equals the reference ratio, electrons are untouched, everything stays finite, and the update is
the identity when the ratios already match."""
import random
import re
import subprocess
from fractions import Fraction

from .. import framework as fw
from .. import odelib as ol
from ..impl import Species, Network, Reaction, ReactionType, reset_globals, quiet
from naunet.templateloader import TemplateLoader, NetworkInfo

TRUST = ["exact rational Gaussian elimination in the harness stands for the dense LU of SUNDIALS (a non-singular system has one solution); "
         "channel C runs the rendered Naunet::SetReferenceAbund / Renorm against the SUNDIALS stand-in with a floating-point dense solve",
         "compositions used by the oracle are Species.element_count (C08)"]

ATOMS = ["H", "He", "C", "O", "N", "Si", "D"]
MOLS = ["H2", "CO", "OH", "H2O", "CH", "N2", "O2", "SiO", "HD", "CH3OH", "H+", "C+", "He+", "HCO+", "H3+", "H-", "#CO", "#H2O", "#H", "e-"]
TERM = re.compile(r"^\s*([-+0-9.eE]+|nan|inf) \* ab\[IDX_(\w+)\] / ([-+0-9.eE]+|nan|inf) / Hnuclei\s*$")
FTERM = re.compile(r"^\s*([-+0-9.eE]+|nan|inf) \* rptr\[IDX_ELEM_(\w+)\] / ([-+0-9.eE]+|nan|inf)\s*$")


def q(x):
    f = Fraction(x)
    return f"{f.numerator}/{f.denominator}"


def gen_species(rng, grains=False):
    sp = ["H"] + rng.sample(ATOMS[1:], rng.randint(1, 4))
    mols = [m for m in MOLS if all(a in sp or a in "+-#e" or a.isdigit() for a in re.findall(r"[A-Z][a-z]?|[+#e-]|\d", m))]
    sp += rng.sample(mols, min(len(mols), rng.randint(2, 8)))
    if "e-" not in sp and rng.random() < 0.7:
        sp.append("e-")
    if grains:
        sp += rng.sample(["GRAIN0", "GRAIN-", "GRAIN+"], rng.randint(1, 2))
    return sp


USER_ELEMENTS = ["e", "H", "He", "C", "O", "PAH", "Xx"]      # PAH, Xx: user-declared elements without an entry in the mass tables


def build(species):
    reset_globals()
    if any("PAH" in s_ or "Xx" in s_ for s_ in species):
        return Network(required_species=list(species), elements=list(USER_ELEMENTS), pseudo_elements=["CR", "PHOTON"])
    return Network(required_species=list(species))


def parse_matrix_entry(text):
    parts = [p for p in text.split(" + ")]
    if parts[0].strip() != "0.0":
        raise ValueError(f"entry does not start with 0.0: {text[:60]}")
    out = []
    for p in parts[1:]:
        m = TERM.match(p)
        if not m:
            raise ValueError(f"unrecognised matrix term {p!r}")
        out.append((m.group(1), m.group(2), m.group(3)))
    return out


def parse_factor(text):
    out = []
    for p in text.split(" + "):
        m = FTERM.match(p)
        if not m:
            raise ValueError(f"unrecognised factor term {p!r}")
        out.append((m.group(1), m.group(2), m.group(3)))
    return out


def solve(M, b):
    n = len(b)
    A = [row[:] + [b[i]] for i, row in enumerate(M)]
    for c in range(n):
        p = next((r for r in range(c, n) if A[r][c] != 0), None)
        if p is None:
            return None
        A[c], A[p] = A[p], A[c]
        A[c] = [x / A[c][c] for x in A[c]]
        for r in range(n):
            if r != c and A[r][c] != 0:
                f = A[r][c]
                A[r] = [x - f * y for x, y in zip(A[r], A[c])]
    return [A[i][n] for i in range(n)]


def check_renorm(res, where, case, species, elements, matrix_terms, factor_terms, rng, known):
    """matrix_terms[i][j] = [(num, alias, den)], factor_terms[k] = None | [(num, elemname, den)] (texts)"""
    n = len(elements)
    alias_idx = {s.alias: k for k, s in enumerate(species)}
    ename = [next(iter(e.element_count)) for e in elements]
    eidx = {nm: j for j, nm in enumerate(ename)}
    c2 = dict(case, finding=known) if known else case
    # finiteness: no zero divisor, no nan/inf literal
    for i in range(n):
        for j in range(n):
            for num, al, den in matrix_terms[i][j]:
                if float(den) == 0.0 or num in ("nan", "inf") or den in ("nan", "inf"):
                    res.violation("oracle", f"{where}: matrix entry ({ename[i]}, {ename[j]}) holds the term '{num} * ab[IDX_{al}] / {den} / Hnuclei' "
                                            f"(division by zero: the renormalised abundances are NaN)", c2)
                    return
    if "H" not in eidx:
        res.count("no hydrogen element (renormalisation not generated)")
        return
    ab = [Fraction(rng.randint(1, 999), rng.randint(1, 997)) for _ in species]
    comp = [[Fraction(s.element_count.get(nm, 0)) for nm in ename] for s in species]
    tot = [sum(comp[k][j] * ab[k] for k in range(len(species)) if not species[k].is_electron) for j in range(n)]
    Hn = tot[eidx["H"]]
    if Hn == 0:
        return
    M = [[sum(Fraction(num) * ab[alias_idx[al]] / Fraction(den) / Hn for num, al, den in matrix_terms[i][j]) for j in range(n)] for i in range(n)]
    for mode in ("random-reference", "matching-reference"):
        if mode == "random-reference":
            ref = [Fraction(rng.randint(1, 50), rng.randint(1, 50)) for _ in range(n)]
            ref[eidx["H"]] = Fraction(1)
        else:
            ref = [t / Hn for t in tot]
        r = solve(M, ref)
        if r is None:
            res.count("singular coupling matrix (skipped)")
            return
        new = []
        for k, s in enumerate(species):
            ft = factor_terms[k]
            if ft is None:
                new.append(ab[k])
                if not s.is_electron and any(s.element_count.get(nm, 0) for nm in ename):
                    res.violation("oracle", f"{where}: species {s.name} holds an element of the network but is left untouched (factor 1.0)", case)
                continue
            if s.is_electron:
                res.violation("oracle", f"{where}: the electron abundance is rescaled", case)
            new.append(ab[k] * sum(Fraction(num) * r[eidx[en]] / Fraction(den) for num, en, den in ft))
        tot2 = [sum(comp[k][j] * new[k] for k in range(len(species)) if not species[k].is_electron) for j in range(n)]
        H2 = tot2[eidx["H"]]
        for j in range(n):
            if H2 == 0 or tot2[j] / H2 != ref[j] / ref[eidx["H"]]:
                res.violation("oracle", f"{where} ({mode}): after renormalisation {ename[j]}/H = {float(tot2[j] / H2) if H2 else None!r}, reference "
                                        f"{float(ref[j])!r} (species {[s.name for s in species]})", c2)
                return
        if mode == "matching-reference" and new != ab:
            # outside the theorem's premise when a molecule holds an element that is no atomic species of the network
            orphan = sorted({el for s in species if not s.is_electron for el in s.element_count if el not in eidx})
            # ... or when a molecule holds an element without mass number: its weight 1 is not part of the molecule's mass number
            massless = sorted({el for s in species if not s.is_electron and len(s.element_count) > 1
                               for el in s.element_count if el in eidx and elements[eidx[el]].A <= 0})
            c3 = (dict(case, finding="C16-identity-needs-every-element-as-atom") if orphan
                  else dict(case, finding="C16-identity-massless-element-in-molecule") if massless else c2)
            res.violation("oracle", f"{where}: reference ratios already match but abundances change: {[float(x) for x in ab][:4]} -> "
                                    f"{[float(x) for x in new][:4]} (elements without atomic species: {orphan})", c3)
            return
    res.count("oracle systems solved")


def check_net(res, model, species_names, rng, tag, render=False):
    case = {"kind": "c16", "species": species_names}
    net = build(species_names)
    tl = TemplateLoader("cvode", "dense", "cpu")
    species = net.species
    elements = net.elements
    info = NetworkInfo(elements, species, net.reactions, net.heating, net.cooling, net.grains, net.shielding)
    rn = tl._prepare_renorm_content(info)
    n = len(elements)
    grains = any(s.is_grain for s in species)
    known = None
    for sp_, f in zip(species, rn.factor):
        if isinstance(f, str) and f.strip() == "":
            res.violation("oracle", f"species {sp_.name} shares no element with the network's atomic species: its update is emitted as "
                                    f"'ab[IDX_{sp_.alias}] = ab[IDX_{sp_.alias}] * ();' which is not C (network {species_names})", case)
            return
    try:
        mt = [[parse_matrix_entry(rn.matrix[i * n + j]) for j in range(n)] for i in range(n)]
        ft = [None if not isinstance(f, str) else parse_factor(f) for f in rn.factor]
    except ValueError as e:
        res.violation("correspondence", f"cannot parse the emitted renormalisation text: {e}", case)
        return
    res.count(f"elements={n}")
    res.count("with grains" if grains else "without grains")
    # ---- correspondence
    if model is not None:
        ename = [next(iter(e.element_count)) for e in elements]
        rep = model.call("renorm.terms", [q(e.A) for e in elements],
                         [[[int(s.element_count.get(nm, 0)) for nm in ename], q(s.A), s.is_electron] for s in species])
        m_mat, m_fac = rep
        aliases = [s.alias for s in species]

        def canon_m(l):
            return [(Fraction(a), aliases[int(k)], Fraction(d)) for a, k, d in l]

        def canon_f(l):
            return [(Fraction(a), ename[int(j)], Fraction(d)) for a, j, d in l]
        for i in range(n):
            for j in range(n):
                got = [(Fraction(a), al, Fraction(d)) for a, al, d in mt[i][j]]
                if got != canon_m(m_mat[i * n + j]):
                    res.corr_disagreements += 1
                    res.violation("correspondence", f"matrix entry ({i},{j}): implementation {mt[i][j]} vs model {m_mat[i * n + j]}", case)
                    break          # the oracle below then looks for an input on which the property fails
        # exact text (C16.matrix_text_is_entry / factor_text_is_factor are about these very strings); the model
        # leaves printed numbers as {num/den}, written here as Python prints the float
        rt = model.call("renorm.text", [q(e.A) for e in elements],
                        [[[int(s.element_count.get(nm, 0)) for nm in ename], q(s.A), s.is_electron] for s in species],
                        [s.alias for s in species], ename)
        pynum = lambda m: repr(float(Fraction(m.group(1))))
        mtxt = [re.sub(r"\{(-?\d+/\d+)\}", pynum, t) for t in rt[0]]
        ftxt = [t if t == "one" else re.sub(r"\{(-?\d+/\d+)\}", pynum, t) for t in rt[1]]
        for idx, (a_, b_) in enumerate(zip(rn.matrix, mtxt)):
            if a_ != b_:
                res.corr_disagreements += 1
                res.violation("correspondence", f"text of matrix entry {idx}: implementation {a_[:160]!r} != model text {b_[:160]!r}", case)
                break
        for k, (f_, b_) in enumerate(zip(rn.factor, ftxt)):
            if (b_ == "one") != (not isinstance(f_, str)) or (isinstance(f_, str) and f_ != b_):
                res.corr_disagreements += 1
                res.violation("correspondence", f"text of the factor of {species[k].name}: implementation {str(f_)[:160]!r} != model text {b_[:160]!r}", case)
                break
        res.count("renormalisation texts compared exactly", len(mtxt) + len(ftxt))
        for k, s in enumerate(species):
            want = None if m_fac[k] == "one" else canon_f(m_fac[k])
            got = None if ft[k] is None else [(Fraction(a), en, Fraction(d)) for a, en, d in ft[k]]
            if got != want:
                res.corr_disagreements += 1
                res.violation("correspondence", f"factor of {s.name}: implementation {ft[k]} vs model {m_fac[k]}", case)
                break
    # ---- oracle, channel A
    check_renorm(res, "generator", case, species, elements, mt, ft, rng, known)
    # ---- channel B
    if render:
        d = ol.render(net, templates=["src/naunet_renorm.cpp.j2", "include/naunet_macros.h.j2"])
        src = (d / "src" / "naunet_renorm.cpp").read_text()
        macros = ol.read_macros(d)
        ent = ol.extract_statements(src, r"IJth\(A, IDX_ELEM_\w+, IDX_ELEM_\w+\)")
        # the per-species updates: `ab[IDX_x] = ab[IDX_x] * (f);` and the compound spelling `ab[IDX_x] *= (f);` are
        # read alike; any other write to an abundance in the file is something this reader does not understand
        fn = src[src.index("RenormAbundance("):] if "RenormAbundance(" in src else src
        fn = ol.resolve_aliases(fn)
        upd = ol.extract_statements(fn, r"ab\[IDX_\w+\]")
        upd += [(l, f"{l} * ({r})" if not re.fullmatch(r"\(.*\)", r) else f"{l} * {r}")
                for l, r in ((l_.rstrip(" *"), r_) for l_, r_ in ol.extract_statements(fn, r"ab\[IDX_\w+\]\s*\*"))]
        odd = [f"{a_}[{sub}] {op}" for a_, sub, op in ol.array_writes(fn) if not (a_ == "ab" and op in ("=", "*=") and re.fullmatch(r"IDX_\w+", sub))]
        if odd:
            res.violation("correspondence", f"rendered naunet_renorm.cpp: the reader does not understand the statement(s) {odd[:3]}", case)
            upd = []
        ename = [next(iter(e.element_count)) for e in elements]
        mt2 = [[None] * n for _ in range(n)]
        ok = True
        for lhs, rhs in ent:
            mm = re.match(r"IJth\(A, IDX_ELEM_(\w+), IDX_ELEM_(\w+)\)", lhs)
            i, j = ol.macro_int(macros, "IDX_ELEM_" + mm.group(1)), ol.macro_int(macros, "IDX_ELEM_" + mm.group(2))
            try:
                mt2[i][j] = parse_matrix_entry(rhs)
            except (ValueError, TypeError) as e:
                res.violation("correspondence", f"rendered naunet_renorm.cpp: {e}", case)
                ok = False
                break
        ft2 = [None] * len(species)
        by_alias = {s.alias: k for k, s in enumerate(species)}
        for lhs, rhs in upd:
            al = re.match(r"ab\[IDX_(\w+)\]", lhs).group(1)
            mm = re.fullmatch(r"ab\[IDX_(\w+)\] \* \((.*)\)", rhs)
            if not mm or mm.group(1) != al or al not in by_alias:
                res.violation("correspondence", f"rendered update of {al}: {rhs[:80]}", case)
                ok = False
                break
            body = mm.group(2).strip()
            try:
                ft2[by_alias[al]] = None if body == "1.0" else parse_factor(body)
            except ValueError as e:
                res.violation("correspondence", f"rendered naunet_renorm.cpp: {e}", case)
                ok = False
        if odd:
            ok = False
        if ok and n and not ent:
            res.violation("correspondence", "rendered naunet_renorm.cpp: the reader finds no `IJth(A, IDX_ELEM_x, IDX_ELEM_y) = ...;` statement", case)
            ok = False
        if ok and any(x is None for row in mt2 for x in row):
            res.violation("oracle", f"rendered InitRenorm does not assign every matrix entry of the {n}x{n} system", case)
            ok = False
        if ok:
            check_renorm(res, "rendered naunet_renorm.cpp", case, species, elements, mt2, ft2, rng, known)
            res.count("rendered")
        ol.cleanup_scratch()
    res.case(("c16", tag, tuple(species_names)), sample={"species": species_names[:8], "matrix[0]": rn.matrix[0][:100] if rn.matrix else None},
             nontrivial=n >= 2)


FIXED = [["H", "O", "H2", "H2O", "OH", "e-"], ["H", "He", "C", "O", "CO", "H2", "HCO+", "e-", "#CO"], ["H", "D", "HD", "H2", "H+", "e-"],
         ["H"], ["H", "He"], ["He", "C", "CO"]]
GRAINS = [["H", "O", "H2O", "GRAIN0", "GRAIN-", "e-"], ["H", "He", "GRAIN0"], ["H", "C", "O", "CO", "GRAIN0", "GRAIN+", "GRAIN-", "e-", "#CO"]]
# a user-declared element without mass number, present as an atom and in ions: it weighs 1 like a dust grain
MASSLESS = [["H2", "CO", "He", "He+", "O", "C+", "H+", "PAH+", "PAH-", "H", "C", "PAH", "e-"], ["H", "Xx", "Xx+", "H2", "e-"]]
FINDINGS = [["H", "C", "CO", "e-"], ["H", "Xx", "XxH", "H2", "e-"]]
# an element that comes before H in the element list and a molecule holding several H per atom of it: when that molecule holds
# nearly everything, the first column's largest entry is in the H row and the LU factorisation must interchange rows
PIVOTING = [["H", "C", "CH4", "CH2", "H2", "e-"], ["H", "C", "D", "CH4", "CD4", "HD", "e-"]]


def run(res, info):
    rng = random.Random(res.seed * 7919 + 16)
    model = fw.Model() if info["ok"] else None
    res.rule = ("networks of 2-5 atomic species with 2-8 molecules / ions / ices built from them, electrons, (separately) dust grains; random positive "
                "rational abundances; reference = random ratios and = the current ratios; non-trivial = at least two elements")
    res.assumptions = ["the coupling matrix is non-singular (singular cases are counted and skipped)",
                       "a species without mass number (dust grain, user-declared element outside the mass tables) weighs 1 in matrix and factor"]
    n = 150 if res.tier == "quick" else 12000
    nb = 12 if res.tier == "quick" else 400
    for i, sp in enumerate(FIXED):
        check_net(res, model, sp, rng, ("fixed", i), render=True)
    for i, sp in enumerate((FIXED[:3] if res.tier == "quick" else FIXED + GRAINS) + PIVOTING):
        check_driver(res, sp, rng, ("driver", i))
        check_driver(res, sp, rng, ("driver-odeint", i), solver="odeint")
    for i, sp in enumerate(FINDINGS):
        check_net(res, model, sp, rng, ("finding", i), render=True)
    for i, sp in enumerate(GRAINS):
        check_net(res, model, sp, rng, ("grains", i), render=True)
    for i, sp in enumerate(MASSLESS):
        check_net(res, model, sp, rng, ("massless", i), render=True)
    for i in range(n):
        check_net(res, model, gen_species(rng, grains=(i % 4 == 3)), rng, i, render=i < nb)
    if model:
        model.close()


CXX = fw.VERIF / "harness" / "cxx"


def check_driver(res, species_names, rng, tag, solver="cvode"):
    """channel C: the rendered Naunet::SetReferenceAbund and Naunet::Renorm (cvode) compiled against the SUNDIALS
    stand-in (with a real dense solve) and called several times on ONE object: every call must restore the
    reference ratios, and a vector that already has them must come back unchanged"""
    case = {"kind": "c16-driver", "species": species_names}
    net = build(species_names)
    species = net.species
    ename = [next(iter(e.element_count)) for e in net.elements]
    if "H" not in ename or any(el not in ename for s in species if not s.is_electron for el in s.element_count):
        return
    case["solver"] = solver
    exe_dir = ol.render(net, "cvode", "dense", "cpu") if solver == "cvode" else ol.render(net, "odeint", "rosenbrock4", "cpu")
    d = exe_dir
    exe = d / "renorm"
    if solver == "cvode":
        srcs = ["naunet.cpp", "naunet_renorm.cpp", "naunet_physics.cpp", "naunet_constants.cpp", "naunet_utilities.cpp"]
        cmd = ["g++", "-std=c++17", "-O0", "-w", "-I", str(CXX / "sundials"), "-I", str(CXX), "-I", str(d / "include"), "-o", str(exe),
               *[str(d / "src" / f) for f in srcs], str(CXX / "mock_renorm.cpp")]
    else:
        # the Odeint Renorm solves with uBLAS lu_factorize / lu_substitute: the stand-in factorises with partial pivoting
        srcs = ["naunet.cpp", "naunet_ode.cpp", "naunet_renorm.cpp", "naunet_physics.cpp", "naunet_constants.cpp", "naunet_utilities.cpp"]
        cmd = ["g++", "-std=c++17", "-O0", "-w", "-I", str(CXX / "boost"), "-I", str(d / "include"), "-o", str(exe),
               *[str(d / "src" / f) for f in srcs], str(CXX / "mock_renorm_odeint.cpp")]
    r = subprocess.run(cmd, stdout=subprocess.PIPE, stderr=subprocess.STDOUT, text=True)
    if r.returncode != 0:
        res.violation("correspondence", f"rendered {solver} sources with Renorm do not compile against the stand-in: {r.stdout[-500:]}", case)
        ol.cleanup_scratch()
        return
    n = len(species)
    vec = lambda: [rng.uniform(0.1, 10.0) for _ in range(n)]
    ref = vec()

    def ratios(v):
        tot = {el: sum(s.element_count.get(el, 0) * v[k] for k, s in enumerate(species) if not s.is_electron) for el in ename}
        return {el: tot[el] / tot["H"] for el in ename}
    want = ratios(ref)
    match = [x * 3.5 for x in ref]
    # ... and vectors in which one species holds nearly everything (the coupling matrix then needs row interchanges)
    def skewed(k):
        v = vec()
        v[k] *= 1.0e4
        return v
    inputs = [vec(), vec(), match, vec()] + [skewed(k) for k in range(n) if not species[k].is_electron]
    out = subprocess.run([str(exe), ",".join(repr(x) for x in ref)] + [",".join(repr(x) for x in v) for v in inputs],
                         stdout=subprocess.PIPE, text=True).stdout.splitlines()
    if len(out) != len(inputs):
        res.violation("correspondence", f"the renormalisation driver printed {len(out)} lines for {len(inputs)} vectors", case)
    else:
        for k, (line, vin) in enumerate(zip(out, inputs)):
            f = line.split()
            got = [float(x) for x in f[1:]]
            if f[0] != "0" or len(got) != n or not all(x == x and abs(x) != float("inf") for x in got):
                res.violation("oracle", f"call {k + 1} of Renorm on one object returns flag {f[0]} / non-finite abundances {got[:4]}", dict(case, call=k + 1))
                break
            have = ratios(got)
            bad = [el for el in ename if abs(have[el] - want[el]) > 1e-9 * abs(want[el])]
            if bad:
                res.violation("oracle", f"call {k + 1} of Renorm on one object (reference set once): {bad[0]}/H = {have[bad[0]]!r}, reference {want[bad[0]]!r} "
                                        f"(species {[s.name for s in species]})", dict(case, call=k + 1))
                break
            if vin is match and any(abs(a - b) > 1e-9 * abs(b) for a, b in zip(got, vin)):
                res.violation("oracle", f"call {k + 1}: a vector that already has the reference ratios is changed: {vin[:3]} -> {got[:3]}", dict(case, call=k + 1))
                break
    # the other way of giving the reference: per-element values (opt 0), ratios relative to the H entry
    macros = ol.read_macros(d)
    eidx = {el: ol.macro_int(macros, "IDX_ELEM_" + el) for el in ename}
    refel = [0.0] * len(ename)
    for el in ename:
        refel[eidx[el]] = rng.uniform(0.05, 2.0)
    want0 = {el: refel[eidx[el]] / refel[eidx["H"]] for el in ename}
    arg0 = "opt0:" + ",".join(repr(x) for x in refel)
    v0 = vec()
    out0 = subprocess.run([str(exe), arg0, ",".join(repr(x) for x in v0)], stdout=subprocess.PIPE, text=True).stdout.splitlines()
    if len(out0) != 1 or out0[0].split()[0] != "0":
        res.violation("oracle", f"Renorm after SetReferenceAbund(ref, 0) returns {out0[:1]}", dict(case, call="opt0"))
    else:
        got0 = [float(x) for x in out0[0].split()[1:]]
        have0 = ratios(got0)
        bad = [el for el in ename if abs(have0[el] - want0[el]) > 1e-9 * abs(want0[el])]
        if bad:
            res.violation("oracle", f"reference given per element (opt 0): after Renorm {bad[0]}/H = {have0[bad[0]]!r}, reference {want0[bad[0]]!r} "
                                    f"(species {[s.name for s in species]})", dict(case, call="opt0"))
        else:
            # a vector that already has the reference ratios (the result just obtained) must come back unchanged
            again = subprocess.run([str(exe), arg0, ",".join(repr(x) for x in got0)], stdout=subprocess.PIPE, text=True).stdout.split()
            got1 = [float(x) for x in again[1:]]
            if len(got1) != n or any(abs(a - b) > 1e-9 * abs(b) for a, b in zip(got1, got0)):
                res.violation("oracle", f"reference given per element (opt 0): a vector that already has the reference ratios is changed: {got0[:3]} -> {got1[:3]} "
                                        f"(species {[s.name for s in species]})", dict(case, call="opt0-identity"))
    res.count("driver runs (SetReferenceAbund once, Renorm x4; per-element reference x2)")
    ol.cleanup_scratch()
    res.case(("c16-driver", tag, tuple(species_names)), sample={"species": species_names[:8], "calls": len(inputs)}, nontrivial=True)


def replay(rp, info):
    res = fw.Result("C16", "quick", 0)
    model = fw.Model() if info["ok"] else None
    case = rp.get("case") or {}
    if case.get("kind") == "c16-driver":
        check_driver(res, case["species"], random.Random(0), ("replay", 0))
    elif "species" in case:
        check_net(res, model, case["species"], random.Random(0), "replay", render=True)
    for v in res.violations:
        print(v["kind"], v["what"][:600])
    print("replay:", "FAILS" if res.violations else "passes")
    return 1 if res.violations else 0
