"""C04 — balanced networks give element- and charge-conserving generated dynamics.
Generator-side compositions define 'balanced'; oracle: the count-weighted (and charge-weighted)
sum of the emitted derivatives is exactly zero at random rational points, and the rendered
GetElementAbund equals the count-weighted sum of abundances; correspondence as in C01."""
import itertools
import random
import re
from collections import Counter
from fractions import Fraction

from .. import framework as fw
from .. import odelib as ol
from . import c01

TRUST = ["generator-side table of compositions (harness/props/c04.py POOL) defines which reactions are balanced"]

# name -> (element counts, charge); labels o/p and the ice prefix '#' do not change the composition
POOL = {
    "H": ({"H": 1}, 0), "H2": ({"H": 2}, 0), "oH2": ({"H": 2}, 0), "pH2": ({"H": 2}, 0), "D": ({"D": 1}, 0),
    "HD": ({"H": 1, "D": 1}, 0), "C": ({"C": 1}, 0), "O": ({"O": 1}, 0), "CO": ({"C": 1, "O": 1}, 0),
    "OH": ({"O": 1, "H": 1}, 0), "H2O": ({"H": 2, "O": 1}, 0), "He": ({"He": 1}, 0), "CH": ({"C": 1, "H": 1}, 0),
    "O2": ({"O": 2}, 0), "Si": ({"Si": 1}, 0), "SiO": ({"Si": 1, "O": 1}, 0), "S": ({"S": 1}, 0),
    "H+": ({"H": 1}, 1), "H-": ({"H": 1}, -1), "C+": ({"C": 1}, 1), "He+": ({"He": 1}, 1), "He++": ({"He": 1}, 2),
    "HCO+": ({"H": 1, "C": 1, "O": 1}, 1), "H3+": ({"H": 3}, 1), "oH3+": ({"H": 3}, 1), "H2D+": ({"H": 2, "D": 1}, 1),
    "oH2D+": ({"H": 2, "D": 1}, 1), "O-": ({"O": 1}, -1), "Si+": ({"Si": 1}, 1), "OH+": ({"O": 1, "H": 1}, 1),
    "e-": ({}, -1), "E": ({}, -1),
    "#H": ({"H": 1}, 0), "#CO": ({"C": 1, "O": 1}, 0), "#H2O": ({"H": 2, "O": 1}, 0), "#OH": ({"O": 1, "H": 1}, 0),
    "#O": ({"O": 1}, 0), "#H2": ({"H": 2}, 0),
    # formulas that name an element more than once
    "CH3": ({"C": 1, "H": 3}, 0), "HCO": ({"H": 1, "C": 1, "O": 1}, 0),
    "CH3OH": ({"C": 1, "H": 4, "O": 1}, 0), "HCOOH": ({"H": 2, "C": 1, "O": 2}, 0), "HOOH": ({"H": 2, "O": 2}, 0),
    "#CH3OH": ({"C": 1, "H": 4, "O": 1}, 0), "CH3OH2+": ({"C": 1, "H": 5, "O": 1}, 1),
    # several charge states of one base, both signs
    # dust grains of one group in three charge states
    "GRAIN0": ({"GRAIN": 1}, 0), "GRAIN-": ({"GRAIN": 1}, -1), "GRAIN+": ({"GRAIN": 1}, 1),
    # an ion that sticks without being neutralised: one parent on the surface in two charge states
    "#HCO+": ({"H": 1, "C": 1, "O": 1}, 1), "#HCO": ({"H": 1, "C": 1, "O": 1}, 0),
    "O--": ({"O": 1}, -2), "C--": ({"C": 1}, -2), "C-": ({"C": 1}, -1), "Si++": ({"Si": 1}, 2), "Si+++": ({"Si": 1}, 3),
}
ELEMENTS = ["H", "D", "He", "C", "O", "Si", "S", "GRAIN"]


def total(names):
    c = Counter()
    q = 0
    for n in names:
        e, ch = POOL[n]
        c.update(e)
        q += ch
    return +c, q


def gen_balanced(rng, pool, nre):
    """random balanced reactions: choose reactants, enumerate product multisets with equal totals"""
    out = []
    prods_by_total = {}
    for k in (1, 2, 3):
        for combo in itertools.combinations_with_replacement(pool, k):
            t = total(combo)
            prods_by_total.setdefault((frozenset(t[0].items()), t[1]), []).append(combo)
    tries = 0
    while len(out) < nre and tries < nre * 30:
        tries += 1
        nr = rng.choice([1, 2, 2, 2, 3])
        reac = [rng.choice(pool) for _ in range(nr)]
        if nr >= 2 and rng.random() < 0.25:
            reac[1] = reac[0]
        t = total(reac)
        cands = prods_by_total.get((frozenset(t[0].items()), t[1]), [])
        cands = [c for c in cands if sorted(c) != sorted(reac)] or cands
        if not cands:
            continue
        prod = list(rng.choice(cands))
        if rng.random() < 0.2:
            reac = reac + [rng.choice(["CR", "PHOTON", "CRPHOT"])]
        out.append((reac, prod))
    return out


def gen_desc(rng, large=False):
    spelling = rng.choice(["e-", "E"])
    names = [n for n in POOL if n not in ("e-", "E")]
    pool = rng.sample(names, rng.randint(5, 10 if not large else 22)) + [spelling]
    if rng.random() < 0.5:
        pool += [n for n in ("H", "H2", "H+", "#H", "#CO", "CO") if n not in pool]
    reactions = gen_balanced(rng, pool, rng.randint(1, 8) if not large else rng.randint(10, 40))
    if rng.random() < 0.3 and reactions:
        reactions.append(reactions[0])
    return {"reactions": reactions, "required": [rng.choice(names)] if rng.random() < 0.3 else []}


FIXED = [
    {"reactions": [(["H2", "C+"], ["CH", "H+"]), (["HCO+", "e-"], ["H", "CO"]), (["H", "H"], ["H2"]), (["CO"], ["#CO"]), (["#CO"], ["CO"])], "required": []},
    {"reactions": [(["oH2", "H+"], ["pH2", "H+"]), (["oH3+", "HD"], ["oH2D+", "oH2"]), (["H2D+", "E"], ["H", "H", "D"])], "required": ["He"]},
    {"reactions": [(["CH3OH"], ["CH3", "OH"]), (["HCOOH"], ["HCO", "OH"]), (["HOOH"], ["OH", "OH"]), (["CH3OH2+", "e-"], ["CH3OH", "H"]),
                   (["CH3OH"], ["#CH3OH"]), (["H", "O"], ["OH"]), (["C", "H"], ["CH"])], "required": []},
    {"reactions": [(["GRAIN0", "e-"], ["GRAIN-"]), (["GRAIN-", "H+"], ["GRAIN0", "H"]), (["GRAIN+", "e-"], ["GRAIN0"]), (["GRAIN0", "H+"], ["GRAIN+", "H"]),
                   (["H", "H"], ["H2"])], "required": []},
    {"reactions": [(["O-", "e-"], ["O--"]), (["O--", "H+"], ["O-", "H"]), (["C--", "He++"], ["C", "He"]), (["C-", "e-"], ["C--"]),
                   (["Si+++", "e-"], ["Si++"]), (["Si++", "O--"], ["SiO"]), (["O", "e-"], ["O-"])], "required": []},
    {"reactions": [(["HCO+"], ["#HCO+"]), (["#HCO+", "e-"], ["#HCO"]), (["#HCO"], ["HCO"]), (["HCO+", "e-"], ["HCO"]), (["#HCO+"], ["HCO+"])], "required": []},
    {"reactions": [(["He++", "e-"], ["He+"]), (["He+", "e-"], ["He", "PHOTON"]), (["H-", "H+"], ["H", "H"]), (["H", "CR"], ["H+", "e-"])], "required": []},
]


def impl_weights(a):
    """the implementation's own reading of the species (reported, not used as the oracle)"""
    return [(dict(s.element_count), s.charge) for s in a.species]


def check_desc(res, model, desc, rng, tag, channel_b=False):
    case = {"kind": "c04", "desc": desc}
    for r, p in desc["reactions"]:
        rr = [x for x in r if x in POOL]
        assert total(rr) == total([x for x in p if x in POOL]), (r, p)
    a = ol.analyse(desc, model)
    stmts = [ol.strip_lhs(s) for s in a.ode.fex]
    if a.model is not None:
        c01.corr_rhs(res, a, stmts, "channel A (ode.fex)", case)
    env = c01.make_env(a, rng)
    vals = {}
    for lhs, rhs in stmts:
        m = re.fullmatch(r"ydot\[IDX_(.+)\]", lhs)
        try:
            vals[m.group(1)] = ol.eval_expr(rhs, env)
        except Exception as e:
            res.violation("oracle", f"right-hand side not evaluable: {e!r}", case)
            return
    # the species of slot i is named a.species[i].name (possibly rewritten); compositions are looked up by name
    comp = []
    for s in a.species:
        nm = s.name if s.name in POOL else {"e-": "e-", "E": "E"}.get(s.name)
        if nm is None:
            res.violation("oracle", f"species {s.name} of the generated list is not one the network named", case)
            return
        comp.append(POOL[nm])
    res.count("ions" if any(q for _, q in comp) else "neutral-only")
    if any(s.name.startswith("#") for s in a.species):
        res.count("ice")
    if any(s.name[0] in "op" and s.name not in ("pH2",) or s.name == "pH2" for s in a.species):
        res.count("ortho/para")
    for w in ELEMENTS + ["charge"]:
        tot = Fraction(0)
        for s, (ec, q) in zip(a.species, comp):
            wt = q if w == "charge" else ec.get(w, 0)
            tot += wt * vals[s.alias]
        if tot != 0:
            res.violation("oracle", f"{w}-weighted sum of the generated derivatives is {tot}, not 0, for a balanced network", case)
            break
    if channel_b:
        net = ol.build_network(desc)
        d = ol.render(net, "cvode", "dense", "cpu", templates=["src/naunet_physics.cpp.j2", "include/naunet_macros.h.j2", "src/naunet_fex.cpp.j2"])
        src = (d / "src" / "naunet_physics.cpp").read_text()
        macros = ol.read_macros(d)
        y = env["y"]
        body = src[src.index("double GetElementAbund("):src.index("double GetMantleDens(")]
        found = {}
        for m in re.finditer(r"if \(elemidx == IDX_ELEM_(\w+)\) \{\s*return (.*?);", body, re.S):
            found[m.group(1)] = m.group(2)
        for el, expr in found.items():
            try:
                got = ol.eval_expr(expr, env)
            except Exception as e:
                res.violation("oracle", f"GetElementAbund({el}) not evaluable: {e!r}", case)
                break
            want = sum((ec.get(el, 0) * y[f"IDX_{s.alias}"] for s, (ec, q) in zip(a.species, comp)), Fraction(0))
            if got != want:
                res.violation("oracle", f"GetElementAbund({el}) evaluates to {got}, count-weighted sum is {want}", case)
                break
        # correspondence: the helper statements against Model.Physics (text of every element branch, mantle terms)
        if model is not None:
            hs = [[sp.alias, [[k, int(v)] for k, v in sp.element_count.items()], bool(sp.is_surface)] for sp in a.species]
            els = [next(iter(e.element_count.keys())) for e in net.elements]
            rep = model.call("phys.helpers", hs, els)
            if rep and rep[0] == "error":
                res.violation("correspondence", f"model rejected the helper request: {rep}", case)
            else:
                melems, mmantle = rep
                ws = lambda t: " ".join(t.split())
                for el, text, terms in melems:
                    got_txt = found.get(el)
                    if got_txt is None or ws("return " + got_txt + ";") != ws(text):
                        res.corr_disagreements += 1
                        res.violation("correspondence", f"GetElementAbund({el}): rendered {ws('return ' + (got_txt or '<missing>') + ';')!r} vs model {ws(text)!r}", case)
                        break
                if sorted(found) != sorted(e for e, _, _ in melems):
                    res.corr_disagreements += 1
                    res.violation("correspondence", f"GetElementAbund branches {sorted(found)} vs model {sorted(e for e, _, _ in melems)}", case)
                mm = re.search(r"double GetMantleDens\(double \*y\) \{\s*return (.*?);", src, re.S)
                want_m = " + ".join(f"y[IDX_{a.species[int(i)].alias}]" for i in mmantle) + " + 0.0"   # '+ 0.0' alone when there is no ice
                if mm is None or ws(mm.group(1)) != ws(want_m):
                    res.corr_disagreements += 1
                    res.violation("correspondence", f"GetMantleDens: rendered {ws(mm.group(1)) if mm else None!r} vs model {want_m!r}", case)
                res.count("helper statements compared with the model", len(melems) + 1)
        # GetHNuclei is the hydrogen total of the same helper (and 0.0 when hydrogen is no element of the network)
        mh = re.search(r"double GetHNuclei\(double \*y\) \{(.*?)\n\}", src, re.S)
        body_h = " ".join(mh.group(1).split()) if mh else None
        if body_h != "#ifdef IDX_ELEM_H return GetElementAbund(y, IDX_ELEM_H); #else return 0.0; #endif":
            res.corr_disagreements += 1
            res.violation("correspondence", f"GetHNuclei is not written as the hydrogen element total of GetElementAbund: {body_h!r}", case)
        atoms = {s.name for s in a.species if s.name in ELEMENTS} | ({"GRAIN"} if any(s.name == "GRAIN0" for s in a.species) else set())
        if set(found) != atoms:
            res.violation("oracle", f"GetElementAbund handles {sorted(found)} but the atomic species are {sorted(atoms)}", case)
        # conservation of the rendered Fex too
        st = c01.fex_statements((d / "src" / "naunet_fex.cpp").read_text())
        v2 = {}
        for lhs, rhs in st:
            v2[re.fullmatch(r"ydot\[IDX_(.+)\]", lhs).group(1)] = ol.eval_expr(rhs, env)
        for w in ELEMENTS + ["charge"]:
            tot = sum(((q if w == "charge" else ec.get(w, 0)) * v2[s.alias] for s, (ec, q) in zip(a.species, comp)), Fraction(0))
            if tot != 0:
                res.violation("oracle", f"rendered Fex: {w}-weighted sum is {tot}", case)
                break
        # macros must place every species in its own slot
        slots = sorted(ol.macro_int(macros, f"IDX_{s.alias}") for s in a.species)
        if slots != list(range(len(a.species))):
            res.violation("oracle", f"species slots {slots} are not 0..{len(a.species) - 1}", case)
        ol.cleanup_scratch()
    res.case(("c04", tag, ol.nontrivial_sig(desc)),
             sample={"reactions": [f"{' + '.join(r)} -> {' + '.join(p)}" for r, p in desc["reactions"]][:5]},
             nontrivial=len(desc["reactions"]) > 0)


def run(res, info):
    rng = random.Random(res.seed * 7919 + 4)
    model = fw.Model() if info["ok"] else None
    res.rule = ("balanced reactions found by enumerating product multisets with the reactants' element totals and charge over a "
                "50-species pool (ions, both electron spellings, ortho/para labels, isotopologues, ice species, formulas naming an element twice, several charge states of one base); non-trivial = "
                "at least one reaction")
    res.assumptions = ["compositions are the generator's (POOL); '*'-labelled species are outside the premise (C08 finding)"]
    n_a = 200 if res.tier == "quick" else 3000
    n_b = 8 if res.tier == "quick" else 60
    for i, d in enumerate(FIXED):
        check_desc(res, model, d, rng, ("fixed", i), channel_b=True)
    for i in range(n_a):
        check_desc(res, model, gen_desc(rng, large=(i % 7 == 0)), rng, i, channel_b=(i < n_b))
    if model:
        model.close()


def replay(rp, info):
    res = fw.Result("C04", "quick", 0)
    model = fw.Model() if info["ok"] else None
    case = rp.get("case") or {}
    if "desc" in case:
        d = case["desc"]
        d["reactions"] = [tuple(x) for x in d["reactions"]]
        check_desc(res, model, d, random.Random(0), "replay", channel_b=True)
    for v in res.violations:
        print(v["kind"], v["what"][:600])
    print("replay:", "FAILS" if res.violations else "passes")
    return 1 if res.violations else 0
