"""C04 — balanced networks give element- and charge-conserving generated dynamics.
Generator-side compositions define 'balanced'; oracle: the count-weighted (and charge-weighted)
sum of the emitted derivatives is exactly zero at random rational points, and the rendered
GetElementAbund equals the count-weighted sum of abundances; correspondence as in C01."""
import itertools
import random
import re
from collections import Counter
from fractions import Fraction

from .. import framework as fw
from .. import odelib as ol
from . import c01

TRUST = ["generator-side table of compositions (harness/props/c04.py POOL) defines which reactions are balanced",
         "channel C: g++ 12; the rendered naunet_physics.cpp compiled as it stands (tables of the shielding functions left unresolved, "
         "never called) and its element totals called by harness/cxx/phys_driver.cpp; doubles compared at relative 1e-12 (sums of positive terms)"]

# name -> (element counts, charge); labels o/p and the ice prefix '#' do not change the composition
POOL = {
    "H": ({"H": 1}, 0), "H2": ({"H": 2}, 0), "oH2": ({"H": 2}, 0), "pH2": ({"H": 2}, 0), "D": ({"D": 1}, 0),
    "HD": ({"H": 1, "D": 1}, 0), "C": ({"C": 1}, 0), "O": ({"O": 1}, 0), "CO": ({"C": 1, "O": 1}, 0),
    "OH": ({"O": 1, "H": 1}, 0), "H2O": ({"H": 2, "O": 1}, 0), "He": ({"He": 1}, 0), "CH": ({"C": 1, "H": 1}, 0),
    "O2": ({"O": 2}, 0), "Si": ({"Si": 1}, 0), "SiO": ({"Si": 1, "O": 1}, 0), "S": ({"S": 1}, 0),
    "H+": ({"H": 1}, 1), "H-": ({"H": 1}, -1), "C+": ({"C": 1}, 1), "He+": ({"He": 1}, 1), "He++": ({"He": 1}, 2),
    "HCO+": ({"H": 1, "C": 1, "O": 1}, 1), "H3+": ({"H": 3}, 1), "oH3+": ({"H": 3}, 1), "H2D+": ({"H": 2, "D": 1}, 1),
    "oH2D+": ({"H": 2, "D": 1}, 1), "O-": ({"O": 1}, -1), "Si+": ({"Si": 1}, 1), "OH+": ({"O": 1, "H": 1}, 1),
    "e-": ({}, -1), "E": ({}, -1),
    "#H": ({"H": 1}, 0), "#CO": ({"C": 1, "O": 1}, 0), "#H2O": ({"H": 2, "O": 1}, 0), "#OH": ({"O": 1, "H": 1}, 0),
    "#O": ({"O": 1}, 0), "#H2": ({"H": 2}, 0),
    # formulas that name an element more than once
    "CH3": ({"C": 1, "H": 3}, 0), "HCO": ({"H": 1, "C": 1, "O": 1}, 0),
    "CH3OH": ({"C": 1, "H": 4, "O": 1}, 0), "HCOOH": ({"H": 2, "C": 1, "O": 2}, 0), "HOOH": ({"H": 2, "O": 2}, 0),
    "#CH3OH": ({"C": 1, "H": 4, "O": 1}, 0), "CH3OH2+": ({"C": 1, "H": 5, "O": 1}, 1),
    # several charge states of one base, both signs
    # dust grains of one group in three charge states
    "GRAIN0": ({"GRAIN": 1}, 0), "GRAIN-": ({"GRAIN": 1}, -1), "GRAIN+": ({"GRAIN": 1}, 1),
    # an ion that sticks without being neutralised: one parent on the surface in two charge states
    "#HCO+": ({"H": 1, "C": 1, "O": 1}, 1), "#HCO": ({"H": 1, "C": 1, "O": 1}, 0),
    "O--": ({"O": 1}, -2), "C--": ({"C": 1}, -2), "C-": ({"C": 1}, -1), "Si++": ({"Si": 1}, 2), "Si+++": ({"Si": 1}, 3),
}
ELEMENTS = ["H", "D", "He", "C", "O", "Si", "S", "GRAIN"]


def total(names):
    c = Counter()
    q = 0
    for n in names:
        e, ch = POOL[n]
        c.update(e)
        q += ch
    return +c, q


def gen_balanced(rng, pool, nre):
    """random balanced reactions: choose reactants, enumerate product multisets with equal totals"""
    out = []
    prods_by_total = {}
    for k in (1, 2, 3):
        for combo in itertools.combinations_with_replacement(pool, k):
            t = total(combo)
            prods_by_total.setdefault((frozenset(t[0].items()), t[1]), []).append(combo)
    tries = 0
    while len(out) < nre and tries < nre * 30:
        tries += 1
        nr = rng.choice([1, 2, 2, 2, 3])
        reac = [rng.choice(pool) for _ in range(nr)]
        if nr >= 2 and rng.random() < 0.25:
            reac[1] = reac[0]
        t = total(reac)
        cands = prods_by_total.get((frozenset(t[0].items()), t[1]), [])
        cands = [c for c in cands if sorted(c) != sorted(reac)] or cands
        if not cands:
            continue
        prod = list(rng.choice(cands))
        if rng.random() < 0.2:
            reac = reac + [rng.choice(["CR", "PHOTON", "CRPHOT"])]
        out.append((reac, prod))
    return out


def gen_desc(rng, large=False):
    spelling = rng.choice(["e-", "E"])
    names = [n for n in POOL if n not in ("e-", "E")]
    pool = rng.sample(names, rng.randint(5, 10 if not large else 22)) + [spelling]
    if rng.random() < 0.5:
        pool += [n for n in ("H", "H2", "H+", "#H", "#CO", "CO") if n not in pool]
    reactions = gen_balanced(rng, pool, rng.randint(1, 8) if not large else rng.randint(10, 40))
    if rng.random() < 0.3 and reactions:
        reactions.append(reactions[0])
    return {"reactions": reactions, "required": [rng.choice(names)] if rng.random() < 0.3 else []}


FIXED = [
    {"reactions": [(["H2", "C+"], ["CH", "H+"]), (["HCO+", "e-"], ["H", "CO"]), (["H", "H"], ["H2"]), (["CO"], ["#CO"]), (["#CO"], ["CO"])], "required": []},
    {"reactions": [(["oH2", "H+"], ["pH2", "H+"]), (["oH3+", "HD"], ["oH2D+", "oH2"]), (["H2D+", "E"], ["H", "H", "D"])], "required": ["He"]},
    {"reactions": [(["CH3OH"], ["CH3", "OH"]), (["HCOOH"], ["HCO", "OH"]), (["HOOH"], ["OH", "OH"]), (["CH3OH2+", "e-"], ["CH3OH", "H"]),
                   (["CH3OH"], ["#CH3OH"]), (["H", "O"], ["OH"]), (["C", "H"], ["CH"])], "required": []},
    {"reactions": [(["GRAIN0", "e-"], ["GRAIN-"]), (["GRAIN-", "H+"], ["GRAIN0", "H"]), (["GRAIN+", "e-"], ["GRAIN0"]), (["GRAIN0", "H+"], ["GRAIN+", "H"]),
                   (["H", "H"], ["H2"])], "required": []},
    {"reactions": [(["O-", "e-"], ["O--"]), (["O--", "H+"], ["O-", "H"]), (["C--", "He++"], ["C", "He"]), (["C-", "e-"], ["C--"]),
                   (["Si+++", "e-"], ["Si++"]), (["Si++", "O--"], ["SiO"]), (["O", "e-"], ["O-"])], "required": []},
    {"reactions": [(["HCO+"], ["#HCO+"]), (["#HCO+", "e-"], ["#HCO"]), (["#HCO"], ["HCO"]), (["HCO+", "e-"], ["HCO"]), (["#HCO+"], ["HCO+"])], "required": []},
    {"reactions": [(["He++", "e-"], ["He+"]), (["He+", "e-"], ["He", "PHOTON"]), (["H-", "H+"], ["H", "H"]), (["H", "CR"], ["H+", "e-"])], "required": []},
]


def impl_weights(a):
    """the implementation's own reading of the species (reported, not used as the oracle)"""
    return [(dict(s.element_count), s.charge) for s in a.species]


CXX = fw.VERIF / "harness" / "cxx"


def run_physics(d, vectors):
    """channel C: compile the rendered naunet_physics.cpp as it stands and evaluate its element totals on the given
    abundance vectors (lists of floats, one per equation).  Returns (rows, None) or (None, diagnostic)."""
    import subprocess
    exe = d / "phys"
    srcs = [d / "src" / f for f in ("naunet_physics.cpp", "naunet_constants.cpp", "naunet_utilities.cpp") if (d / "src" / f).exists()]
    # tables and interpolation routines of the shielding functions (never called here) live in files that need binding energies
    # for every ice species: they are left unresolved
    cmd = ["g++", "-std=c++17", "-O0", "-w", "-Wl,--unresolved-symbols=ignore-all", "-I", str(CXX / "sundials"), "-I", str(CXX), "-I", str(d / "include"), "-o", str(exe),
           *map(str, srcs), str(CXX / "phys_driver.cpp")]
    r = subprocess.run(cmd, stdout=subprocess.PIPE, stderr=subprocess.STDOUT, text=True)
    if r.returncode != 0:
        return None, r.stdout[-600:]
    inp = "\n".join(" ".join(repr(float(x)) for x in v) for v in vectors) + "\n"
    r = subprocess.run([str(exe)], input=inp, stdout=subprocess.PIPE, stderr=subprocess.STDOUT, text=True, timeout=60)
    rows = [[float(t) for t in l.split()] for l in r.stdout.splitlines() if l.strip()]
    if r.returncode != 0 or len(rows) != len(vectors):
        return None, f"driver exit {r.returncode}, {len(rows)} rows for {len(vectors)} vectors: {r.stdout[-300:]}"
    return rows, None


def check_desc(res, model, desc, rng, tag, channel_b=False):
    case = {"kind": "c04", "desc": desc}
    for r, p in desc["reactions"]:
        rr = [x for x in r if x in POOL]
        assert total(rr) == total([x for x in p if x in POOL]), (r, p)
    a = ol.analyse(desc, model)
    stmts = [ol.strip_lhs(s) for s in a.ode.fex]
    if a.model is not None:
        c01.corr_rhs(res, a, stmts, "channel A (ode.fex)", case)
    env = c01.make_env(a, rng)
    vals = {}
    for lhs, rhs in stmts:
        m = re.fullmatch(r"ydot\[IDX_(.+)\]", lhs)
        try:
            vals[m.group(1)] = ol.eval_expr(rhs, env)
        except Exception as e:
            res.violation("oracle", f"right-hand side not evaluable: {e!r}", case)
            return
    # the species of slot i is named a.species[i].name (possibly rewritten); compositions are looked up by name
    comp = []
    for s in a.species:
        nm = s.name if s.name in POOL else {"e-": "e-", "E": "E"}.get(s.name)
        if nm is None:
            res.violation("oracle", f"species {s.name} of the generated list is not one the network named", case)
            return
        comp.append(POOL[nm])
    res.count("ions" if any(q for _, q in comp) else "neutral-only")
    if any(s.name.startswith("#") for s in a.species):
        res.count("ice")
    if any(s.name[0] in "op" and s.name not in ("pH2",) or s.name == "pH2" for s in a.species):
        res.count("ortho/para")
    for w in ELEMENTS + ["charge"]:
        tot = Fraction(0)
        for s, (ec, q) in zip(a.species, comp):
            wt = q if w == "charge" else ec.get(w, 0)
            tot += wt * vals[s.alias]
        if tot != 0:
            res.violation("oracle", f"{w}-weighted sum of the generated derivatives is {tot}, not 0, for a balanced network", case)
            break
    if channel_b:
        net = ol.build_network(desc)
        d = ol.render(net, "cvode", "dense", "cpu", templates=["src/naunet_physics.cpp.j2", "include/naunet_macros.h.j2", "src/naunet_fex.cpp.j2",
                                                              "include/naunet_physics.h.j2", "include/naunet_constants.h.j2", "include/naunet_utilities.h.j2"])
        src = (d / "src" / "naunet_physics.cpp").read_text()
        macros = ol.read_macros(d)
        y = env["y"]
        # ---- channel C: the rendered helper routines, compiled and called (independent of how the file is laid out)
        neq = len(a.species) + (1 if (a.info.heating or a.info.cooling) else 0)
        els = [next(iter(e.element_count.keys())) for e in net.elements]
        exec_ok = None
        if a.species:
            vecs = []
            for _ in range(3):
                v = {s.alias: Fraction(rng.randint(1, 4096), 64) for s in a.species}
                vecs.append(v)
            rows, diag = run_physics(d, [[v[s.alias] for s in a.species] + [Fraction(100)] * (neq - len(a.species)) for v in vecs])
            if rows is None:
                res.violation("correspondence", f"rendered naunet_physics.cpp does not compile / run against the driver: {diag}", case)
            else:
                exec_ok = True
                res.count("physics routines executed")
                for v, row in zip(vecs, rows):
                    for el in els:
                        e_i = ol.macro_int(macros, f"IDX_ELEM_{el}")
                        want = sum((ec.get(el, 0) * v[s.alias] for s, (ec, q) in zip(a.species, comp)), Fraction(0))
                        got = row[e_i] if e_i is not None and e_i < len(els) else None
                        if got is None or abs(got - float(want)) > 1e-12 * max(1.0, float(want)):
                            exec_ok = False
                            res.violation("oracle", f"compiled GetElementAbund(y, IDX_ELEM_{el}) returns {got!r}, the count-weighted sum is {float(want)!r} "
                                          f"for y = {[float(v[s.alias]) for s in a.species][:6]}", dict(case, y=[str(v[s.alias]) for s in a.species]))
                            break
                    want_m = sum((v[s.alias] for s in a.species if s.is_surface), Fraction(0))
                    got_m = row[len(els)]
                    if abs(got_m - float(want_m)) > 1e-12 * max(1.0, float(want_m)):
                        exec_ok = False
                        res.violation("oracle", f"compiled GetMantleDens returns {got_m!r}, the sum of the ice abundances is {float(want_m)!r}", case)
                    want_h = sum((ec.get("H", 0) * v[s.alias] for s, (ec, q) in zip(a.species, comp)), Fraction(0)) if "H" in els else Fraction(0)
                    got_h = row[len(els) + 1]
                    if abs(got_h - float(want_h)) > 1e-12 * max(1.0, float(want_h)):
                        exec_ok = False
                        res.violation("oracle", f"compiled GetHNuclei returns {got_h!r}, the hydrogen total is {float(want_h)!r}", case)
                    if not exec_ok:
                        break
        body = src[src.index("double GetElementAbund("):src.index("double GetMantleDens(")]
        found = {}
        for m in re.finditer(r"if \(elemidx == IDX_ELEM_(\w+)\) \{\s*return (.*?);", body, re.S):
            found[m.group(1)] = m.group(2)
        for el, expr in found.items():
            try:
                got = ol.eval_expr(expr, env)
            except Exception as e:
                res.violation("oracle", f"GetElementAbund({el}) not evaluable: {e!r}", case)
                break
            want = sum((ec.get(el, 0) * y[f"IDX_{s.alias}"] for s, (ec, q) in zip(a.species, comp)), Fraction(0))
            if got != want:
                res.violation("oracle", f"GetElementAbund({el}) evaluates to {got}, count-weighted sum is {want}", case)
                break
        # correspondence: the helper statements against Model.Physics (text of every element branch, mantle terms)
        if model is not None:
            hs = [[sp.alias, [[k, int(v)] for k, v in sp.element_count.items()], bool(sp.is_surface)] for sp in a.species]
            els = [next(iter(e.element_count.keys())) for e in net.elements]
            rep = model.call("phys.helpers", hs, els)
            if rep and rep[0] == "error":
                res.violation("correspondence", f"model rejected the helper request: {rep}", case)
            else:
                melems, mmantle = rep
                ws = lambda t: " ".join(t.split())
                for el, text, terms in melems:
                    got_txt = found.get(el)
                    if got_txt is None or ws("return " + got_txt + ";") != ws(text):
                        res.corr_disagreements += 1
                        res.violation("correspondence", f"GetElementAbund({el}): rendered {ws('return ' + (got_txt or '<missing>') + ';')!r} vs model {ws(text)!r}", case)
                        break
                if sorted(found) != sorted(e for e, _, _ in melems):
                    res.corr_disagreements += 1
                    res.violation("correspondence", f"GetElementAbund branches {sorted(found)} vs model {sorted(e for e, _, _ in melems)}", case)
                mm = re.search(r"double GetMantleDens\(double \*y\) \{\s*return (.*?);", src, re.S)
                want_m = " + ".join(f"y[IDX_{a.species[int(i)].alias}]" for i in mmantle) + " + 0.0"   # '+ 0.0' alone when there is no ice
                if mm is None or ws(mm.group(1)) != ws(want_m):
                    res.corr_disagreements += 1
                    res.violation("correspondence", f"GetMantleDens: rendered {ws(mm.group(1)) if mm else None!r} vs model {want_m!r}", case)
                res.count("helper statements compared with the model", len(melems) + 1)
        # GetHNuclei is the hydrogen total of the same helper (and 0.0 when hydrogen is no element of the network)
        mh = re.search(r"double GetHNuclei\(double \*y\) \{(.*?)\n\}", src, re.S)
        body_h = " ".join(mh.group(1).split()) if mh else None
        if body_h != "#ifdef IDX_ELEM_H return GetElementAbund(y, IDX_ELEM_H); #else return 0.0; #endif":
            res.corr_disagreements += 1
            res.violation("correspondence", f"GetHNuclei is not written as the hydrogen element total of GetElementAbund: {body_h!r}", case)
        atoms = {s.name for s in a.species if s.name in ELEMENTS} | ({"GRAIN"} if any(s.name == "GRAIN0" for s in a.species) else set())
        if set(els) != atoms:
            res.violation("oracle", f"the element table of the rendered sources is {sorted(els)} but the atomic species are {sorted(atoms)}", case)
        elif set(found) != atoms:
            # the text reader knows one spelling of the branches only; when the compiled routine returns the right totals for
            # every element the reader is what does not understand the file
            res.violation("correspondence" if exec_ok else "oracle",
                          f"GetElementAbund: the reader finds branches for {sorted(found)} but the atomic species are {sorted(atoms)}", case)
        # conservation of the rendered Fex too
        st = c01.fex_statements((d / "src" / "naunet_fex.cpp").read_text())
        v2 = {}
        for lhs, rhs in st:
            v2[re.fullmatch(r"ydot\[IDX_(.+)\]", lhs).group(1)] = ol.eval_expr(rhs, env)
        for w in ELEMENTS + ["charge"]:
            tot = sum(((q if w == "charge" else ec.get(w, 0)) * v2[s.alias] for s, (ec, q) in zip(a.species, comp)), Fraction(0))
            if tot != 0:
                res.violation("oracle", f"rendered Fex: {w}-weighted sum is {tot}", case)
                break
        # macros must place every species in its own slot
        slots = sorted(ol.macro_int(macros, f"IDX_{s.alias}") for s in a.species)
        if slots != list(range(len(a.species))):
            res.violation("oracle", f"species slots {slots} are not 0..{len(a.species) - 1}", case)
        ol.cleanup_scratch()
    res.case(("c04", tag, ol.nontrivial_sig(desc)),
             sample={"reactions": [f"{' + '.join(r)} -> {' + '.join(p)}" for r, p in desc["reactions"]][:5]},
             nontrivial=len(desc["reactions"]) > 0)


def run(res, info):
    rng = random.Random(res.seed * 7919 + 4)
    model = fw.Model() if info["ok"] else None
    res.rule = ("balanced reactions found by enumerating product multisets with the reactants' element totals and charge over a "
                "50-species pool (ions, both electron spellings, ortho/para labels, isotopologues, ice species, formulas naming an element twice, several charge states of one base); non-trivial = "
                "at least one reaction")
    res.assumptions = ["compositions are the generator's (POOL); '*'-labelled species are outside the premise (C08 finding)"]
    n_a = 200 if res.tier == "quick" else 3000
    n_b = 8 if res.tier == "quick" else 60
    for i, d in enumerate(FIXED):
        check_desc(res, model, d, rng, ("fixed", i), channel_b=True)
    for i in range(n_a):
        check_desc(res, model, gen_desc(rng, large=(i % 7 == 0)), rng, i, channel_b=(i < n_b))
    if model:
        model.close()


def replay(rp, info):
    res = fw.Result("C04", "quick", 0)
    model = fw.Model() if info["ok"] else None
    case = rp.get("case") or {}
    if "desc" in case:
        d = case["desc"]
        d["reactions"] = [tuple(x) for x in d["reactions"]]
        check_desc(res, model, d, random.Random(0), "replay", channel_b=True)
    for v in res.violations:
        print(v["kind"], v["what"][:600])
    print("replay:", "FAILS" if res.violations else "passes")
    return 1 if res.violations else 0
