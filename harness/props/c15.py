"""C15 — duplicate detection.  Correspondence: Network.find_duplicate_reaction /
remove_reaction vs Model.Dup.find_dup; oracle: O(n^2) pairwise reference built from
the implementation's own equality of the chosen mode."""
import random

from .. import framework as fw
from ..impl import Species, Network, Reaction, ReactionType, reset_globals, fnum

TRUST = ["Python dict lookup is modelled as 'first inserted key that compares equal' (hash consistent with ==): "
         "holds for one spelling per species and, since fix 3b41211, for the electron under any of its spellings "
         "(the generator mixes those): equal-implies-same-hash is now theorem equal_reactions_hash_alike over the model of "
         "Reaction.__hash__, compared with hash() on sampled pairs; the pairwise oracle uses the harness's own equivalence, "
         "not Reaction.__eq__"]

ALPHABET = ["H", "H2", "C", "CO", "O", "e-", "H+", "C+", "OH", "H2O", "#CO", "#H2O", "HCO+", "He", "He+", "E-", "E", "e"]
ELECTRON = {"e-", "E-", "e", "E"}          # every spelling the package documents for the electron
TYPES = [ReactionType.GAS_TWOBODY, ReactionType.GAS_COSMICRAY, ReactionType.GAS_PHOTON]
WINDOWS = [(-1.0, -1.0), (10.0, 300.0), (300.0, 1000.0), (10.0, 41000.0), (0.0, 30.0), (10.04, 300.0), (10.01, 300.0)]
MODES = [None, "brief", "minimal", "short"]


def gen_list(rng, n, allow_unknown=False):
    """duplicate-rich reaction list: few templates, permuted and varied"""
    ntempl = rng.randint(1, max(1, n // 2))
    templ = []
    for _ in range(ntempl):
        r = [rng.choice(ALPHABET) for _ in range(rng.randint(1, 3))]
        p = [rng.choice(ALPHABET) for _ in range(rng.randint(0, 4))]
        templ.append((r, p))
    out = []
    for _ in range(n):
        r, p = rng.choice(templ)
        r, p = r[:], p[:]
        # multiplicity variants: same species sets, different counts
        if rng.random() < 0.2 and len(r) < 3:
            r.append(rng.choice(r))
        if rng.random() < 0.2 and p and len(p) < 5:
            p.append(rng.choice(p))
        # the electron under another of its spellings
        if rng.random() < 0.3:
            r = [rng.choice(sorted(ELECTRON)) if x in ELECTRON else x for x in r]
            p = [rng.choice(sorted(ELECTRON)) if x in ELECTRON else x for x in p]
        rng.shuffle(r)
        rng.shuffle(p)
        w = rng.choice(WINDOWS[:3]) if rng.random() < 0.7 else rng.choice(WINDOWS)
        tys = TYPES + ([ReactionType.UNKNOWN] if allow_unknown else [])
        t = rng.choice(tys[:2]) if rng.random() < 0.7 else rng.choice(tys)
        out.append(dict(r=r, p=p, tmin=w[0], tmax=w[1], type=int(t), idx=rng.randint(0, 50)))
    return out


def build_net(desc):
    reset_globals()
    rl = [Reaction(d["r"], d["p"], d["tmin"], d["tmax"], 1e-10, 0.0, 0.0, ReactionType(d["type"]), d["idx"])
          for d in desc]
    net = Network()
    for r in rl:
        net.add_reaction(r)
    return net, rl


def ident_map():
    """species identity classes under Species.__eq__ over the alphabet"""
    sp = [Species(a) for a in ALPHABET]
    ids = {}
    reps = []
    for a, s in zip(ALPHABET, sp):
        for i, r in enumerate(reps):
            if s == r:
                ids[a] = i
                break
        else:
            ids[a] = len(reps)
            reps.append(s)
    return ids


def impl_report(net, rl, mode):
    dupes, dupidx, first = net.find_duplicate_reaction(mode)
    pos = {id(r): i for i, r in enumerate(net.reaction_list)}
    return list(dupidx), [pos[id(r)] for r in first], [pos[id(r)] for r in dupes]


def impl_eq(rl, mode):
    if mode is None:
        return lambda i, j: rl[i] == rl[j]
    if mode == "brief":
        pre = [Reaction(r.reactants, r.products) for r in rl]
        return lambda i, j: pre[i] == pre[j]
    txt = [f"{r:{mode}}" for r in rl]
    return lambda i, j: txt[i] == txt[j]


def spec_class(name):
    """species identity as the property uses it, from the name alone (independent of Species.__eq__)"""
    return "<electron>" if name in ELECTRON else name


def mode_eq(desc, mode):
    """equivalence of two listed reactions under a comparison mode, from the description alone
    (independent of Reaction.__eq__/__format__)"""
    def key(d):
        rc, pc = sorted(spec_class(x) for x in d["r"]), sorted(spec_class(x) for x in d["p"])
        if mode is None:
            return (rc, pc, d["tmin"], d["tmax"])
        if mode == "brief":
            return (rc, pc)
        names = (sorted(d["r"]), sorted(d["p"]))
        if mode == "minimal":
            return names
        return (names, f"{d['tmin']:7.1f}", f"{d['tmax']:7.1f}", d["type"])

    def eq(i, j):
        if key(desc[i]) != key(desc[j]):
            return False
        if mode is None:
            ti, tj = desc[i]["type"], desc[j]["type"]
            return ti == tj or 999 in (ti, tj)
        return True
    return eq


def reference(n, eq):
    """pairwise reference: (dupidx, first) and whether eq is an equivalence on the list"""
    m = [[bool(eq(i, j)) for j in range(n)] for i in range(n)]
    # an equivalence relation is exactly "same class", the class of i being its first related element
    cls = [next((j for j in range(n) if m[i][j]), -1) for i in range(n)]
    ok = all(m[i][i] for i in range(n)) and all(m[i][j] == (cls[i] == cls[j]) for i in range(n) for j in range(n))
    dup = [i for i in range(n) if any(m[i][j] for j in range(i))]
    first = [i for i in range(n) if not any(m[i][j] for j in range(i)) and any(m[j][i] for j in range(i + 1, n))]
    return dup, first, ok


def model_keys(desc, rl, ids):
    ks = []
    for d, r in zip(desc, rl):
        ks.append([[ids[x.name] for x in r.reactants], [ids[x.name] for x in r.products],
                   [x.name for x in r.reactants], [x.name for x in r.products],
                   fnum(r.temp_min), fnum(r.temp_max), f"{r.temp_min:7.1f}", f"{r.temp_max:7.1f}",
                   int(r.reaction_type), r.reaction_type.name])
    return ks


def check_case(res, model, desc, mode, ids, tag):
    net, rl = build_net(desc)
    n = len(rl)
    dupidx, first, dupes_pos = impl_report(net, rl, mode)
    want_eq = mode_eq(desc, mode)
    ref_dup, ref_first, is_equiv = reference(n, want_eq)
    case = {"kind": "c15", "desc": desc, "mode": mode}
    # the package's own comparison must be the mode's equivalence on every pair of the list
    ieq = impl_eq(rl, mode)
    pairs = [(i, j) for i in range(n) for j in range(i + 1, n)]
    if len(pairs) > 200:                       # long lists: a fixed pseudo-random sample of the pairs
        pairs = random.Random(n * 7919 + len(desc[0]["r"])).sample(pairs, 200)
    # Reaction.__hash__ (default and brief mode look reactions up in a dict): equal reactions must hash alike,
    # and the hash must be the model's (sorted species hash classes)
    hobj = rl if mode is None else [Reaction(r.reactants, r.products) for r in rl] if mode == "brief" else None
    mh = None
    if hobj is not None and model is not None and n:
        # hash classes numbered in increasing order of the hash values, so that the model's sort of class
        # numbers is the sort of the hashes the implementation performs
        hv = {a: hash(Species(a)) for a in ALPHABET}
        rank = {v: k for k, v in enumerate(sorted(set(hv.values())))}
        hm = [[ids[a], rank[hv[a]]] for a in ALPHABET]
        mh = model.call("c15.hash", hm, model_keys(desc, rl, ids))
    for i, j in pairs:
        if hobj is not None:
            same_hash = hash(hobj[i]) == hash(hobj[j])
            if want_eq(i, j) and not same_hash:
                res.violation("oracle", f"mode={mode}: reactions {i} and {j} are equivalent but hash differently: the dictionary-based search cannot "
                                        f"find one from the other ({desc[i]['r']}->{desc[i]['p']} vs {desc[j]['r']}->{desc[j]['p']})", case)
                return None
            if mh is not None and same_hash != (mh[i] == mh[j]):
                res.corr_disagreements += 1
                res.violation("correspondence", f"mode={mode}: hash(reaction {i}) == hash(reaction {j}) is {same_hash}, the model's hash lists are {mh[i]} / {mh[j]}", case)
                return None
        if True:
            if bool(ieq(i, j)) != want_eq(i, j) or bool(ieq(j, i)) != want_eq(i, j):
                d = lambda k: f"{'+'.join(desc[k]['r'])}->{'+'.join(desc[k]['p'])} [{desc[k]['tmin']},{desc[k]['tmax']}] type {desc[k]['type']}"
                res.violation("oracle", f"mode={mode}: reactions {i} ({d(i)}) and {j} ({d(j)}) are {'equivalent' if want_eq(i, j) else 'different'} "
                              f"but the package compares them as {'equal' if ieq(i, j) else 'unequal'}", case)
                return None
    res.count(f"mode={mode}")
    res.count(f"n_dups={min(len(ref_dup), 5)}{'+' if len(ref_dup) >= 5 else ''}")
    if not is_equiv:
        res.count("outside-hypothesis(non-equivalence)")
        return None
    # oracle: the property itself on the implementation
    if dupidx != ref_dup or sorted(first) != ref_first or dupes_pos != dupidx:
        res.violation("oracle", f"duplicate report differs from pairwise reference (mode={mode}): "
                      f"impl dupidx={dupidx} first={first}; reference dupidx={ref_dup} first={ref_first}", case)
    # removal round trip on the implementation
    net.remove_reaction(list(dupidx))
    d2, f2, _ = impl_report(net, net.reaction_list, mode)
    kept_ref = [i for i in range(n) if i not in ref_dup]
    kept_impl = [next(i for i, r in enumerate(rl) if r is k) for k in net.reaction_list]
    if d2 or f2 or kept_impl != kept_ref:
        res.violation("oracle", f"after removing reported duplicates (mode={mode}): remaining dupidx={d2} first={f2} kept={kept_impl} expected kept={kept_ref}", case)
    # correspondence with the model
    if model is not None:
        rep = model.call("c15.finddup", mode or "default", model_keys(desc, rl, ids))
        md, mf, md2, mf2 = [[int(x) for x in l] for l in rep]
        if md != dupidx or mf != first or md2 != d2 or mf2 != f2:
            res.corr_disagreements += 1
            res.violation("correspondence", f"model find_dup={md},{mf},{md2},{mf2} impl={dupidx},{first},{d2},{f2} (mode={mode})", case)
    res.case((tag, mode, repr(desc)), sample={"mode": mode, "reactions": [f"{'+'.join(d['r'])}->{'+'.join(d['p'])} [{d['tmin']},{d['tmax']}] t={d['type']}" for d in desc][:6],
                                              "dupidx": dupidx, "first": first},
             nontrivial=len(ref_dup) > 0)
    return dupidx


def check_edited(res, desc, rng, tag, desc2=None):
    """the report is a function of the reactions as they are NOW: search in every mode, edit type / window of some reactions
    in place, search again - against the pairwise reference of the edited description"""
    net, rl = build_net(desc)
    for mode in MODES:
        impl_report(net, rl, mode)
    if desc2 is None:
        desc2 = [dict(d) for d in desc]
        for k in rng.sample(range(len(desc)), rng.randint(1, max(1, len(desc) // 2))):
            what = rng.choice(["type", "window", "both"])
            if what in ("type", "both"):
                desc2[k]["type"] = int(rng.choice([t for t in TYPES if int(t) != desc2[k]["type"]] or TYPES))
            if what in ("window", "both"):
                desc2[k]["tmin"], desc2[k]["tmax"] = rng.choice(WINDOWS)
    for k, d in enumerate(desc2):
        rl[k].reaction_type = ReactionType(d["type"])
        rl[k].temp_min, rl[k].temp_max = d["tmin"], d["tmax"]
    case = {"kind": "c15-edited", "desc": desc, "edited": desc2}
    for mode in MODES:
        dupidx, first, _ = impl_report(net, rl, mode)
        ref_dup, ref_first, is_equiv = reference(len(rl), mode_eq(desc2, mode))
        if not is_equiv:
            continue
        if dupidx != ref_dup or sorted(first) != ref_first:
            res.violation("oracle", f"second search (mode={mode}) after editing type/window of some reactions in place: impl dupidx={dupidx} first={first}; "
                                    f"reference for the edited list dupidx={ref_dup} first={ref_first} (the first search saw dupidx="
                                    f"{reference(len(rl), mode_eq(desc, mode))[0]})", dict(case, mode=mode))
            break
    res.count("edited-then-searched-again lists")
    res.case(("c15-edited", tag, repr(desc2)), nontrivial=True)


KNOWN_DEFAULT = {
    "finding": "C15-default-unknown-wildcard",
    "a": dict(r=["H", "C"], p=["CO"], tmin=-1.0, tmax=-1.0, type=100, idx=0),
    "b": dict(r=["C", "H"], p=["CO"], tmin=-1.0, tmax=-1.0, type=999, idx=1),
    "c": dict(r=["H", "C"], p=["CO"], tmin=-1.0, tmax=-1.0, type=101, idx=2),
}


def known_finding_default(res):
    a, b, c = KNOWN_DEFAULT["a"], KNOWN_DEFAULT["b"], KNOWN_DEFAULT["c"]
    net1, rl1 = build_net([a, b, c])
    net2, rl2 = build_net([b, a, c])
    d1 = impl_report(net1, rl1, None)[0]
    d2 = impl_report(net2, rl2, None)[0]
    nontrans = (rl1[0] == rl1[1]) and (rl1[1] == rl1[2]) and not (rl1[0] == rl1[2])
    if nontrans and len(d1) != len(d2):
        res.violation("oracle", f"default-mode report depends on list order: {d1} vs {d2}",
                      {"finding": KNOWN_DEFAULT["finding"], "lists": [[a, b, c], [b, a, c]]})


def run(res, info):
    rng = random.Random(res.seed * 7919 + 15)
    model = fw.Model() if info["ok"] else None
    reset_globals()
    ids = ident_map()
    res.rule = ("duplicate-rich reaction lists over an 18-name alphabet (four electron spellings) (1-3 reactants with repeats, 0-4 products, "
                "permuted, windows/types varied) x modes {default, brief, minimal, short}; a case is non-trivial when "
                "the pairwise reference reports at least one duplicate; lists searched, edited in place (type / window) and searched again; "
                "distinct = distinct (list, mode)")
    res.assumptions = ["one spelling per species inside a list, except for the electron (docstring caveat of find_duplicate_reaction)",
                       "default mode: lists without UNKNOWN-typed reactions (otherwise __eq__ is not an equivalence; known finding)"]
    n_lists = 150 if res.tier == "quick" else 3000
    # exhaustive tiny scope first: all lists of length <= 3 over 3 templates x 2 permutations
    tiny = [dict(r=["H", "C"], p=["CO"], tmin=-1.0, tmax=-1.0, type=100, idx=0),
            dict(r=["C", "H"], p=["CO"], tmin=-1.0, tmax=-1.0, type=100, idx=1),
            dict(r=["H", "C"], p=["CO"], tmin=10.0, tmax=300.0, type=100, idx=2),
            dict(r=["H", "H"], p=["H2"], tmin=-1.0, tmax=-1.0, type=100, idx=3),
            dict(r=["H", "C"], p=["CO"], tmin=-1.0, tmax=-1.0, type=101, idx=4),
            dict(r=["H", "H", "C"], p=["CO"], tmin=-1.0, tmax=-1.0, type=100, idx=5),
            dict(r=["H", "C"], p=["CO", "CO"], tmin=-1.0, tmax=-1.0, type=100, idx=6)]
    import itertools
    maxlen = 3 if res.tier == "quick" else 4
    for L in range(0, maxlen + 1):
        for combo in itertools.product(range(len(tiny)), repeat=L):
            desc = [tiny[i] for i in combo]
            for mode in MODES:
                check_case(res, model, desc, mode, ids, "tiny")
    for i in range(n_lists):
        n = rng.choice([2, 3, 4, 5, 6, 8, 12, 20]) if res.tier == "quick" else rng.choice([2, 3, 5, 8, 12, 20, 40, 80])
        desc = gen_list(rng, n)
        for mode in MODES:
            check_case(res, model, desc, mode, ids, i)
    # lists with UNKNOWN types: only the formatted/brief modes are inside the hypotheses
    for i in range(n_lists // 5):
        desc = gen_list(rng, rng.choice([3, 5, 8]), allow_unknown=True)
        for mode in MODES:
            check_case(res, model, desc, mode, ids, ("unk", i))
    for i in range(n_lists // 2):
        check_edited(res, gen_list(rng, rng.choice([2, 3, 4, 6, 8])), rng, i)
    known_finding_default(res)
    if model:
        model.close()


def replay(rp, info):
    res = fw.Result("C15", "quick", 0)
    model = fw.Model() if info["ok"] else None
    reset_globals()
    ids = ident_map()
    case = rp.get("case") or {}
    if case.get("kind") == "c15-edited":
        check_edited(res, case["desc"], None, "replay", desc2=case["edited"])
    elif "desc" in case:
        check_case(res, model, case["desc"], case["mode"], ids, "replay")
    for v in res.violations:
        print(v["kind"], v["what"])
    print("replay:", "FAILS" if res.violations else "passes")
    return 1 if res.violations else 0
