"""C07 — reaction files of all six formats are decoded faithfully.
Correspondence: Network(filelist, fileformats).reaction_list against Model.Decode.read_file on the same
lines (names after the pseudo-species filter, numeric fields as float(text), index, type through the live
format tables, source, KROME rate text; errors by class).  Oracle (does not use the model): a line encoded
from an abstract reaction decodes to exactly that reaction; one reaction per data line in file order;
blank / comment / directive lines add none; marker tokens never become species."""
import math
import random
from pathlib import Path

from .. import framework as fw
from .. import odelib as ol
from ..impl import Species, Network, Reaction, ReactionType, reset_globals, quiet

TRUST = ["CPython float()/int() parse the numeric texts (model keeps them as text)",
         "the reference encoders in harness/props/c07.py define 'well-formed line' for the oracle"]

PSEUDO = list(Species.default_pseudoelements)
GASN = ["H", "H2", "C", "O", "CO", "OH", "H2O", "He", "N", "N2", "CH", "C2", "O2", "Si", "SiO", "HCO+", "H3+", "H+", "C+", "He+", "e-", "H-", "Mg+", "Fe+",
        "CH3OH", "HC3N", "C10H2", "Si++++"]
T = ReactionType
RT = {m.name: int(m.value) for m in ReactionType}


def fl(x):
    return float(x)


# ---- reference encoders: abstract reaction -> line ----------------------------------------------

def enc_kida(r):
    re_ = "".join(n.ljust(11) for n in (r["reac"] + ["", "", ""])[:3]) + " "
    pr = "".join(n.ljust(11) for n in (r["prod"] + [""] * 5)[:5]) + " "
    tail = f"{r['a']:10.3e} {r['b']:10.3e} {r['c']:10.3e} 2.00e+00 0.00e+00 logn {r.get('itype', 4):2d} {int(r['tmin']):6d} {int(r['tmax']):6d} {r['code']:2d} {r['idx']:5d} 1  1"
    return re_ + pr + tail


def enc_umist(r):
    rr = (r["reac"] + ["", ""])[:2]
    pp = (r["prod"] + [""] * 4)[:4]
    return ":".join([str(r["idx"]), r["code"], *rr, *pp, "1", repr(r["a"]), repr(r["b"]), repr(r["c"]), str(int(r["tmin"])), str(int(r["tmax"])),
                     "L", "C", '"10.1086/190919"', "", ""])


def enc_leeds(r):
    re_ = "".join(n.ljust(10) for n in (r["reac"] + ["", "", ""])[:3])
    pr = "".join(n.ljust(10) for n in (r["prod"] + [""] * 5)[:5])
    return f"{r['idx']:>4d} " + re_ + pr + f"{r['a']:8.2E}{r['b']:9.2f}{r['c']:10.1f}{int(r['tmin']):5d}{int(r['tmax']):5d}{r['code']:3d}"


def enc_uclchem(r):
    rr = (r["reac"] + ["NAN", "NAN", "NAN"])[:3]
    if r.get("marker"):
        rr[1] = r["marker"]
    pp = (r["prod"] + ["NAN"] * 4)[:4]
    return ",".join([*rr, *pp, repr(r["a"]), repr(r["b"]), repr(r["c"]), str(int(r["tmin"])), str(int(r["tmax"]))])


def enc_native(r):
    rr = [f"{x:>12}" for x in (r["reac"] + ["", "", ""])[:3]]
    pp = [f"{x:>12}" for x in (r["prod"] + [""] * 5)[:5]]
    return ",".join([f"{r['idx']:<5}", *rr, *pp, f"{r['a']:10.3e}", f"{r['b']:10.3e}", f"{r['c']:10.3e}", f"{r['tmin']:9.2f}", f"{r['tmax']:9.2f}",
                     f"{r['code']:>4}", f"{r['source']:>8}"])


def enc_krome(r, fmtkeys):
    vals = []
    ri = iter(r["reac"])
    pi = iter(r["prod"])
    for k in fmtkeys:
        kk = k.lower()
        if kk == "idx":
            vals.append(str(r["idx"]))
        elif kk == "r":
            vals.append(next(ri, ""))
        elif kk == "p":
            vals.append(next(pi, ""))
        elif kk == "tmin":
            vals.append(r["tmin_text"])
        elif kk == "tmax":
            vals.append(r["tmax_text"])
        elif kk == "rate":
            vals.append(r["rate"])
    return ",".join(vals)


# ---- abstract reaction generators ----------------------------------------------------------------

def pick_species(rng, pool, n):
    out = [rng.choice(pool) for _ in range(n)]
    if n >= 2 and rng.random() < 0.25:
        out[1] = out[0]
    return out


def coeffs(rng):
    a = rng.choice([1.0e-10, 6.59e-11, 0.0, -2.5e-9, 1.0, 3.33e+5, 1.23e-30])
    b = rng.choice([0.0, 0.5, -0.5, -2.75, 3.0])
    c = rng.choice([0.0, 30450.0, -12.5, 100.0, 1.5])
    return a, b, c


def window(rng):
    return rng.choice([(10, 300), (10, 41000), (0, 0), (-9999, 9999), (300, 1000), (5, 5)])


def gen(rng, fmt):
    a, b, c = coeffs(rng)
    lt, ut = window(rng)
    r = {"a": a, "b": b, "c": c, "tmin": float(lt), "tmax": float(ut), "idx": rng.choice([0, 1, 7, 42, 999, 6173]), "pseudo": []}
    if fmt == "kida":
        code = rng.choice([1, 2, 3, 3, 3, 4, 5, 6])
        pool = [n for n in GASN if len(n) <= 10]
        r["reac"] = pick_species(rng, pool, rng.choice([1, 2, 2, 3]))
        r["prod"] = pick_species(rng, pool, rng.choice([1, 2, 3, 4, 5]))
        if code in (1, 2) or rng.random() < 0.15:
            mk = {1: rng.choice(["CR", "CRP"]), 2: "Photon"}.get(code, rng.choice(["CR", "Photon", "CRP"]))
            r["reac"] = r["reac"][:2] + [mk]
            r["pseudo"].append(mk)
        if rng.random() < 0.1:
            r["prod"] = r["prod"][:4] + ["Photon"]
        r["code"] = code
        r["type"] = {1: RT["GAS_COSMICRAY"], 2: RT["GAS_PHOTON"], 3: RT["GAS_TWOBODY"], 4: RT["GAS_KIDA_IP1"], 5: RT["GAS_KIDA_IP2"], 6: RT["GAS_THREEBODY"]}[code]
        r["want"] = dict(a=fl(f"{a:10.3e}"), b=fl(f"{b:10.3e}"), c=fl(f"{c:10.3e}"))
    elif fmt == "umist":
        code = rng.choice(["AD", "CD", "CE", "CP", "CR", "DR", "IN", "MN", "NN", "PH", "RA", "REA", "RR"])
        r["reac"] = pick_species(rng, GASN, rng.choice([1, 2]))
        r["prod"] = pick_species(rng, GASN, rng.choice([1, 2, 3, 4]))
        mk = {"CP": "CRP", "CR": "CRPHOT", "PH": "PHOTON"}.get(code)
        if mk:
            r["reac"] = r["reac"][:1] + [mk]
            r["pseudo"].append(mk)
        if rng.random() < 0.1:
            r["prod"] = r["prod"][:3] + ["PHOTON"]
        r["code"] = code
        r["type"] = {"CP": RT["GAS_COSMICRAY"], "CR": RT["GAS_UMIST_CRPHOT"], "PH": RT["GAS_PHOTON"]}.get(code, RT["GAS_TWOBODY"])
        r["want"] = dict(a=a, b=b, c=c)
    elif fmt == "leeds":
        code = rng.choice([1, 1, 2, 3, 4, 5, 6, 7, 8, 9, 10, 11, 12, 13, 14, 20])
        pool = [n for n in GASN if len(n) <= 9] + ["GCO", "GH2O", "GH", "GCH3OH", "GRAIN0", "GRAIN-"]
        r["reac"] = pick_species(rng, pool, rng.choice([1, 2, 2, 3]))
        r["prod"] = pick_species(rng, pool, rng.choice([1, 2, 3, 4, 5]))
        mk = {2: "CRP", 3: "CRPHOT", 4: "PHOTON", 5: "XRAY", 11: "CRPHOT", 12: "PHOTON"}.get(code)
        if mk:
            r["reac"] = r["reac"][:2] + [mk]
            r["pseudo"].append(mk)
        if rng.random() < 0.1:
            r["reac"][0] = "YC"           # the format's alias for CH2OHC
        r["code"] = code
        r["idx"] = min(r["idx"], 9999)
        r["type"] = {1: "GAS_TWOBODY", 2: "GAS_COSMICRAY", 3: "GAS_UMIST_CRPHOT", 4: "GAS_PHOTON", 5: "GAS_XRAY", 6: "GRAIN_RECOMINE", 7: "GRAIN_FREEZE",
                     8: "GRAIN_DESORB_THERMAL", 9: "GRAIN_DESORB_COSMICRAY", 10: "GRAIN_DESORB_PHOTON", 11: "SURFACE_COSMICRAY", 12: "SURFACE_PHOTON",
                     13: "SURFACE_TWOBODY", 14: "GRAIN_DESORB_REACTIVE", 20: "GRAIN_ECAPTURE"}[code]
        r["type"] = RT[r["type"]]
        if a < 0:
            r["a"] = a = -a               # 8 columns cannot hold a signed d.ddE-dd
        r["tmin"], r["tmax"] = float(max(lt, 0)), float(max(ut, 0))
        r["want"] = dict(a=fl(f"{a:8.2E}"), b=fl(f"{b:9.2f}"), c=fl(f"{c:10.1f}"))
    elif fmt == "uclchem":
        marker = rng.choice([None, None, None, "CRP", "PHOTON", "CRPHOT", "FREEZE", "DESOH2", "DESCR", "DEUVCR", "THERM", "DIFF", "CHEMDES"])
        pool = GASN + ["#CO", "#H2O", "#H", "#CH3OH"]
        r["reac"] = pick_species(rng, pool, 1 if marker else rng.choice([1, 2, 3]))
        if not marker and len(r["reac"]) == 1:
            r["reac"].append(rng.choice(pool))
        r["prod"] = pick_species(rng, pool, rng.choice([1, 2, 3, 4]))
        r["marker"] = marker
        r["code"] = marker
        r["idx"] = -1
        tn = {None: "GAS_TWOBODY", "CRP": "GAS_COSMICRAY", "PHOTON": "GAS_PHOTON", "CRPHOT": "GAS_UMIST_CRPHOT", "FREEZE": "GRAIN_FREEZE",
              "DESOH2": "GRAIN_DESORB_H2", "DESCR": "GRAIN_DESORB_COSMICRAY", "DEUVCR": "GRAIN_DESORB_PHOTON", "THERM": "GRAIN_DESORB_THERMAL",
              "DIFF": "SURFACE_DIFFUSION", "CHEMDES": "GRAIN_DESORB_REACTIVE"}[marker]
        r["type"] = RT[tn]
        r["want"] = dict(a=a, b=b, c=c)
        if marker == "FREEZE":
            r["want_window"] = (0.0, 30.0)      # the format's freeze-out window (documented in the class)
        if marker:
            r["pseudo"].append(marker)
    elif fmt == "naunet":
        tname = rng.choice([m.name for m in ReactionType])
        pool = GASN + ["#CO", "#H2O", "GRAIN0"]
        r["reac"] = sorted(pick_species(rng, pool, rng.choice([1, 2, 3])))
        r["prod"] = sorted(pick_species(rng, pool, rng.choice([0, 1, 2, 3, 4, 5])))
        r["code"] = RT[tname]
        r["type"] = RT[tname]
        r["source"] = rng.choice(["kida", "umist", "unknown", "leeds", "krome"])
        r["tmin"], r["tmax"] = float(rng.choice([-1.0, 10.0, 5.25])), float(rng.choice([-1.0, 300.0, 41000.0]))
        r["want"] = dict(a=fl(f"{a:10.3e}"), b=fl(f"{b:10.3e}"), c=fl(f"{c:10.3e}"))
    elif fmt == "krome":
        r["reac"] = pick_species(rng, GASN, rng.choice([1, 2, 3]))
        r["prod"] = pick_species(rng, GASN, rng.choice([1, 2, 3, 4]))
        wt = rng.choice(["plain", "none", "ops", "dexp", "signed-exp"])
        lt2, ut2 = rng.choice([(10, 300), (2.73, 1e4), (100, 41000)])
        if wt == "plain":
            r["tmin_text"], r["tmax_text"] = repr(float(lt2)), repr(float(ut2))
        elif wt == "none":
            r["tmin_text"], r["tmax_text"] = rng.choice(["NONE", "N", "none", "N/A", ""]), rng.choice(["NONE", "no", ""])
            lt2, ut2 = -1.0, -1.0
        elif wt == "ops":
            r["tmin_text"], r["tmax_text"] = rng.choice([">", ".GE.", ".GT."]) + repr(float(lt2)), rng.choice(["<", ".LE.", ".LT."]) + repr(float(ut2))
        elif wt == "signed-exp":
            # exponents written with an explicit sign, as Fortran list output does
            r["tmin_text"], r["tmax_text"] = rng.choice(["1.0d+1", ".GE.1.0e+01", ">2.5d+1"]), rng.choice(["1.5d+4", ".LE.1.0d+4", "<1e+16", "4.1E+04"])
            lt2 = {"1.0d+1": 10.0, ".GE.1.0e+01": 10.0, ">2.5d+1": 25.0}[r["tmin_text"]]
            ut2 = {"1.5d+4": 15000.0, ".LE.1.0d+4": 10000.0, "<1e+16": 1e16, "4.1E+04": 41000.0}[r["tmax_text"]]
        else:
            r["tmin_text"], r["tmax_text"] = "1.d1", "1.5d4"
            lt2, ut2 = 10.0, 15000.0
        r["tmin"], r["tmax"] = float(lt2), float(ut2)
        r["rate"] = rng.choice(["1.0d-10", "4.67e-10*(T32)**(-5.0e-01)*exp(-3.04d+04*invT)", "dexp(-2.0*invT)*1.2d-9", "3.5e-12*sqrt(Tgas)"])
        r["type"] = RT["UNKNOWN"]
        r["want"] = dict(a=0.0, b=0.0, c=0.0)
    return r


ENC = {"kida": enc_kida, "umist": enc_umist, "leeds": enc_leeds, "uclchem": enc_uclchem, "naunet": enc_native}
NONDATA = {"kida": ["", "   ", "\t"], "umist": ["", "  "], "leeds": ["", "     "], "uclchem": ["", " "], "naunet": ["", "   "],
           "krome": ["", "  ", "# a comment", "#1,H,H,,H2", "// another comment", "@common: user_crate,user_Av", "@var: Hnuclei = get_Hnuclei(n(:))",
                     "@var: T32 = Tgas/3d2"]}
KFORMATS = ["idx,R,R,R,P,P,P,P,Tmin,Tmax,rate", "idx,R,R,P,P,Tmin,Tmax,rate", "idx,r,r,p,p,p,rate", "idx,R,R,R,P,P,P,P,P,Tmin,Tmax,rate", "R,R,P,P,P,rate",
            # layouts that do not start with idx (their first characters occur in the directive's own name)
            "r,r,p,p,tmin,tmax,rate", "tmin,tmax,idx,r,r,p,p,rate", "tmax,tmin,r,r,p,rate", "r,p,p,rate"]


def impl_read(path, fmt, tables=None):
    reset_globals()
    if tables:
        Species.set_known_elements(list(tables["elements"]))
        Species.set_known_pseudoelements(list(tables["pseudo"]))
    with quiet():
        net = Network(filelist=str(path), fileformats=fmt)
    return dump(net)


def dump(net):
    out = []
    for r in net.reaction_list:
        out.append(dict(reac=[s.name for s in r.reactants], prod=[s.name for s in r.products], a=r.alpha, b=r.beta, c=r.gamma, tmin=float(r.temp_min),
                        tmax=float(r.temp_max), idx=r.idxfromfile, type=None if r.reaction_type is None else int(r.reaction_type), source=r.source,
                        rate=getattr(r, "rate_string", None)))
    return out


def py_float(t):
    try:
        return float(t)
    except Exception:
        return None


def model_matches(m, i):
    """model reply (texts) against the implementation's reaction"""
    if m[0] != "ok":
        return False
    _, reac, prod, a, b, c, lt, ut, idx, code, ty, src, rate = m
    want = (list(reac), list(prod), py_float(a), py_float(b), py_float(c), py_float(lt), py_float(ut), int(idx), None if ty == "none" else int(ty), src)
    got = (i["reac"], i["prod"], i["a"], i["b"], i["c"], i["tmin"], i["tmax"], i["idx"], i["type"], i["source"])
    def same(x, y):
        return (isinstance(x, float) and isinstance(y, float) and math.isnan(x) and math.isnan(y)) or x == y
    if len(want) != len(got) or not all(same(x, y) for x, y in zip(want, got)):
        return False
    if src == "krome" and (i["rate"] or "") != rate:
        return False
    return True


def oracle_matches(r, i, fmt):
    """abstract reaction against the implementation's reaction"""
    reac = [("CH2OHC" if n == "YC" else n) for n in r["reac"] if n not in PSEUDO and n not in r["pseudo"]]
    prod = [n for n in r["prod"] if n not in PSEUDO]
    lt, ut = r.get("want_window", (r["tmin"], r["tmax"]))
    why = []
    if i["reac"] != reac:
        why.append(f"reactants {i['reac']} != {reac}")
    if i["prod"] != prod:
        why.append(f"products {i['prod']} != {prod}")
    for k in "abc":
        if i[k] != r["want"][k]:
            why.append(f"{k} {i[k]!r} != {r['want'][k]!r}")
    if (i["tmin"], i["tmax"]) != (lt, ut):
        why.append(f"window {(i['tmin'], i['tmax'])} != {(lt, ut)}")
    if i["idx"] != r["idx"]:
        why.append(f"index {i['idx']} != {r['idx']}")
    if i["type"] != r["type"]:
        why.append(f"type {i['type']} != {r['type']}")
    if fmt == "krome" and i["rate"] != r["rate"].replace("dexp", "exp"):
        why.append(f"rate {i['rate']!r}")
    if any(n in PSEUDO for n in i["reac"] + i["prod"]):
        why.append("a marker token became a species")
    return why


def make_file(rng, fmt, n):
    """(lines, [abstract reaction or None per line])"""
    lines, abstract = [], []
    kfmt = None
    if fmt == "krome" and rng.random() < 0.5:
        kfmt = rng.choice(KFORMATS)
        lines.append("@format:" + kfmt)
        abstract.append(None)
    keys = (kfmt or "idx,r,r,r,p,p,p,p,tmin,tmax,rate").split(",")
    for _ in range(n):
        if rng.random() < 0.2:
            lines.append(rng.choice(NONDATA[fmt]))
            abstract.append(None)
            if fmt == "krome" and rng.random() < 0.3:
                kfmt = rng.choice(KFORMATS)
                keys = kfmt.split(",")
                lines.append("@format:" + kfmt)
                abstract.append(None)
            continue
        r = gen(rng, fmt)
        if fmt == "krome":
            nr = sum(1 for k in keys if k.lower() == "r")
            npd = sum(1 for k in keys if k.lower() == "p")
            r["reac"], r["prod"] = r["reac"][:nr], r["prod"][:npd]
            lk = [k.lower() for k in keys]
            if "idx" not in lk:
                r["idx"] = -1
            if "tmin" not in lk:
                r["tmin"] = -1.0
            if "tmax" not in lk:
                r["tmax"] = -1.0
            lines.append(enc_krome(r, keys))
        else:
            lines.append(ENC[fmt](r))
        abstract.append(r)
    return lines, abstract


def check_file(res, model, fmt, lines, abstract, tag, newline="\n", final_newline=True, tables=None):
    case = {"kind": "c07", "format": fmt, "lines": lines, "newline": newline, "final_newline": final_newline}
    d = ol.scratch_dir()
    p = d / f"net.{fmt}"
    text = newline.join(lines) + (newline if final_newline and lines else "")
    with open(p, "w", newline="") as f:
        f.write(text)
    raw_lines = text.split("\n")
    raw_lines = [l + "\n" for l in raw_lines[:-1]] + ([raw_lines[-1]] if raw_lines[-1] != "" else [])
    impl_err = None
    try:
        impl = impl_read(p, fmt, tables)
    except Exception as e:       # the file is rejected as a whole
        impl, impl_err = None, f"{type(e).__name__}: {e}"
    data = [r for r in (abstract or []) if r is not None]
    res.count(f"format={fmt}")
    res.count("lines", len(lines))
    res.count("non-data lines", len(lines) - len(data))
    # ---- oracle
    if abstract is not None and all(a is None or "want" in a for a in abstract):
        if impl is None:
            res.violation("oracle", f"{fmt}: a file of well-formed lines is rejected: {impl_err}", case)
        elif len(impl) != len(data):
            res.violation("oracle", f"{fmt}: {len(data)} data lines (of {len(lines)}) but {len(impl)} reactions", case)
        else:
            for k, (r, i) in enumerate(zip(data, impl)):
                why = oracle_matches(r, i, fmt)
                if why:
                    res.violation("oracle", f"{fmt}: data line {k} {ENC[fmt](r) if fmt != 'krome' else r}: {'; '.join(why)}", case)
                    break
    # ---- correspondence
    if model is not None:
        rep = model.call("dec.file", fmt, list(tables["pseudo"]) if tables else PSEUDO, raw_lines)
        m_err = [x for x in rep if x[0] != "ok"]
        if impl is None:
            numeric_bad = any(x[0] == "ok" and (None in [py_float(t) for t in x[3:8]]) for x in rep)
            if not m_err and not numeric_bad and "could not convert" not in (impl_err or "") and "invalid literal" not in (impl_err or "") \
               and "is not a valid ReactionType" not in (impl_err or ""):
                res.corr_disagreements += 1
                res.violation("correspondence", f"{fmt}: implementation rejects the file ({impl_err}) but the model decodes every line", case)
        elif m_err:
            res.corr_disagreements += 1
            res.violation("correspondence", f"{fmt}: model reports {m_err[0]} but the implementation decodes the file", case)
        elif len(rep) != len(impl):
            res.corr_disagreements += 1
            res.violation("correspondence", f"{fmt}: model decodes {len(rep)} reactions, implementation {len(impl)}", case)
        else:
            for k, (m, i) in enumerate(zip(rep, impl)):
                if not model_matches(m, i):
                    res.corr_disagreements += 1
                    res.violation("correspondence", f"{fmt}: reaction {k}: model {m} vs implementation {i}", case)
                    break
    ol.cleanup_scratch()
    res.case(("c07", fmt, tag, tuple(lines[:3])), sample={"format": fmt, "first": lines[:2]}, nontrivial=bool(data) or abstract is None)


BUNDLED = [("tests/data/minimal.kida", "kida"), ("tests/data/duplicate.kida", "kida"), ("tests/data/multiduplicate.kida", "kida"),
           ("tests/data/minimal.umist", "umist"), ("tests/data/minimal.leeds", "leeds"), ("tests/data/minimal.ucl", "uclchem"),
           ("tests/data/minimal.krome", "krome"), ("tests/data/primordial.krome", "krome"), ("naunet/examples/minimal/minimal.kida", "kida"),
           ("naunet/examples/primordial/primordial.krome", "krome")]
BUNDLED_BIG = [("tests/data/rate12.umist", "umist"), ("tests/data/rate12_HO.leeds", "leeds"), ("naunet/examples/cloud/reactions.ucl", "uclchem"),
               ("naunet/examples/deuterium/deuterium.krome", "krome")]


def check_bundled(res, model, rel, fmt):
    """correspondence only (no abstract reactions): every line of a bundled network"""
    p = fw.REPO / rel
    text = p.read_text()
    lines = text.split("\n")
    if lines and lines[-1] == "":
        lines = lines[:-1]
        final = True
    else:
        final = False
    # the bundled cloud/deuterium networks are read under the element lists their example modules declare
    # (without the renaming table: the decoder model keeps the names as written)
    tables = None
    if "examples/cloud" in rel or "examples/deuterium" in rel:
        import importlib
        ex = importlib.import_module("naunet.examples." + rel.split("/")[2])
        tables = {"elements": list(ex.elements), "pseudo": list(ex.pseudo_elements)}
    check_file(res, model, fmt, lines, None, rel, final_newline=final, tables=tables)
    res.count("bundled files")


def check_multi(res, model, rng, tag, given=None):
    """several files in ONE network (filelist of two or three files, and add_reaction_from_file called in turn): every file
    is decoded as if it were read alone - nothing of a file (KROME @format / @var / @common, a reader's settings) reaches the next"""
    files, d = [], ol.scratch_dir()
    if given is not None:
        fmts = [f for f, _ in given]
        for j, (fmt, lines) in enumerate(given):
            p = d / f"net{j}.{fmt}"
            p.write_text("\n".join(lines) + "\n")
            files.append((p, fmt, lines, None))
    else:
        k = rng.randint(2, 3)
        fmts = [rng.choice(["krome", "krome", "kida", "umist", "naunet", "uclchem"]) for _ in range(k)]
        if rng.random() < 0.6:
            fmts[0] = fmts[1] = "krome"
        for j, fmt in enumerate(fmts):
            while True:
                lines, abstract = make_file(rng, fmt, rng.randint(1, 6))
                if j == 0 or not any(l.startswith("@format") for l in lines):
                    break                      # later KROME files carry no directive of their own: the default layout applies
            if fmt == "krome" and j + 1 < k and rng.random() < 0.7:
                lines.append("@format:" + rng.choice(KFORMATS))       # the file ends under a non-default layout
                abstract.append(None)
            p = d / f"net{j}.{fmt}"
            p.write_text("\n".join(lines) + "\n")
            files.append((p, fmt, lines, abstract))
    case = {"kind": "c07-multi", "files": [[fmt, lines] for _, fmt, lines, _ in files]}
    res.count("multi-file networks")
    try:
        alone = [impl_read(p, fmt) for p, fmt, _, _ in files]
    except Exception as e:
        res.count("multi-file: a file is rejected alone (skipped)")
        ol.cleanup_scratch()
        return
    want = [r for a in alone for r in a]
    got = {}
    try:
        reset_globals()
        with quiet():
            got["Network(filelist=[...])"] = dump(Network(filelist=[str(p) for p, _, _, _ in files], fileformats=[fmt for _, fmt, _, _ in files]))
        reset_globals()
        with quiet():
            net = Network()
            for p, fmt, _, _ in files:
                net.add_reaction_from_file(str(p), fmt)
        got["add_reaction_from_file in turn"] = dump(net)
    except Exception as e:
        res.violation("oracle", f"files that are each decoded alone are rejected when read into one network: {type(e).__name__}: {e}", case)
        ol.cleanup_scratch()
        return
    for how, g in got.items():
        if g != want:
            kbad = next((i for i, (a, b) in enumerate(zip(g, want)) if a != b), min(len(g), len(want)))
            res.violation("oracle", f"{how} of {[fmt for _, fmt, _, _ in files]}: reaction {kbad} is decoded as {g[kbad] if kbad < len(g) else None}, "
                                    f"read alone its file gives {want[kbad] if kbad < len(want) else None} ({len(g)} reactions against {len(want)})", case)
            break
    ol.cleanup_scratch()
    res.case(("c07-multi", tag, tuple(fmts)), sample={"formats": fmts}, nontrivial=True)


def run(res, info):
    rng = random.Random(res.seed * 7919 + 7)
    model = fw.Model() if info["ok"] else None
    res.rule = ("files of 1-12 lines per format, each data line encoded from an abstract reaction (1-3 reactants with repeats, 0-5 products, marker "
                "tokens, every format code, signed/zero coefficients, six window shapes) with blank/comment/directive lines interleaved, LF and CRLF, "
                "with and without final newline; two or three files (KROME files ending under a non-default @format first) read into one network "
                "both ways against each file read alone; bundled fixture files line by line; a malformed stream (dropped / extra fields); "
                "non-trivial = at least one data line")
    res.assumptions = ["species names of at most 10 (KIDA) / 9 (Leeds) characters so that fixed-width columns keep a separating blank",
                       "UCLCHEM freeze-out lines get the window 0..30 K (documented in the class)"]
    nfiles = 200 if res.tier == "quick" else 3000
    fmts = ["kida", "umist", "leeds", "uclchem", "naunet", "krome"]
    for fmt in fmts:
        for i in range(nfiles):
            lines, abstract = make_file(rng, fmt, rng.randint(1, 12))
            crlf = fmt not in ("leeds",) and rng.random() < 0.1
            check_file(res, model, fmt, lines, abstract, i, newline="\r\n" if crlf else "\n", final_newline=rng.random() < 0.8)
        # malformed stream: drop or add a field (correspondence of the error branch only)
        for i in range(nfiles // 4):
            lines, abstract = make_file(rng, fmt, 1)
            if abstract[-1] is None or fmt in ("krome", "leeds"):
                continue
            sep = {"umist": ":", "uclchem": ",", "naunet": ","}.get(fmt)
            l = lines[-1]
            if sep:
                parts = l.split(sep)
                if rng.random() < 0.5:
                    del parts[rng.randrange(len(parts))]
                else:
                    parts = parts[:rng.randint(1, 6)]
                l = sep.join(parts)
            else:
                parts = l[90:].split()
                del parts[rng.randrange(len(parts))]
                l = l[:90] + " ".join(parts)
            res.count("malformed lines")
            check_file(res, model, fmt, [l], None, ("malformed", i))
    for i in range(60 if res.tier == "quick" else 1500):
        check_multi(res, model, rng, i)
    for rel, fmt in BUNDLED + (BUNDLED_BIG if res.tier == "thorough" else []):
        check_bundled(res, model, rel, fmt)
    if model:
        model.close()


def replay(rp, info):
    res = fw.Result("C07", "quick", 0)
    model = fw.Model() if info["ok"] else None
    case = rp.get("case") or {}
    if case.get("kind") == "c07-multi":
        check_multi(res, model, None, "replay", given=[(f, l) for f, l in case["files"]])
    if case.get("kind") == "c07":
        check_file(res, model, case["format"], case["lines"], None, "replay", newline=case.get("newline", "\n"), final_newline=case.get("final_newline", True))
    for v in res.violations:
        print(v["kind"], v["what"][:800])
    print("replay:", "FAILS" if res.violations else "passes (correspondence only; the oracle needs the abstract reactions of the original run)")
    return 1 if res.violations else 0
