"""C20 — project configuration round trip: what is configured is what is rendered.
Correspondence: `naunet init` with generated option strings -> naunet_config.toml, field by field against
Model.Config.init_config on the same strings (including the raising cases).  Oracle (no model): the values
requested on the command line are the values in the configuration file; `naunet render` of that file builds
the same sources (dates and project name masked) as Network(...).to_code() with the same arguments; the
new / export paths write files the render command reads back."""
import filecmp
import os
import random
import re
import shutil

import tomlkit

from .. import framework as fw
from .. import odelib as ol
from ..cli import naunet_cli
from ..impl import Species, Network, reset_globals, quiet

TRUST = ["cleo's option tokenisation and tomlkit are exercised, not modelled", "subprocess runs of the naunet command line"]

ELEMENTS = ["e", "H", "D", "He", "C", "N", "O", "Si", "Mg", "Fe"]
PSEUDO = ["CR", "CRP", "PHOTON", "CRPHOT", "o", "p"]
SPECIES = ["H", "H2", "CO", "H2O", "He", "e-", "HCO+", "H3+", "#CO", "#H2O", "C", "O"]
ICE = ["#CO", "#H2O", "#H", "#CH3OH"]
COOLING = ["CIC_HI", "CIC_HeI", "RC_HII", "CEC_HI"]
FMT_FILES = {"kida": "tests/data/minimal.kida", "umist": "tests/data/minimal.umist", "krome": "tests/data/minimal.krome", "leeds": "tests/data/minimal.leeds",
             "uclchem": "tests/data/minimal.ucl"}


def gen_request(rng):
    """a network description as a user would give it (structured), plus the option strings"""
    def pick(pool, lo, hi):
        return rng.sample(pool, rng.randint(lo, min(hi, len(pool))))
    fmt = rng.choice(list(FMT_FILES))
    req = {
        "name": rng.choice(["proj", "my_net", "network1", "annual", "test-2"]),
        "description": rng.choice(["", "a test", "chemistry of clouds"]),
        "loads": [],
        "elements": pick(ELEMENTS, 3, 8), "pseudo": pick(PSEUDO, 0, 4),
        "replacement": dict(rng.sample([("HE", "He"), ("E", "e"), ("MG", "Mg"), ("SI", "Si")], rng.randint(0, 3))),
        "grain": rng.choice(["GRAIN", "GRAIN", "DUST"]), "surface": rng.choice(["#", "#", "G"]), "bulk": rng.choice(["@", "@", "B", "%"]),
        "allowed": pick(SPECIES, 0, 5), "required": pick(SPECIES, 0, 3),
        "binding": {k: rng.choice([1150.0, 5700.0, 600.0, 1.5e3]) for k in pick(ICE, 0, 3)},
        "yield": {k: rng.choice([1e-3, 2.5e-3, 0.1]) for k in pick(ICE, 0, 2)},
        "grain_model": rng.choice(["", "", "hh93", "rr07"]),
        "files": [fmt + "_net." + fmt], "formats": [fmt],
        "heating": [], "cooling": pick(COOLING, 0, 2),
        "shielding": dict(rng.sample([("CO", "VB88Table"), ("H2", "L96Table"), ("N2", "L13Table")], rng.randint(0, 2))),
        "rate_mods": {str(k): v for k, v in rng.sample([(0, "1.0e-10 * zeta"), (3, "0.0"), (5173, "k[0] * 2.0"), (7, "1.3e-17*sqrt(Tgas)")], rng.randint(0, 3))},
        "ode_mods": rng.choice([{}, {}, {"H": {"factors": ["-2.0 * k[0]"], "reactants": [["H", "H"]]}},
                                {"H2": {"factors": ["k[0]", "-zeta"], "reactants": [["H", "H"], ["H2"]]}, "CO": {"factors": ["1.5"], "reactants": [["C", "O"]]}}]),
        "solver": "cvode", "device": "cpu", "method": rng.choice(["dense", "sparse"]),
    }
    if rng.random() < 0.2:
        req["solver"], req["method"] = "odeint", "rosenbrock4"
    return req, fmt


def opt_strings(req, rng):
    """how the request is written on the command line; spaces after commas are a common habit"""
    sep = rng.choice([",", ", "])

    def lst(l):
        return sep.join(l)
    o = {
        "name": req["name"], "description": req["description"], "loading": lst(req["loads"]),
        "elements": lst(req["elements"]), "pseudo-elements": lst(req["pseudo"]),
        "element-replacement": lst(f"{k}:{v}" for k, v in req["replacement"].items()),
        "surface-prefix": req["surface"], "bulk-prefix": req["bulk"], "allowed-species": lst(req["allowed"]), "extra-species": lst(req["required"]),
        "binding": ",".join(f"{k}={v!r}" for k, v in req["binding"].items()), "yield": ",".join(f"{k}={v!r}" for k, v in req["yield"].items()),
        "grain-symbol": req["grain"], "grain-model": req["grain_model"], "network-files": lst(req["files"]), "file-formats": lst(req["formats"]),
        "heating": lst(req["heating"]), "cooling": lst(req["cooling"]), "shielding": lst(f"{k}:{v}" for k, v in req["shielding"].items()),
        "solver": req["solver"], "device": req["device"], "method": req["method"],
    }
    rms = [f"{k}:{v}" for k, v in req["rate_mods"].items()]
    oms = []
    for key, e in req["ode_mods"].items():
        for f, d in zip(e["factors"], e["reactants"]):
            oms.append(f"{key}:{f},[{' '.join(d)}]")
    # the option may be given once (items joined by ';') or several times, each occurrence with or without a trailing ';'
    # (`naunet example --dry` prints the latter form)
    style = rng.choice(["joined", "joined;", "each", "each;", "split"])
    if not oms:
        occ = []
    elif style == "joined":
        occ = [";".join(oms)]
    elif style == "joined;":
        occ = [";".join(oms) + ";"]
    elif style == "each":
        occ = list(oms)
    elif style == "each;":
        occ = [x + ";" for x in oms]
    else:
        k = rng.randint(1, len(oms))
        occ = [";".join(oms[:k]) + ";"] + ([";".join(oms[k:])] if oms[k:] else [])
    return o, rms, occ


ORDER = ["name", "description", "loading", "elements", "pseudo-elements", "element-replacement", "surface-prefix", "bulk-prefix", "allowed-species",
         "extra-species", "binding", "yield", "grain-symbol", "grain-model", "network-files", "file-formats", "heating", "cooling", "shielding"]


def run_init(d, o, rms, oms, render=False):
    args = ["init"]
    for k in ORDER + ["solver", "device", "method"]:
        args.append(f"--{k}={o[k]}")
    for r in rms:
        args.append(f"--rate-modifier={r}")
    for m in oms:
        args.append(f"--ode-modifier={m}")
    if render:
        args += ["--render", "--render-force"]
    args.append("-n")
    return naunet_cli(args, d)


def toml_view(doc):
    ch = doc["chemistry"]
    return [doc["general"]["name"], doc["general"]["description"], list(doc["general"]["loads"]), list(ch["element"]["elements"]),
            list(ch["element"]["pseudo_elements"]), [[k, v] for k, v in ch["element"]["replacement"].items()], ch["symbol"]["grain"], ch["symbol"]["surface"],
            ch["symbol"]["bulk"], list(ch["species"]["allowed"]), list(ch["species"]["required"]),
            [[k, v] for k, v in ch["species"]["binding_energy"].items()], [[k, v] for k, v in ch["species"]["photon_yield"].items()], ch["grain"]["model"],
            list(ch["network"]["files"]), list(ch["network"]["formats"]), list(ch["thermal"]["heating"]), list(ch["thermal"]["cooling"]),
            [[k, v] for k, v in ch["shielding"].items()], [[k, v] for k, v in ch["rate_modifier"].items()],
            [[k, list(v["factors"]), [list(x) for x in v["reactants"]]] for k, v in ch["ode_modifier"].items()],
            doc["ODEsolver"]["solver"], doc["ODEsolver"]["device"], doc["ODEsolver"]["method"]]


def model_view(m):
    c = m[1]
    out = list(c)
    for i in (11, 12):
        out[i] = [[k, float(v)] for k, v in c[i]]
    out[20] = [[k, list(f), [list(x) for x in r]] for k, f, r in c[20]]
    for i in (5, 18, 19):
        out[i] = [list(p) for p in c[i]]
    return out


def requested_view(req):
    return [req["name"], req["description"], req["loads"], req["elements"], req["pseudo"], [[k, v] for k, v in req["replacement"].items()], req["grain"],
            req["surface"], req["bulk"], req["allowed"], req["required"], [[k, v] for k, v in req["binding"].items()], [[k, v] for k, v in req["yield"].items()],
            req["grain_model"], req["files"], req["formats"], req["heating"], req["cooling"], [[k, v] for k, v in req["shielding"].items()],
            [[k, v] for k, v in req["rate_mods"].items()], [[k, e["factors"], e["reactants"]] for k, e in req["ode_mods"].items()],
            req["solver"], req["device"], req["method"]]


FIELDS = ["name", "description", "loads", "elements", "pseudo_elements", "replacement", "grain symbol", "surface prefix", "bulk prefix", "allowed species",
          "required species", "binding energies", "photon yields", "grain model", "network files", "formats", "heating", "cooling", "shielding", "rate modifiers",
          "ODE modifiers", "solver", "device", "method"]


def make_renderable(req):
    """a description the network files can actually support (the request itself must be valid for rendering)"""
    req = dict(req)
    req["elements"] = ["e", "H", "D", "He", "C", "N", "O", "Si", "Mg", "Fe"]
    req["pseudo"] = ["CR", "CRP", "PHOTON", "CRPHOT", "o", "p"]
    req["replacement"] = {}
    req["allowed"] = []
    req["required"] = [s for s in req["required"] if not s.startswith("#")]
    req["cooling"] = []
    req["binding"] = {k: v for k, v in req["binding"].items() if k in ("#CO", "#H2O", "#H")}
    req["yield"] = {k: v for k, v in req["yield"].items() if k in ("#CO", "#H2O", "#H")}
    req["grain"], req["surface"] = "GRAIN", "#"
    req["grain_model"] = ""
    req["shielding"] = {}
    req["rate_mods"] = {k: v for k, v in req["rate_mods"].items() if "k[" not in v}
    sp_ok = {"H", "C"}
    req["ode_mods"] = {k: e for k, e in req["ode_mods"].items() if k in sp_ok and all(set(d) <= sp_ok for d in e["reactants"])}
    return req


def check_request(res, model, req, fmt, rng, tag, render=False):
    if render:
        req = make_renderable(req)
    d = ol.scratch_dir()
    o, rms, oms = opt_strings(req, rng)
    case = {"kind": "c20", "options": o, "rate_modifier": rms, "ode_modifier": oms}
    shutil.copy(fw.REPO / FMT_FILES[fmt], d / req["files"][0])
    rc, out, err = run_init(d, o, rms, oms)
    res.count("init ok" if rc == 0 else "init raises")
    cfgfile = d / "naunet_config.toml"
    if model is not None:
        m = model.call("cfg.init", *[o[k] for k in ORDER], rms, oms, o["solver"], o["device"], o["method"])
    else:
        m = None
    if rc != 0 or not cfgfile.exists():
        if m is not None and m[0] == "ok":
            res.corr_disagreements += 1
            res.violation("correspondence", f"`naunet init` fails ({err.strip().splitlines()[-1][:200] if err.strip() else rc}) but the model parses the options", case)
        res.violation("oracle", f"`naunet init` rejects a well-formed request: {err.strip().splitlines()[-1][:300] if err.strip() else rc}", case)
        ol.cleanup_scratch()
        return
    doc = tomlkit.loads(cfgfile.read_text())
    got = toml_view(doc)
    if m is not None:
        if m[0] != "ok":
            res.corr_disagreements += 1
            res.violation("correspondence", "`naunet init` succeeds but the model says it raises", case)
        else:
            mv = model_view(m)
            for name, a, b in zip(FIELDS, got, mv):
                if a != b:
                    res.corr_disagreements += 1
                    res.violation("correspondence", f"{name}: configuration file {a!r} vs model {b!r}", case)
                    break
    want = requested_view(req)
    for name, a, b in zip(FIELDS, got, want):
        if a != b:
            res.violation("oracle", f"requested {name} {b!r} but the configuration file holds {a!r} (option string {o.get(name.replace(' ', '-'), '')!r})", case)
            break
    if render:
        check_render(res, d, req, fmt, case)
    res.case(("c20", tag, repr(sorted(o.items()))[:200]), sample={"options": {k: o[k] for k in ("elements", "binding", "shielding")}}, nontrivial=True)
    ol.cleanup_scratch()


MASK = re.compile(r"(\d{2}/\d{2}/\d{4}|\d{2}\.\d{2}|20\d\d-\d\d-\d\d)")


def tree_files(root):
    out = {}
    for sub in ("include", "src"):
        for p in sorted((root / sub).rglob("*")):
            if p.is_file():
                out[str(p.relative_to(root))] = MASK.sub("<date>", p.read_text())
    return out


def check_render(res, d, req, fmt, case):
    """`naunet render` of the configuration file vs the same network through the API"""
    rc, out, err = naunet_cli(["render", "--force", "-n"], d)
    if rc != 0:
        res.violation("oracle", f"`naunet render` fails on the configuration `naunet init` wrote: {err.strip().splitlines()[-1][:300] if err.strip() else rc}", case)
        return
    api = d / "api"
    api.mkdir()
    reset_globals()
    from naunet.chemistrydata import update_binding_energy, update_photon_yield
    Species._replacement = dict(req["replacement"])
    Species.set_known_elements(list(req["elements"]))
    Species.set_known_pseudoelements(list(req["pseudo"]))
    kw = {"grain_symbol": req["grain"], "surface_prefix": req["surface"], "bulk_prefix": req["bulk"]}
    try:
        update_binding_energy({Species(k, **kw).name: v for k, v in req["binding"].items()})
        update_photon_yield({Species(k, **kw).name: v for k, v in req["yield"].items()})
        with quiet():
            net = Network(filelist=[str(d / req["files"][0])], fileformats=list(req["formats"]), elements=list(req["elements"]),
                          pseudo_elements=list(req["pseudo"]), allowed_species=list(req["allowed"]), required_species=list(req["required"]),
                          species_kwargs=kw, grain_model=req["grain_model"], heating=list(req["heating"]), cooling=list(req["cooling"]),
                          shielding=dict(req["shielding"]), rate_modifier={int(k): v for k, v in req["rate_mods"].items()}, ode_modifier=dict(req["ode_mods"]))
            from naunet.templateloader import TemplateLoader
            TemplateLoader(req["solver"], req["method"], req["device"]).render(req["name"], net, path=api)
    except Exception as e:
        res.count("api rendering refuses the description (skipped)")
        return
    a, b = tree_files(d), tree_files(api)
    if a.keys() != b.keys():
        res.violation("oracle", f"command-line rendering wrote {sorted(a)} but the API {sorted(b)}", case)
        return
    for k in a:
        if a[k] != b[k]:
            la, lb = a[k].splitlines(), b[k].splitlines()
            i = next((i for i, (x, y) in enumerate(zip(la, lb)) if x != y), min(len(la), len(lb)))
            res.violation("oracle", f"{k} differs between `naunet init --render` and the API at line {i + 1}: {la[i] if i < len(la) else None!r} vs {lb[i] if i < len(lb) else None!r}", case)
            return
    res.count("rendered trees compared")


UCL_LINES = ["MG,FREEZE,NAN,#MG,NAN,NAN,NAN,1.0,0.0,0.0,0,0", "#MG,THERM,NAN,MG,NAN,NAN,NAN,1.0,0.0,0.0,0,0", "#MG,DEUVCR,NAN,MG,NAN,NAN,NAN,1.0,0.0,0.0,0,0",
             "H,H,NAN,H2,NAN,NAN,NAN,1.0e-17,0.5,0.0,10,41000", "C,O,NAN,CO,NAN,NAN,NAN,1.0e-10,0.0,0.0,10,41000", "CO,FREEZE,NAN,#CO,NAN,NAN,NAN,1.0,0.0,0.0,0,0",
             "#CO,DESCR,NAN,CO,NAN,NAN,NAN,1.0,0.0,0.0,0,0"]


def replaced_elements_request():
    """upper-case element names renamed by the replacement table, with binding energies and yields for ice species
    that hold a renamed element (the layout of the bundled 'cloud' example)"""
    return {"name": "cloudlike", "description": "", "loads": [], "elements": ["E", "H", "HE", "C", "O", "MG"], "pseudo": ["CRP", "PHOTON", "CRPHOT"],
            "replacement": {"E": "e", "HE": "He", "MG": "Mg"}, "grain": "GRAIN", "surface": "#", "bulk": "@", "allowed": [], "required": [],
            "binding": {"#MG": 1234.5, "#CO": 1300.0}, "yield": {"#MG": 0.25}, "grain_model": "rr07x", "files": ["cloudlike.ucl"], "formats": ["uclchem"],
            "heating": [], "cooling": [], "shielding": {}, "rate_mods": {}, "ode_mods": {}, "solver": "cvode", "device": "cpu", "method": "sparse"}


def yield_only_request():
    """as above, plus an ice species with a renamed element that has a photon yield but no binding energy of its own
    (its binding energy then comes from the built-in table): the two tables do not share their keys"""
    req = replaced_elements_request()
    req.update(name="yieldonly", elements=req["elements"] + ["SI"], replacement=dict(req["replacement"], SI="Si"),
               binding={"#CO": 1300.0}, **{"yield": {"#SIO": 0.0055, "#MG": 0.25}})
    return req


UCL_EXTRA = ["SIO,FREEZE,NAN,#SIO,NAN,NAN,NAN,1.0,0.0,0.0,0,0", "#SIO,DEUVCR,NAN,SIO,NAN,NAN,NAN,1.0,0.0,0.0,0,0", "SI,O,NAN,SIO,NAN,NAN,NAN,1.0e-10,0.0,0.0,10,41000"]


def check_fixed_render(res, model, rng, req=None, lines=None):
    req = req or replaced_elements_request()
    d = ol.scratch_dir()
    o, rms, oms = opt_strings(req, rng)
    case = {"kind": "c20-fixed-render", "options": o}
    (d / req["files"][0]).write_text("\n".join(lines or UCL_LINES) + "\n")
    rc, out, err = run_init(d, o, rms, oms)
    if rc != 0:
        res.violation("oracle", f"`naunet init` rejects the cloud-like request: {err.strip().splitlines()[-1][:300] if err.strip() else rc}", case)
    else:
        got = toml_view(tomlkit.loads((d / "naunet_config.toml").read_text()))
        for name, a, b in zip(FIELDS, got, requested_view(req)):
            if a != b:
                res.violation("oracle", f"requested {name} {b!r} but the configuration file holds {a!r}", case)
                break
        check_render(res, d, req, "uclchem", case)
    res.case(("c20", req["name"]), nontrivial=True)
    ol.cleanup_scratch()


def check_selection(res, rng, model=None):
    """a solver / device / method selection the tool does not support is refused or kept as given - never silently replaced"""
    triples = [("cvode", "cpu", "cusparse"), ("cvode", "gpu", "sparse"), ("cvode", "gpu", "dense"), ("cvode", "cpu", "Sparse"),
               ("odeint", "cpu", "dense"), ("odeint", "cpu", "sparse"), ("cvode", "cpu", "rosenbrock4"),
               # supported selections as controls
               ("cvode", "cpu", "sparse"), ("cvode", "cpu", "dense"), ("cvode", "gpu", "cusparse"), ("odeint", "cpu", "rosenbrock4")]
    for solver, device, method in triples:
        req = replaced_elements_request()
        req = dict(req, solver=solver, device=device, method=method)
        d = ol.scratch_dir()
        o, rms, oms = opt_strings(req, rng)
        (d / req["files"][0]).write_text("\n".join(UCL_LINES) + "\n")
        rc, out, err = run_init(d, o, rms, oms)
        case = {"kind": "c20-selection", "solver": solver, "device": device, "method": method}
        accepted = rc == 0 and (d / "naunet_config.toml").exists()
        if model is not None:
            # C20.selection_kept_or_refused / live_selection_table: the model's verdict on the table read from init.py
            m = model.call("cfg.select", solver, device, method)
            if (m[0] == "kept") != accepted:
                res.corr_disagreements += 1
                res.violation("correspondence", f"selection {solver}/{device}/{method}: `naunet init` {'accepts' if accepted else 'refuses'}, the model says {m}", case)
        if accepted:
            odesolver = tomlkit.loads((d / "naunet_config.toml").read_text()).get("ODEsolver", {})
            got = (odesolver.get("solver"), odesolver.get("device"), odesolver.get("method"))
            if got != (solver, device, method):
                res.violation("oracle", f"`naunet init --solver={solver} --device={device} --method={method}` is accepted but the configuration file "
                                        f"holds solver/device/method {got}: the selection was silently replaced", case)
            res.count("selection accepted")
        else:
            res.count("selection refused")
        res.case(("c20-selection", solver, device, method), nontrivial=True)
        ol.cleanup_scratch()


def findings(res, model):
    """the two documented separator behaviours, replayed on the implementation"""
    for kind, key, val, want in (("null", "name", "annulled", "annulled"), ("colon", None, "3:Tgas > 100.0 ? 1.0e-9 : 0.0", "Tgas > 100.0 ? 1.0e-9 : 0.0")):
        d = ol.scratch_dir()
        req, fmt = gen_request(random.Random(1))
        o, rms, oms = opt_strings(req, random.Random(1))
        if kind == "null":
            o["name"] = val
        else:
            rms = [val]
        shutil.copy(fw.REPO / FMT_FILES[fmt], d / req["files"][0])
        rc, out, err = run_init(d, o, rms, [])
        if rc == 0:
            doc = tomlkit.loads((d / "naunet_config.toml").read_text())
            got = doc["general"]["name"] if kind == "null" else dict(doc["chemistry"]["rate_modifier"]).get("3")
            if got != want:
                fid = "C20-null-substring-removed" if kind == "null" else "C20-rate-modifier-cut-at-colon"
                res.violation("oracle", f"requested {val!r} but the configuration file holds {got!r}", {"kind": "c20-finding", "finding": fid})
        ol.cleanup_scratch()


def check_export(res, rng, tag):
    """the export path: Network.export writes the project (configuration + sources rendered through the API); `naunet render`
    on that configuration must give the same sources - with modifier values of every type the API accepts (numbers incl. zero, strings)"""
    d = ol.scratch_dir()
    reset_globals()
    src = fw.REPO / "tests/data/minimal.kida"
    with quiet():
        idxs = [r.idxfromfile for r in Network(filelist=str(src), fileformats="kida").reaction_list]
    values = [0.0, 0, "0.0", 2.5e-10, 1, "1.0e-12 * sqrt(Tgas)", "zeta * 2.0"]
    fixed = [{idxs[0]: 0.0, idxs[-1]: "1.0e-12 * sqrt(Tgas)"}, {idxs[0]: 0, idxs[-1]: "0.0"}, {idxs[-1]: 0.0}]
    rmod = fixed[tag] if isinstance(tag, int) and tag < len(fixed) else {i: rng.choice(values) for i in rng.sample(idxs, rng.randint(1, len(idxs)))}
    omod = {"H": {"factors": [rng.choice(["-1.0e-18", "zeta"])], "reactants": [["H"]]}} if rng.random() < 0.5 else None
    solver, method = rng.choice([("cvode", "dense"), ("cvode", "sparse"), ("odeint", "rosenbrock4")])
    case = {"kind": "c20-export", "rate_modifier": {str(k): repr(v) for k, v in rmod.items()}, "ode_modifier": omod, "solver": solver, "method": method}
    reset_globals()
    try:
        with quiet():
            net = Network(filelist=str(src), fileformats="kida", rate_modifier=dict(rmod), ode_modifier=omod, required_species=["He"])
            net.export("proj", solver=solver, method=method, prefix=d, overwrite=True)
    except Exception as e:
        res.violation("oracle", f"Network.export fails: {type(e).__name__}: {e}", case)
        ol.cleanup_scratch()
        return
    # the exported reaction file lists the reactants of a reaction in the writer's order: products of abundances may come out
    # with their factors in another order, which is the same expression - factors of a bare product chain are sorted before comparing
    chain = re.compile(r"[A-Za-z_][\w\[\]]*(?:\*[A-Za-z_][\w\[\]]*)+")

    def canon(files):
        return {k: chain.sub(lambda m: "*".join(sorted(m.group(0).split("*"))), v) for k, v in files.items()}
    api = canon(tree_files(d / "proj"))
    rc, out, err = naunet_cli(["render", "--force", "-n"], d / "proj")
    if rc != 0:
        res.violation("oracle", f"`naunet render` fails on the project Network.export wrote: {(err.strip().splitlines() or [rc])[-1]}", case)
        ol.cleanup_scratch()
        return
    cli = canon(tree_files(d / "proj"))
    for k in sorted(set(api) | set(cli)):
        if api.get(k) != cli.get(k):
            la, lb = (api.get(k) or "").splitlines(), (cli.get(k) or "").splitlines()
            i = next((i for i, (x, y) in enumerate(zip(la, lb)) if x != y), min(len(la), len(lb)))
            res.violation("oracle", f"exported project (rate modifiers {case['rate_modifier']}): {k} rendered by `naunet render` differs from the API rendering "
                                    f"at line {i + 1}: {lb[i] if i < len(lb) else None!r} vs {la[i] if i < len(la) else None!r}", case)
            break
    res.count("exported projects re-rendered")
    res.case(("c20-export", tag, repr(case)), nontrivial=True)
    ol.cleanup_scratch()


def run(res, info):
    rng = random.Random(res.seed * 7919 + 20)
    model = fw.Model() if info["ok"] else None
    res.rule = ("generated network descriptions (3-8 elements, pseudo-elements, replacements, symbols incl. non-default bulk prefix, allowed / extra species, "
                "binding energies and yields, five file formats, grain model, cooling, shielding, 0-3 rate modifiers, 0-3 ODE-modifier terms, three solver "
                "selections) written as option strings (with and without blanks after commas) -> `naunet init` -> TOML; a subset -> `naunet render` vs API; API networks with rate modifiers of every accepted type "
                "(numbers incl. zero, strings) and ODE modifiers -> Network.export -> `naunet render` vs the exported sources")
    res.assumptions = ["values hold no separator of their field and not the substring 'null' (two known findings otherwise)"]
    n = 30 if res.tier == "quick" else 600
    nr = 3 if res.tier == "quick" else 40
    for i in range(n):
        req, fmt = gen_request(rng)
        check_request(res, model, req, fmt, rng, i, render=i < nr)
    check_fixed_render(res, model, rng)
    check_fixed_render(res, model, rng, yield_only_request(), UCL_LINES + UCL_EXTRA)
    for i in range(5 if res.tier == "quick" else 60):
        check_export(res, rng, i)
    check_selection(res, rng, model)
    findings(res, model)
    if model:
        model.close()


def replay(rp, info):
    print("replay: case", str(rp.get("case"))[:800])
    return 0
