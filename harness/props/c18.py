"""C18 — writing a network and reading it back preserves the model; an exported project never silently
computes another rate law.
Correspondence: Network.write(.., 'naunet') lines, the re-read reactions and the second-cycle lines against
Model.NativeFmt / Model.Decode.  Oracle (no model): reaction by reaction comparison of the re-read network
(names with multiplicity, window, type, index, source, alpha/beta/gamma to the printed precision), equal species
lists and ODE structure, byte-identical second write, third read; per (format, subtype): the rate of the
re-read native reaction evaluates to the same value as the direct one or is refused."""
import itertools
import math
import random
import re

from .. import framework as fw
from .. import odelib as ol
from ..impl import Species, Network, Reaction, ReactionType, reset_globals, quiet
from . import c05, c07, c11
from ..cli import naunet_cli

TRUST = ["CPython float formatting (%10.3e, %9.2f) and float() are trusted; the model carries the printed texts",
         "rate values are compared numerically (Python eval for gas-phase text, g++ for grain text)"]

RT = {m.name: int(m.value) for m in ReactionType}
PSEUDO = list(Species.default_pseudoelements)

# the documented (format, code) pairs whose law changes silently on export + re-render (known finding)
KNOWN_EXPORT = {("umist", RT["GAS_COSMICRAY"]), ("leeds", 2), ("leeds", 3), ("leeds", 4), ("uclchem", RT["GAS_COSMICRAY"]),
                ("uclchem", RT["GAS_UMIST_CRPHOT"]), ("uclchem", RT["GAS_PHOTON"])}
FINDING = "C18-export-rereads-format-laws-as-native"


def describe(r):
    return dict(reac=sorted(s.name for s in r.reactants), prod=sorted(s.name for s in r.products), a=r.alpha, b=r.beta, c=r.gamma,
                tmin=r.temp_min, tmax=r.temp_max, idx=r.idxfromfile, type=None if r.reaction_type is None else int(r.reaction_type), source=r.source)


def printed(r):
    """the texts Reaction.__format__('naunet') prints (CPython formatting)"""
    return [str(r.idxfromfile), [s.name for s in r.reactants], [s.name for s in r.products], f"{r.alpha:10.3e}", f"{r.beta:10.3e}",
            f"{r.gamma:10.3e}", f"{r.temp_min:9.2f}", f"{r.temp_max:9.2f}", str(int(r.reaction_type)), r.source]


def gen_api_network(rng):
    pool = ["H", "H2", "C", "O", "CO", "OH", "H2O", "He", "HCO+", "H3+", "e-", "#CO", "#H2O", "GRAIN0", "Si++++", "CH3OH", "C10H2",
            "CH3COOCH2CH3+", "CH3CH2CH2CH2OH", "CH3CH2CH2CH2OH+", "C10H2N2O2Si2++", "#CH3COOCH2CH3"]      # names beyond the 12-column slot
    rl = []
    for i in range(rng.randint(1, 10)):
        re_ = [rng.choice(pool) for _ in range(rng.choice([1, 2, 2, 3]))]
        pr_ = [rng.choice(pool) for _ in range(rng.choice([0, 1, 2, 3, 4, 5]))]
        if rng.random() < 0.3 and len(re_) > 1:
            re_[1] = re_[0]
        if rng.random() < 0.2:
            re_.append(rng.choice(["CR", "PHOTON", "CRPHOT"]))
        a, b, c = c07.coeffs(rng)
        ty = rng.choice(list(ReactionType))
        r = Reaction(re_, pr_, float(rng.choice([-1.0, 10.0, 5.25, 0.0])), float(rng.choice([-1.0, 300.0, 41000.0])), a, b, c, ty,
                     idxfromfile=rng.choice([-1, i, 42, 6173]))
        r.source = rng.choice(["unknown", "kida", "umist", "leeds", "mine"])
        rl.append(r)
    reset_globals()
    return Network(reactions=rl)


def roundtrip(res, model, net, tag, case):
    d = ol.scratch_dir()
    f1, f2 = d / "w1.naunet", d / "w2.naunet"
    with quiet():
        net.write(f1, "naunet")
    lines1 = f1.read_text().split("\n")
    orig = [describe(r) for r in net.reaction_list]
    try:
        reset_globals()
        with quiet():
            net2 = Network(filelist=str(f1), fileformats="naunet")
    except Exception as e:
        leeds_ice = any(s.is_surface and s._surface_prefix == "G" for r in net.reaction_list for s in r.reactants + r.products)
        res.violation("oracle", f"{tag}: the written network cannot be read back: {type(e).__name__}: {e}",
                      dict(case, finding="C18-leeds-ice-names-unreadable") if leeds_ice and "unrecognizable" in str(e) else case)
        ol.cleanup_scratch()
        return
    back = [describe(r) for r in net2.reaction_list]
    # ---- oracle
    if len(back) != len(orig):
        res.violation("oracle", f"{tag}: {len(orig)} reactions written, {len(back)} read back", case)
    for k, (o, b) in enumerate(zip(orig, back)):
        want = dict(o, a=float(f"{o['a']:10.3e}"), b=float(f"{o['b']:10.3e}"), c=float(f"{o['c']:10.3e}"),
                    tmin=float(f"{o['tmin']:9.2f}"), tmax=float(f"{o['tmax']:9.2f}"))
        if want != b:
            diff = {key: (want[key], b[key]) for key in want if want[key] != b[key]}
            res.violation("oracle", f"{tag}: reaction {k} changed by write/read: {diff}", case)
            break
    if [s.name for s in net.species] != [s.name for s in net2.species]:
        res.violation("oracle", f"{tag}: species list changed by write/read", case)
    else:
        def structure(nw):
            sp = nw.species
            return [(sorted(sp.index(x) for x in r.reactants), sorted(sp.index(x) for x in r.products)) for r in nw.reaction_list]
        if structure(net) != structure(net2):
            res.violation("oracle", f"{tag}: ODE structure (species slots per reaction) changed by write/read", case)
    with quiet():
        net2.write(f2, "naunet")
    if f2.read_text() != f1.read_text():
        res.violation("oracle", f"{tag}: the second write differs from the first", case)
    try:
        reset_globals()
        with quiet():
            net3 = Network(filelist=str(f2), fileformats="naunet")
        if [describe(r) for r in net3.reaction_list] != back:
            res.violation("oracle", f"{tag}: the third read differs from the second", case)
    except Exception as e:
        res.violation("oracle", f"{tag}: the second file cannot be read: {type(e).__name__}: {e}", case)
    # ---- correspondence
    if model is not None:
        recs = [printed(r) for r in net.reaction_list]
        rep = model.call("nat.write", PSEUDO, recs)
        m_lines = [l.rstrip("\n") for l in rep[0]]
        if m_lines != lines1[:-1]:
            k = next((i for i, (a, b) in enumerate(zip(m_lines, lines1)) if a != b), 0)
            res.corr_disagreements += 1
            res.violation("correspondence", f"{tag}: written line {k}: implementation {lines1[k]!r} vs model {m_lines[k] if k < len(m_lines) else None!r}", case)
        for k, (m, b) in enumerate(zip(rep[1], back)):
            if m == "error":
                res.corr_disagreements += 1
                res.violation("correspondence", f"{tag}: model cannot re-read line {k}", case)
                break
            idx, re_, pr_, a, bb, c, lt, ut, ty, src = m
            got = dict(reac=sorted(re_), prod=sorted(pr_), a=float(a), b=float(bb), c=float(c), tmin=float(lt), tmax=float(ut), idx=int(idx),
                       type=int(ty), source=src)
            if got != b:
                res.corr_disagreements += 1
                res.violation("correspondence", f"{tag}: re-read reaction {k}: implementation {b} vs model {got}", case)
                break
        if [l for l in rep[2]] != m_lines:
            res.corr_disagreements += 1
            res.violation("correspondence", f"{tag}: the model's second-cycle lines differ from its first", case)
    ol.cleanup_scratch()


def write_after_edit(res, net, rng, tag, case):
    """a network that was already written once is edited (a reaction removed, re-indexed, a coefficient / window / type / source
    changed on the objects) and written again: the second file holds the network as it is NOW"""
    d = ol.scratch_dir()
    with quiet():
        net.write(d / "before.naunet", "naunet")
    edits = []
    if len(net.reaction_list) > 1 and rng.random() < 0.7:
        k = rng.randrange(len(net.reaction_list))
        net.remove_reaction(k)
        edits.append(f"remove_reaction({k})")
    if rng.random() < 0.7:
        net.reindex()
        edits.append("reindex()")
    for r in rng.sample(net.reaction_list, rng.randint(1, min(3, len(net.reaction_list)))):
        what = rng.choice(["alpha", "gamma", "window", "type", "source"])
        if what == "alpha":
            r.alpha = (r.alpha or 1.0) * 3.0
        elif what == "gamma":
            r.gamma = r.gamma + 12.5
        elif what == "window":
            r.temp_min, r.temp_max = 20.0, 450.0
        elif what == "type":
            r.reaction_type = ReactionType.GAS_PHOTON if r.reaction_type != ReactionType.GAS_PHOTON else ReactionType.GAS_TWOBODY
        else:
            r.source = "edited"
        edits.append(what)
    now = [describe(r) for r in net.reaction_list]
    with quiet():
        net.write(d / "after.naunet", "naunet")
    c2 = dict(case, edits=edits)
    try:
        reset_globals()
        with quiet():
            back = [describe(r) for r in Network(filelist=str(d / "after.naunet"), fileformats="naunet").reaction_list]
    except Exception as e:
        res.count("write-after-edit: unreadable (reported by the plain round trip)")
        ol.cleanup_scratch()
        return
    if len(back) != len(now):
        res.violation("oracle", f"{tag}: written again after {edits}: {len(now)} reactions held, {len(back)} read back", c2)
    for k, (o, b) in enumerate(zip(now, back)):
        want = dict(o, a=float(f"{o['a']:10.3e}"), b=float(f"{o['b']:10.3e}"), c=float(f"{o['c']:10.3e}"),
                    tmin=float(f"{o['tmin']:9.2f}"), tmax=float(f"{o['tmax']:9.2f}"))
        if want != b:
            diff = {key: (want[key], b[key]) for key in want if want[key] != b[key]}
            res.violation("oracle", f"{tag}: written again after {edits}: reaction {k} of the file differs from the network as it is now: {diff}", c2)
            break
    res.count("write-after-edit networks")
    ol.cleanup_scratch()


def native_twin(r):
    """the reaction as the native format carries it: written, then read back as a native Reaction"""
    line = f"{r:naunet}"
    return Reaction(react_string=line + "\n")


def export_laws(res, rng):
    """per (format, subtype): direct rate vs rate of the re-read native reaction"""
    for fmt, code, sp in c05.cases():
        if fmt == "naunet":
            continue
        for ka, kb, kc in (("pos", "pos", "pos"), ("neg", "neg", "neg"), ("pos", "zero", "pos")):
            a, b, c = c05.value(ka, 2.5e-9), c05.value(kb, 0.5), c05.value(kc, 1.5)
            r = c05.make(fmt, code, a, b, c, sp)
            case = {"kind": "c18-export", "format": fmt, "code": code, "species": sp, "coeffs": [a, b, c]}
            try:
                direct = r.rateexpr()
            except Exception:
                res.count("export: direct rendering refuses")
                continue
            if r.reaction_type is None:
                continue
            try:
                twin = native_twin(r)
                again = twin.rateexpr()
            except Exception as e:
                res.count("export: re-render refuses (allowed)")
                res.case(("c18-export", fmt, code, sp, ka, kb, kc), nontrivial=True)
                continue
            e = c05.env(rng)
            e.update(zeta=5e-16, zeta_cr=2.6e-17, zism=1.3e-17, G0=7.0)
            # the native text uses the printed (rounded) coefficients: evaluate the direct text with them too
            r2 = c05.make(fmt, code, twin.alpha, twin.beta, twin.gamma, sp)
            v1, v2 = c05.evaluate(r2.rateexpr(), e), c05.evaluate(again, e)
            if not c05.close(v1, v2):
                known = (fmt, code) in KNOWN_EXPORT
                res.violation("oracle", f"export + re-render changes the law of {fmt} type {code} ({sp}): direct {r2.rateexpr()!r} = {v1!r}, "
                                        f"re-read as native type {int(twin.reaction_type)} {again!r} = {v2!r}", dict(case, finding=FINDING) if known else case)
            res.count("export: same value" if c05.close(v1, v2) else "export: law changed")
            res.case(("c18-export", fmt, code, sp, ka, kb, kc), nontrivial=True)
    # grain reactions written from the Leeds format, re-read as native, with the same dust model
    items = []
    for mname, proc in itertools.product(("hh93", "hh93i", "rr07", "rr07x"), c11.PROCS):
        for fmt in ("leeds", "uclchem"):
            if (fmt == "leeds" and proc == "h2") or (fmt == "uclchem" and proc in ("recombine", "surface", "reactive", "ecapture")):
                continue
            for reac, prod, dv, hv in c11.species_cases(fmt, proc)[:2]:
                r = c11.make_reaction(fmt, proc, reac, prod, 1.5)
                grain = c11.MODELS[mname](group=0)
                try:
                    direct = r.rateexpr(grain)
                except Exception:
                    continue
                try:
                    twin = native_twin(r)
                    # the native reader knows the default '#' prefix only: Leeds 'G' names cannot be re-read as ice
                    again = twin.rateexpr(grain)
                except Exception:
                    res.count("export(grain): re-render refuses (allowed)")
                    continue
                items.append((f"{fmt}-{mname}", proc, direct, again, reac))
    if items:
        exprs = [x[2] for x in items] + [x[3] for x in items]
        vals, bad = c11.run_c(exprs, 0)
        if vals is None:
            res.notes.append(f"grain export comparison not compiled: {bad[:2]}")
        else:
            n = len(items)
            for k, (fm, proc, direct, again, reac) in enumerate(items):
                same = c11.close(vals[k], vals[n + k])
                res.count("export(grain): same value" if same else "export(grain): law changed")
                if not same:
                    known = (fm, proc) in KNOWN_EXPORT
                    case = {"kind": "c18-export-grain", "format_model": fm, "process": proc, "reactants": reac}
                    res.violation("oracle", f"export + re-render changes the {proc} rate of {fm} {reac}: direct {direct!r} = {vals[k]!r}, re-read {again!r} = {vals[n + k]!r}",
                                  dict(case, finding=FINDING) if known else case)
                res.case(("c18-export-grain", fm, proc, tuple(reac)), nontrivial=True)


def export_cli(res, net, tag, before=None):
    """the real path: Network.export -> `naunet render`; every k[i] of the re-rendered sources equals the direct rendering.
    With `before`, another network was exported into the same directory first (export with overwrite=True replaces it)"""
    from .. import ratelib
    d = ol.scratch_dir()
    if before is not None:
        with quiet():
            before.export("proj", prefix=d, overwrite=True)
    direct = ol.render(net, templates=["src/naunet_rates.cpp.j2", "include/naunet_macros.h.j2"])
    s1 = ratelib.rates_statements((direct / "src" / "naunet_rates.cpp").read_text())
    with quiet():
        net.export("proj", prefix=d, overwrite=True)
    rc, out, err = naunet_cli(["render", "--force", "-n"], d / "proj")
    case = {"kind": "c18-cli", "tag": tag}
    if rc != 0:
        res.count("cli export: re-render refused")
        return
    s2 = ratelib.rates_statements((d / "proj" / "src" / "naunet_rates.cpp").read_text())
    n1 = [" ".join(x.split()) for x in s1]
    n2 = [" ".join(x.split()) for x in s2]
    if n1 != n2:
        k = next((i for i, (a, b) in enumerate(zip(n1, n2)) if a != b), min(len(n1), len(n2)))
        res.violation("oracle", f"{tag}: exported + re-rendered project computes k[{k}] as {n2[k] if k < len(n2) else None!r}, the direct rendering as {n1[k] if k < len(n1) else None!r}", case)
    res.count("cli export compared")
    ol.cleanup_scratch()


def run(res, info):
    rng = random.Random(res.seed * 7919 + 18)
    model = fw.Model() if info["ok"] else None
    res.rule = ("networks built through the API (every ReactionType, 1-3 reactants with repeats and pseudo reactants, 0-5 products, long names, "
                "signed/zero coefficients, four window shapes, indices incl. -1, source tags) and read from generated files of the five other "
                "formats: write -> read -> write -> read; API networks edited after a first write (removal, reindex, coefficient / window / type / source) and written again; plus every gas-phase (format, subtype) and grain (model, process) re-read as native")
    res.assumptions = ["reaction types are members of ReactionType (an unknown UMIST code cannot be written at all)",
                       "Leeds ice names (G prefix) are not ice under the native reader's default symbols: such rates are refused or compared as given"]
    n = 60 if res.tier == "quick" else 1500
    for i in range(n):
        net = gen_api_network(rng)
        case = {"kind": "c18", "source": "api", "reactions": [f"{r:naunet}" for r in net.reaction_list]}
        roundtrip(res, model, net, f"api network {i}", case)
        if net.reaction_list and not any(v.get("case") is case for v in res.violations):
            write_after_edit(res, net, rng, f"api network {i}", case)
        res.count("api networks")
        res.case(("c18", "api", i, tuple(case["reactions"][:2])), sample={"first": case["reactions"][:1]}, nontrivial=True)
    for fmt in ("kida", "umist", "leeds", "uclchem", "krome"):
        for i in range(n // 6):
            lines, abstract = c07.make_file(rng, fmt, rng.randint(1, 8))
            d = ol.scratch_dir()
            p = d / f"in.{fmt}"
            p.write_text("\n".join(lines) + "\n")
            reset_globals()
            try:
                with quiet():
                    net = Network(filelist=str(p), fileformats=fmt)
            except Exception:
                continue
            if any(r.reaction_type is None for r in net.reaction_list):
                continue
            case = {"kind": "c18", "source": fmt, "lines": lines}
            roundtrip(res, model, net, f"{fmt} file {i}", case)
            res.count(f"networks from {fmt}")
            res.case(("c18", fmt, i, tuple(lines[:2])), nontrivial=bool(net.reaction_list))
    export_laws(res, rng)
    # real export path on a KIDA network (laws survive) - and, thorough, on a UMIST one
    reset_globals()
    with quiet():
        net = Network(filelist=str(fw.REPO / "tests/data/minimal.kida"), fileformats="kida")
    export_cli(res, net, "tests/data/minimal.kida")
    # ... and on a network whose rate modifiers switch one reaction off with the number 0.0 and replace another
    reset_globals()
    with quiet():
        net = Network(filelist=str(fw.REPO / "tests/data/minimal.kida"), fileformats="kida")
        idxs = [r.idxfromfile for r in net.reaction_list]
        net = Network(filelist=str(fw.REPO / "tests/data/minimal.kida"), fileformats="kida",
                      rate_modifier={idxs[0]: 0.0, idxs[-1]: "1.0e-12 * sqrt(Tgas)"})
    export_cli(res, net, "tests/data/minimal.kida with rate modifiers {first: 0.0, last: expression}")
    # ... and on a project directory that already holds the export of another network
    reset_globals()
    with quiet():
        old = Network(filelist=str(fw.REPO / "tests/data/minimal.kida"), fileformats="kida")
        new = Network(filelist=str(fw.REPO / "tests/data/minimal.kida"), fileformats="kida")
        new.reaction_list[0].alpha = new.reaction_list[0].alpha * 2.5
        new.add_reaction(Reaction(["CO", "PHOTON"], ["C", "O"], -1.0, -1.0, 1.1e-9, 0.0, 1.7, ReactionType.GAS_PHOTON, idxfromfile=9001))
    export_cli(res, new, "an edited network exported (overwrite=True) over the export of tests/data/minimal.kida", before=old)
    if model:
        model.close()


def replay(rp, info):
    print("replay: case", str(rp.get("case"))[:600])
    return 0
