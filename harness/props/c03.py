"""C03 — CSR / dense / Odeint layouts agree, are well-formed and in bounds.
(A) ode.jac.{nrow,nnz,rows,cols,vals,rhs} vs Model csr/dense_assign/pattern; (B) the three
rendered layouts + cusparse arrays + jac_pattern.dat + macros; oracle: CSR validity, equality of
the (row, col, value) triples of all layouts, every literal subscript below the declared size."""
import random
from fractions import Fraction
import re

from .. import framework as fw
from .. import odelib as ol
from . import c01, c02

TRUST = ["harness regexes that extract subscripts and statements from rendered C++"]


def csr_valid(rp, cv, nnz, n):
    if len(rp) != n + 1 or rp[0] != 0 or rp[-1] != nnz or len(cv) != nnz:
        return f"rowptrs {rp[:8]}.. (len {len(rp)}) / nnz {nnz} / ncols {len(cv)} / n {n}"
    for r in range(n):
        if rp[r] > rp[r + 1]:
            return f"rowptrs decrease at {r}"
        row = cv[rp[r]:rp[r + 1]]
        if any(c < 0 or c >= n for c in row) or any(x >= y for x, y in zip(row, row[1:])):
            return f"row {r} columns {row}"
    return None


def subscripts_in_bounds(src, macros, where):
    """every literal subscript of the generated arrays is below its declared size"""
    NEQ = ol.macro_int(macros, "NEQUATIONS")
    if NEQ is None:
        nsp = ol.macro_int(macros, "NSPECIES") or 0
        th = 1 if ((ol.macro_int(macros, "NHEATPROCS") or 0) or (ol.macro_int(macros, "NCOOLPROCS") or 0)) else 0
        NEQ = nsp + th if nsp + th else 1
    NNZ = ol.macro_int(macros, "NNZ")
    NRE = ol.macro_int(macros, "NREACTIONS")
    lim = {"k": NRE, "kh": ol.macro_int(macros, "NHEATPROCS"), "kc": ol.macro_int(macros, "NCOOLPROCS"),
           "data": NNZ, "colvals": NNZ, "rowptrs": NEQ + 1}
    src = ol.resolve_aliases(src)        # `data[jistart + 3]`, `y_cur[IDX_H]`, ... read as `data[3]`, `y[IDX_H]`
    for arr, n in re.findall(r"\b(k|kh|kc|data|colvals|rowptrs)\[(\d+)\]", src):
        if lim[arr] is None or int(n) >= lim[arr]:
            return f"{where}: {arr}[{n}] outside declared size {lim[arr]}"
    nsp = ol.macro_int(macros, "NSPECIES")
    for arr, name in re.findall(r"\b(y|ydot|ab)\[(IDX_[^\]]+)\]", src):
        if name == "IDX_TGAS":
            v = nsp if macros.get("IDX_TGAS") else None
        else:
            v = ol.macro_int(macros, name)
        if v is None or v >= NEQ:
            return f"{where}: {arr}[{name}] resolves to {v}, outside NEQUATIONS={NEQ}"
    for r, c in re.findall(r"(?:IJth\(jmatrix, |\bj\()(\d+), (\d+)\)", src):
        if int(r) >= NEQ or int(c) >= NEQ:
            return f"{where}: Jacobian subscript ({r},{c}) outside NEQUATIONS={NEQ}"
    return None


def exec_layouts(res, a, desc, rng, case):
    """channel C: the rendered dense and sparse CVODE Jac and the Odeint Jac functor compiled as they stand and called with the same
    coefficients and abundances: the CSR arrays the sparse routine fills are the generator's, the matrix rebuilt from them equals the
    dense one entry for entry, so does the Odeint matrix (which must zero what it omits), and nothing non-zero lies outside the pattern"""
    if not a.species:
        return
    j = a.ode.jac
    n = j.nrow
    nre = len(a.info.reactions)
    ko = [Fraction(l % 13 + 3, 16) for l in range(nre)] if desc["reactions"] else [Fraction(0)]      # NREACTIONS is 1 without reactions; k[0] stays 0.0
    thermal = bool(a.info.heating or a.info.cooling)
    y = [Fraction(rng.randint(1, 64), 8) for _ in a.aliases] + ([Fraction(100)] if thermal else [])
    kh = [Fraction(rng.randint(1, 8), 8) for _ in a.info.heating]
    kc = [Fraction(rng.randint(1, 8), 8) for _ in a.info.cooling]
    methods = ["dense", "sparse", "cusparse"] + ([] if (thermal or desc.get("rate_modifier") or desc.get("tmin") or desc.get("tmax") or desc.get("edits")) else ["odeint"])
    preps = [ol.prep_odeint(desc, ko) if m == "odeint" else ol.prep_cusparse(desc) if m == "cusparse" else ol.prep_fexjac(desc, m) for m in methods]
    diags = ol.compile_all([c for c, _ in preps])
    outs = {}
    for m, (_, exe), diag in zip(methods, preps, diags):
        out = None
        if diag is None:
            if m == "cusparse":      # a batch of two systems; the second one is compared with the dense matrix (its block lies at an offset)
                out, diag = ol.run_fexjac(exe, [ko + kh + kc + [2 * v for v in y] + y], per_case=2)
                out = out[1:] if out else out
            else:
                out, diag = ol.run_fexjac(exe, [y] if m == "odeint" else [ko + kh + kc + y])
        if out is None:
            if desc.get("ode_modifier") and "does not compile" in (diag or ""):
                res.count("channel C skipped: modifier factor with user symbols")
                ol.cleanup_scratch()
                return
            res.corr_disagreements += 1
            res.violation("correspondence", f"channel C ({m}, compiled): {diag}", case)
            ol.cleanup_scratch()
            return
        outs[m] = out[0]
        res.count(f"executed:{m}")
    ol.cleanup_scratch()
    sp = outs["sparse"]
    rows_, cols_ = sp["S"]
    if not sp["J_ok"] or rows_ != [int(x) for x in j.rows] or cols_ != [int(x) for x in j.cols]:
        res.violation("oracle", f"channel C: the compiled sparse Jac fills rowptrs={rows_[:10]} colvals={cols_[:10]}; the generator's arrays are "
                      f"{list(j.rows)[:10]} / {list(j.cols)[:10]}", case)
        return
    cu = outs["cusparse"]
    if not cu["J_ok"] or cu["S"] != (rows_, cols_):
        res.violation("oracle", f"channel C: the compiled InitJac (cuSPARSE) copies rowptrs={cu['S'][0][:10]} colvals={cu['S'][1][:10]}; the generator's arrays are "
                      f"{list(j.rows)[:10]} / {list(j.cols)[:10]}", case)
        return
    stored = {(r, cols_[p]) for r in range(n) for p in range(rows_[r], rows_[r + 1])}
    for m in methods[1:]:
        for r in range(n):
            for c in range(n):
                if thermal and (r == n - 1 or c == n - 1) and m == "odeint":
                    continue
                d_, o_ = outs["dense"]["J"][r][c], outs[m]["J"][r][c]
                if abs(d_ - o_) > 1e-12 * max(1.0, abs(d_)):
                    res.violation("oracle", f"channel C: entry ({r},{c}) of the compiled {m} Jacobian is {o_!r}, of the dense one {d_!r} "
                                  f"(y = {[float(v) for v in y][:6]})", dict(case, y=[str(v) for v in y]))
                    return
    for r in range(n):
        for c in range(n):
            if outs["dense"]["J"][r][c] != 0.0 and (r, c) not in stored:
                res.violation("oracle", f"channel C: the compiled dense Jacobian is non-zero at ({r},{c}), which the CSR pattern does not store", case)
                return


def check_desc(res, model, desc, rng, tag, channel_b=False):
    case = {"kind": "c03", "desc": desc}
    a = ol.analyse(desc, model)
    j = a.ode.jac
    n = j.nrow
    res.count("empty" if not desc["reactions"] and not desc.get("required") else "non-empty")
    res.count("thermal" if (a.info.heating or a.info.cooling) else "no-thermal")
    bad = csr_valid(list(j.rows), list(j.cols), j.nnz, n)
    if bad:
        res.violation("oracle", f"channel A: CSR arrays malformed: {bad}", case)
    dense = [(idx // n, idx % n, t) for idx, t in enumerate(j.rhs) if t != "0.0"]
    csr_tr = []
    for r in range(min(n, len(j.rows) - 1)):
        for k in range(j.rows[r], j.rows[r + 1]):
            if k < len(j.cols) and k < len(j.vals):
                csr_tr.append((r, j.cols[k], j.vals[k]))
    if dense != csr_tr:
        res.violation("oracle", f"channel A: CSR triples differ from the non-zero entries of the flat matrix ({len(csr_tr)} vs {len(dense)})", case)
    if len(j.rhs) != n * n or len(a.ode.fex) != (n if (a.nspec or a.info.cooling or a.info.heating) else 0):
        # the empty network has n_eqns = 1 and no equation
        if not (a.nspec == 0 and n == 1 and len(j.rhs) == 1):
            res.violation("oracle", f"channel A: shape: nrow={n} len(rhs)={len(j.rhs)} len(fex)={len(a.ode.fex)}", case)
    if a.model is not None:
        rp, cv, vals, nnz = a.m_csr
        if [int(x) for x in rp] != list(j.rows) or [int(x) for x in cv] != list(j.cols) or int(nnz) != j.nnz or a.m_neq != n:
            res.corr_disagreements += 1
            res.violation("correspondence", f"CSR arrays: model rptr={rp[:10]} cols={cv[:10]} nnz={nnz} n={a.m_neq}; implementation rptr={list(j.rows)[:10]} cols={list(j.cols)[:10]} nnz={j.nnz} n={n}", case)
        mvals = [ol.model_eqn(x, a.ysyms) for x in vals]
        ivals = []
        try:
            ivals = [ol.canon(*ol.parse_sum(t)) for t in j.vals]
        except ol.ParseError as e:
            res.violation("correspondence", f"vals: {e}", case)
        if ivals and mvals != ivals:
            res.corr_disagreements += 1
            res.violation("correspondence", "CSR values differ between model and implementation", case)
        md = [(int(r), int(c)) for r, c, _ in a.m_dense]
        mt = [(int(r), int(c)) for r, c, _ in a.m_triples]
        if md != [(r, c) for r, c, _ in dense] or mt != md:
            res.corr_disagreements += 1
            res.violation("correspondence", "dense assignment positions differ between model and implementation", case)
    if channel_b:
        per = {}
        for solver, method, device in [("cvode", "dense", "cpu"), ("cvode", "sparse", "cpu"), ("cvode", "cusparse", "gpu"), ("odeint", "rosenbrock4", "cpu")]:
            net = ol.build_network(desc)
            d = ol.render(net, solver, method, device, jac_pattern=True)
            macros = ol.read_macros(d)
            where = f"channel B ({solver}/{method})"
            res.count(f"rendered:{method}")
            mat, csr = c02.rendered_matrix(d, solver, method)
            if mat is None:
                res.corr_disagreements += 1
                res.violation("correspondence", f"{where}: the reader does not understand the rendered Jacobian file ({csr})", case)
                continue
            per[method] = mat
            NEQ = max(a.nspec + (1 if (a.info.heating or a.info.cooling) else 0), 1)
            if ol.macro_int(macros, "NNZ") != j.nnz or ol.macro_int(macros, "NREACTIONS") != max(len(desc["reactions"]), 1) \
                    or ol.macro_int(macros, "NSPECIES") != a.nspec:
                res.violation("oracle", f"{where}: macros NNZ={macros.get('NNZ')} NREACTIONS={macros.get('NREACTIONS')} NSPECIES={macros.get('NSPECIES')} "
                              f"but the generated code has nnz={j.nnz}, {max(len(desc['reactions']), 1)} reactions, {a.nspec} species", case)
            if csr is not None:
                bad = csr_valid(csr["rowptrs"], csr["colvals"], ol.macro_int(macros, "NNZ") or 0, NEQ)
                if bad or not csr["indices_ok"] or csr["ndata"] != len(csr["colvals"]):
                    res.violation("oracle", f"{where}: rendered CSR arrays malformed: {bad} data={csr['ndata']}", case)
            for f in sorted((d / "src").iterdir()):
                if f.suffix in (".cpp", ".cu") and f.stem in ("naunet_fex", "naunet_jac", "naunet_rates", "naunet_ode", "naunet_renorm"):
                    bad = subscripts_in_bounds(ol.preprocess(f.read_text(), macros), macros, f"{where} {f.name}")
                    if bad:
                        res.violation("oracle", bad, case)
                        break
            pat = (d / "jac_pattern.dat").read_text().split("\n")
            pat = [[int(x) for x in row.split()] for row in pat if row.strip() != ""]
            want = [[1 if (r, c) in mat else 0 for c in range(NEQ)] for r in range(NEQ)]
            if pat != want:
                res.violation("oracle", f"{where}: jac_pattern.dat does not mark exactly the stored entries", case)
            if a.model is not None:
                mp = [[int(x) for x in row] for row in a.m_pattern]
                if mp != pat:
                    res.corr_disagreements += 1
                    res.violation("correspondence", f"{where}: pattern differs from the model's", case)
        canon_mat = lambda m: {k: " ".join(v.replace("y_cur[", "y[").split()) for k, v in m.items()}
        ref = canon_mat(per["dense"]) if "dense" in per else None
        for method in ("sparse", "cusparse", "rosenbrock4"):
            if ref is None or method not in per:
                continue
            if canon_mat(per[method]) != ref:
                diff = set(canon_mat(per[method]).items()) ^ set(ref.items())
                res.violation("oracle", f"channel B: {method} layout differs from dense at {sorted(k for k, _ in diff)[:5]}", case)
        ol.cleanup_scratch()
        exec_layouts(res, a, desc, rng, case)
    res.case(("c03", tag, ol.nontrivial_sig(desc)),
             sample={"n_eqns": n, "nnz": j.nnz, "rowptrs": list(j.rows)[:8], "colvals": list(j.cols)[:8]},
             nontrivial=j.nnz > 0)


def run(res, info):
    rng = random.Random(res.seed * 7919 + 3)
    model = fw.Model() if info["ok"] else None
    res.rule = ("networks as in C01 incl. the empty network, isolated species, with/without the thermal equation; all four "
                "back-ends and the pattern file rendered for a subset; non-trivial = at least one stored entry")
    res.assumptions = ["(loop.index0/neqns)|int in the Jinja template is float division: exact below 2^53"]
    n_a = 150 if res.tier == "quick" else 2500
    n_b = 5 if res.tier == "quick" else 40
    # user-registered heating processes exist in channel A only (C01 / C02 use them): the layouts are compared without them
    for i, d in enumerate([{k: v for k, v in d0.items() if k != "heating"} for d0 in c01.FIXED + c02.MOD_FIXED]):
        check_desc(res, model, d, rng, ("fixed", i), channel_b=True)
    for i in range(n_a):
        check_desc(res, model, c01.gen_desc(rng, "small" if i % 6 else "large"), rng, i, channel_b=(i < n_b))
    if model:
        model.close()


def replay(rp, info):
    res = fw.Result("C03", "quick", 0)
    model = fw.Model() if info["ok"] else None
    case = rp.get("case") or {}
    if "desc" in case:
        d = case["desc"]
        d["reactions"] = [tuple(x) for x in d["reactions"]]
        check_desc(res, model, d, random.Random(0), "replay", channel_b=True)
    for v in res.violations:
        print(v["kind"], v["what"][:600])
    print("replay:", "FAILS" if res.violations else "passes")
    return 1 if res.violations else 0
