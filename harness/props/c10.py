"""C10 — generated sources are self-contained: every symbol used is declared first.
Correspondence: utilities._collect_variable_items over the network's components (parameters, derived
quantities, constants - order and values) against Model.Symbols.collect; the model's closure verdict for the
EvalRates unit against g++'s diagnostics for the rendered naunet_rates.cpp.  Oracle (no model): every rendered
.cpp of every configuration is given to g++ -fsyntax-only against the SUNDIALS / Boost stand-in headers; any
'not declared' / 'redeclaration' / 'redefinition' diagnostic is a violation."""
import itertools
import random
import re
import subprocess

from .. import framework as fw
from .. import odelib as ol
from ..impl import Species, Network, Reaction, ReactionType, reset_globals, quiet
from naunet.templateloader import TemplateLoader
from naunet.utilities import _collect_variable_items

TRUST = ["g++ -fsyntax-only and the SUNDIALS / Boost stand-in headers (harness/cxx) decide what 'declared' means for the oracle",
         "the fixed names of Model.Symbols.fixed_names are transcribed from naunet_constants.cpp.j2 / naunet_physics.h.j2 / libm"]
CXX = fw.VERIF / "harness" / "cxx"
R = fw.REPO
DIAG = re.compile(r"error: (.*(?:was not declared|not declared in this scope|redeclaration|redefinition|conflicting declaration|has not been declared|does not name a type|struct NaunetData. has no member named).*)")

T = ReactionType


def cfg_file(name, fmt, grain="", label=None, **kw):
    return {"name": label or name, "make": lambda: Network(filelist=str(R / name), fileformats=fmt, grain_model=grain, **kw)}


def api_net(reactions, grain="", required=(), cooling=()):
    def make():
        rl = [Reaction(list(r), list(p), -1.0, -1.0, 1.5e-10, 0.5, 10.0, ty, idxfromfile=i) for i, (r, p, ty) in enumerate(reactions)]
        return Network(reactions=rl, grain_model=grain, required_species=list(required), cooling=list(cooling))
    return make


def krome_with_var():
    d = ol.scratch_dir()
    p = d / "uservar.krome"
    p.write_text("@var: myv = Te*2.0\n@format:idx,R,R,P,Tmin,Tmax,rate\n1,H,H,H2,10,1e4,1.0d-10*myv\n")
    return Network(filelist=str(p), fileformats="krome")


def mixed_files(parts, grain="", **kw):
    """several reaction files of different formats in ONE network; a part is (format, path or list of lines)"""
    def make():
        d = ol.scratch_dir()
        paths, fmts = [], []
        for j, (fmt, src) in enumerate(parts):
            if isinstance(src, str):
                paths.append(str(R / src))
            else:
                p = d / f"part{j}.{fmt}"
                p.write_text("\n".join(src) + "\n")
                paths.append(str(p))
            fmts.append(fmt)
        return Network(filelist=paths, fileformats=fmts, grain_model=grain, **kw)
    return make


# KIDA lines with formula 1 (cosmic-ray ionisation: alpha * zeta), 2 (photo) and 3
KIDA_CR = "H2         CR                     H          H                                             4.600e-01  0.000e+00  0.000e+00 2.00e+00 0.00e+00 logn  1    -9999   9999  1  9001 1  1"
KIDA_PH = "CO         Photon                 C          O                                             2.000e-10  0.000e+00  3.530e+00 2.00e+00 0.00e+00 logn  2    -9999   9999  2  9002 1  1"
KIDA_TB = "C          CH                     H          C2                                            2.400e-10  0.000e+00  0.000e+00 2.00e+00 1.00e+02 logn  4     10    300  3  4894 1  1"
UMIST_CP = '9003:CP:He:CRP:He+:e-:::1:5.00e-01:0.00:0.0:10:41000:L:A:"x"::'
UCL_LINES = ["H,CRP,NAN,H+,E-,NAN,NAN,4.6e-1,0.0,0.0,10,41000", "H,H,NAN,H2,NAN,NAN,NAN,1.0e-17,0.5,0.0,10,41000"]


CONFIGS = [
    cfg_file("tests/data/minimal.kida", "kida"),
    cfg_file("tests/data/minimal.umist", "umist"),
    cfg_file("tests/data/minimal.krome", "krome"),
    cfg_file("tests/data/primordial.krome", "krome"),
    # a user ODE modifier whose factor names a derived quantity of the reactions: it is pasted into Fex and Jac of every back-end
    cfg_file("tests/data/minimal.krome", "krome", label="tests/data/minimal.krome + ODE modifier using sqrTgas",
             ode_modifier={"H": {"factors": ["-1.0e-18 * sqrTgas"], "reactants": [["H"]]}}),
    {"name": "harness/data/commons.krome (directives between reactions)", "make": lambda: Network(filelist=str(fw.VERIF / "harness" / "data" / "commons.krome"), fileformats="krome")},
    cfg_file("tests/data/minimal.leeds", "leeds", "hh93"),
    cfg_file("tests/data/minimal.leeds", "leeds", "hh93i"),
    cfg_file("tests/data/minimal.ucl", "uclchem", "rr07", required_species=["H2"]),
    cfg_file("tests/data/minimal.ucl", "uclchem", "rr07x", required_species=["H2", "H"]),
    {"name": "api: gas + cooling", "make": api_net([(["H", "e-"], ["H+", "e-", "e-"], T.GAS_TWOBODY), (["H+", "e-"], ["H"], T.GAS_TWOBODY),
                                                     (["He", "CR"], ["He+", "e-"], T.GAS_COSMICRAY)], cooling=["CIC_HI", "RC_HII"])},
    {"name": "api: native grain reactions (hh93)", "make": api_net([(["CO"], ["#CO"], T.GRAIN_FREEZE), (["#CO"], ["CO"], T.GRAIN_DESORB_THERMAL),
                                                                    (["#H", "#CO"], ["#HCO"], T.SURFACE_TWOBODY), (["H", "H"], ["H2"], T.GAS_TWOBODY)],
                                                                   grain="hh93", required=["GRAIN0"])},
    {"name": "api: empty network", "make": api_net([], required=["H", "He"])},
    # several formats in one network: every class registers its own symbols (zeta / zeta_cr / zism ...) and the registries are merged
    {"name": "mixed: leeds file, then KIDA lines (cosmic ray, photo, two-body)", "grain": "hh93",
     "make": mixed_files([("leeds", "tests/data/minimal.leeds"), ("kida", [KIDA_CR, KIDA_PH, KIDA_TB])], grain="hh93")},
    {"name": "mixed: KIDA lines, then leeds file", "grain": "hh93",
     "make": mixed_files([("kida", [KIDA_CR, KIDA_PH, KIDA_TB]), ("leeds", "tests/data/minimal.leeds")], grain="hh93")},
    {"name": "mixed: UMIST line (CP), KIDA lines, UCLCHEM lines", "grain": "rr07",
     "make": mixed_files([("umist", [UMIST_CP]), ("kida", [KIDA_CR, KIDA_TB]), ("uclchem", UCL_LINES)], grain="rr07", required_species=["H2", "H"])},
    {"name": "mixed: UCLCHEM lines, UMIST file, KIDA lines",
     "make": mixed_files([("uclchem", UCL_LINES), ("umist", "tests/data/minimal.umist"), ("kida", [KIDA_PH, KIDA_CR])], grain="rr07", required_species=["H2", "H"])},
]
FINDINGS = [
    ("C10-hh93i-stick-needs-leeds", {"name": "api: native grain reactions (hh93i)", "grain": "hh93i",
                                     "make": api_net([(["CO"], ["#CO"], T.GRAIN_FREEZE), (["#CO"], ["CO"], T.GRAIN_DESORB_THERMAL), (["H", "H"], ["H2"], T.GAS_TWOBODY)],
                                                     grain="hh93i", required=["GRAIN0"])}),
    ("C10-krome-user-variable-before-Te", {"name": "krome: @var that uses Te", "make": krome_with_var}),
    ("C10-label-in-identifier", cfg_file("tests/data/rate12_HO.leeds", "leeds", "hh93")),
    ("C10-uclchem-h2shielding-needs-H2", cfg_file("tests/data/minimal.ucl", "uclchem", "rr07")),
    ("C10-hh93-ungrouped-symbols", {"name": "api: surface group 1 (hh93)", "make": api_net([(["CO"], ["#1CO"], T.GRAIN_FREEZE), (["#1H", "#1CO"], ["HCO"], T.GRAIN_DESORB_REACTIVE)],
                                                                                             grain="hh93", required=["GRAIN1"])}),
]


GAS_POOL = [(["H", "H"], ["H2"], T.GAS_TWOBODY), (["H2", "CR"], ["H", "H"], T.GAS_COSMICRAY), (["CO", "PHOTON"], ["C", "O"], T.GAS_PHOTON),
            (["C+", "H2"], ["CH+", "H"], T.GAS_KIDA_IP1), (["C+", "OH"], ["CO+", "H"], T.GAS_KIDA_IP2), (["CO", "CRPHOT"], ["C", "O"], T.GAS_UMIST_CRPHOT),
            (["H+", "e-"], ["H"], T.GAS_TWOBODY), (["H", "e-"], ["H+", "e-", "e-"], T.GAS_TWOBODY), (["He+", "e-"], ["He"], T.GAS_TWOBODY)]
GRAIN_POOL = {
    "hh93": [(["CO"], ["#CO"], T.GRAIN_FREEZE), (["#CO"], ["CO"], T.GRAIN_DESORB_THERMAL), (["#CO"], ["CO"], T.GRAIN_DESORB_COSMICRAY),
             (["#CO"], ["CO"], T.GRAIN_DESORB_PHOTON), (["#H", "#CO"], ["#HCO"], T.SURFACE_TWOBODY), (["#H", "#CO"], ["HCO"], T.GRAIN_DESORB_REACTIVE),
             (["e-", "GRAIN0"], ["GRAIN-"], T.GRAIN_ECAPTURE), (["C+", "GRAIN-"], ["C", "GRAIN0"], T.GRAIN_RECOMINE), (["H"], ["#H"], T.GRAIN_FREEZE)],
    "rr07": [(["CO"], ["#CO"], T.GRAIN_FREEZE), (["#CO"], ["CO"], T.GRAIN_DESORB_PHOTON), (["#CO"], ["CO"], T.GRAIN_DESORB_COSMICRAY),
             (["#CO"], ["CO"], T.GRAIN_DESORB_H2), (["H"], ["#H"], T.GRAIN_FREEZE), (["C+"], ["#C"], T.GRAIN_FREEZE), (["e-"], ["#e"], T.GRAIN_FREEZE)],
}
GRAIN_POOL["hh93i"] = GRAIN_POOL["hh93"]
GRAIN_POOL["rr07x"] = GRAIN_POOL["rr07"]
COOLING = ["CIC_HI", "CIC_HeI", "CIC_HeII", "CIC_He_2S", "RC_HII", "RC_HeI", "RC_HeII", "RC_HeIII", "CEC_HI", "CEC_HeI", "CEC_HeII"]


def gen_config(rng, i):
    """a random combination of gas laws, one dust model's processes and cooling processes (surface group 0)"""
    grain = rng.choice(["", "hh93", "hh93i", "rr07", "rr07x"])
    rx = rng.sample(GAS_POOL, rng.randint(1, 5))
    req = []
    if grain:
        rx += rng.sample(GRAIN_POOL[grain], rng.randint(1, 5))
        req = ["GRAIN0"] if grain.startswith("hh93") else []
        if grain.startswith("rr07"):
            rx = [r for r in rx if r[2] != T.GRAIN_FREEZE or r[0] != ["e-"]] or rx
    cool = rng.sample(COOLING, rng.randint(0, 3)) if rng.random() < 0.5 else []
    if cool:
        req += ["H", "H+", "He", "He+", "He++", "e-"]
    if grain.startswith("rr07") or any(r[2] == T.GRAIN_DESORB_H2 for r in rx):
        req += ["H", "H2"]
    name = f"generated {i}: {grain or 'gas'}; " + ", ".join(f"{'+'.join(r)}->{'+'.join(p)}:{t.name}" for r, p, t in rx) + (f"; cooling {cool}" if cool else "")
    return {"name": name, "grain": grain, "make": api_net(rx, grain=grain, required=sorted(set(req)), cooling=cool)}


def registries(comps):
    out = []
    for c in comps:
        reg = []
        for name, v in c._symbols.items():
            kind = {"constant": "const", "param": "param", "derived": "derived"}[v.type.name]
            reg.append([name, v.symbol, "" if v.value is None else str(v.value), kind])
        out.append(reg)
    return out


def compile_unit(path, inc, boost=False):
    r = subprocess.run(["g++", "-std=c++17", "-fsyntax-only", "-w", "-I", str(CXX / ("boost" if boost else "sundials")), "-I", str(inc), str(path)],
                       stdout=subprocess.PIPE, stderr=subprocess.STDOUT, text=True)
    return [m.group(1) for m in DIAG.finditer(r.stdout)], (r.returncode != 0 and not DIAG.search(r.stdout), r.stdout[-300:])


def check_config(res, model, cfg, methods, finding=None, generated=False):
    case = {"kind": "c10", "config": cfg["name"]}
    reset_globals()
    try:
        with quiet():
            net = cfg["make"]()
    except Exception as e:
        if generated:
            res.count(f"generated combination refused: {type(e).__name__}")
            return
        res.violation("correspondence", f"{cfg['name']}: the network cannot be built: {type(e).__name__}: {e}", case)
        return
    c2 = dict(case, finding=finding) if finding else case
    species = net.species
    comps = list(net.reactions) + list(net.grains)
    tl = TemplateLoader("cvode", "dense", "cpu")
    try:
        uses = tl._assign_rates("k", net.reactions, net.grains)
    except Exception as e:
        res.count("rate assembly refuses (skipped)")
        return
    macros = ["IDX_" + s.alias for s in species] + ["eb_" + s.alias for s in species if s.is_surface] + \
             ["IDX_ELEM_" + next(iter(e.element_count)) for e in net.elements] + ["IDX_TGAS"]
    verdict = None
    if model is not None:
        m = model.call("sym.unit", macros, registries(comps), uses)
        for kind, got in (("params", m[0]), ("deriveds", m[1]), ("constants", m[2])):
            want = [[k, "" if v is None else str(v)] for k, v in _collect_variable_items(comps, kind)]
            if [list(x) for x in got] != want:
                res.corr_disagreements += 1
                res.violation("correspondence", f"{cfg['name']}: collected {kind}: implementation {want[:6]} vs model {got[:6]}", case)
        verdict = m[3] == "1"
        undeclared = list(m[4])
        res.count("model: unit closed" if verdict else "model: unit not closed")
        # the thermal units of the same file (EvalHeatingRates / EvalCoolingRates): their own registries and uses
        for sym, procs in (("kh", list(net.heating)), ("kc", list(net.cooling))):
            if not procs:
                continue
            mt = model.call("sym.unit", macros, registries(procs), tl._assign_rates(sym, procs))
            res.count(f"model: {sym} unit " + ("closed" if mt[3] == "1" else "not closed"))
            verdict = verdict and mt[3] == "1"
            undeclared += list(mt[4])
    for solver, method in methods:
        d = ol.scratch_dir()
        try:
            with quiet():
                TemplateLoader(solver, method, "cpu").render("naunet", net, path=d, save=True)
        except Exception as e:
            res.violation("correspondence", f"{cfg['name']} ({solver}/{method}): rendering fails: {type(e).__name__}: {e}", case)
            continue
        res.count(f"rendered {solver}/{method}")
        for src in sorted((d / "src").glob("*.cpp")):
            diags, (other, tail) = compile_unit(src, d / "include", boost=(solver == "odeint"))
            res.count("translation units compiled")
            if other:
                res.count("other g++ errors (types / API stand-in): not part of the property")
                res.notes.append(f"{cfg['name']} {solver}/{method} {src.name}: {tail[-160:]}") if len(res.notes) < 5 else None
            for dg in diags[:3]:
                # HH93I registers hloss = stick * ...; 'stick' is declared by Leeds-format reactions only (known finding)
                cdg = dict(case, finding="C10-hh93i-stick-needs-leeds") if (cfg.get("grain") == "hh93i" and "stick" in dg and not finding) else c2
                res.violation("oracle", f"{cfg['name']} ({solver}/{method}) {src.name}: g++: {dg}", cdg)
            if src.name in ("naunet_rates.cpp",) and verdict is not None and solver == "cvode":
                names = {x for dg in diags for x in re.findall(r"'(\w+)'", dg)}
                if verdict and diags:
                    res.corr_disagreements += 1
                    res.violation("correspondence", f"{cfg['name']}: the model finds EvalRates closed but g++ reports {diags[:2]}", case)
                if not verdict and not diags:
                    res.corr_disagreements += 1
                    res.violation("correspondence", f"{cfg['name']}: the model finds {undeclared} undeclared in EvalRates but g++ accepts naunet_rates.cpp", case)
        ol.cleanup_scratch()
    res.case(("c10", cfg["name"]), sample={"config": cfg["name"], "species": [s.name for s in species][:6]}, nontrivial=True)


def run(res, info):
    model = fw.Model() if info["ok"] else None
    res.rule = ("12 configurations (five file formats from the test fixtures, dust models hh93 / hh93i / rr07 / rr07x, native grain reactions, cooling, the "
                "empty network) + generated combinations of gas laws, one dust model's processes and cooling processes (4 quick, 40 thorough) x back-ends "
                "cvode dense / sparse and odeint; every rendered translation unit compiled with g++ -fsyntax-only; plus the configurations of the known findings")
    res.assumptions = ["CUDA sources are not compiled (no nvcc)", "diagnostics other than undeclared / redefined names are counted, not judged"]
    methods = [("cvode", "dense"), ("cvode", "sparse"), ("odeint", "rosenbrock4")]
    for i, cfg in enumerate(CONFIGS):
        ms = methods if (res.tier == "thorough" or i % 3 == 0 or "ODE modifier" in cfg["name"]) else [methods[i % 2]]
        check_config(res, model, cfg, ms)
    rng = random.Random(res.seed * 7919 + 10)
    for i in range(4 if res.tier == "quick" else 40):
        check_config(res, model, gen_config(rng, i), [methods[i % 3]] if res.tier == "quick" else methods, generated=True)
    for fid, cfg in FINDINGS:
        check_config(res, model, cfg, [("cvode", "dense")], finding=fid)
    if model:
        model.close()


def replay(rp, info):
    print("replay: case", str(rp.get("case"))[:800])
    return 0
