"""C08 — species names are decomposed into the right elements, charge and phase.
Correspondence: Species(name) under many table configurations against Model.Species.parse_species
and the derived properties (all fields, errors as a small enum, ==/hash on pairs); oracle: names
rendered from a composition whose rendering passes the decidable `unambiguous` test must give
back exactly that composition, charge, phase, gas counterpart, mass number and is_atom; names with
a foreign character must be rejected; element renaming rewrites the name consistently."""
import itertools
import re
import random

from .. import framework as fw
from ..impl import Species, reset_globals
from naunet import chemistrydata

TRUST = ["re.finditer with an element name as pattern is modelled for literal names and backslash-escaped characters only "
         "(the generators use such names only)",
         "mass numbers in the oracle come from periodictable.csv/isotopestable.csv read by the harness"]

DEFAULT = dict(elements=list(Species.default_elements), pseudo=list(Species.default_pseudoelements), repl={}, grain="GRAIN", surface="#")
CLOUD = dict(elements=["E", "H", "D", "HE", "C", "N", "O", "MG", "SI", "S", "CL"], pseudo=["CR", "CRP", "PHOTON", "CRPHOT"],
             repl={"E": "e", "HE": "He", "MG": "Mg", "SI": "Si", "CL": "Cl"}, grain="GRAIN", surface="#")
DEUT = dict(elements=["e", "H", "D", "He", "C", "N", "O"], pseudo=["o", "p", "m"], repl={}, grain="GRAIN", surface="#")
GPREFIX = dict(elements=["e", "H", "He", "C", "N", "O", "S", "Si", "Fe"], pseudo=["CR", "PHOTON", "CRPHOT", "o", "p"], repl={}, grain="GRAIN", surface="G")
ISM = dict(elements=["e", "H", "D", "He", "C", "N", "O", "F", "Na", "Mg", "Si", "P", "S", "Cl", "Fe"], pseudo=["CRP", "XRAY", "PHOTON", "CRPHOT"],
           repl={}, grain="GRAIN", surface="#")
# isotopes as user elements: symbols that start with digits, next to a numbered surface group
ISOTOPES = dict(elements=["e", "H", "D", "T", "He3", "He", "C", "13C", "N", "15N", "O", "18O"], pseudo=["CR", "PHOTON", "CRPHOT", "o", "p"],
                repl={}, grain="GRAIN", surface="#")
# an element table with NO pseudo-element: nothing of the default tables may leak in (CRPHOT, oH2, X, M, g are no names here)
NOPSEUDO = dict(elements=["e", "H", "He", "C", "N", "O", "Mg", "Si", "S", "Fe"], pseudo=[], repl={}, grain="GRAIN", surface="#")
CONFIGS = {"default": DEFAULT, "cloud": CLOUD, "deuterium": DEUT, "Gprefix": GPREFIX, "ism": ISM, "isotopes": ISOTOPES, "nopseudo": NOPSEUDO}

MASS = {}
for e in chemistrydata.periodic_table + chemistrydata.isotopes_table:
    MASS[e.Symbol] = MASS.get(e.Symbol, 0) + int(float(e.NumberofNeutrons) + float(e.NumberofProtons))


def configure(cfg):
    reset_globals()
    Species.set_known_elements(list(cfg["elements"]))
    Species.set_known_pseudoelements(list(cfg["pseudo"]))
    Species._replacement = dict(cfg["repl"])


def impl_parse(cfg, name):
    try:
        s = Species(name, grain_symbol=cfg["grain"], surface_prefix=cfg["surface"])
    except RuntimeError as e:
        msg = str(e)
        kind = ("start" if "starts with something" in msg else "unrecognised" if "Unrecongnized" in msg
                else "repeat-surface" if "surface symbol" in msg else "repeat-grain" if "grain symbol" in msg else "other:" + msg)
        return ("err", kind), None
    a = s.massnumber
    return ("ok", s.name, [(k, v) for k, v in s.element_count.items()],
            s._surface_group if s._is_surface else None, s._grain_group if s._is_grain else None,
            s.charge, s.basename, s.gasname, s.alias, a, s.is_atom, s.is_electron), s


def model_parse(model, cfg, names):
    rep = []
    for k in range(0, len(names), 800):        # bounded request size (the runner's reader is not tail-recursive)
        rep += model.call("sp.parse", cfg["elements"], cfg["pseudo"], [[k2, v] for k2, v in cfg["repl"].items()], cfg["grain"], cfg["surface"], names[k:k + 800])
    out = []
    for r in rep:
        if r[0] == "err":
            out.append(("err", r[1]))
        else:
            _, name, counts, sg, gg, ch, base, gas, alias, mass, atom, elec, hk = r
            out.append((("ok", name, [(k, int(v)) for k, v in counts], None if sg == "none" else int(sg), None if gg == "none" else int(gg),
                         int(ch), base, gas, alias, int(mass), atom == "1", elec == "1"), hk))
    return out


def same(i, m):
    if i[0] != m[0]:
        return False
    if i[0] == "err":
        return i[1] == m[1]
    # massnumber is a float sum in the implementation: exact below 2**53, rounded above
    a, b = float(i[9]), float(m[9])
    mass_ok = a == b if abs(b) < 2 ** 52 else abs(a - b) <= 1e-12 * abs(b)
    return i[:9] == m[:9] and mass_ok and i[10:] == m[10:]


# ---- compositions -------------------------------------------------------------------------------

def components_order(cfg):
    comps = cfg["elements"] + cfg["pseudo"] + [cfg["grain"], cfg["surface"]]
    return sorted(comps, key=len, reverse=True)


def unescape(p):
    return p.replace("\\", "") if "\\" in p else p


def render(cfg, comp):
    """comp: dict(label, surface(bool), sgroup, tokens=[(sym, count)], charge) -> (name, spans[(start,end,sym)])"""
    name = ""
    spans = []
    items = []          # (symbol text, digit run): the item list of C08.name_roundtrip

    def put(sym, text=None, digits=""):
        nonlocal name
        t = text if text is not None else sym
        spans.append((len(name), len(name) + len(t), sym))
        items.append([t, digits])
        name += t + digits
    if comp.get("surface"):
        put(cfg["surface"], digits=str(comp["sgroup"]) if comp.get("sgroup") else "")
    if comp.get("label"):
        put(comp["label"], unescape(comp["label"]))
    for sym, cnt in comp["tokens"]:
        put(sym, digits=str(cnt) if cnt != 1 else "")
    comp["_items"] = items
    ch = comp.get("charge", 0)
    name += "+" * ch if ch > 0 else "-" * (-ch)
    return name, spans


def unambiguous(cfg, name, spans):
    body = name.rstrip("+").rstrip("-") if True else name
    order = components_order(cfg)
    prio = {}
    for i, c in enumerate(order):
        prio.setdefault(c, i)
    intended = {(a, b): s for a, b, s in spans}
    for c in order:
        t = unescape(c)
        start = 0
        while True:
            k = body.find(t, start)
            if k < 0:
                break
            span = (k, k + len(t))
            start = k + 1
            if intended.get(span) == c:
                continue
            killers = [s for (a, b), s in intended.items() if a < span[1] and span[0] < b and prio[s] < prio[c]]
            if not killers:
                return False
    return True


def uncovered(cfg, name):
    """letters of the name that lie inside no occurrence of any configured symbol: such a name cannot be a
    sequence of configured symbols, counts and charge signs (C08.parse_covers), so it must be rejected"""
    cov = [False] * len(name)
    for c in cfg["elements"] + cfg["pseudo"] + [cfg["grain"], cfg["surface"]] + list(cfg["repl"]):
        t = unescape(c)
        if not t:
            continue
        k = name.find(t)
        while k >= 0:
            for j in range(k, k + len(t)):
                cov[j] = True
            k = name.find(t, k + 1)
    return [ch for j, ch in enumerate(name) if ch.isalpha() and not cov[j]]


def expected(cfg, comp):
    counts = {}
    for sym, cnt in comp["tokens"]:
        s2 = cfg["repl"].get(sym, sym)
        if sym in cfg["pseudo"]:
            continue
        counts[s2] = counts.get(s2, 0) + (cnt if cnt > 0 else 1)
    return counts


def gen_comp(rng, cfg):
    els = [e for e in cfg["elements"] if e.upper() != "E"]
    labels = [p for p in cfg["pseudo"] if len(unescape(p)) <= 2 and p not in ("X", "M", "g")]
    comp = {"tokens": []}
    r = rng.random()
    if r < 0.08:
        comp["tokens"] = [(cfg["grain"], rng.choice([1, 1, 0, 2, 10]))]
        comp["grain"] = True
        comp["charge"] = rng.choice([0, 0, 1, -1])
        return comp
    for _ in range(rng.choice([1, 1, 2, 2, 3, 4])):
        comp["tokens"].append((rng.choice(els), rng.choice([1, 1, 1, 2, 3, 10, 12, 0])))
    if rng.random() < 0.25:
        comp["surface"] = True
        comp["sgroup"] = rng.choice([0, 0, 0, 1, 2])
    if labels and rng.random() < 0.2:
        comp["label"] = rng.choice(labels)
    comp["charge"] = rng.choice([0, 0, 0, 1, 1, -1, 2, 3, 4, -2]) if not comp.get("surface") else rng.choice([0, 0, 0, 0, 1, -1])
    return comp


def check_comp(res, cfg_name, cfg, comp, model, batch):
    name, spans = render(cfg, comp)
    batch.append((cfg_name, name, comp, spans))


def flush(res, model, cfg_name, cfg, batch):
    if not batch:
        return
    names = [b[1] for b in batch]
    configure(cfg)
    impl = [impl_parse(cfg, n) for n in names]
    mods = model_parse(model, cfg, names) if model is not None else [None] * len(names)
    # the premises of C08.name_roundtrip and the abstract result it equates the parser with
    spec = {}
    if model is not None:
        idx = [k for k, b in enumerate(batch) if b[2] is not None and not b[2].get("skip") and "_items" in b[2]]
        for c0 in range(0, len(idx), 500):
            chunk = idx[c0:c0 + 500]
            rep = model.call("sp.items", cfg["elements"], cfg["pseudo"], [[k, v] for k, v in cfg["repl"].items()], cfg["grain"], cfg["surface"],
                             [[batch[k][1], batch[k][2]["_items"]] for k in chunk])
            for k, r in zip(chunk, rep):
                spec[k] = r
    for bk, ((cn, name, comp, spans), (i, sobj), m) in enumerate(zip(batch, impl, mods)):
        case = {"kind": "c08", "config": cfg_name, "name": name}
        res.count(f"config={cfg_name}")
        res.count("impl:" + ("rejects" if i[0] == "err" else "accepts"))
        if m is not None and not same(i, m[0] if m[0] != "err" else m):
            res.corr_disagreements += 1
            res.violation("correspondence", f"Species({name!r}) under {cfg_name}: implementation {i} vs model {m}", case)
        if comp is None:
            # malformed stream: a foreign character must be rejected
            if i[0] != "err":
                res.violation("oracle", f"name {name!r} contains a character that belongs to no configured symbol, count or charge but is read as {i[2]}", case)
            res.case(("c08", cfg_name, name), nontrivial=True)
            continue
        if comp.get("skip"):
            unc = uncovered(cfg, name)
            if unc and i[0] != "err":
                res.violation("oracle", f"name {name!r} under {cfg_name}: the letters {unc} lie inside no occurrence of a configured symbol, "
                                        f"yet the name is accepted and read as {i[2]}", case)
            res.count("fixed-name(must be rejected: uncovered letters)" if unc else "fixed-name(correspondence only)")
            res.case(("c08", cfg_name, name), nontrivial=True)
            continue
        unamb = unambiguous(cfg, name, spans)
        if bk in spec:
            wf, pn_ok, items_ok, unamb_m, ice, sres = spec[bk]
            if (unamb_m == "1") != unamb:
                res.corr_disagreements += 1
                res.violation("correspondence", f"premise `unambiguous` of name_roundtrip on {name!r} under {cfg_name}: model {unamb_m}, harness {unamb}", case)
            if wf == "1" and pn_ok == "1" and items_ok == "1" and unamb_m == "1":
                res.count("theorem-instance(name_roundtrip premises hold)")
                if sres[0] == "err":
                    agree = i[0] == "err" and i[1] == sres[1]
                else:
                    agree = (i[0] == "ok" and list(i[2]) == [(k, int(v)) for k, v in sres[1]]
                             and i[3] == (None if sres[2] == "none" else int(sres[2])) and i[4] == (None if sres[3] == "none" else int(sres[3])))
                if not agree:
                    res.corr_disagreements += 1
                    res.violation("correspondence", f"C08.name_roundtrip instance: Species({name!r}) under {cfg_name} gives {i[:5]}, the item fold gives {sres}", case)
                # C08.ice_species_counterpart: phase, group and gas-phase counterpart of an ice species
                if ice != "none" and ice[0] == "1" and i[0] == "ok":
                    res.count("theorem-instance(ice_species_counterpart premises hold)")
                    if i[3] != int(ice[1]) or i[7] != ice[2]:
                        res.corr_disagreements += 1
                        res.violation("correspondence", f"C08.ice_species_counterpart instance: Species({name!r}) under {cfg_name} has surface group {i[3]} and gas "
                                                        f"name {i[7]!r}, the theorem gives group {ice[1]} and {ice[2]!r}", case)
            else:
                res.count(f"theorem-premise-fails(wf={wf},name={pn_ok},items={items_ok},unambiguous={unamb_m})")
        if not unamb:
            res.count("outside-hypothesis(ambiguous rendering)")
            res.case(("c08", cfg_name, name), nontrivial=False)
            continue
        if comp.get("label") and unescape(comp["label"]) == "*":
            res.count("star-label(known finding)")
        want = expected(cfg, comp)
        ok = i[0] == "ok"
        why = None
        if not ok:
            why = f"rejected ({i[1]})"
        else:
            _, nm, counts, sg, gg, ch, base, gas, alias, mass, atom, elec = i
            cd = dict(counts)
            if comp.get("grain"):
                gwant = comp["tokens"][0][1] if comp["tokens"][0][1] != 1 else 0
                if gg != gwant or cd != {cfg["grain"]: 1}:
                    why = f"grain read as counts={cd} group={gg}"
            elif cd != want:
                why = f"element counts {cd}, composition {want}"
            if not why and ch != comp.get("charge", 0):
                why = f"charge {ch}, composition {comp.get('charge', 0)}"
            if not why and (sg is not None) != bool(comp.get("surface")):
                why = f"phase: surface={sg is not None}"
            if not why and comp.get("surface") and sg != comp.get("sgroup", 0):
                why = f"surface group {sg}, composition {comp.get('sgroup', 0)}"
            if not why and not comp.get("grain"):
                gas_comp = dict(comp, surface=False, sgroup=0)
                gname = render(cfg, gas_comp)[0]
                # the name is rewritten by replacement: compare the gas name of the rewritten name
                gname2 = nm
                pre = cfg["surface"] + (str(comp["sgroup"]) if comp.get("sgroup") else "")
                if comp.get("surface"):
                    gname2 = nm.replace(pre, "", 1) if nm.startswith(pre) else None
                if gas != gname2:
                    why = f"gas-phase counterpart {gas!r}, expected {gname2!r}"
                # the name without phase prefix and charge signs (what the identifiers are built from)
                base_want = gname2.rstrip("+").rstrip("-") if (gname2 is not None and comp.get("charge", 0)) else gname2
                if not why and base != base_want:
                    why = f"base name {base!r}, expected {base_want!r} (gas-phase name without charge signs)"
                m_want = sum(MASS.get(k, 0) * v for k, v in want.items())
                if not why and float(mass) != float(m_want):
                    why = f"mass number {mass}, expected {m_want}"
                is_atom_want = (len(want) == 1 and sum(want.values()) == 1 and comp.get("charge", 0) == 0 and not comp.get("surface"))
                if not why and atom != is_atom_want:
                    why = f"is_atom {atom}, expected {is_atom_want}"
            if not why and cfg["repl"]:
                # renaming rewrites the name consistently: rendering the replaced tokens gives the new name
                comp2 = dict(comp, tokens=[(cfg["repl"].get(s, s), c) for s, c in comp["tokens"]])
                cfg2 = dict(cfg, repl={})
                if render(cfg2, comp2)[0] != nm:
                    why = f"renamed to {nm!r}, expected {render(cfg2, comp2)[0]!r}"
        star = comp.get("label") and unescape(comp["label"]) == "*"
        if why:
            c2 = dict(case)
            if star:
                c2["finding"] = "C08-star-label-counted-as-element"
            res.violation("oracle", f"Species({name!r}) under {cfg_name} from composition {comp}: {why}", c2)
        res.case(("c08", cfg_name, name), sample={"config": cfg_name, "name": name, "parsed": list(i[:6])}, nontrivial=True)
    batch.clear()


FOREIGN = list("?!xzqjw_ ~=") + ["b", "Zz", "%", "."]


def malformed(rng, cfg):
    comp = gen_comp(rng, cfg)
    name, _ = render(cfg, dict(comp, charge=0))
    pos = rng.randrange(len(name) + 1)
    bad = rng.choice(FOREIGN)
    if any(bad in c or c in bad for c in cfg["elements"] + cfg["pseudo"]):
        bad = "?"
    return name[:pos] + bad + name[pos:] + ("+" * max(comp.get("charge", 0), 0))


def pair_check(res, model, cfg_name, cfg, rng):
    """== and hash on pairs of spellings"""
    pool = ["e-", "E", "E-", "e", "H", "H+", "GRAIN", "GRAIN0", "GRAIN-", "GRAIN0-", "GRAIN1", cfg["surface"] + "CO", cfg["surface"] + "H2O",
            "CO", "H2O", cfg["surface"] + "1CO", "H2", "oH2", "pH2", "He+", "He++",
            # isomers and labelled pairs: one composition, different species
            "HCN", "HNC", cfg["surface"] + "HCN", cfg["surface"] + "HNC", cfg["surface"] + "oH2", cfg["surface"] + "pH2",
            # one parent in several charge states, in the gas and on the surface
            "HCO", "HCO+", "HCO-", cfg["surface"] + "HCO", cfg["surface"] + "HCO+", cfg["surface"] + "HCO-", cfg["surface"] + "H+", cfg["surface"] + "H"]
    configure(cfg)
    objs = {}
    for n in pool:
        i, s = impl_parse(cfg, n)
        if s is not None:
            objs[n] = s
    names = sorted(objs)
    pairs = [(a, b) for a in names for b in names]
    mrep = model.call("sp.eq", cfg["elements"], cfg["pseudo"], [[k, v] for k, v in cfg["repl"].items()], cfg["grain"], cfg["surface"],
                      [[a, b] for a, b in pairs]) if model is not None else None
    hk = {}
    if model is not None:
        for n, m in zip(names, model_parse(model, cfg, names)):
            hk[n] = m[1] if m[0] != "err" else None
    for k, (a, b) in enumerate(pairs):
        ie = bool(objs[a] == objs[b])
        case = {"kind": "c08-eq", "config": cfg_name, "pair": [a, b]}
        # two names are the same species exactly when their canonical forms agree: the electron has four spellings,
        # the dust grain of group 0 may be written GRAIN or GRAIN0 (any charge)
        def canon(n):
            if n in ("e-", "E", "E-", "e"):
                return "<electron>"
            g = re.fullmatch(r"GRAIN(\d*)([+-]*)", n) if cfg["grain"] == "GRAIN" else None
            return ("grain", int(g.group(1) or 0), g.group(2)) if g else n
        if ie != (canon(a) == canon(b)):
            res.violation("oracle", f"{a!r} == {b!r} under {cfg_name} is {ie}: the names denote {'the same species' if canon(a) == canon(b) else 'different species'}", case)
        if a == b and not ie:
            res.violation("oracle", f"{a!r} != {a!r} under {cfg_name}", case)
        if mrep is not None and mrep[k] != ("1" if ie else "0"):
            res.corr_disagreements += 1
            res.violation("correspondence", f"{a!r} == {b!r} under {cfg_name}: implementation {ie}, model {mrep[k]}", case)
        if mrep is not None and hk.get(a) is not None and hk.get(b) is not None:
            ih = hash(objs[a]) == hash(objs[b])
            if ih != (hk[a] == hk[b]):
                res.corr_disagreements += 1
                res.violation("correspondence", f"hash({a!r}) == hash({b!r}) under {cfg_name}: implementation {ih}, model keys {hk[a]!r}/{hk[b]!r}", case)
        res.case(("c08-eq", cfg_name, a, b), nontrivial=ie and a != b)
    res.count("eq/hash pairs", len(pairs))


def electron_spellings(res, cfg_name, cfg):
    """every documented spelling of the electron is the electron: charge -1, no elements counted twice, all equal"""
    configure(cfg)
    ref = None
    for nm in ["e-", "E-", "e", "E"]:
        i, s = impl_parse(cfg, nm)
        case = {"kind": "c08-electron", "config": cfg_name, "name": nm}
        if i[0] != "ok":
            continue
        if not i[11] or i[5] != -1:
            res.violation("oracle", f"Species({nm!r}) under {cfg_name}: is_electron={i[11]}, charge={i[5]}; the electron spelling {nm!r} must be the electron with charge -1", case)
        elif ref is not None and not (s == ref and hash(s) == hash(ref)):
            res.violation("oracle", f"Species({nm!r}) and Species({ref.name!r}) under {cfg_name} are both the electron but compare/hash differently", case)
        ref = ref or s
        res.case(("c08-electron", cfg_name, nm), nontrivial=True)


def run(res, info):
    rng = random.Random(res.seed * 7919 + 8)
    model = fw.Model() if info["ok"] else None
    res.rule = ("names rendered from compositions (optional surface prefix + group, optional label, 1-4 element tokens with counts "
                "0/1/2/3/10/12, 0-4 charges, grains with group numbers) over seven table configurations (an element table with no pseudo-element, default, UCLCHEM upper-case "
                "with replacement, deuterium, 'G' surface prefix, ism, isotope symbols starting with digits) + all adjacent element pairs + a malformed stream with a "
                "foreign character; non-trivial = unambiguous rendering or malformed; ==/hash on all pairs of 35 spellings")
    res.assumptions = ["oracle premise: the rendering passes the decidable `unambiguous` test (every spurious occurrence of a "
                       "component overlaps an intended token of higher priority)",
                       "the '*' label is outside the premise (known finding: counted as an element)"]
    n = 2500 if res.tier == "quick" else 40000
    for cfg_name, cfg in CONFIGS.items():
        batch = []
        els = [e for e in cfg["elements"] if e.upper() != "E"]
        # all adjacent pairs, both orders, with and without counts
        for a, b in itertools.product(els, repeat=2):
            for ca, cb in ((1, 1), (2, 1), (1, 3)):
                check_comp(res, cfg_name, cfg, {"tokens": [(a, ca), (b, cb)], "charge": 0}, model, batch)
        for _ in range(n // len(CONFIGS)):
            check_comp(res, cfg_name, cfg, gen_comp(rng, cfg), model, batch)
        for _ in range(n // (4 * len(CONFIGS))):
            batch.append((cfg_name, malformed(rng, cfg), None, None))
        # fixed interesting names
        for nm in ["Si", "SiO", "He", "HeH+", "CO", "Co", "H2*", "c-C3H2", "l-C3H", "CRPHOT", "CRP", "X", "M", "g", "e-", "E", "E-", "e", "",
                   "+", "-", "H+-", "GRAIN", "GRAIN0", "GRAIN-", "GRAIN0GRAIN1", "##CO", "#", "#1CO", "H0", "C60", "C123456789012345678901234567890",
                   "oH2", "pH2", "PHOTON", "CR", "XRAY", "NaH+", "MH+", "HM", "Xe", "gH", "mD2", "#oH2", "Cl", "Na", "P", "F", "D", "T", "Ar", "Ne", "K", "Ti"]:
            batch.append((cfg_name, nm, {"tokens": [], "skip": True}, [(0, 0, "?")]))
        flush(res, model, cfg_name, cfg, batch)
        pair_check(res, model, cfg_name, cfg, rng)
        electron_spellings(res, cfg_name, cfg)
    if model:
        model.close()


def replay(rp, info):
    res = fw.Result("C08", "quick", 0)
    model = fw.Model() if info["ok"] else None
    case = rp.get("case") or {}
    if case.get("kind") == "c08":
        cfg = CONFIGS[case["config"]]
        configure(cfg)
        i, _ = impl_parse(cfg, case["name"])
        print("implementation:", i)
        if model:
            print("model:", model_parse(model, cfg, [case["name"]])[0])
    print("replay: see above")
    return 0
