"""C11 — grain-surface rate coefficients follow the selected dust model.
Correspondence: reac.rateexpr(grain) for every (dust model, process, reaction format, class of alpha,
species, grain group) against Model.RateGrain (exact text; refusals by class).  Oracle (no model): every
emitted expression is compiled by g++ inside a small program that gives every symbol a value, executed,
and compared with an independent implementation of the model formulae using the species' own mass number,
binding energy and yield; unimplemented requests must raise."""
import itertools
import math
import random
import re
import subprocess

from .. import framework as fw
from .. import odelib as ol
from ..impl import Species, ReactionType, reset_globals
from naunet import chemistrydata
from naunet.reactions.reaction import Reaction
from naunet.reactions.leedsreaction import LEEDSReaction
from naunet.reactions.uclchemreaction import UCLCHEMReaction
from naunet.grains import Grain, HH93Grain, HH93IGrain, RR07Grain, RR07XGrain

TRUST = ["the reference formulae in harness/props/c11.py (LAWS) are a transcription of Hasegawa & Herbst (1993) and of the Roberts et al. (2007) "
         "implementation of UCLCHEM 1.3", "g++ and libm evaluate the emitted expressions (relative tolerance 1e-10)"]

MODELS = {"base": Grain, "hh93": HH93Grain, "hh93i": HH93IGrain, "rr07": RR07Grain, "rr07x": RR07XGrain}
RT = ReactionType
PROCS = {"recombine": RT.GRAIN_RECOMINE, "freeze": RT.GRAIN_FREEZE, "thermal": RT.GRAIN_DESORB_THERMAL, "photon": RT.GRAIN_DESORB_PHOTON,
         "cosmicray": RT.GRAIN_DESORB_COSMICRAY, "h2": RT.GRAIN_DESORB_H2, "surface": RT.SURFACE_TWOBODY, "reactive": RT.GRAIN_DESORB_REACTIVE,
         "ecapture": RT.GRAIN_ECAPTURE}
LEEDS_RTYPE = {"recombine": 6, "freeze": 7, "thermal": 8, "cosmicray": 9, "photon": 10, "surface": 13, "reactive": 14, "ecapture": 20}
# registry symbols per reaction format (transcribed from the classes' register() calls)
RSYMS = {"leeds": ["Tgas", "Tdust", "zeta_cr", "zism", "G0", "Av", None],
         "uclchem": ["Tgas", "Tgas", "zeta", "zism", "G0", "Av", "H2formation"],
         "naunet": ["Tgas", "Tgas", "zeta", None, None, "Av", None]}
CLASSES = ["pos", "neg", "zero", "negzero"]
MASS = {"H": 1.0, "C": 12.0, "O": 16.0, "N": 14.0, "Si": 28.0, "He": 4.0, "S": 32.0, "D": 2.0}


def massnumber(formula):
    tot = 0.0
    for sym, cnt in re.findall(r"([A-Z][a-z]?)(\d*)", formula):
        tot += MASS[sym] * (int(cnt) if cnt else 1)
    return tot


def value(cls, mag):
    return {"pos": mag, "neg": -mag, "zero": 0.0, "negzero": -0.0}[cls]


def make_reaction(fmt, proc, reac, prod, alpha):
    reset_globals()
    ty = PROCS[proc]
    if fmt == "leeds":
        r = LEEDSReaction("4956 C         CH                  C2        H                                       6.59E-11     0.00       0.0    541000  1")
        r.reactants = [Species(n, surface_prefix="G") for n in reac]
        r.products = [Species(n, surface_prefix="G") for n in prod]
        r.rtype = LEEDS_RTYPE.get(proc)
        r.reaction_type = LEEDSReaction.rtype2type.get(r.rtype) if r.rtype else ty
    elif fmt == "uclchem":
        r = UCLCHEMReaction("C,CH,NAN,C2,H,NAN,NAN,6.59e-11,0.0,0.0,10,300")
        r.reactants = [Species(n) for n in reac]
        r.products = [Species(n) for n in prod]
        r.reaction_type = next((m for m in UCLCHEMReaction.ReactionType if int(m) == int(ty)), ty)
    else:
        r = Reaction(list(reac), list(prod), -1.0, -1.0, alpha, 0.0, 0.0, ty)
    r.alpha = alpha
    return r


def species_cases(fmt, proc):
    """(reactants, products, dvariant, hvariant) in the format's own spelling"""
    ice = (lambda n: "G" + n) if fmt == "leeds" else (lambda n: "#" + n)
    if proc == "freeze":
        return [(["CO"], [ice("CO")], "neutral", "none"), (["HCO+"], [ice("HCO")], "ion", "none"), (["e-"], ["GRAIN-"], "electron", "none"),
                (["SiO"], [ice("SiO")], "neutral", "none"),
                # negative ions other than the electron are ions too (the Coulomb factor applies)
                (["OH-"], [ice("OH")], "ion", "none"), (["H-"], [ice("H")], "ion", "none")]
    if proc in ("thermal", "photon", "cosmicray", "h2"):
        return [([ice("CO")], ["CO"], "neutral", "none"), ([ice("H2O")], ["H2O"], "neutral", "none"), ([ice("CH3OH")], ["CH3OH"], "neutral", "none")]
    if proc in ("surface", "reactive"):
        out = [([ice("H"), ice("CO")], [ice("HCO")] if proc == "surface" else ["HCO"], "neutral", "first"),
               ([ice("CO"), ice("H")], [ice("HCO")] if proc == "surface" else ["HCO"], "neutral", "second"),
               ([ice("H"), ice("H")], [ice("H2")] if proc == "surface" else ["H2"], "neutral", "both"),
               ([ice("O"), ice("CO")], [ice("CO2")] if proc == "surface" else ["CO2"], "neutral", "none"),
               ([ice("H2"), ice("O")], [ice("H2O")] if proc == "surface" else ["H2O"], "neutral", "first")]
        if fmt != "leeds":
            out = [(a, b, c, "none") for a, b, c, _ in out]       # only the Leeds spelling GH / GH2 selects tunnelling
        return out
    if proc == "recombine":
        return [(["HCO+", "GRAIN-"], ["HCO", "GRAIN0"], "neutral", "none"), (["GRAIN-", "C+"], ["C", "GRAIN0"], "neutral", "none")]
    if proc == "ecapture":
        return [(["e-", "GRAIN0"], ["GRAIN-"], "neutral", "none")]
    return []


# ---- independent reference formulae (named quantities in env e) -----------------------------------
def vib(e, A, eb):
    return math.sqrt(2.0 * e["sites"] * e["kerg"] * eb / (math.pi ** 2 * e["amu"] * A))


def zrel(e):
    return e["zeta"] / e["zism"]


def hop(e, E, A):
    return e["freq"] * math.sqrt(E / A) * math.exp(-E * e["hop"] / e["Tdust"]) / e["unisites"]


def tun(e, E, A):
    return e["freq"] * math.sqrt(E / A) * math.exp(e["quan"] * math.sqrt(e["hop"] * A * E)) / e["unisites"]


def surface(e, a, s, hv):
    kt = math.exp(-a / e["Tdust"])
    arg = ((s["A1"] * s["A2"]) / (s["A1"] + s["A2"])) * a
    kq = math.exp(e["quan"] * math.sqrt(arg)) if arg >= 0 else float("nan")
    k = kt if hv == "none" else max(kt, kq)
    d1 = hop(e, s["E1"], s["A1"]) if hv in ("none", "second") else max(hop(e, s["E1"], s["A1"]), tun(e, s["E1"], s["A1"]))
    d2 = hop(e, s["E2"], s["A2"]) if hv in ("none", "first") else max(hop(e, s["E2"], s["A2"]), tun(e, s["E2"], s["A2"]))
    return k * (d1 + d2) * (e["nMono"] * e["densites"]) ** 2 / e["gdens"] * e["cov"] * e["cov"]


def guarded(e, cap, eb, rate):
    return (rate if cap >= eb else 0.0) if e["mantabund"] > 1e-30 else 0.0


def vth(e, A):
    return math.sqrt(8.0 * e["kerg"] * e["Tgas"] / (math.pi * e["amu"] * A))


LAWS = {
    ("base", "freeze"): lambda e, a, s, dv, hv: a * math.pi * e["rG"] ** 2 * e["gdens"] * vth(e, s["A1"]),
    ("hh93", "freeze"): lambda e, a, s, dv, hv: e["opt_frz"] * a * math.pi * e["rG"] ** 2 * e["gdens"] * vth(e, s["A1"]),
    ("hh93", "thermal"): lambda e, a, s, dv, hv: e["opt_thd"] * e["cov"] * e["nMono"] * e["densites"] * vib(e, s["A1"], e["ebconst"]) * math.exp(-e["ebconst"] / e["Tdust"]),
    ("hh93", "photon"): lambda e, a, s, dv, hv: e["opt_uvd"] * e["cov"] * (e["G0"] * e["habing"] * math.exp(-e["Av"] * 3.02) + e["crphot"] * zrel(e)) * s["Y1"] * e["nMono"] * e["garea"],
    ("hh93", "cosmicray"): lambda e, a, s, dv, hv: e["opt_crd"] * e["cov"] * e["duty"] * e["nMono"] * e["densites"] * zrel(e) * vib(e, s["A1"], e["ebconst"]) * math.exp(-e["ebconst"] / e["Tcr"]),
    ("hh93", "ecapture"): lambda e, a, s, dv, hv: math.pi * e["rG"] ** 2 * math.sqrt(8.0 * e["kerg"] * e["Tgas"] / math.pi / e["amu"] / e["meu"]),
    ("hh93", "recombine"): lambda e, a, s, dv, hv: a * math.pi * e["rG"] ** 2 * e["gdens"] * vth(e, s["A1"]) * (1.0 + e["echarge"] ** 2 / e["rG"] / e["kerg"] / e["Tgas"])
    * (1.0 + math.sqrt(2.0 * e["echarge"] ** 2 / (e["rG"] * e["kerg"] * e["Tgas"] + 2.0 * e["echarge"] ** 2))),
    ("hh93", "surface"): lambda e, a, s, dv, hv: surface(e, a, s, hv),
    ("hh93", "reactive"): lambda e, a, s, dv, hv: e["opt_rcd"] * e["branch"] * surface(e, a, s, hv),
    ("rr07", "freeze"): lambda e, a, s, dv, hv: 4.57e4 * a * e["gxsec"] * e["fr"] * (1.0 if dv == "electron" else math.sqrt(e["Tgas"] / s["A1"]))
    * (1.0 if dv == "neutral" else (1.0 + 16.71e-4 / (e["rG"] * e["Tgas"]))),
    ("rr07", "photon"): lambda e, a, s, dv, hv: guarded(e, e["eb_uvd"], s["E1"], e["opt_uvd"] * 4.875e3 * e["gxsec"] * (zrel(e) + (e["G0"] / e["uvcreff"]) * math.exp(-1.8 * e["Av"])) * s["Y1"] / e["mant"]),
    ("rr07", "cosmicray"): lambda e, a, s, dv, hv: guarded(e, e["eb_crd"], s["E1"], e["opt_crd"] * 4.0 * math.pi * e["crdeseff"] * zrel(e) * 1.64e-4 * e["gxsec"] / e["mant"]),
    ("rr07", "h2"): lambda e, a, s, dv, hv: guarded(e, e["eb_h2d"], s["E1"], e["opt_h2d"] * e["h2deseff"] * e["H2formation"] * e["yH"] / e["mant"]),
    ("rr07x", "thermal"): lambda e, a, s, dv, hv: (e["opt_thd"] * vib(e, s["A1"], e["ebconst"]) * 2.0 * e["densites"] * math.exp(-e["ebconst"] / e["Tdust"])) if e["mantabund"] > 1e-30 else 0.0,
}
for k in ("freeze", "thermal", "photon", "cosmicray", "ecapture", "recombine", "surface", "reactive"):
    LAWS[("hh93i", k)] = LAWS[("hh93", k)]
for k in ("freeze", "photon", "cosmicray", "h2"):
    LAWS[("rr07x", k)] = LAWS[("rr07", k)]

BASE_ENV = dict(kerg=1.380649e-16, amu=1.6605e-24, meu=5.4858e-4, echarge=4.8e-10, habing=1e8, crphot=1e4, opt_rcd=1.0, branch=0.01, yH=0.37,
                Tgas=57.3, Tdust=17.5, zeta=2.6e-17, zeta_cr=2.6e-17, zism=1.3e-17, G0=3.0, Av=1.7, H2formation=4.2e-16)
GRAIN_ENV = dict(rG=1e-5, gdens=7.6e-13, opt_frz=1.0, opt_thd=0.9, cov=0.6, nMono=2.0, sites=1.5e15, densites=1.7e6, opt_uvd=0.8, garea=9.5e-22,
                 opt_crd=0.7, duty=3.16e-19, Tcr=70.0, freq=3.1e12, quan=-1.2e-3, hop=0.3, unisites=1.9e6, gxsec=2.4e-22, fr=1.0, mant=3.3e-6,
                 mantabund=1.1e-9, eb_uvd=1.0e4, uvcreff=1.0e-3, eb_crd=1.21e3, crdeseff=1.0e5, opt_h2d=1.0, eb_h2d=1.21e3, h2deseff=1.0e-2)


def run_c(exprs, group):
    """compile + run: every expression evaluated with the symbol values above (group-suffixed grain symbols)"""
    d = ol.scratch_dir()
    g = str(group) if group else ""
    src = ["#include <cmath>", "#include <cstdio>", "static const double pi = 3.14159265358979323846;"]
    for k, v in BASE_ENV.items():
        if k not in ("yH",):
            src.append(f"static double {k} = {v!r};")
    for k, v in GRAIN_ENV.items():
        src.append(f"static double {k}{g} = {v!r};")
    if g:
        src.append(f"static double opt_thd = {GRAIN_ENV['opt_thd']!r};")      # RR07X registers opt_thd without the group
    ebs = sorted({m for e in exprs for m in re.findall(r"\beb_[A-Za-z0-9]+I\b", e)})
    for name in ebs:
        src.append(f"static double {name} = {EBCONST!r};")
    src.append("enum { IDX_HI = 0 };")
    src.append(f"static double y[1] = {{ {BASE_ENV['yH']!r} }};")
    src.append("int main() {")
    for i, e in enumerate(exprs):
        src.append(f"#line {1000 + i}")
        src.append(f'  std::printf("%.17g\\n", (double)({e}));')
    src.append("  return 0; }")
    p = d / "g.cpp"
    p.write_text("\n".join(src) + "\n")
    exe = d / "g.out"
    r = subprocess.run(["g++", "-std=c++17", "-O0", "-w", "-o", str(exe), str(p)], stdout=subprocess.PIPE, stderr=subprocess.STDOUT, text=True)
    if r.returncode != 0:
        bad = [(int(m.group(1)) - 1000, m.group(2)) for m in re.finditer(r":(\d+):\d+: error: (.*)", r.stdout)]
        ol.cleanup_scratch()
        return None, bad or [(-1, r.stdout[-400:])]
    out = subprocess.run([str(exe)], stdout=subprocess.PIPE, text=True).stdout.split()
    ol.cleanup_scratch()
    return [float(x) for x in out], []


EBCONST = 1234.5


def close(x, y):
    if math.isnan(x) or math.isnan(y):
        return math.isnan(x) and math.isnan(y)
    if x == y:
        return True
    return abs(x - y) <= 1e-10 * max(abs(x), abs(y)) + 1e-300


def shared_grain(res, rng, n):
    """a rate is a function of the reaction and the dust model, not of what the grain object was asked before: several
    species (one parent neutral and charged on the surface, different binding energies) through ONE grain instance, in
    two orders, against a fresh instance per request"""
    eb = {"HCO": 1600.0, "HCO+": 2400.0, "CO": 1150.0, "H2O": 5700.0, "CO+": 1300.0, "H2O+": 4800.0}
    for k in range(n):
        mname = rng.choice(list(MODELS))
        fmt = rng.choice(["leeds", "uclchem", "naunet"])
        group = rng.choice([0, 0, 2])
        ice = (lambda x: "G" + x) if fmt == "leeds" else (lambda x: "#" + x)
        reqs = []
        for _ in range(rng.randint(3, 7)):
            proc = rng.choice(["thermal", "cosmicray", "photon", "freeze", "h2"])
            if (fmt == "leeds" and proc == "h2"):
                continue
            base = rng.choice(list(eb))
            if proc == "freeze":
                reac, prod = [base], [ice(base.rstrip("+"))]
            else:
                reac, prod = [ice(base)], [base]
            reqs.append((proc, reac, prod, base))
        if not reqs:
            continue

        def build():
            out = []
            for proc, reac, prod, base in reqs:
                r = make_reaction(fmt, proc, reac, prod, 1.0)
                for s_ in r.reactants:
                    if s_.is_surface:
                        s_.binding_energy = eb[base]
                out.append(r)
            return out

        def ask(grain_for, order):
            objs = build()
            got = [None] * len(objs)
            for j in order:
                try:
                    got[j] = objs[j].rateexpr(grain_for(j))
                except Exception as e:
                    got[j] = "refused:" + type(e).__name__
            return got
        fresh = ask(lambda j: MODELS[mname](group=group), range(len(reqs)))
        one = MODELS[mname](group=group)
        fwd = ask(lambda j: one, range(len(reqs)))
        two = MODELS[mname](group=group)
        order = list(range(len(reqs)))
        rng.shuffle(order)
        shuf = ask(lambda j: two, order)
        case = {"kind": "c11-shared-grain", "model": mname, "format": fmt, "group": group, "requests": [[p_, a, b] for p_, a, b, _ in reqs], "order": order}
        for how, g in (("in the listed order", fwd), (f"in the order {order}", shuf)):
            if g != fresh:
                j = next(i for i in range(len(reqs)) if g[i] != fresh[i])
                res.violation("oracle", f"{mname}/{fmt}: request {j} ({reqs[j][0]} {reqs[j][1]}->{reqs[j][2]}) through a grain object that served the other "
                                        f"requests {how} gives {g[j]!r}; a fresh grain object gives {fresh[j]!r}", case)
                break
        res.count("shared-grain request lists")
        res.case(("c11-shared", k, mname, fmt, repr(reqs)), nontrivial=any(not str(x).startswith("refused") for x in fresh))


def run(res, info):
    rng = random.Random(res.seed * 7919 + 11)
    model = fw.Model() if info["ok"] else None
    res.rule = ("5 dust models x 9 processes x 3 reaction formats (Leeds, UCLCHEM, native) x 4 classes of alpha x species variants (neutral / ion / "
                "electron accretion, GH/GH2 tunnelling variants, binding energy from explicit / user / RATE12 source, yields) x grain groups 0, 2; "
                "lists of requests (a parent neutral and charged on the surface, different binding energies) through one grain object in two orders "
                "against fresh objects; non-trivial = an expression is emitted")
    res.assumptions = ["finite coefficients", "symbols the reaction format does not register make the request fail with AttributeError (counted as refused)"]
    batches = {}
    for mname, proc, fmt in itertools.product(MODELS, PROCS, ("leeds", "uclchem", "naunet")):
        if fmt == "leeds" and proc == "h2":
            continue
        if fmt == "uclchem" and proc in ("recombine", "surface", "reactive", "ecapture"):
            continue
        reps = range(1) if res.tier == "quick" else range(6)          # thorough: every combination under six draws of magnitude / energy source
        for rep, (reac, prod, dv, hv), ka, group in itertools.product(reps, species_cases(fmt, proc), CLASSES, (0, 2)):
            if res.tier == "quick" and group == 2 and ka not in ("pos", "neg"):
                continue
            mag = rng.choice([1.0, 0.5, 2.5e-3, 750.0])
            alpha = value(ka, mag)
            case = {"kind": "c11", "model": mname, "process": proc, "format": fmt, "reactants": reac, "products": prod, "alpha": repr(alpha), "group": group}
            r = make_reaction(fmt, proc, reac, prod, alpha)
            # binding energy source: explicit / user table / RATE12
            # ... or, for the RR07 desorption cut-offs, exactly at / below the run-time cut-off of the process
            cut = {"photon": GRAIN_ENV["eb_uvd"], "cosmicray": GRAIN_ENV["eb_crd"], "h2": GRAIN_ENV["eb_h2d"]}.get(proc) if mname.startswith("rr07") else None
            src = rng.choice(["explicit", "user", "user-updated", "rate12"] + (["at-cutoff", "at-cutoff", "below-cutoff", "above-cutoff"] if cut else []))
            fixed_eb = {"at-cutoff": cut, "below-cutoff": cut and cut * 0.5, "above-cutoff": cut and cut + 1.0}.get(src)
            ice = [s for s in r.reactants if s.is_surface]
            if src == "user-updated":
                # the energies were already read once (a first generation) before the user table is changed: the new values count
                for s in ice:
                    _ = s.binding_energy
                try:
                    r.rateexpr(MODELS[mname](group=group))
                except Exception:
                    pass
            for s in ice:
                if src == "explicit":
                    s.binding_energy = 2222.0 + len(s.name)
                elif src in ("user", "user-updated"):
                    chemistrydata.user_binding_energy[s.name] = 3333.0 + len(s.name)
                elif fixed_eb is not None:
                    s.binding_energy = fixed_eb
                if rng.random() < 0.5:
                    s.photon_yield = 2.5e-3
            want_eb = []
            for s in ice:
                want_eb.append(2222.0 + len(s.name) if src == "explicit" else 3333.0 + len(s.name) if src in ("user", "user-updated")
                               else fixed_eb if fixed_eb is not None else chemistrydata.rate12_binding_energy.get(s.gasname))
            res.count(f"binding-energy={src}")
            grain = MODELS[mname](group=group)
            try:
                i = ("ok", r.rateexpr(grain))
            except NotImplementedError:
                i = ("refused", "notimplemented")
            except (AttributeError, ValueError, RuntimeError, TypeError) as e:
                i = ("refused", type(e).__name__)
            res.count(f"model={mname}")
            res.count("emitted" if i[0] == "ok" else f"refused:{i[1]}")
            # which species the formula must use
            if proc == "recombine":
                sp = [s for s in r.reactants if not s.is_grain]
            else:
                sp = list(r.reactants)
            A = [massnumber(re.sub(r"^[G#]|[+-]+$", "", s.name)) if not s.is_electron and not s.is_grain else 0.0 for s in sp]
            yld = None
            if ice:
                yld = ice[0]._photon_yield or {"hh93": 1e-3, "hh93i": 1e-3}.get(mname, 0.1)
            sdata = {"A1": A[0] if A else 0.0, "A2": A[1] if len(A) > 1 else 0.0, "E1": want_eb[0] if want_eb else 0.0,
                     "E2": want_eb[1] if len(want_eb) > 1 else 0.0, "Y1": yld or 0.0}
            if model is not None:
                rs = [x or "?" for x in RSYMS[fmt]]
                mags = [repr(float(mag)), "?", "?", repr(float(sdata["A1"])), repr(float(sdata["E1"])), repr(float(sdata["Y1"])),
                        repr(float(sdata["A2"])), repr(float(sdata["E2"]))]
                m = model.call("grain.emit", mname, proc, ka, mags, rs, str(group) if group else "", "eb_" + sp[0].alias if sp else "eb_", hv, dv)
                missing = (fmt == "naunet" and proc in ("photon", "cosmicray") and mname != "base") or (fmt != "uclchem" and proc == "h2" and mname in ("rr07", "rr07x"))
                if m[0] == "ok" and missing:
                    m = ["refused", "AttributeError"]       # the format does not register a symbol the builder needs
                if m[0] == "ok" and m[-1] != "1":
                    res.violation("correspondence", f"an atom of {mname}/{proc}/{fmt} is outside the hypothesis of beautify_bridge: {mags}", case)
                if (m[0], m[1]) != (i[0], i[1]) and not (m[0] == "refused" and i[0] == "refused" and missing):
                    res.corr_disagreements += 1
                    res.violation("correspondence", f"{mname}/{proc}/{fmt} {reac}->{prod} alpha={alpha!r} group={group}: implementation {i} vs model {m[:2]}", case)
            law = LAWS.get((mname, proc))
            if i[0] == "ok":
                if law is None:
                    res.violation("oracle", f"{mname} does not implement {proc} but a rate {i[1]!r} is produced", case)
                else:
                    batches.setdefault(group, []).append((i[1], law, alpha, sdata, dv, hv, fmt, case))
            elif law is not None and i[1] == "notimplemented":
                res.violation("oracle", f"{mname} implements {proc} but the request is refused", case)
            res.case(("c11", mname, proc, fmt, tuple(reac), ka, group, src), sample={"model": mname, "process": proc, "format": fmt, "rate": i[1][:120]},
                     nontrivial=i[0] == "ok")
    shared_grain(res, rng, 120 if res.tier == "quick" else 2500)
    for group, items in batches.items():
        vals, bad = run_c([x[0] for x in items], group)
        res.count("compiled expressions", len(items))
        if vals is None:
            for idx, msg in bad[:5]:
                res.violation("oracle", f"g++ rejects {items[idx][0] if idx >= 0 else ''!r}: {msg}", items[idx][7] if idx >= 0 else {})
            continue
        for (text, law, alpha, sdata, dv, hv, fmt, case), got in zip(items, vals):
            e = dict(BASE_ENV)
            e.update(GRAIN_ENV)
            e["ebconst"] = EBCONST
            if fmt == "leeds":
                e["zeta"] = e["zeta_cr"]
            else:
                e["Tdust"] = e["Tgas"]
            try:
                want = law(e, alpha, sdata, dv, hv)
            except ZeroDivisionError:
                res.count("reference divides by zero (electron mass number 0 outside RR07): skipped")
                continue
            except ValueError:
                want = float("nan")
            if not close(got, want):
                res.violation("oracle", f"{case['model']}/{case['process']}/{fmt} {case['reactants']} alpha={alpha!r}: {text!r} evaluates to {got!r}, "
                                        f"the model formula gives {want!r} (species data {sdata})", case)
    if model:
        model.close()


def replay(rp, info):
    print("replay: re-run ./check C11 (cases are enumerated deterministically); case:", rp.get("case"))
    return 0
