"""C14 — network contents stay consistent under any history of edits.
Correspondence: after every operation of a history the implementation's reaction_list (object
identities and indices), parked reactions, reactant/product sets, sources, sinks and species set
against Model.Network.step; oracle: the invariant itself on the implementation (species/sources/
sinks recomputed from the reactions it holds; every held reaction allowed; no reaction lost);
the `naunet extend` command line on small files."""
import itertools
import random
from pathlib import Path

from .. import framework as fw
from .. import odelib as ol
from ..cli import naunet_cli
from ..impl import Species, Network, Reaction, ReactionType, reset_globals, fnum

TRUST = ["Python set iteration order is canonicalised (sets compared as sorted identity lists)"]

NAMES = ["H", "H2", "C", "CO", "e-", "E", "H+"]
# reaction pool: (reactants, products, tmin, tmax, type)
POOL = [
    (["H", "H"], ["H2"], -1.0, -1.0, 100),
    (["C", "H2"], ["CO", "H"], -1.0, -1.0, 100),
    (["H2", "C"], ["H", "CO"], -1.0, -1.0, 100),       # equal to the previous one (permuted)
    (["H+", "e-"], ["H"], 10.0, 300.0, 100),
    (["H+", "E"], ["H"], 300.0, 1000.0, 100),
    (["H", "CR"], ["H+", "e-"], -1.0, -1.0, 101),
    (["CO"], ["C"], -1.0, -1.0, 102),
    (["H+", "e-"], ["H"], 10.0, 1000.0, 100),          # lower bound of entry 3, upper bound of entry 4: equal to neither
    (["e-", "H+"], ["H"], 10.0, 300.0, 100),           # equal to entry 3
    (["H+", "E"], ["H"], 10.0, 300.0, 100),            # equal to entry 3, the electron under its other spelling
]


def pool_eq(a, b, ids):
    """reaction equality as the property uses it (same reactants and products as multisets of species,
    same temperature window, compatible type), from the pool entries -- independent of Reaction.__eq__"""
    ra, pa, tmina, tmaxa, tya = POOL[a]
    rb, pb, tminb, tmaxb, tyb = POOL[b]
    return (sorted(ids[x] for x in ra if x in ids) == sorted(ids[x] for x in rb if x in ids)
            and sorted(ids[x] for x in pa) == sorted(ids[x] for x in pb)
            and tmina == tminb and tmaxa == tmaxb and (tya == tyb or 999 in (tya, tyb)))
ALLOWED = [[], ["H", "H2"], ["H", "H2", "C", "CO"], ["H", "H+", "e-"], ["H", "H2", "C", "CO", "H+", "e-"]]
REQUIRED = [[], ["CO"], ["H", "C"]]


def ident_map():
    reset_globals()
    sp = [Species(a) for a in NAMES]
    ids, reps = {}, []
    for a, s in zip(NAMES, sp):
        for i, r in enumerate(reps):
            if s == r:
                ids[a] = i
                break
        else:
            ids[a] = len(reps)
            reps.append(s)
    return ids


class Run:
    """one history executed on the implementation, with object tags"""

    def __init__(self, ids, allowed, required):
        reset_globals()
        self.ids = ids
        self.net = Network(allowed_species=list(allowed), required_species=list(required))
        self.tags = {}
        self.objs = []
        self.pool_of = []

    def new_rx(self, k):
        r, p, tmin, tmax, ty = POOL[k]
        o = Reaction(list(r), list(p), tmin, tmax, 1e-10, 0.0, 0.0, ReactionType(ty), idxfromfile=-1)
        self.tags[id(o)] = len(self.objs)
        self.objs.append(o)
        self.pool_of.append(k)
        return o

    def key(self, o):
        return [[self.ids[x.name] for x in o.reactants], [self.ids[x.name] for x in o.products],
                [x.name for x in o.reactants], [x.name for x in o.products],
                fnum(o.temp_min), fnum(o.temp_max), f"{o.temp_min:7.1f}", f"{o.temp_max:7.1f}",
                int(o.reaction_type), o.reaction_type.name]

    def wire_rx(self, o):
        return [self.tags[id(o)], o.idxfromfile, self.key(o)]

    def sid(self, sset):
        return sorted({self.ids[s.name] for s in sset})

    def observe(self):
        n = self.net
        src, snk = n.find_source_sink()
        return {"rl": [(self.tags[id(r)], r.idxfromfile) for r in n.reaction_list],
                "skipped": [self.tags[id(r)] for r in n._skipped_reactions],
                "reactants": self.sid(n.reactants), "products": self.sid(n.products),
                "sources": self.sid(src), "sinks": self.sid(snk), "species": self.sid(n.species)}


def apply_op(run, op):
    """execute op on the implementation; returns the wire form for the model (None = rejected)"""
    n = run.net
    kind = op[0]
    if kind == "add":
        o = run.new_rx(op[1])
        n.add_reaction(o)
        return ["add", run.wire_rx(o)]
    if kind == "addfile":
        # the same additions through a reaction file in the native format (objects are created by the reader)
        tmpl = [run.new_rx(k) for k in op[1]]
        for o in tmpl:                      # templates only format the lines: forget their tags
            del run.tags[id(o)]
        del run.objs[-len(tmpl):]
        del run.pool_of[-len(tmpl):]
        d = Path(ol.scratch_dir()) / f"add{len(run.objs)}.naunet"
        d.write_text("".join(f"{o:naunet}\n" for o in tmpl))
        known = {id(r) for r in n.reaction_list} | {id(r) for r in n._skipped_reactions}
        n.add_reaction_from_file(str(d), "naunet")
        held = [r for r in n.reaction_list if id(r) not in known]
        parked = [r for r in n._skipped_reactions if id(r) not in known]
        shape = lambda o: (sorted(x.name for x in o.reactants), sorted(x.name for x in o.products), int(o.reaction_type))
        ws = []
        for k, t in zip(op[1], tmpl):
            src = held if held and shape(held[0]) == shape(t) else parked if parked and shape(parked[0]) == shape(t) else None
            if src is None:
                raise RuntimeError(f"reaction {POOL[k]} of the file is neither held nor parked after add_reaction_from_file")
            o = src.pop(0)
            run.tags[id(o)] = len(run.objs)
            run.objs.append(o)
            run.pool_of.append(k)
            ws.append(["add", run.wire_rx(o)])
        if held or parked:
            raise RuntimeError("add_reaction_from_file added reactions that are not in the file")
        return ["multi", ws]
    if kind == "rmidx":
        if not (0 <= op[1] < len(n.reaction_list)):
            return None
        n.remove_reaction(op[1])
        return ["rmidx", op[1]]
    if kind == "rmidxs":
        n.remove_reaction(list(op[1]))
        return ["rmidxs", list(op[1])]
    if kind == "rminst":
        o = run.new_rx(op[1])
        n.remove_reaction(o)
        return ["rminst", run.wire_rx(o)]
    if kind == "rminsts":
        os_ = [run.new_rx(k) for k in op[1]]
        n.remove_reaction(os_)
        return ["rminsts", [run.wire_rx(o) for o in os_]]
    if kind == "allowed":
        n.allowed_species = list(op[1])
        return ["allowed", sorted({run.ids[x] for x in op[1]})]
    if kind == "required":
        n.required_species = list(op[1])
        return ["required", sorted({run.ids[x] for x in op[1]})]
    if kind == "rmdups":
        _, dupidx, _ = n.find_duplicate_reaction()
        n.remove_reaction(list(dupidx))
        return ["rmdups"]
    if kind == "reindex":
        n.reindex()
        return ["reindex"]
    raise ValueError(kind)


def invariant_oracle(run, obs, live_tags):
    """the property on the implementation, from its own reaction_list"""
    n = run.net
    reac = sorted({run.ids[s.name] for r in n.reaction_list for s in r.reactants})
    prod = sorted({run.ids[s.name] for r in n.reaction_list for s in r.products})
    req = sorted({run.ids[s.name] for s in n._required_species})
    if obs["species"] != sorted(set(reac) | set(prod) | set(req)):
        return f"species {obs['species']} are not those of the held reactions plus required ({sorted(set(reac) | set(prod) | set(req))})"
    if obs["sources"] != sorted(set(reac) - set(prod)) or obs["sinks"] != sorted(set(prod) - set(reac)):
        return f"sources/sinks {obs['sources']}/{obs['sinks']} are not those of the held reactions ({sorted(set(reac) - set(prod))}/{sorted(set(prod) - set(reac))})"
    if n._allowed_species:
        al = {run.ids[s.name] for s in n._allowed_species}
        for r in n.reaction_list:
            if not all(run.ids[s.name] in al for s in r.reactants + r.products):
                return f"held reaction {r:minimal} mentions a disallowed species"
        for r in n._skipped_reactions:
            if all(run.ids[s.name] in al for s in r.reactants + r.products):
                return f"parked reaction {r:minimal} is allowed but not held"
    held = [t for t, _ in obs["rl"]] + obs["skipped"]
    if len(set(held)) != len(held) or not set(held) <= live_tags:
        return "a reaction is held twice or came back after removal"
    return None


def check_history(res, model, ids, allowed, required, ops, tag):
    case = {"kind": "c14", "allowed": allowed, "required": required, "ops": [list(o) for o in ops]}
    run = Run(ids, allowed, required)
    wire, observed = [], []
    live = set()
    for step, op in enumerate(ops):
        before_rl = [t for t, _ in run.observe()["rl"]]
        before = set(before_rl) | set(run.observe()["skipped"])
        try:
            w = apply_op(run, op)
        except Exception as e:
            res.violation("oracle", f"operation {op} (step {step}) raised {e!r}", case)
            return
        if w is None:
            continue
        obs = run.observe()
        if op[0] == "add":
            live = before | {len(run.objs) - 1}
        elif op[0] == "addfile":
            live = before | set(range(len(run.objs) - len(op[1]), len(run.objs)))
        else:
            live = before
        bad = invariant_oracle(run, obs, live)
        if not bad and op[0] in ("rminst", "rminsts", "rmdups"):
            # no reaction is lost or kept contrary to the edit
            after_rl = [t for t, _ in obs["rl"]]
            if op[0] == "rmdups":
                want = [t for i, t in enumerate(before_rl)
                        if not any(pool_eq(run.pool_of[t], run.pool_of[u], ids) for u in before_rl[:i])]
            else:
                insts = [op[1]] if op[0] == "rminst" else list(op[1])
                want = [t for t in before_rl if not any(pool_eq(run.pool_of[t], k, ids) for k in insts)]
            if after_rl != want:
                bad = (f"{op[0]} kept reactions {[POOL[run.pool_of[t]] for t in after_rl]} but exactly "
                       f"{[POOL[run.pool_of[t]] for t in want]} differ from every removed one")
        res.count(f"op={op[0]}")
        if bad:
            res.violation("oracle", f"after step {step} ({op}): {bad}", case)
            return
        if w[0] == "multi":
            # one model step per reaction of the file; the implementation is observed after the whole file
            if w[1]:
                wire.extend(w[1])
                observed.extend([None] * (len(w[1]) - 1) + [obs])
        else:
            wire.append(w)
            observed.append(obs)
    if model is not None and wire:
        rep = model.call("net.run", sorted({ids[x] for x in allowed}), sorted({ids[x] for x in required}), wire)
        if rep and rep[0] == "error":
            res.violation("correspondence", f"model rejected the history: {rep}", case)
            return
        for k, (m, o) in enumerate(zip(rep, observed)):
            if o is None:
                continue
            mo = {"rl": [(int(t), int(i)) for t, i in m[0]], "skipped": [int(t) for t in m[1]],
                  "reactants": [int(x) for x in m[2]], "products": [int(x) for x in m[3]],
                  "sources": [int(x) for x in m[4]], "sinks": [int(x) for x in m[5]], "species": [int(x) for x in m[6]]}
            if mo != o:
                diff = {f: (mo[f], o[f]) for f in mo if mo[f] != o[f]}
                res.corr_disagreements += 1
                res.violation("correspondence", f"after operation {k} ({wire[k][0]}): model vs implementation differ in {diff}", case)
                return
    if any(o[0] == "addfile" for o in ops):
        ol.cleanup_scratch()
    res.case(("c14", tag, repr(allowed), repr(required), repr(ops)),
             sample={"allowed": allowed, "ops": [list(o) for o in ops][:6], "final": observed[-1] if observed else None},
             nontrivial=len(wire) >= 2)


OPS_SMALL = ([("add", k) for k in (0, 1, 2, 3, 4, 7)] + [("addfile", (1, 6)), ("rmidx", 0), ("rmidxs", (0, 1)), ("rminst", 1), ("rminst", 3), ("rminsts", (0, 3)), ("rminsts", (9, 1)),
             ("allowed", tuple(ALLOWED[1])), ("allowed", tuple(ALLOWED[2])), ("allowed", ()), ("required", ("CO",)), ("rmdups",), ("reindex",)])


def gen_random(rng, n):
    ops = []
    for _ in range(n):
        r = rng.random()
        if r < 0.38:
            ops.append(("add", rng.randrange(len(POOL))))
        elif r < 0.45:
            ops.append(("addfile", tuple(rng.randrange(len(POOL)) for _ in range(rng.randint(1, 3)))))
        elif r < 0.55:
            ops.append(("rmidx", rng.randrange(6)))
        elif r < 0.62:
            ops.append(("rmidxs", tuple(sorted(rng.sample(range(8), rng.randint(0, 3))))))
        elif r < 0.70:
            ops.append(("rminst", rng.randrange(len(POOL))))
        elif r < 0.75:
            ops.append(("rminsts", tuple(rng.sample(range(len(POOL)), rng.randint(1, 3)))))
        elif r < 0.87:
            ops.append(("allowed", tuple(rng.choice(ALLOWED))))
        elif r < 0.92:
            ops.append(("required", tuple(rng.choice(REQUIRED))))
        elif r < 0.96:
            ops.append(("rmdups",))
        else:
            ops.append(("reindex",))
    return ops


def check_extend(res, rng, tag, model=None):
    """the network-editing command: reduce-by-species / remove-species / remove-duplicate / append-*"""
    base = ol.scratch_dir()
    reset_globals()
    rl = [Reaction(["H", "H"], ["H2"], idxfromfile=1, reaction_type=ReactionType.GAS_TWOBODY, alpha=1e-10),
          Reaction(["C", "H2"], ["CH", "H"], idxfromfile=2, reaction_type=ReactionType.GAS_TWOBODY, alpha=1e-10),
          Reaction(["C", "O"], ["CO"], idxfromfile=3, reaction_type=ReactionType.GAS_TWOBODY, alpha=1e-10),
          Reaction(["CO", "H"], ["C", "OH"], idxfromfile=4, reaction_type=ReactionType.GAS_TWOBODY, alpha=1e-10),
          Reaction(["C", "O"], ["CO"], idxfromfile=5, reaction_type=ReactionType.GAS_TWOBODY, alpha=1e-10)]
    net = Network(reactions=rl)
    net.write(base / "in.naunet", "naunet")
    (base / "naunet_config.toml").write_text('[chemistry]\n[chemistry.symbol]\ngrain = "GRAIN"\nsurface = "#"\nbulk = "@"\n')
    variants = ["reduce", "remove", "dups", "depletion", "remove+dups", "reduce+dups", "reduce+depletion", "reduce+desorption"]
    variant = variants[tag % len(variants)] if isinstance(tag, int) else rng.choice(["reduce", "remove", "dups"])
    args = ["extend", "in.naunet", "out.naunet"]
    if variant == "reduce":
        args.append("--reduce-by-species=H,H2,C,CH")
        want = [(["H", "H"], ["H2"]), (["C", "H2"], ["CH", "H"])]
    elif variant == "remove":
        args.append("--remove-species=CO")
        want = [(["H", "H"], ["H2"]), (["C", "H2"], ["CH", "H"])]
    elif variant == "dups":
        args.append("--remove-duplicate")
        want = [(["H", "H"], ["H2"]), (["C", "H2"], ["CH", "H"]), (["C", "O"], ["CO"]), (["CO", "H"], ["C", "OH"])]
    elif variant == "remove+dups":
        # reactions are removed before the duplicate's position: the duplicate search must see the list it edits
        args += ["--remove-species=H2", "--remove-duplicate"]
        want = [(["C", "O"], ["CO"]), (["CO", "H"], ["C", "OH"])]
    elif variant == "reduce+dups":
        args += ["--reduce-by-species=C,O,CO,H,OH", "--remove-duplicate"]
        want = [(["C", "O"], ["CO"]), (["CO", "H"], ["C", "OH"])]
    elif variant == "reduce+depletion":
        # no removal in between: the appended reactions must be those of the REDUCED network's species
        args += ["--reduce-by-species=H,H2,C,CH", "--append-depletion"]
        want = [(["H", "H"], ["H2"]), (["C", "H2"], ["CH", "H"])] + [([s], ["#" + s]) for s in ("C", "CH", "H", "H2")]
    elif variant == "reduce+desorption":
        args += ["--reduce-by-species=H,H2", "--append-depletion", "--append-thermal-desorption"]
        want = [(["H", "H"], ["H2"])] + [([s], ["#" + s]) for s in ("H", "H2")] + [(["#" + s], [s]) for s in ("H", "H2")]
    else:
        args += ["--remove-species=CO", "--append-depletion"]
        want = [(["H", "H"], ["H2"]), (["C", "H2"], ["CH", "H"])] + [([s], ["#" + s]) for s in ("C", "CH", "H", "H2")]
    case = {"kind": "c14-extend", "args": args}
    # the model's pipeline (C14.extend_consistent, reduce_keeps_listed_only, append_step_spec) on the same options
    m_have = None
    if model is not None:
        gas = ["H", "H2", "C", "CH", "O", "CO", "OH"]
        ids = {n: i for i, n in enumerate(gas + ["#" + g for g in gas])}
        opt = {a.split("=")[0]: (a.split("=", 1)[1] if "=" in a else "1") for a in args[3:]}
        wire = [[i, o.idxfromfile, [[ids[x.name] for x in o.reactants], [ids[x.name] for x in o.products], [x.name for x in o.reactants],
                                    [x.name for x in o.products], fnum(o.temp_min), fnum(o.temp_max), f"{o.temp_min:7.1f}", f"{o.temp_max:7.1f}",
                                    int(o.reaction_type), o.reaction_type.name]] for i, o in enumerate(rl)]
        aps = []
        if "--append-depletion" in opt:
            aps.append([[[ids[g], ids["#" + g]] for g in gas], int(ReactionType.GRAIN_FREEZE)])
        for key, ty in (("--append-thermal-desorption", ReactionType.GRAIN_DESORB_THERMAL), ("--append-photon-desorption", ReactionType.GRAIN_DESORB_PHOTON),
                        ("--append-cosmic-ray-desorption", ReactionType.GRAIN_DESORB_COSMICRAY)):
            if key in opt:
                aps.append([[[ids["#" + g], ids[g]] for g in gas], int(ty)])
        red = [ids[x] for x in opt["--reduce-by-species"].split(",")] if "--reduce-by-species" in opt else "none"
        rem = [ids[x] for x in opt["--remove-species"].split(",")] if "--remove-species" in opt else []
        rep = model.call("net.extend", wire, red, rem, "1" if "--remove-duplicate" in opt else "0", aps)
        names = {v: k for k, v in ids.items()}
        m_have = sorted((sorted(names[int(x)] for x in r), sorted(names[int(x)] for x in p_)) for r, p_, _, _ in rep)
        m_idx = [int(i) for _, _, _, i in rep]
    rc, out, err = naunet_cli(args, base)
    res.count(f"extend:{variant}")
    if rc != 0 or not (base / "out.naunet").exists():
        res.violation("oracle", f"`naunet {' '.join(args)}` failed: {(err or out)[-300:]}", case)
    else:
        reset_globals()
        got = Network(filelist=str(base / "out.naunet"), fileformats="naunet")
        have = sorted((sorted(s.name for s in r.reactants), sorted(s.name for s in r.products)) for r in got.reaction_list)
        if have != sorted((sorted(r), sorted(p)) for r, p in want):
            res.violation("oracle", f"`naunet {' '.join(args[3:])}` wrote reactions {have}, expected {sorted((sorted(r), sorted(p)) for r, p in want)}", case)
        if m_have is not None and (m_have != have or m_idx != [r.idxfromfile for r in got.reaction_list]):
            res.corr_disagreements += 1
            res.violation("correspondence", f"`naunet {' '.join(args[3:])}`: implementation wrote {have} (indices {[r.idxfromfile for r in got.reaction_list]}), "
                                            f"the model's pipeline gives {m_have} (indices {m_idx})", case)
        if [r.idxfromfile for r in got.reaction_list] != list(range(len(got.reaction_list))):
            res.violation("oracle", f"extend output not re-indexed: {[r.idxfromfile for r in got.reaction_list]}", case)
    ol.cleanup_scratch()
    res.case(("c14-extend", tag, variant), sample={"extend": args[3:]}, nontrivial=True)


def run(res, info):
    rng = random.Random(res.seed * 7919 + 14)
    model = fw.Model() if info["ok"] else None
    ids = ident_map()
    res.rule = ("edit histories over a 10-reaction pool (equal-but-distinct instances, two electron spellings, windows) and 6 species: "
                "exhaustive over a 19-operation alphabet up to length 3 (thorough: 4), random histories up to length 40 (thorough: 80) "
                "with all ten operation kinds (additions also through add_reaction_from_file), several initial allowed/required lists; `naunet extend` variants; "
                "non-trivial = at least two effective operations")
    res.assumptions = ["remove_reaction(int) is called with 0 <= i < len (other integers raise or wrap in Python and are skipped)",
                       "append-depletion/desorption of `extend` are exercised through the command line only"]
    maxlen = 3 if res.tier == "quick" else 4
    for L in range(1, maxlen + 1):
        for ops in itertools.product(OPS_SMALL, repeat=L):
            if L == maxlen and res.tier == "quick" and rng.random() > 0.45:
                continue
            check_history(res, model, ids, [], [], list(ops), ("ex", L))
    for i in range(250 if res.tier == "quick" else 4000):
        n = rng.choice([5, 10, 20, 40]) if res.tier == "quick" else rng.choice([10, 20, 40, 80])
        al = list(rng.choice(ALLOWED))
        rq = [x for x in rng.choice(REQUIRED) if not al or x in al]
        check_history(res, model, ids, al, rq, gen_random(rng, n), i)
    for i in range(8 if res.tier == "quick" else 32):
        check_extend(res, rng, i, model)
    if model:
        model.close()


def replay(rp, info):
    res = fw.Result("C14", "quick", 0)
    model = fw.Model() if info["ok"] else None
    case = rp.get("case") or {}
    if case.get("kind") == "c14":
        ops = [tuple(tuple(x) if isinstance(x, list) else x for x in o) for o in case["ops"]]
        check_history(res, model, ident_map(), case["allowed"], case["required"], ops, "replay")
    for v in res.violations:
        print(v["kind"], v["what"][:600])
    print("replay:", "FAILS" if res.violations else "passes")
    return 1 if res.violations else 0
