"""C12 — KROME rate expressions keep their value when translated from Fortran to C.
Correspondence: for every rate string, the tree Lark returned is handed to the model: Model.Krome.to_c(tree)
against KROMEReaction.rateexpr() (exact text), Model.Krome.prepass(rate) against the text the tree was parsed
from; the verified validator decides per expression.  Oracle (no model): the source is evaluated with Fortran
semantics and the output with C semantics at random positive valuations; abundance references must resolve to
the species' index macro; unsupported shapes must be rejected."""
import math
import random
import re

from .. import framework as fw
from ..impl import Species, reset_globals
from naunet.reactions.kromereaction import KROMEReaction

TRUST = ["Lark's Earley parser (its choice of tree is observed per expression, not modelled)",
         "the oracle evaluates the Fortran text with Python's operators (** is right-associative and binds tighter than unary minus, "
         "as in Fortran; a Fortran d-literal is a real) and the C text by its own evaluator with C arithmetic (int/int truncates, "
         "pow returns double)"]

KNOWN = {"pow": "C12-power-left-associative", "signed": "C12-signed-literal-base-of-power", "idx": "C12-idx-suffix-only-for-one-character-names"}
VARS = ["Tgas", "Te", "invT", "T32", "lnTe", "sqrTgas", "invTe", "user_crate", "user_Av", "nH"]
SPECIES = ["H", "E", "H2", "HE", "C", "O", "CO", "Hp", "Cp", "Hm", "H2p", "HEpp", "D", "HD"]


def expected_alias(name):
    if name.endswith(("I", "M")):
        return name
    if name.endswith("p"):
        k = len(name) - len(name.rstrip("p"))
        return name.rstrip("p") + "I" * (k + 1)
    if name.endswith("m"):
        k = len(name) - len(name.rstrip("m"))
        return name.rstrip("m") + "M" * k
    return name + "I"


def tree_sexp(t):
    from lark import Tree
    if isinstance(t, Tree):
        return ["n", str(t.data), [tree_sexp(c) for c in t.children]]
    return ["t", str(t)]


def impl_translate(rate):
    reset_globals()
    KROMEReaction.initialize()
    if "," in rate:
        # a rate with a comma cannot be written into a KROME line: set it on the object as the reader would
        r = KROMEReaction("1,H,H,,H2,,,,10,1e4,1.0e-10")
        r.rate_string = rate.replace("dexp", "exp")
    else:
        try:
            r = KROMEReaction("1,H,H,,H2,,,,10,1e4," + rate)       # through the reader of a reaction line
        except Exception as e:
            return None, None, f"{type(e).__name__}"
    try:
        out = r.rateexpr()
    except Exception as e:
        return None, None, f"{type(e).__name__}"
    return out, KROMEReaction._kromerateconverter._expr, None


def f_eval(src, env, ab):
    s = re.sub(r"(\d\.?\d*)[dD]([+-]?\d+)", r"\1e\2", src).replace("dexp", "exp").replace("Hnuclei", "nH")
    ns = {"exp": math.exp, "sqrt": math.sqrt, "log": math.log, "log10": math.log10, "abs": abs, "min": min, "max": max, "__builtins__": {},
          "atan": math.atan, "asin": math.asin, "acos": math.acos, "sin": math.sin, "cos": math.cos, "tan": math.tan}
    ns.update(env)

    class IdxNS(dict):
        def __missing__(self, k):
            if k.startswith("idx_"):
                return ("idx", k[4:])
            raise KeyError(k)
    full = IdxNS(ns)
    full["n"] = lambda k: ab[expected_alias(k[1])]
    return eval(s, {"__builtins__": {}}, full)


def c_eval(out, env, ab):
    """value of the emitted C expression with C arithmetic: int/int truncates, libm functions return double"""
    import ast
    fns = {"atan": math.atan, "asin": math.asin, "acos": math.acos, "sin": math.sin, "cos": math.cos, "tan": math.tan,
           "exp": math.exp, "sqrt": math.sqrt, "log": math.log, "log10": math.log10, "abs": abs, "fabs": lambda x: abs(float(x)),
           "pow": lambda a, b: float(a) ** float(b), "min": min, "max": max}

    def ev(n):
        if isinstance(n, ast.Expression):
            return ev(n.body)
        if isinstance(n, ast.Constant) and isinstance(n.value, (int, float)):
            return n.value
        if isinstance(n, ast.Name):
            if n.id in env:
                return float(env[n.id])
            if n.id.startswith("IDX_") and n.id[4:] in ab:
                return ("idx", n.id[4:])
            raise NameError(n.id)
        if isinstance(n, ast.UnaryOp) and isinstance(n.op, (ast.USub, ast.UAdd)):
            v = ev(n.operand)
            return -v if isinstance(n.op, ast.USub) else v
        if isinstance(n, ast.BinOp):
            a, b = ev(n.left), ev(n.right)
            if isinstance(n.op, ast.Add):
                return a + b
            if isinstance(n.op, ast.Sub):
                return a - b
            if isinstance(n.op, ast.Mult):
                return a * b
            if isinstance(n.op, ast.Div):
                if isinstance(a, int) and isinstance(b, int):
                    q = abs(a) // abs(b)                # C: truncation toward zero
                    return q if (a >= 0) == (b >= 0) else -q
                return a / b
            raise SyntaxError("operator")
        if isinstance(n, ast.Call) and isinstance(n.func, ast.Name) and n.func.id in fns:
            return fns[n.func.id](*[ev(x) for x in n.args])
        if isinstance(n, ast.Subscript) and isinstance(n.value, ast.Name) and n.value.id == "y":
            k = ev(n.slice)
            if isinstance(k, tuple) and k[0] == "idx":
                return float(ab[k[1]])
            raise NameError("subscript")
        raise SyntaxError(type(n).__name__)
    return ev(ast.parse(out.strip(), mode="eval"))


def close(a, b):
    if isinstance(a, complex) or isinstance(b, complex):
        return False
    if a == b:
        return True
    return abs(a - b) <= 1e-10 * max(abs(a), abs(b))


def _operand_end(s, i):
    """index just after the operand that starts at s[i] (sign, number, name, call or parenthesised group)"""
    n = len(s)
    if i < n and s[i] in "+-":
        i += 1
    if i < n and s[i] == "(":
        depth = 0
        while i < n:
            depth += s[i] == "("
            depth -= s[i] == ")"
            i += 1
            if depth == 0:
                return i
        return n
    m = re.match(r"\d[\d.]*(?:[eEdD][+-]?\d+)?|\.\d+", s[i:])
    if m:
        return i + m.end()
    m = re.match(r"[A-Za-z_]\w*", s[i:])
    if m:
        j = i + m.end()
        return _operand_end(s, j) if j < n and s[j] == "(" else j
    return i


def has_chained_pow(s):
    """some ** whose right operand is directly followed by another ** (a**b**c, a**(b)**c, a**f(b)**c)"""
    for m in re.finditer(r"\*\*", s):
        j = _operand_end(s, m.end())
        if s[j:j + 2] == "**":
            return True
    return False


def classify(rate):
    s = re.sub(r"\s+", "", rate)
    if has_chained_pow(s):
        return KNOWN["pow"]
    if re.search(r"(^|[(*/,+-])-\d[\d.]*(?:[eEdD][+-]?\d+)?\*\*", s):
        return KNOWN["signed"]
    if re.search(r"idx_\w{2,}", s):
        return KNOWN["idx"]
    return None


# ---- generators -----------------------------------------------------------------------------------
def num(rng):
    m = rng.choice(["1.0", "2.5", "4.67", "0.5", "3", "10.526", "1.2"])
    return m + rng.choice(["", "", "e-10", "d-9", "e+04", "d0", "d0", "e0", "d2", "d01", "d+02", "e-05", "d00"])


def gen_expr(rng, depth, allow_findings=False):
    if depth <= 0 or rng.random() < 0.25:
        r = rng.random()
        if r < 0.4:
            return num(rng)
        if r < 0.8:
            return rng.choice(VARS)
        sp = rng.choice(["H", "E", "C", "O", "D"] if not allow_findings else SPECIES)
        return f"n(idx_{sp})"
    k = rng.random()
    if k < 0.08:
        # grouping that matters: a divisor / subtrahend that is itself a quotient / difference
        a, b, c = (gen_expr(rng, depth - 2, allow_findings) for _ in range(3))
        return rng.choice(["{a}/({b}/{c})", "{a}-({b}-{c})", "{a}/({b}*{c})", "{a}*({b}+{c})", "{a}/({b}/{c})*{a}", "({a}-{b})/({b}+{c})"]).format(a=a, b=b, c=c)
    if k < 0.3:
        return gen_expr(rng, depth - 1, allow_findings) + rng.choice(["*", "/", "*", " * "]) + gen_expr(rng, depth - 1, allow_findings)
    if k < 0.45:
        return gen_expr(rng, depth - 1, allow_findings) + rng.choice(["+", "-", " + ", " - "]) + gen_expr(rng, depth - 1, allow_findings)
    if k < 0.65:
        base = rng.choice([rng.choice(VARS), "(" + gen_expr(rng, depth - 1, allow_findings) + ")", num(rng)])
        ex = rng.choice(["2", "0.5", "(-0.5)", "-0.5", "(" + gen_expr(rng, depth - 2, allow_findings) + ")", "2.0e0"])
        if allow_findings and rng.random() < 0.3:
            ex = ex + "**" + rng.choice(["2", "0.5"])
        return base + "**" + ex
    if k < 0.85:
        fn = rng.choice(["exp", "sqrt", "log", "exp", "dexp", "log10", "atan", "sin", "cos", "tan", "asin", "acos", "abs"])
        if fn in ("asin", "acos"):
            return fn + "(invT/(invT+" + gen_expr(rng, 0, allow_findings) + "))" if False else fn + "(0.25*invT/(invT+1.0))"
        return fn + "(" + rng.choice(["", "-2.0*", "-1.5e2*"]) + gen_expr(rng, depth - 1, allow_findings) + ")"
    return "(" + gen_expr(rng, depth - 1, allow_findings) + ")"


UNSUPPORTED = ["-Tgas*2.0", "Tgas*-invT", "exp(-Tgas)", "Tgas - -invT", "(Tgas", "Tgas)", "2.0**", "*2.0", "Tgas**", "1.0e-10 * * Tgas",
               "sqrt()", "n(idx_)", "1.0 2.0", "Tgas ^ 2", "Tgas % 2", "1.0e", "1.0d-10 *", "exp(Tgas", "2.0 +", "a = 2.0", "Tgas > 10.0", ".5*Tgas", "Tgas!",
               # literals whose exponent is detached from the mantissa, doubled or double-signed: no Fortran literal
               "2.06 e-10*Tgas**(0.396)", "2.5E 3*Tgas", "4.0e -3*Tgas", "1.0e-3e2*Tgas", "1e+-3*Tgas", "1.5d 2*Tgas", "3.0d-10d2*Tgas", "2.0e*Tgas"]


# not Fortran at all (a blank inside a literal, two exponents, two signs, an exponent without digits): these must be rejected,
# there is no value they could keep
NOT_FORTRAN = {"2.06 e-10*Tgas**(0.396)", "2.5E 3*Tgas", "4.0e -3*Tgas", "1.0e-3e2*Tgas", "1e+-3*Tgas", "1.5d 2*Tgas", "3.0d-10d2*Tgas", "2.0e*Tgas",
               "1.0 2.0", "1.0e", "2.0**", "*2.0", "(Tgas", "Tgas)", "1.0e-10 * * Tgas", "sqrt()", "exp(Tgas", "2.0 +", "1.0d-10 *"}


def bundled_rates():
    out = []
    for rel in ("tests/data/minimal.krome", "tests/data/primordial.krome", "naunet/examples/primordial/primordial.krome", "naunet/examples/deuterium/deuterium.krome"):
        fmt = "idx,r,r,r,p,p,p,p,tmin,tmax,rate".split(",")
        for line in (fw.REPO / rel).read_text().splitlines():
            if line.startswith("@format:"):
                fmt = line[len("@format:"):].strip().lower().split(",")
                continue
            if not line.strip() or line.startswith(("#", "@", "//")):
                continue
            vals = line.strip().split(",")
            for k, v in zip(fmt, vals):
                if k == "rate" and v:
                    out.append((rel, v))
    return out


def check_rate(res, model, rate, tag, rng, expect_reject=False):
    case = {"kind": "c12", "rate": rate}
    out, tree, err = impl_translate(rate)
    res.count("accepted" if out is not None else "rejected")
    if out is None:
        res.case(("c12", tag, rate), nontrivial=False)
        return
    if rate in NOT_FORTRAN:
        res.violation("oracle", f"{rate!r} is no Fortran expression (malformed literal or syntax) but it is accepted and translated to {out!r} "
                                f"instead of being rejected at generation time", case)
        res.case(("c12", tag, rate), nontrivial=True)
        return
    if expect_reject:
        res.count("unsupported-shape accepted (checked by value)")
    known = classify(rate)
    c2 = dict(case, finding=known) if known else case
    # ---- correspondence
    verdict = None
    if model is not None:
        m = model.call("krome.check", rate.replace("dexp", "exp"), tree_sexp(tree))
        if m and m[0] == "error":
            res.violation("correspondence", f"model cannot read the tree of {rate!r}: {m}", case)
        else:
            pre, yld, toc, val, pf, pc = m
            if toc != out:
                res.corr_disagreements += 1
                res.violation("correspondence", f"{rate!r}: implementation {out!r} vs model {toc!r}", case)
            if re.sub(r"\s+", "", pre) != yld:
                res.corr_disagreements += 1
                res.violation("correspondence", f"{rate!r}: model pre-pass {pre!r} but the implementation parsed {yld!r}", case)
            verdict = val == "1"
            res.count("validator accepts" if verdict else "validator rejects")
    # ---- oracle
    env = {v: rng.uniform(0.5, 3.0) for v in VARS}
    ab = {expected_alias(s): rng.uniform(0.5, 3.0) for s in SPECIES + ["H2I", "HII"]}
    try:
        fv = f_eval(rate, env, ab)
    except (OverflowError, ValueError, ZeroDivisionError, KeyError, TypeError, SyntaxError, NameError):
        res.count("source not evaluable by the oracle (skipped)")
        res.case(("c12", tag, rate), nontrivial=False)
        return
    if isinstance(fv, complex):
        res.count("source not evaluable by the oracle (skipped)")
        res.case(("c12", tag, rate), nontrivial=False)
        return
    bad = None
    try:
        cv = c_eval(out, env, ab)
        if not close(fv, cv):
            bad = f"{rate!r} has the Fortran value {fv!r} but its translation {out!r} the C value {cv!r}"
    except NameError as e:
        bad = f"{rate!r} is translated to {out!r}, in which an abundance reference does not resolve ({e})"
    except (OverflowError, ValueError, ZeroDivisionError, TypeError, SyntaxError) as e:
        bad = f"{rate!r} is translated to {out!r}, which cannot be evaluated ({type(e).__name__})"
    if bad:
        res.violation("oracle", bad, c2)
    if verdict is False and not bad and not known:
        res.violation("correspondence", f"the validator does not accept {rate!r} -> {out!r} (theorem validate_sound does not apply to this expression) "
                                        f"although the oracle found equal values at one valuation", case)
    if verdict is not None and verdict and bad:
        res.violation("correspondence", f"the validator accepts {rate!r} but the values differ: {bad}", case)
    res.case(("c12", tag, rate), sample={"rate": rate, "c": out}, nontrivial=True)


def run(res, info):
    rng = random.Random(res.seed * 7919 + 12)
    model = fw.Model() if info["ok"] else None
    res.rule = ("every rate string of the bundled KROME networks; generated Fortran expressions to depth 4 (products, quotients, sums, powers with "
                "signed / parenthesised / chained exponents, d- and e-exponents, intrinsic calls with signed first factors, user variables, "
                "n(idx_X) references); a stream of unsupported shapes; non-trivial = accepted and evaluable")
    res.assumptions = ["valuations are positive (no domain errors)", "integer literals of the Fortran source are evaluated as reals (KROME rate expressions are real-valued)"]
    rates = bundled_rates()
    if res.tier == "quick":
        rates = rates[:: max(1, len(rates) // 400)]
    for rel, rate in rates:
        check_rate(res, model, rate, rel, rng)
    res.count("bundled rate strings", len(rates))
    n = 400 if res.tier == "quick" else 8000
    for i in range(n):
        check_rate(res, model, gen_expr(rng, rng.randint(1, 4)), ("gen", i), rng)
    for i in range(n // 4):
        check_rate(res, model, gen_expr(rng, rng.randint(1, 4), allow_findings=True), ("gen-findings", i), rng)
    # an identifier followed by a signed number next to a power (fixed: b5a9883; the grammar read 'Te+2.5' as one identifier)
    for s in ["Te+2.5**2*T32-1.0", "user_crate+2.5d-9**2.0e0 * n(idx_E)-(user_Av-invT)", "invT/invTe*user_Av*Tgas-10.526d2**(1.0d2) * exp(-2.0*lnTe)",
              "Tgas**Te+2.5", "Tgas-2.0**3-Te", "lnTe-1.5e2**2*Te-1.0"]:
        check_rate(res, model, s, ("fixed", s), rng)
    # intrinsics that have the same name in Fortran and C must pass through unchanged
    for s in ["2.0d-10*atan(Tgas/1.0d2)", "1.0d-9*asin(0.5d0)*acos(0.25d0)", "sin(invT)*cos(invT)+tan(invT)", "log10(Tgas)*dexp(-invT)", "abs(-Tgas)"]:
        check_rate(res, model, s, ("fixed", s), rng)
    for s in ["Tgas/(Te/T32)", "1.d-9/(Tgas/3.d2)", "Tgas-(Te-T32)", "Tgas/(exp(Te)/T32)", "sqrt(Tgas/(Te/T32))", "Tgas/(n(idx_H)/Te)"]:
        check_rate(res, model, s, ("fixed", s), rng)
    for s in ["a**b**c", "2.0**3**2", "Tgas**2**0.5", "-1.0e0**2", "2.0*-1.5**2", "n(idx_H2)", "n(idx_Hp)*n(idx_E)", "n(idx_HEpp)", "n(idx_H)*n(idx_E)"]:
        s2 = s.replace("a", "Tgas").replace("b", "Te").replace("c", "T32") if s == "a**b**c" else s
        check_rate(res, model, s2, ("fixed", s), rng)
    for s in UNSUPPORTED:
        check_rate(res, model, s, ("unsupported", s), rng, expect_reject=True)
    if model:
        model.close()


def replay(rp, info):
    case = rp.get("case") or {}
    if "rate" in case:
        out, tree, err = impl_translate(case["rate"])
        print("implementation:", out, err)
    print("replay: see above")
    return 0
