"""C01 — the generated right-hand side is the mass-action law.
(A) model rhs terms vs TemplateLoader._prepare_ode_content; (B) the statements of the
rendered Fex for dense / sparse / cusparse-kernel / rosenbrock4; oracle: exact rational
evaluation of the emitted text against the mass-action sum computed from the reaction
list (names resolved through the rendered macros header)."""
import random
import re
from collections import Counter
from fractions import Fraction

from .. import framework as fw
from .. import odelib as ol
from ..impl import Species, reset_globals

TRUST = ["harness/odelib.py parse_sum (canonicaliser of emitted sums) for the correspondence; the oracle does not use it "
         "(Python's own expression parser evaluates the emitted text over the rationals)",
         "thermal row: gamma, kerg, npar are treated as parameters (rate coefficients held fixed)",
         "channel C: g++ 12 and the stand-in headers harness/cxx/sundials, harness/cxx/boost; drivers fexjac_cvode.cpp (rate routines "
         "replaced by stubs returning given coefficients) and fexjac_odeint.cpp; doubles compared with rationals at relative 1e-9 of the "
         "sum of the magnitudes of the terms; species rows only (the temperature row and the cuSPARSE kernels are read as text)"]

COOLING_SETS = [["CIC_HI"], ["CIC_HI", "RC_HII"], ["CIC_HeI", "CIC_He_2S"], ["RC_HeIII", "CEC_HI"]]
COOL_REQ = {"CIC_HI": ["H", "e-"], "RC_HII": ["H+", "e-"], "CIC_HeI": ["He", "e-"], "CIC_He_2S": ["He+", "e-"],
            "RC_HeIII": ["He++", "e-"], "CEC_HI": ["H", "e-"]}


def yal(a, q):
    """alias of the network species that q denotes (two spellings of the electron are one species)"""
    return next(s for s in a.species if s == q).alias


def mass_action(a, k, y, i):
    """sum over reactions of (count in products - count in reactants) k_l prod y(reactants)"""
    sp = a.species[i]
    tot = Fraction(0)
    for l, r in enumerate(a.info.reactions):
        nu = sum(1 for p in r.products if p == sp) - sum(1 for q in r.reactants if q == sp)
        if nu:
            term = k[l]
            for q in r.reactants:
                term *= y[f"IDX_{yal(a, q)}"]
            tot += nu * term
    return tot


def make_env(a, rng, macros=None):
    y = {f"IDX_{al}": ol.rand_frac(rng) for al in a.aliases}
    y["IDX_TGAS"] = ol.rand_frac(rng)
    k = {l: ol.rand_frac(rng) for l in range(max(len(a.info.reactions), 1))}
    kh = {h: ol.rand_frac(rng) for h in range(len(a.info.heating))}
    kc = {c: ol.rand_frac(rng) for c in range(len(a.info.cooling))}
    env = {"k": k, "kh": kh, "kc": kc, "gamma": ol.rand_frac(rng), "kerg": ol.rand_frac(rng),
           "npar": ol.rand_frac(rng), "zeta": ol.rand_frac(rng), "nH": ol.rand_frac(rng)}
    names = {f"IDX_{al}": f"IDX_{al}" for al in a.aliases}
    names["IDX_TGAS"] = "IDX_TGAS"
    env.update(names)
    env["y"] = y
    env["y_cur"] = y
    return env


def oracle_rhs(res, a, stmts, where, rng, case):
    """stmts: list of (lhs alias or 'TGAS', rhs text).  Every species must have exactly one
    equation and it must evaluate to the mass-action sum (+ modifier terms)."""
    env = make_env(a, rng)
    by = {}
    for lhs, rhs in stmts:
        m = re.fullmatch(r"ydot\[IDX_(.+)\]", lhs)
        if not m:
            res.violation("oracle", f"{where}: unexpected left-hand side {lhs!r}", case)
            return
        by.setdefault(m.group(1), []).append(rhs)
    kw = a.net._species_kwargs
    for i, al in enumerate(a.aliases):
        if len(by.get(al, [])) != 1:
            res.violation("oracle", f"{where}: species {a.species[i].name} has {len(by.get(al, []))} equations", case)
            return
        try:
            val = ol.eval_expr(by[al][0], env)
        except Exception as e:
            res.violation("oracle", f"{where}: emitted right-hand side of {a.species[i].name} is not evaluable: {e!r}: {by[al][0][:200]}", case)
            return
        exp = mass_action(a, env["k"], env["y"], i)
        for sname, expr in a.net.ode_modifier.items():
            if Species(sname, **kw) == a.species[i]:
                for fact, dep in zip(expr["factors"], expr["reactants"]):
                    t = ol.eval_expr(f"({fact})", env)
                    for d in dep:
                        t *= env["y"][f"IDX_{yal(a, Species(d, **kw))}"]
                    exp += t
        if val != exp:
            res.violation("oracle", f"{where}: d[{a.species[i].name}]/dt evaluates to {val}, mass-action law gives {exp}; emitted: {by[al][0][:300]}", case)
            return
    if a.info.heating or a.info.cooling:
        if len(by.get("TGAS", [])) != 1:
            res.violation("oracle", f"{where}: temperature equation missing or repeated", case)
            return
        val = ol.eval_expr(by["TGAS"][0], env)
        s = Fraction(0)
        for h, p in enumerate(a.info.heating):
            t = env["kh"][h]
            for q in p.reactants:
                t *= env["y"][f"IDX_{yal(a, q)}"]
            s += t
        for c, p in enumerate(a.info.cooling):
            t = env["kc"][c]
            for q in p.reactants:
                t *= env["y"][f"IDX_{yal(a, q)}"]
            s -= t
        exp = (env["gamma"] - 1) * s / env["kerg"] / env["npar"]
        if val != exp:
            res.violation("oracle", f"{where}: temperature equation evaluates to {val}, expected {exp}", case)
    elif "TGAS" in by:
        res.violation("oracle", f"{where}: temperature equation emitted without thermal processes", case)


def corr_rhs(res, a, stmts, where, case):
    """model rhs terms vs statements (canonical multisets)"""
    lhs_expected = [f"ydot[IDX_{al}]" for al in a.aliases] + (["ydot[IDX_TGAS]"] if (a.info.heating or a.info.cooling) else [])
    got_lhs = [l for l, _ in stmts]
    if got_lhs != lhs_expected[:len(got_lhs)] or len(got_lhs) != len(lhs_expected):
        res.corr_disagreements += 1
        res.violation("correspondence", f"{where}: left-hand sides {got_lhs[:6]}.. differ from the species order {lhs_expected[:6]}..", case)
        return
    # exact text of the species rows (those without a modifier factor): the theorem rhs_text_is_mass_action is about
    # this very string; only the generator's own list (channel A) is unwrapped text
    if where.startswith("channel A") and getattr(a, "m_rowtext", None) is not None:
        for i, ((lhs, rhs), mt) in enumerate(zip(stmts, a.m_rowtext)):
            if mt == "none":
                continue
            if rhs.strip() != mt:
                res.corr_disagreements += 1
                res.violation("correspondence", f"{where}: text of {lhs}: implementation {rhs.strip()[:160]!r} != model text {mt[:160]!r}", case)
                return
        res.count("species rows compared as exact text", sum(1 for mt in a.m_rowtext if mt != "none"))
    for i, (lhs, rhs) in enumerate(stmts):
        try:
            c = ol.canon(*ol.parse_sum(rhs))
        except ol.ParseError as e:
            res.corr_disagreements += 1
            res.violation("correspondence", f"{where}: {e}", case)
            return
        if c != a.m_rhs[i]:
            res.corr_disagreements += 1
            res.violation("correspondence", f"{where}: equation {lhs}: implementation terms {c} != model terms {a.m_rhs[i]}", case)
            return


def expected_rows(a, k, y, env, absolute=False):
    """the mass-action law (+ ODE-modifier terms) of every species at coefficients k and abundances y (Fractions or duals);
    absolute=True: the sum of the magnitudes of the terms (the scale a floating-point result is compared on)"""
    kw = a.net._species_kwargs
    rows = []
    for i, sp in enumerate(a.species):
        tot = Fraction(0)
        for l, r in enumerate(a.info.reactions):
            nu = sum(1 for p in r.products if p == sp) - sum(1 for q in r.reactants if q == sp)
            if nu:
                term = k[l]
                for q in r.reactants:
                    term = term * y[f"IDX_{yal(a, q)}"]
                tot = tot + (abs(nu) if absolute else nu) * term
        for sname, expr in a.net.ode_modifier.items():
            if Species(sname, **kw) == sp:
                for fact, dep in zip(expr["factors"], expr["reactants"]):
                    t = ol.eval_expr(f"({fact})", env)
                    if absolute:
                        t = abs(t)
                    for d in dep:
                        t = t * y[f"IDX_{yal(a, Species(d, **kw))}"]
                    tot = tot + t
        rows.append(tot)
    return rows


def exec_check(res, a, desc, rng, case, jac=False):
    """channel C: the rendered CVODE Fex (jac=False) or Jac (jac=True), dense and sparse, compiled as they stand and run with a
    distinct coefficient per reaction; the species rows are compared with the mass-action law (its exact derivative) evaluated in
    rationals.  Independent of how the rendered file is laid out."""
    if desc.get("heating") or not a.species:
        return
    mod_syms = {w for m in (desc.get("ode_modifier") or {}).values() for f in m["factors"] for w in re.findall(r"[A-Za-z_]\w*", f)} - {"k", "e", "E"}
    if mod_syms:
        res.count("channel C skipped: modifier factor with user symbols")    # `zeta`, `nH`, ...: members of NaunetData, or no variables at all
        return
    nre = max(len(a.info.reactions), 1)
    thermal = bool(a.info.heating or a.info.cooling)
    cases, exact = [], []
    for _ in range(2):
        k = {l: Fraction(rng.randint(1, 64), 16) for l in range(nre)}
        y = {f"IDX_{al}": Fraction(rng.randint(1, 64), 8) for al in a.aliases}
        y["IDX_TGAS"] = Fraction(100)
        kh = [Fraction(rng.randint(1, 8), 8) for _ in a.info.heating]
        kc = [Fraction(rng.randint(1, 8), 8) for _ in a.info.cooling]
        # every case twice: the abundances and their double (temperature slot unchanged); the cuSPARSE kernels get each pair as
        # one batch of two systems
        for y_ in (y, {n_: (v if n_ == "IDX_TGAS" else 2 * v) for n_, v in y.items()}):
            cases.append(([k[l] for l in range(nre)], kh, kc, [y_[f"IDX_{al}"] for al in a.aliases] + ([y_["IDX_TGAS"]] if thermal else [])))
            exact.append((k, y_))
    # Odeint: the coefficients are literals of the rendered EvalRates (one of its own per reaction), the same in both cases
    ko = {l: Fraction(l % 13 + 3, 16) for l in range(nre)}
    if not desc["reactions"]:
        ko = {0: Fraction(0)}          # NREACTIONS is 1 for a network without reactions and nothing assigns k[0]: it stays 0.0
    methods = ["dense", "sparse", "cusparse"] + ([] if (desc.get("rate_modifier") or desc.get("tmin") or desc.get("tmax") or desc.get("edits")) else ["odeint"])
    preps = [ol.prep_odeint(desc, [ko[l] for l in range(len(a.info.reactions))]) if m == "odeint" else
             ol.prep_cusparse(desc) if m == "cusparse" else ol.prep_fexjac(desc, m) for m in methods]
    diags = ol.compile_all([c for c, _ in preps])
    exact_cv = exact
    for method, (_, exe), diag in zip(methods, preps, diags):
        where = f"channel C ({'odeint' if method == 'odeint' else 'cvode/' + method}, compiled{' for the host, batch of two systems' if method == 'cusparse' else ''})"
        out = None
        if diag is None:
            if method == "odeint":
                exact = [(ko, y) for _, y in exact_cv]
                out, diag = ol.run_fexjac(exe, [c[3] for c in cases])
            elif method == "cusparse":
                exact = exact_cv
                rows = [list(c0[0]) + list(c0[1]) + list(c0[2]) + list(c0[3]) + list(c1[3]) for c0, c1 in zip(cases[0::2], cases[1::2])]
                out, diag = ol.run_fexjac(exe, rows, per_case=2, threads=1)
                if out is not None:
                    # the same batches with one thread per system (the package's own launch policy): the same numbers
                    out2, diag2 = ol.run_fexjac(exe, rows, per_case=2, threads=2)
                    if out2 is None or [(o["F"], o["J"]) for o in out2] != [(o["F"], o["J"]) for o in out]:
                        res.violation("oracle", f"{where}: the kernels compute other values with one thread per system than with one thread for the whole batch "
                                      f"({diag2 or 'first difference in system ' + str(next(i for i, (u, v) in enumerate(zip(out, out2)) if (u['F'], u['J']) != (v['F'], v['J'])) % 2)})", case)
                        return
            else:
                exact = exact_cv
                out, diag = ol.run_fexjac(exe, [[x for part in c for x in part] for c in cases])
        if out is None:
            res.corr_disagreements += 1
            res.violation("correspondence", f"{where}: {diag}", case)
            return
        res.count(f"executed:{method}")
        if method == "dense":
            dense_out = out
            if thermal and not jac and ol.LAST_KERG[0]:
                # the temperature equation of the compiled dense routine against the formula: gamma comes from GetGamma (the data
                # member is negative by default), the particle density from GetNumDens (the sum of the species abundances), kerg
                # from the rendered constants file
                n_ = len(a.species)
                for (k, y), o in zip(exact, out):
                    ysp = [y[f"IDX_{al}"] for al in a.aliases]
                    kh_, kc_ = cases[exact.index((k, y))][1], cases[exact.index((k, y))][2]
                    tot = Fraction(0)
                    for sign, procs, coef in ((1, a.info.heating, kh_), (-1, a.info.cooling, kc_)):
                        for c_, p_ in zip(coef, procs):
                            t = c_
                            for q in p_.reactants:
                                t = t * y[f"IDX_{yal(a, q)}"]
                            tot += sign * t
                    want = (5.0 / 3.0 - 1.0) * float(tot) / ol.LAST_KERG[0] / float(sum(ysp))
                    if abs(o["F"][n_] - want) > 1e-9 * max(abs(want), 1e-300):
                        res.violation("oracle", f"{where}: the temperature derivative computes to {o['F'][n_]!r}; (gamma - 1) (heating - cooling) / (kerg npar) with "
                                      f"gamma = 5/3, npar = the sum of the abundances is {want!r}", dict(case, k=[str(k[l]) for l in sorted(k)], y={m_: str(v) for m_, v in y.items()}))
                        return
                res.count("temperature equation executed")
        elif thermal and method != "odeint":
            # the temperature row: every CVODE layout computes it from the same abundances with the same coefficients, so it must
            # be the value the dense back-end computes (whose text is checked against the formula in channel B); in a batch, from
            # the abundances of the system it belongs to
            n_ = len(a.species)
            for ci, (o, od) in enumerate(zip(out, dense_out)):
                same = lambda u, v: (u == v) or abs(u - v) <= 1e-12 * max(abs(u), abs(v)) or (u != u and v != v)
                bad = None
                if not jac and not same(o["F"][n_], od["F"][n_]):
                    bad = f"the temperature derivative computes to {o['F'][n_]!r}, the dense back-end gives {od['F'][n_]!r}"
                elif jac:
                    for r_, c_ in [(n_, c) for c in range(n_ + 1)] + [(r, n_) for r in range(n_)]:
                        if not same(o["J"][r_][c_], od["J"][r_][c_]):
                            bad = f"Jacobian entry ({r_},{c_}) of the temperature row / column computes to {o['J'][r_][c_]!r}, the dense back-end gives {od['J'][r_][c_]!r}"
                            break
                if bad:
                    k, y = exact[ci]
                    res.violation("oracle", f"{where}: {'system ' + str(ci % 2) + ' of the batch: ' if method == 'cusparse' else ''}{bad} for the same abundances "
                                  f"y = {[float(v) for v in list(y.values())[:6]]}", dict(case, k=[str(k[l]) for l in sorted(k)], y={m_: str(v) for m_, v in y.items()}))
                    return
        for (k, y), o in zip(exact, out):
            env = make_env(a, rng)
            env["k"], env["y"], env["y_cur"] = k, y, y
            scale = [float(x) for x in expected_rows(a, k, y, env, absolute=True)]
            if not jac:
                want = expected_rows(a, k, y, env)
                for i, sp in enumerate(a.species):
                    if abs(o["F"][i] - float(want[i])) > 1e-9 * (1.0 + scale[i]):
                        res.violation("oracle", f"{where}: d[{sp.name}]/dt computes to {o['F'][i]!r}, the mass-action law gives {float(want[i])!r} "
                                      f"(k = {[float(k[l]) for l in sorted(k)][:6]}, y = {[float(v) for v in list(y.values())[:6]]})",
                                      dict(case, k=[str(k[l]) for l in sorted(k)], y={n_: str(v) for n_, v in y.items()}))
                        return
            else:
                if not o["J_ok"]:
                    res.violation("oracle", f"{where}: the CSR arrays filled by Jac index outside the matrix: {o['S']}", case)
                    return
                for j, al in enumerate(a.aliases):
                    yd = dict(y)
                    yd[f"IDX_{al}"] = ol.Dual(y[f"IDX_{al}"], 1)
                    col = expected_rows(a, k, yd, env)
                    for i, sp in enumerate(a.species):
                        w = col[i].b if isinstance(col[i], ol.Dual) else Fraction(0)
                        if abs(o["J"][i][j] - float(w)) > 1e-9 * (1.0 + scale[i] / float(y[f"IDX_{al}"])) * 8:
                            res.violation("oracle", f"{where}: J[{sp.name},{a.species[j].name}] computes to {o['J'][i][j]!r}, the derivative of the mass-action "
                                          f"law is {float(w)!r}", dict(case, k=[str(k[l]) for l in sorted(k)], y={n_: str(v) for n_, v in y.items()}))
                            return
    ol.cleanup_scratch()


def fex_statements(src: str, kernel=False):
    """ydot statements of a rendered Fex (or of the cusparse kernel)"""
    if kernel:
        body = src[src.index("__global__ void FexKernel"):src.index("int Fex(")]
    elif "FexKernel" in src:
        body = src[src.index("int Fex("):]
    else:
        body = src
    # local pointer aliases and per-system offsets are resolved first (`ydot_cur[IDX_x]`, `ydot[yistart + IDX_x]`
    # and `ydot[IDX_x]` are one and the same element of the one system this reader looks at)
    body = ol.resolve_aliases(body)
    return [(l, r) for l, r in ol.extract_statements(body, r"ydot\[IDX_[^\]]*\]")]


def unread_writes(src: str, kernel=False):
    """array writes in the rendered function that fex_statements does not read as `ydot[IDX_x] = ...`: a compound
    assignment, another target array, a subscript that is not one macro.  When there is one, the reader does not
    understand the layout of the file and the oracle has nothing to say about it (the correspondence is broken)."""
    if kernel:
        body = src[src.index("__global__ void FexKernel"):src.index("int Fex(")]
    elif "FexKernel" in src:
        body = src[src.index("int Fex("):]
    else:
        body = src
    body = ol.resolve_aliases(body)
    return [f"{a}[{sub}] {op}" for a, sub, op in ol.array_writes(body)
            if not (a == "ydot" and op == "=" and re.fullmatch(r"IDX_\w+", sub))]


BACKENDS = [("cvode", "dense", "cpu", "src/naunet_fex.cpp", False),
            ("cvode", "sparse", "cpu", "src/naunet_fex.cpp", False),
            ("cvode", "cusparse", "gpu", "src/naunet_fex.cu", True),
            ("odeint", "rosenbrock4", "cpu", "src/naunet_ode.cpp", False)]


def check_desc(res, model, desc, rng, tag, channel_b=False, after=None):
    case = {"kind": "c01", "desc": desc}
    if after is not None:
        case["after"] = after          # generated right after this description in the same process
    a = ol.analyse(desc, model)
    stmts = [ol.strip_lhs(s) for s in a.ode.fex]
    nre = len(desc["reactions"])
    res.count(f"reactions={'0' if nre == 0 else '1-4' if nre < 5 else '5-15' if nre < 16 else '16+'}")
    res.count("thermal" if (a.info.heating or a.info.cooling) else "no-thermal")
    if any(len(set(r)) < len(r) for r, _ in desc["reactions"]):
        res.count("has-repeated-reactant")
    if any(set(r) & set(p) for r, p in desc["reactions"]):
        res.count("has-catalyst")
    if desc.get("ode_modifier"):
        res.count("has-ode-modifier")
    oracle_rhs(res, a, stmts, "channel A (ode.fex)", rng, case)
    if a.model is not None:
        corr_rhs(res, a, stmts, "channel A (ode.fex)", case)
        if a.m_neq != max(a.nspec + (1 if (a.info.heating or a.info.cooling) else 0), 1):
            res.violation("correspondence", "n_eqns differs", case)
    if channel_b and not desc.get("heating"):          # user-registered heating processes exist in channel A only
        for solver, method, device, f, kernel in BACKENDS:
            tmpl = [f.replace("src/", "src/").replace(".cu", ".cpp") + ".j2", "include/naunet_macros.h.j2"]
            net = ol.build_network(desc)
            d = ol.render(net, solver, method, device, templates=tmpl)
            src = (d / f).read_text()
            macros = ol.read_macros(d)
            st = fex_statements(src, kernel)
            where = f"channel B ({solver}/{method} {f})"
            res.count(f"rendered:{method}")
            odd = unread_writes(src, kernel)
            if odd:
                res.corr_disagreements += 1
                res.violation("correspondence", f"{where}: the reader of the rendered file does not understand the statement(s) {odd[:3]}", case)
                continue
            # macros: species slots are a bijection onto 0..NSPECIES-1 in species order
            for i, al in enumerate(a.aliases):
                if ol.macro_int(macros, f"IDX_{al}") != i:
                    res.violation("correspondence", f"{where}: IDX_{al} is {macros.get('IDX_' + al)} but the equations are in species order (slot {i})", case)
                    break
            oracle_rhs(res, a, st, where, rng, case)
            if a.model is not None:
                corr_rhs(res, a, st, where, case)
        ol.cleanup_scratch()
        exec_check(res, a, desc, rng, case, jac=False)
    res.case(("c01", tag, ol.nontrivial_sig(desc)),
             sample={"reactions": [f"{' + '.join(r)} -> {' + '.join(p)}" for r, p in desc["reactions"]][:5],
                     "required": desc.get("required"), "fex[0]": a.ode.fex[0][:160] if a.ode.fex else None},
             nontrivial=nre > 0)


FIXED = [
    {"reactions": [], "required": []},
    {"reactions": [], "required": ["H", "He"]},
    {"reactions": [(["H", "H"], ["H2"])], "required": []},
    {"reactions": [(["H2", "CO"], ["H", "H", "CO"])], "required": ["He"]},
    {"reactions": [(["H", "H", "H"], ["H2", "H"]), (["H2", "CR"], ["H", "H"])], "required": []},
    {"reactions": [(["H+", "e-"], ["H"]), (["H", "E"], ["H+", "E", "E"])], "required": []},
    {"reactions": [(["H", "e-"], ["H+", "e-", "e-"]), (["H+", "e-"], ["H", "PHOTON"])], "required": [], "cooling": ["CIC_HI", "RC_HII"]},
    {"reactions": [(["H", "#CO"], ["#H", "CO"]), (["CO"], ["#CO"]), (["CO"], ["#CO"])], "required": ["GRAIN0"]},
    # heating AND cooling, processes that list a species twice, a modifier on a species the processes depend on
    {"reactions": [(["H", "e-"], ["H+", "e-", "e-"]), (["H+", "e-"], ["H", "PHOTON"]), (["He+", "e-"], ["He"])], "required": [], "cooling": ["CIC_HI", "RC_HII"],
     "heating": [["H", "H"], ["He+", "e-", "e-"], ["H", "e-"]], "ode_modifier": {"e-": {"factors": ["-1.0e-3"], "reactants": [["e-", "H"]]}}},
    {"reactions": [(["H", "O"], ["OH"])], "required": [],
     "ode_modifier": {"H": {"factors": ["-2.0 * k[0]"], "reactants": [["H", "O"]]}, "OH": {"factors": ["1.5", "zeta"], "reactants": [["OH"], ["H", "H", "O"]]}}},
    # no reaction at all, a modifier that reads k[0]: NREACTIONS is 1 and nothing assigns k[0]
    {"reactions": [], "required": ["N"], "ode_modifier": {"N": {"factors": ["-2.0 - k[0]", "-k[0]"], "reactants": [["N", "N", "N"], ["N", "N", "N"]]}}},
    # terms longer than the statement-wrapping width (three long names: a blank-free term of 77 and more characters)
    {"reactions": [(["CH3CH2CH2CH2OH", "CH3OCH2CH2OCH3", "CH3CH2OCH2CH2CH2OH"], ["C16H38O5"]), (["C16H38O5"], ["CH3CH2CH2CH2OH", "CH3OCH2CH2OCH3", "CH3CH2OCH2CH2CH2OH"]),
                   (["CH3CH2OCH2CH2CH2OH", "CH3CH2OCH2CH2CH2OH", "CH3CH2OCH2CH2CH2OH"], ["CH3CH2CH2CH2OH", "H"])], "required": [],
     "ode_modifier": {"H": {"factors": ["-2.0*k[0]*zeta*(nH+1.0e-30)*(1.0e+00+2.5e-01*zeta)/(3.0e+00+zeta*zeta*zeta*zeta*zeta*zeta)"], "reactants": [["H"]]}}},
]


def gen_desc(rng, size="small", allow_heating=False):
    desc = ol.gen_network(rng, size)
    if rng.random() < 0.2:
        names = COOLING_SETS[rng.randrange(len(COOLING_SETS))]
        req = sorted({s for n in names for s in COOL_REQ[n]})
        # make sure exactly one electron spelling is used
        desc["required"] = [s for s in desc["required"] if s not in ("E",)] + req
        desc["reactions"] = [([("e-" if x == "E" else x) for x in r], [("e-" if x == "E" else x) for x in p]) for r, p in desc["reactions"]]
        desc["cooling"] = names
    if allow_heating and rng.random() < 0.2:
        # heating processes over the network's species: one to three reactants, the same species twice now and then
        sp = sorted({s for r, p in desc["reactions"] for s in r + p if s not in ("CR", "PHOTON", "CRPHOT", "CRP")} | set(desc["required"]))
        if sp:
            hs = []
            for _ in range(rng.randint(1, 3)):
                names = [rng.choice(sp) for _ in range(rng.randint(1, 3))]
                if len(names) > 1 and rng.random() < 0.4:
                    names[1] = names[0]
                hs.append(names)
            desc["heating"] = hs
    if rng.random() < 0.25:
        sp = sorted({s for r, p in desc["reactions"] for s in r + p if s not in ("CR", "PHOTON", "CRPHOT", "CRP")} | set(desc["required"]))
        if sp:
            om = {}
            for _ in range(rng.randint(1, 2)):
                tgt = rng.choice(sp)
                nt = rng.randint(1, 2)
                om[tgt] = {"factors": [rng.choice(["-2.0", "1.5 * k[0]", "zeta", "(nH + 1.0)", "-k[0]", "-zeta + nH", "-2.0 - k[0]"]) for _ in range(nt)],
                           "reactants": [[rng.choice(sp) for _ in range(rng.randint(1, 3))] for _ in range(nt)]}
            desc["ode_modifier"] = om
    return desc


def run(res, info):
    rng = random.Random(res.seed * 7919 + 1)
    model = fw.Model() if info["ok"] else None
    res.rule = ("networks over gas/ion/electron/ice/grain names (1-3 reactants with repeats, 0-5 products, catalysts, pseudo reactants, "
                "duplicate reactions, required-but-unreacting species, cooling, ODE modifiers); non-trivial = at least one reaction; "
                "distinct = distinct network description")
    res.assumptions = ["species aliases are distinct (C09)", "ODE-modifier factors are C expressions over k[], zeta, nH"]
    n_a = 250 if res.tier == "quick" else 4000
    n_b = 6 if res.tier == "quick" else 60
    for i, d in enumerate(FIXED):
        check_desc(res, model, d, rng, ("fixed", i), channel_b=True)
    for i in range(n_a):
        desc = gen_desc(rng, "small" if i % 5 else "large", allow_heating=True)
        check_desc(res, model, desc, rng, i, channel_b=(i < n_b))
        if i % 3 == 0:
            # ... and, in the same process, the same species set in (usually) another order
            d2 = ol.follow_up(rng, desc)
            if d2 is not None:
                check_desc(res, model, d2, rng, (i, "follow-up"), channel_b=(i < n_b), after=desc)
    if model:
        model.close()


def replay(rp, info):
    res = fw.Result("C01", "quick", 0)
    model = fw.Model() if info["ok"] else None
    case = rp.get("case") or {}
    if "desc" in case:
        if case.get("after"):
            prev = case["after"]
            prev["reactions"] = [tuple(x) for x in prev["reactions"]]
            check_desc(fw.Result("C01", "quick", 0), model, prev, random.Random(0), "replay-before", channel_b=True)
        d = case["desc"]
        d["reactions"] = [tuple(x) for x in d["reactions"]]
        check_desc(res, model, d, random.Random(0), "replay", channel_b=True)
    for v in res.violations:
        print(v["kind"], v["what"][:600])
    print("replay:", "FAILS" if res.violations else "passes")
    return 1 if res.violations else 0
