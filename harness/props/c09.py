"""C09 — one index per species: identifiers valid, unique and consistent everywhere.
Correspondence: Network.species order, aliases, the IDX_ lines of naunet_macros.h and
constant_indexes.py against Model.Index (species_order, alias, macro_lines, pyconst_lines);
oracle: bijection onto 0..N-1, legal and distinct identifiers, no two slots for two spellings of
one species, same counts/order in macros, Python constants, configuration summary (API export path
and `naunet render`) and the Enzo patch tables."""
import keyword
import random
import re
import subprocess

import tomlkit

from .. import framework as fw
from .. import odelib as ol
from ..cli import naunet_cli
from ..impl import Species, Network, Reaction, ReactionType, reset_globals, quiet
from naunet.configuration import NetworkConfiguration

TRUST = ["tomlkit and the Enzo patch renderer are exercised, not modelled",
         "species identity classes (which spellings are one species) are computed by Species.__eq__ of the implementation"]

DEFAULT_T = (list(Species.default_elements), list(Species.default_pseudoelements), [], "GRAIN", "#")
IDENT = re.compile(r"^[A-Za-z_][A-Za-z0-9_]*$")

KNOWN = {
    "label": "C09-label-alias-illegal",
    "grain": "C09-grain-eq-hash-two-slots",
    "group": "C09-surface-group-alias-collision",
    "atomlabel": "C09-labelled-atoms-share-element-macro",
}


def classify(names):
    """which known finding (if any) explains a failure on this species list"""
    if any(n.startswith(("c-", "l-")) or "*" in n for n in names):
        return KNOWN["label"]
    return None


def check_net(res, model, desc, tag, render=False, cli=False):
    case = {"kind": "c09", "desc": desc}
    net = ol.build_network(desc)
    species = net.species
    names = [s.name for s in species]
    aliases = [s.alias for s in species]
    elements = net.elements
    # ---- oracle on the implementation's own objects
    n = len(species)
    two_slots = False
    for i, a in enumerate(species):
        for j in range(i + 1, n):
            if a == species[j]:
                fid = KNOWN["grain"] if a.is_grain else None
                two_slots = True
                res.violation("oracle", f"two slots for one species: {a.name!r} (slot {i}) == {species[j].name!r} (slot {j})",
                              dict(case, finding=fid) if fid else case)
    seen = {}
    for i, al in enumerate(aliases):
        ident = "IDX_" + al
        if not IDENT.match(ident) or keyword.iskeyword(ident):
            fid = classify([names[i]])
            res.violation("oracle", f"identifier {ident!r} of species {names[i]!r} is not a legal C/Python identifier",
                          dict(case, finding=fid) if fid else case)
        if al in seen:
            a, b = species[seen[al]], species[i]
            fid = KNOWN["group"] if (a.is_surface and b.is_surface and a.surface_group != b.surface_group) else None
            res.violation("oracle", f"species {names[seen[al]]!r} and {names[i]!r} share the identifier IDX_{al}",
                          dict(case, finding=fid) if fid else case)
        seen.setdefault(al, i)
    ekeys = [list(e.element_count.keys())[0] for e in elements]
    if len(set(ekeys)) != len(ekeys):
        fid = KNOWN["atomlabel"] if any(e.name != k for e, k in zip(elements, ekeys)) else None
        res.violation("oracle", f"element macros not distinct: {ekeys}", dict(case, finding=fid) if fid else case)
    # ---- correspondence (channel A)
    if model is not None:
        rng = random.Random(len(names))
        setorder = list(names)
        rng.shuffle(setorder)
        rep = {}
        rs = []
        for r in net.reaction_list:
            rs.append([names[species.index(x)] for x in r.reactants + r.products])
        m = model.call("idx.order", setorder, rs)
        # with == and hash inconsistent (reported above) the set is not a set of identity classes: outside the model
        if m[0] != names and not two_slots:
            res.corr_disagreements += 1
            res.violation("correspondence", f"species order: implementation {names} vs model {m[0]}", case)
        e = model.call("idx.emit", *DEFAULT_T, names)
        if e[0] != aliases:
            res.corr_disagreements += 1
            res.violation("correspondence", f"aliases: implementation {aliases} vs model {e[0]}", case)
        if e[3] != ekeys:
            res.corr_disagreements += 1
            res.violation("correspondence", f"element keys: implementation {ekeys} vs model {e[3]}", case)
        for al, ok in zip(aliases, e[4]):
            if (ok == "1") != bool(IDENT.match("IDX_" + al)):
                res.corr_disagreements += 1
                res.violation("correspondence", f"legality of IDX_{al}: model {ok}", case)
    # ---- channel B: rendered artefacts
    if render:
        d = ol.render(net, templates=["include/naunet_macros.h.j2", "python/pynaunet_model/constant_indexes.py.j2"])
        mac = (d / "include" / "naunet_macros.h").read_text()
        pyc = (d / "python" / "pynaunet_model" / "constant_indexes.py").read_text()
        mlines = [" ".join(l.split()) for l in mac.splitlines() if re.match(r"#define IDX_(?!ELEM_|TGAS)", l)]
        plines = [" ".join(l.split()) for l in pyc.splitlines() if re.match(r"IDX_(?!ELEM_)", l)]
        melem = [" ".join(l.split()) for l in mac.splitlines() if l.startswith("#define IDX_ELEM_")]
        pelem = [" ".join(l.split()) for l in pyc.splitlines() if l.startswith("IDX_ELEM_")]
        macros = ol.parse_macros(mac)
        if model is not None:
            if mlines != e[1]:
                res.corr_disagreements += 1
                res.violation("correspondence", f"naunet_macros.h IDX lines {mlines[:6]} vs model {e[1][:6]}", case)
            if plines != e[2]:
                res.corr_disagreements += 1
                res.violation("correspondence", f"constant_indexes.py IDX lines {plines[:6]} vs model {e[2][:6]}", case)
        # oracle: same (identifier, value) pairs in both artefacts, values are 0..n-1 in species order, counts agree
        mp = [tuple(l.split()[1:3]) for l in mlines]
        pp = [(l.split()[0], l.split()[2]) for l in plines]
        want = [("IDX_" + a, str(i)) for i, a in enumerate(aliases)]
        known = classify(names) or (KNOWN["group"] if len(set(aliases)) < len(aliases) else None)
        c2 = dict(case, finding=known) if known else case
        if mp != want:
            res.violation("oracle", f"naunet_macros.h index macros {mp[:8]} are not the species list in order {want[:8]}", c2)
        if pp != want:
            res.violation("oracle", f"constant_indexes.py constants {pp[:8]} are not the species list in order {want[:8]}", c2)
        if [l.split()[1:3] for l in melem] != [["IDX_ELEM_" + k, str(i)] for i, k in enumerate(ekeys)] or \
           [[l.split()[0], l.split()[2]] for l in pelem] != [["IDX_ELEM_" + k, str(i)] for i, k in enumerate(ekeys)]:
            res.violation("oracle", f"element macros {melem} / {pelem} are not the element list {ekeys} in order", c2)
        if ol.macro_int(macros, "NSPECIES") != n or ol.macro_int(macros, "NELEMENTS") != len(elements):
            res.violation("oracle", f"NSPECIES/NELEMENTS {macros.get('NSPECIES')}/{macros.get('NELEMENTS')} vs {n}/{len(elements)}", case)
        # configuration summary (API path)
        cfg = tomlkit.loads(NetworkConfiguration("p", net).content)["summary"]
        if list(cfg["list_of_species"]) != names or list(cfg["list_of_species_alias"]) != aliases or \
           int(cfg["num_of_species"]) != n or int(cfg["num_of_elements"]) != len(elements) or \
           list(cfg["list_of_elements"]) != [x.name for x in elements]:
            res.violation("oracle", "configuration summary disagrees with the species/element lists", case)
        res.count("rendered")
        if cli:
            check_cli(res, net, names, aliases, [x.name for x in elements], case, known)
        ol.cleanup_scratch()
    res.count(f"species={'0' if n == 0 else '1-5' if n < 6 else '6-12' if n < 13 else '13+'}")
    if any(s.is_surface for s in species):
        res.count("has-ice")
    if any(s.is_grain for s in species):
        res.count("has-grain")
    if any(s.is_electron for s in species):
        res.count("has-electron")
    res.case(("c09", tag, tuple(names)), sample={"species": names[:8], "aliases": aliases[:8]}, nontrivial=n > 1)


def check_cli(res, net, names, aliases, elements, case, known):
    """export -> `naunet render` (summary + sources) and `naunet render --patch enzo`"""
    d = ol.scratch_dir()
    with quiet():
        net.export("proj", prefix=d, overwrite=True)
    p = d / "proj"
    c2 = dict(case, finding=known) if known else case
    rc, out, err = naunet_cli(["render", "--force", "-n"], p)
    if rc != 0:
        res.violation("correspondence", f"`naunet render` of an exported project failed: {err[-400:]}", c2)
        return
    cfg = tomlkit.loads((p / "naunet_config.toml").read_text())["summary"]
    mac = (p / "include" / "naunet_macros.h").read_text()
    mp = [tuple(l.split()[1:3]) for l in mac.splitlines() if re.match(r"#define IDX_(?!ELEM_|TGAS)", l)]
    want = [("IDX_" + a, str(i)) for i, a in enumerate(aliases)]
    if list(cfg["list_of_species"]) != names or list(cfg["list_of_species_alias"]) != aliases or list(cfg["list_of_elements"]) != elements:
        res.violation("oracle", f"`naunet render` summary {list(cfg['list_of_species'])[:8]} differs from the API's species list {names[:8]}", c2)
    if mp != want:
        res.violation("oracle", f"`naunet render` macros {mp[:8]} differ from the API's {want[:8]}", c2)
    rc, out, err = naunet_cli(["render", "--patch", "enzo", "-n"], p)
    if rc != 0:
        res.count("enzo-patch-refused")
        return
    hz = (p / "enzo" / "naunet_enzo.h").read_text()
    amac = re.findall(r"^#define A_(\S+)\s", hz, re.M)
    m = re.search(r"A_Table\[[^\]]*\]\s*=\s*\{(.*?)\}", hz, re.S)
    tab = [x.strip()[2:] for x in m.group(1).split(",") if x.strip()] if m else None
    if amac != aliases or (tab is not None and tab != aliases):
        res.violation("oracle", f"Enzo patch per-species tables {amac[:8]} / {tab and tab[:8]} are not the species list {aliases[:8]}", c2)
    # tables of the patch: a network species that Enzo / Grackle already defines (whatever its spelling) gets no
    # second field, the others one field each, in species order
    from naunet.patches import EnzoPatch
    canon = lambda nm: "e-" if nm in ("e-", "E-", "e", "E") else nm
    enzo_names, grackle_names = set(EnzoPatch.enzo_defined_species_name), set(EnzoPatch.grackle_species_name)
    want_new = [a for nm, a in zip(names, aliases) if canon(nm) not in enzo_names]
    td = (p / "enzo" / "typedefs.h")
    if td.exists():
        t = td.read_text()
        new = [(m.group(1), int(m.group(2))) for m in re.finditer(r"^\s*(\w+)Density\s*=\s*(\d+),", t, re.M) if int(m.group(2)) >= 104]
        fu = re.search(r"FieldUndefined\s*=\s*(\d+)", t)
        if [a for a, _ in new] != want_new or [k for _, k in new] != list(range(104, 104 + len(want_new))) or not fu or int(fu.group(1)) != 104 + len(want_new):
            res.violation("oracle", f"Enzo patch typedefs.h adds the fields {new[:8]} (FieldUndefined {fu and fu.group(1)}), expected one field per species "
                                    f"Enzo does not define: {want_new[:8]} from 104 (species {names[:8]})", c2)
        res.count("enzo-typedefs")
    # one identifier per species in the patch sources: a species Grackle already knows (whatever its spelling) is addressed by
    # Grackle's field name (De, HI, HII ...), never by a second name of its own
    galias = {canon(nm): al for nm, al in zip(EnzoPatch.grackle_species_name, EnzoPatch.grackle_defined_alias)}
    used = set()
    for f in sorted((p / "enzo").rglob("*")):
        if f.is_file():
            used |= set(re.findall(r"\b([A-Za-z0-9_]+)Num\b", f.read_text(errors="ignore")))
    for nm, al in zip(names, aliases):
        want_id = galias.get(canon(nm), al)
        if want_id != al and al in used:
            res.violation("oracle", f"Enzo patch: species {nm!r} is the field {want_id}Num of Enzo / Grackle but the patch sources also use {al}Num "
                                    f"(two identifiers for one species; {al}Num is declared nowhere)", c2)
        elif want_id not in used:
            res.violation("oracle", f"Enzo patch: species {nm!r} should be addressed as {want_id}Num but the patch sources never use that identifier", c2)
    mns = re.search(r"#define ENZO_NSPECIES (\d+)", hz)
    want_ns = len(names) + len(EnzoPatch.grackle_species_name) - sum(1 for nm in names if canon(nm) in grackle_names) - 1
    if not mns or int(mns.group(1)) != want_ns:
        res.violation("oracle", f"Enzo patch ENZO_NSPECIES is {mns and mns.group(1)}, expected {want_ns} (species {names[:8]})", c2)
    res.count("enzo-patch")


FIXED = [
    {"reactions": [], "required": []},
    {"reactions": [], "required": ["H", "He", "e-"]},
    {"reactions": [(["H+", "e-"], ["H"]), (["H", "E"], ["H+", "E", "E"])], "required": ["E-"]},
    {"reactions": [(["H", "#CO"], ["#H", "CO"]), (["CO"], ["#CO"])], "required": ["GRAIN0"]},
    {"reactions": [(["H", "H"], ["H2"]), (["H2", "CO"], ["H", "H", "CO"]), (["C", "O"], ["CO"])], "required": ["He", "Si", "SiO"]},
    {"reactions": [(["oH2", "pH2"], ["H2", "H2"]), (["oH3+", "e-"], ["oH2", "H"])], "required": ["D", "HD"]},
    # the electron under the KROME spelling, through export -> render -> Enzo patch
    {"reactions": [(["H+", "E"], ["H"]), (["H", "E"], ["H+", "E", "E"]), (["He+", "E"], ["He"]), (["N2", "H+"], ["N2H+", "H"]), (["C", "O"], ["CO"])], "required": ["H2", "D"]},
]
FINDINGS = [
    ("label", {"reactions": [(["c-C3H2", "H"], ["l-C3H2", "H"])], "required": []}),
    ("label", {"reactions": [(["H2*"], ["H2"])], "required": []}),
    ("grain", {"reactions": [(["GRAIN", "e-"], ["GRAIN-"]), (["GRAIN0", "H+"], ["GRAIN+", "H"])], "required": []}),
    ("group", {"reactions": [(["#1CO"], ["CO"]), (["#2CO"], ["CO"])], "required": []}),
    ("atomlabel", {"reactions": [(["oH", "pH"], ["H2"])], "required": []}),
]


MULTI = ["C60-", "C60--", "C60---", "C60+", "C60++", "O--", "O-", "S--", "Si+++", "Si++", "He++", "H-", "GRAIN0--", "GRAIN0++"]


def alias_sweep(res, model):
    """every (base, charge, phase) combination: alias against the model; distinct species must get distinct identifiers"""
    bases = ["H", "C60", "Si", "CO", "He", "HCO", "H2O", "Mg", "oH2", "C2H5OH", "GRAIN0"]
    names = []
    for b in bases:
        for ch in range(-4, 5):
            names.append(b + ("+" * ch if ch > 0 else "-" * (-ch)))
        if b != "GRAIN0":
            names.append("#" + b)
    names += ["e-", "E", "e", "E-"]
    reset_globals()
    objs = [Species(n) for n in names]
    aliases = [o.alias for o in objs]
    case = {"kind": "c09-alias-sweep"}
    if model is not None:
        e = model.call("idx.emit", *DEFAULT_T, names)
        for n, a, m in zip(names, aliases, e[0]):
            if a != m:
                res.corr_disagreements += 1
                res.violation("correspondence", f"alias of {n!r}: implementation {a!r}, model {m!r}", dict(case, name=n))
    seen = {}
    for n, o, a in zip(names, objs, aliases):
        if not IDENT.match("IDX_" + a):
            res.violation("oracle", f"identifier IDX_{a} of {n!r} is not legal", dict(case, name=n))
        if a in seen and not (seen[a][1] == o):
            res.violation("oracle", f"distinct species {seen[a][0]!r} and {n!r} share the identifier IDX_{a}", dict(case, names=[seen[a][0], n]))
        seen.setdefault(a, (n, o))
        res.case(("c09-alias", n), nontrivial=True)
    res.count("alias sweep names", len(names))


# networks under different element tables built one after the other in ONE process (no reset in between):
# the identifiers of a network are a function of its description, not of what was built before it
TABLED = {
    "usual": dict(elements=["e", "H", "He", "C", "O", "Si", "S"], pseudo=["CR", "Photon"],
                  reactions=[(["He+", "e-"], ["He"]), (["Si", "H+"], ["Si+", "H"]), (["S+", "e-"], ["S"]), (["C", "O"], ["CO"])]),
    "upper": dict(elements=["E", "H", "HE", "C", "O", "SI", "S"], pseudo=["CR", "PHOTON"],
                  reactions=[(["HE+", "E"], ["HE"]), (["SI", "H+"], ["SI+", "H"]), (["S+", "E"], ["S"]), (["S", "H+"], ["S+", "H"]), (["SI", "O"], ["SIO"])]),
    "metals": dict(elements=["e", "H", "C", "O", "N", "Na", "Ni", "I"], pseudo=["CR"],
                   reactions=[(["Na", "H+"], ["Na+", "H"]), (["N", "I"], ["NI"]), (["Ni+", "e-"], ["Ni"]), (["N", "O"], ["NO"])]),
    "upper-metals": dict(elements=["E", "H", "C", "O", "N", "NA", "NI", "I"], pseudo=["CR"],
                         reactions=[(["NA", "H+"], ["NA+", "H"]), (["N", "I+"], ["NI+"]), (["NI+", "E"], ["NI"]), (["N+", "E"], ["N"])]),
}


def tabled_network(t):
    net = Network(elements=list(t["elements"]), pseudo_elements=list(t["pseudo"]))
    for r, p in t["reactions"]:
        net.add_reaction(Reaction(list(r), list(p), 10.0, 41000.0, 1e-10, 0.0, 0.0, reaction_type=ReactionType.GAS_TWOBODY))
    sp = net.species
    return [s.name for s in sp], [s.alias for s in sp]


def history_check(res, rng, n, only=None):
    fresh = {}
    for k, t in TABLED.items():
        reset_globals()
        fresh[k] = tabled_network(t)
    orders = [["usual", "upper"], ["upper", "usual"], ["metals", "upper-metals"], ["upper-metals", "metals", "upper", "usual"]]
    for _ in range(n):
        orders.append([rng.choice(list(TABLED)) for _ in range(rng.randint(2, 4))])
    for order in (only or orders):
        reset_globals()
        for pos, k in enumerate(order):
            names, aliases = tabled_network(TABLED[k])
            case = {"kind": "c09-history", "order": order, "position": pos}
            if len(set(aliases)) != len(aliases):
                dup = sorted({a for a in aliases if aliases.count(a) > 1})
                res.violation("oracle", f"networks {order} built one after the other in one process: in network {pos} ({k}) the species "
                                        f"{[n for n, a in zip(names, aliases) if a in dup]} share the identifier(s) {['IDX_' + d for d in dup]}", case)
            elif (names, aliases) != fresh[k]:
                res.violation("oracle", f"networks {order} built one after the other in one process: network {pos} ({k}) gets species/identifiers "
                                        f"{list(zip(names, aliases))}, built first in a fresh process it gets {list(zip(*fresh[k]))}", case)
            for a in aliases:
                if not IDENT.match("IDX_" + a):
                    res.violation("oracle", f"networks {order}: identifier IDX_{a} in network {pos} ({k}) is not legal", case)
        res.case(("c09-history", tuple(order)), nontrivial=len(set(order)) > 1)
    res.count("histories of networks under different element tables", len(orders))
    reset_globals()


def gen_desc(rng, size):
    desc = ol.gen_network(rng, size, grains=True)
    if rng.random() < 0.4:
        # multiply charged ions of both signs
        extra = rng.sample(MULTI, rng.randint(2, 4))
        desc["reactions"] = list(desc["reactions"]) + [([extra[0], "e-"], [extra[1]])] + [([x], [extra[0]]) for x in extra[2:]]
    # one spelling of the grain per network (two spellings are the known finding)
    def fix(x):
        return "GRAIN0" if x == "GRAIN" else x
    desc["reactions"] = [([fix(x) for x in r], [fix(x) for x in p]) for r, p in desc["reactions"]]
    if rng.random() < 0.3:
        # both electron spellings in one network: must be one slot
        desc["required"] = list(desc["required"]) + [rng.choice(["e-", "E", "E-", "e"])]
    return desc


def run(res, info):
    rng = random.Random(res.seed * 7919 + 9)
    model = fw.Model() if info["ok"] else None
    res.rule = ("networks over gas/ion/ice/grain names with both electron spellings, labels and required species; every network: species "
                "order, aliases, element keys vs model + identifier oracle; a subset rendered (macros, Python constants, summary) and a "
                "few through export -> `naunet render` -> Enzo patch; histories of networks under different element tables (usual / upper-case "
                "spelling) built one after the other in one process; non-trivial = at least two species")
    res.assumptions = ["one spelling of the dust grain per network and one surface group (two known findings otherwise)",
                       "names without c-/l-/* labels (known finding)"]
    n = 300 if res.tier == "quick" else 5000
    nb = 25 if res.tier == "quick" else 300
    nc = 2 if res.tier == "quick" else 12
    alias_sweep(res, model)
    history_check(res, rng, 6 if res.tier == "quick" else 200)
    for i, d in enumerate(FIXED):
        check_net(res, model, d, ("fixed", i), render=True, cli=(i in (3, 4, 6)))
    for kind, d in FINDINGS:
        check_net(res, model, d, ("finding", kind), render=True)
    for i in range(n):
        check_net(res, model, gen_desc(rng, "small" if i % 4 else "large"), i, render=i < nb, cli=i < nc)
    if model:
        model.close()


def replay(rp, info):
    res = fw.Result("C09", "quick", 0)
    model = fw.Model() if info["ok"] else None
    case = rp.get("case") or {}
    if "desc" in case:
        d = case["desc"]
        d["reactions"] = [tuple(x) for x in d["reactions"]]
        check_net(res, model, d, "replay", render=True, cli=True)
    elif case.get("kind") == "c09-history":
        history_check(res, random.Random(0), 0, only=[list(case["order"])])
    elif case.get("kind") == "c09-alias-sweep":
        alias_sweep(res, model)
    for v in res.violations:
        print(v["kind"], v["what"][:600])
    print("replay:", "FAILS" if res.violations else "passes")
    return 1 if res.violations else 0
