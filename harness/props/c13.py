"""C13 — rate and ODE modifiers change exactly what the user targeted.
(A) rateeqns / fex of TemplateLoader vs Model.Rates.apply_rate_mods and Model.OdeGen; oracle:
the network with modifiers differs from the same network without them in exactly the targeted
assignments / by exactly the modifier term; (B) rendered EvalRates incl. re-indexing of unindexed
networks; configuration entry: Network.export -> `naunet render`, and `naunet init` options -> TOML
-> `naunet render`, compared with the API rendering."""
import copy
import random
import re
import shutil
from fractions import Fraction
from pathlib import Path

from .. import framework as fw
from .. import odelib as ol
from .. import ratelib as rl
from ..cli import naunet_cli
from ..impl import Species, Network, Reaction, ReactionType, reset_globals, quiet
from . import c01

TRUST = ["tomlkit and cleo's option tokenisation are exercised, not modelled"]

VALUES = ["1.0e-10", "2.5e-9 * zeta", "k[0] * 2.0", "0.0", "3.3e-16 * pow(Tgas/300.0, -0.5)", "-1.0e-11 + nH"]


def gen_case(rng):
    desc = ol.gen_network(rng, "small", ice=False)
    while not desc["reactions"]:
        desc = ol.gen_network(rng, "small", ice=False)
    n = len(desc["reactions"])
    mode = rng.choice(["indexed", "unindexed", "shared", "partial"])
    if mode == "indexed":
        idx = {i: 100 + 7 * i for i in range(n)}
    elif mode == "unindexed":
        idx = {i: -1 for i in range(n)}
    elif mode == "shared":
        idx = {i: 100 + (i // 2) for i in range(n)}
    else:
        idx = {i: (-1 if i % 2 else 50 + i) for i in range(n)}
    desc["idx"] = idx
    desc["tmin"] = {i: rng.choice([-1.0, 10.0, 0.0, 300.0]) for i in range(n)}
    desc["tmax"] = {i: rng.choice([-1.0, 300.0, 41000.0, 0.0]) for i in range(n)}
    keys = set()
    if rng.random() < 0.3 and n >= 1:
        # the same process listed twice (two fits, two sources) under different indices, same window: the reactions compare equal,
        # the modifier names the LATER one
        j = rng.randrange(n)
        desc["reactions"] = list(desc["reactions"]) + [desc["reactions"][j]]
        idx[n] = 900 + n
        if idx[j] == -1 and mode != "unindexed":
            idx[j] = 800 + j
        if mode == "unindexed":
            idx[n] = -1
        desc["tmin"][n], desc["tmax"][n] = desc["tmin"][j], desc["tmax"][j]
        if idx[n] != -1:
            keys.add(idx[n])
        n += 1
    present = sorted(set(v for v in idx.values() if v != -1)) or [0, 1]
    for _ in range(rng.randint(0, 3)):
        r = rng.random()
        if r < 0.6:
            keys.add(rng.choice(present))
        elif r < 0.8 and mode == "unindexed":
            keys.add(rng.randrange(n))          # position after re-indexing
        else:
            keys.add(9999)                      # absent index
    # values as the API accepts them: C expressions as strings, or plain numbers (0.0 switches a reaction off)
    desc["rate_modifier"] = {k: rng.choice(VALUES + [0.0, 0, 2.5e-10]) for k in sorted(keys)}
    if rng.random() < 0.5:
        sp = sorted({s for r, p in desc["reactions"] for s in r + p if s not in ("CR", "PHOTON", "CRPHOT", "CRP")})
        tgt = rng.choice(sp)
        nt = rng.randint(1, 2)
        desc["ode_modifier"] = {tgt: {"factors": [rng.choice(["-2.0", "1.5 * k[0]", "zeta", "-k[0]", "(nH + 1.0)", "-zeta + nH", "-2.0 - k[0]", "-k[0] * 2.0 + 1.0e-3"]) for _ in range(nt)],
                                      "reactants": [[rng.choice(sp) for _ in range(rng.randint(1, 3))] for _ in range(nt)]}}
    desc["mode"] = mode
    # a third of the cases edit the network after the modifiers were attached (the species set is kept)
    if rng.random() < 0.35 and n >= 2:
        j = rng.randrange(n)
        edits = [["remove", j]]
        rest = {s for i, (r, p) in enumerate(desc["reactions"]) if i != j for s in r + p}
        r0, p0 = desc["reactions"][j]
        if not set(r0 + p0) <= rest or rng.random() < 0.6:
            new_idx = -1 if mode == "unindexed" else rng.choice(sorted(keys) + [7777]) if keys else 7777
            edits.append(["add", list(r0), list(p0), new_idx])
        desc["edits"] = edits
    return desc


def without_mods(desc):
    d = copy.deepcopy(desc)
    d.pop("rate_modifier", None)
    d.pop("ode_modifier", None)
    return d


def check_api(res, model, desc, rng, tag):
    case = {"kind": "c13", "desc": desc}
    a = ol.analyse(desc, model)
    b = ol.analyse(without_mods(desc), None)
    rmod = desc.get("rate_modifier") or {}
    res.count(f"index-mode={desc.get('mode')}")
    res.count(f"rate-mods={len(rmod)}")
    if desc.get("edits"):
        res.count("edited-after-modifiers")
    idxs = [r.idxfromfile for r in a.info.reactions]
    # oracle on the rate assignments
    for pos, (s1, s0) in enumerate(zip(a.ode.rateeqns, b.ode.rateeqns)):
        key = idxs[pos]
        if key in rmod:
            want = f"k[{pos}] = {rmod[key]};"          # a number is printed by str()
            if " ".join(s1.split()) != " ".join(want.split()):
                res.violation("oracle", f"reaction at position {pos} (index {key}) should be overwritten by {want!r} but is {s1!r}", case)
                return
        elif s1 != s0:
            res.violation("oracle", f"reaction at position {pos} (index {key}) is not targeted by {sorted(rmod)} but its assignment changed: {s0!r} -> {s1!r}", case)
            return
    # oracle on the ODE modifier: difference of the right-hand sides is the modifier term
    env = c01.make_env(a, rng)
    kw = a.net._species_kwargs
    for i, (e1, e0) in enumerate(zip(a.ode.fex, b.ode.fex)):
        v1 = ol.eval_expr(ol.strip_lhs(e1)[1], env)
        v0 = ol.eval_expr(ol.strip_lhs(e0)[1], env)
        exp = Fraction(0)
        for sname, expr in (desc.get("ode_modifier") or {}).items():
            if i < a.nspec and Species(sname, **kw) == a.species[i]:
                for fact, dep in zip(expr["factors"], expr["reactants"]):
                    t = ol.eval_expr(f"({fact})", env)
                    for dsp in dep:
                        t *= env["y"][f"IDX_{c01.yal(a, Species(dsp, **kw))}"]
                    exp += t
        if v1 - v0 != exp:
            res.violation("oracle", f"equation {i}: modifier changed the right-hand side by {v1 - v0}, expected {exp}", case)
            return
    # correspondence
    if model is not None:
        srcs = []
        for r, st in zip(a.info.reactions, b.ode.rateeqns):
            g, sym, ix, expr = rl.parse_assign(st)
            srcs.append([rl.q(r.temp_min), rl.q(r.temp_max), expr])
        rep = model.call("rates.assign", srcs, [[k, str(v)] for k, v in rmod.items()], [i for i in idxs])
        mst, midx = rep
        # the API entry does not re-index; when every index is -1 the model's render_indices does
        if all(i == -1 for i in idxs):
            pass
        else:
            for pos, (ms, st) in enumerate(zip(mst, a.ode.rateeqns)):
                g, sym, ix, expr = rl.parse_assign(st)
                mg = rl.model_guard(ms[0])
                if mg != g or int(ms[1]) != ix or " ".join(ms[2].split()) != " ".join(expr.split()):
                    res.corr_disagreements += 1
                    res.violation("correspondence", f"rate assignment {pos}: model {ms} vs implementation {st!r}", case)
                    return
        c01.corr_rhs(res, a, [ol.strip_lhs(s) for s in a.ode.fex], "channel A (ode.fex)", case) if a.model else None
    # a second use of the same network (another back-end): the modifiers are still there and still hit the same targets
    _, ode2 = ol.impl_ode(a.net, method="sparse")
    if list(ode2.rateeqns) != list(a.ode.rateeqns) or list(ode2.fex) != list(a.ode.fex):
        k = next((i for i, (x, y) in enumerate(zip(ode2.rateeqns, a.ode.rateeqns)) if x != y), None)
        res.violation("oracle", "a second preparation of the same network gives other "
                      + (f"rate assignments: position {k}: {a.ode.rateeqns[k]!r} first, {ode2.rateeqns[k]!r} second" if k is not None else "right-hand sides")
                      + f"; the network's rate_modifier is now {dict(a.net.rate_modifier or {})}", case)
        return
    if {str(k): str(v) for k, v in (a.net.rate_modifier or {}).items()} != {str(k): str(v) for k, v in rmod.items()}:
        res.violation("oracle", f"using the network changed its rate_modifier: {rmod} -> {dict(a.net.rate_modifier or {})}", case)
        return
    res.case(("c13", tag, repr(desc)), sample={"indices": idxs[:8], "rate_modifier": rmod, "ode_modifier": desc.get("ode_modifier"),
                                             "rateeqns[0]": a.ode.rateeqns[0][:100]},
             nontrivial=bool(rmod) or bool(desc.get("ode_modifier")))


def expected_rendered(desc):
    """what the rendered EvalRates must contain, from the unmodified rendering + the targeting rule"""
    net0 = ol.build_network(without_mods(desc))
    d0 = ol.render(net0, templates=["src/naunet_rates.cpp.j2", "include/naunet_macros.h.j2"])
    st0 = rl.rates_statements((d0 / "src" / "naunet_rates.cpp").read_text())
    idxs = [r.idxfromfile for r in net0.reaction_list]       # after render: re-indexed if all were -1
    return st0, idxs


def check_render(res, model, desc, tag):
    """TemplateLoader.render entry: re-indexing of unindexed networks, then the same rule"""
    case = {"kind": "c13-render", "desc": desc}
    st0, idxs = expected_rendered(desc)
    net = ol.build_network(desc)
    d = ol.render(net, templates=["src/naunet_rates.cpp.j2", "include/naunet_macros.h.j2"])
    st1 = rl.rates_statements((d / "src" / "naunet_rates.cpp").read_text())
    rmod = desc.get("rate_modifier") or {}
    orig = ol.final_indices(desc)
    want_idx = list(range(len(orig))) if all(i == -1 for i in orig) else orig
    if idxs != want_idx:
        res.violation("oracle", f"render: reaction indices became {idxs}, expected {want_idx} (re-index only when every index is -1)", case)
    if len(st1) != len(st0):
        res.violation("oracle", f"render: {len(st1)} assignments, expected {len(st0)}", case)
    else:
        for pos, (s1, s0) in enumerate(zip(st1, st0)):
            key = want_idx[pos]
            if key in rmod:
                g, sym, ix, expr = rl.parse_assign(s1)
                if g != ("none",) or ix != pos or " ".join(expr.split()) != " ".join(str(rmod[key]).split()):
                    res.violation("oracle", f"render: position {pos} (index {key}) should be 'k[{pos}] = {rmod[key]};' but is {s1!r}", case)
                    break
            elif " ".join(s1.split()) != " ".join(s0.split()):
                res.violation("oracle", f"render: position {pos} (index {key}) not targeted but changed: {s0!r} -> {s1!r}", case)
                break
    if model is not None:
        rep = model.call("rates.assign", [["-1/1", "-1/1", "x"] for _ in orig], [], orig)
        if [int(x) for x in rep[1]] != idxs:
            res.corr_disagreements += 1
            res.violation("correspondence", f"render_indices: model {rep[1]} vs implementation {idxs}", case)
    ol.cleanup_scratch()
    res.case(("c13-render", tag, repr(desc)), nontrivial=bool(rmod))
    res.count("render-entry")


def rendered_core(d: Path):
    out = {}
    for f in ["src/naunet_rates.cpp", "src/naunet_fex.cpp", "src/naunet_jac.cpp", "include/naunet_macros.h"]:
        t = (d / f).read_text()
        out[f] = "\n".join(l for l in t.split("\n"))
    return out


def check_config(res, desc, tag):
    """configuration-file entry: export -> `naunet render`"""
    case = {"kind": "c13-config", "desc": desc}
    base = ol.scratch_dir()
    net = ol.build_network(desc)
    api_dir = base / "api"
    api_dir.mkdir()
    try:
        with quiet():
            net.export("proj", prefix=base, overwrite=True)
    except Exception as e:
        res.violation("oracle", f"Network.export() of a network with modifiers {desc.get('rate_modifier')} raised {e!r}: the modifiers cannot reach the configuration file", case)
        ol.cleanup_scratch()
        return
    proj = base / "proj"
    direct = rendered_core(proj)
    rc, out, err = naunet_cli(["render", "--force"], proj)
    if rc != 0:
        res.violation("oracle", f"`naunet render` on the exported project failed: {err[-400:]}", case)
    else:
        again = rendered_core(proj)
        for f in direct:
            if f.endswith("naunet_rates.cpp"):
                s1 = [" ".join(s.split()) for s in rl.rates_statements(direct[f])]
                s2 = [" ".join(s.split()) for s in rl.rates_statements(again[f])]
                # alpha/beta/gamma pass through the printed precision of the exchange format (C18); compare the
                # modifier-targeted assignments exactly and the number/positions of all others
                rmod = desc.get("rate_modifier") or {}
                tgt = [i for i, s in enumerate(s1) if any(s.endswith("= " + " ".join(str(v).split()) + ";") for v in rmod.values())]
                if len(s1) != len(s2) or any(s1[i] != s2[i] for i in tgt):
                    res.violation("oracle", f"rate modifiers did not survive export -> render: {[s1[i] for i in tgt][:3]} vs {[s2[i] for i in tgt][:3]}", case)
            elif f.endswith("naunet_fex.cpp"):
                c1 = [(l, ol.canon(*ol.parse_sum(r))) for l, r in c01.fex_statements(direct[f])]
                c2 = [(l, ol.canon(*ol.parse_sum(r))) for l, r in c01.fex_statements(again[f])]
                if c1 != c2:
                    res.violation("oracle", "ODE modifiers did not survive export -> render: the equations of Fex differ as sums of terms", case)
    ol.cleanup_scratch()
    res.case(("c13-config", tag, repr(desc)), nontrivial=bool(desc.get("rate_modifier")) or bool(desc.get("ode_modifier")))
    res.count("config-entry(export->render)")


def check_init(res, rng, tag):
    """`naunet init --rate-modifier --ode-modifier` -> TOML -> what render hands to Network"""
    import tomlkit
    base = ol.scratch_dir()
    rmod = {str(rng.randint(0, 40)): rng.choice(["1.0e-10", "2.5e-9 * zeta", "k[0] * 2.0", "0.0"]) for _ in range(rng.randint(1, 3))}
    om = {t: (rng.choice(["-2.0", "1.5 * k[0]", "zeta"]), rng.sample(["H", "H2", "O"], rng.randint(1, 3)))
          for t in rng.sample(["H", "H2", "O"], rng.randint(1, 3))}
    tail = rng.choice(["", ";"])          # `naunet example --dry` prints every occurrence with a trailing ';'
    args = ["init", "--name=p", "--description=d", "--loading=", "--elements=H,O", "--pseudo-elements=", "--element-replacement=",
            "--surface-prefix=#", "--bulk-prefix=@", "--allowed-species=", "--extra-species=", "--binding=", "--yield=",
            "--grain-symbol=GRAIN", "--grain-model=", "--network-files=", "--file-formats=", "--heating=", "--cooling=",
            "--shielding=", "--solver=cvode", "--device=cpu", "--method=dense"]
    args += [f"--rate-modifier={k}:{v}" for k, v in rmod.items()]
    args += [f"--ode-modifier={k}:{f},[{' '.join(d)}]{tail}" for k, (f, d) in om.items()]
    rc, out, err = naunet_cli(args, base)
    case = {"kind": "c13-init", "args": args}
    if rc != 0 or not (base / "naunet_config.toml").exists():
        res.violation("oracle", f"`naunet init` failed: {err[-300:]} {out[-300:]}", case)
    else:
        cfg = tomlkit.loads((base / "naunet_config.toml").read_text())
        got_r = {int(k): v for k, v in cfg["chemistry"]["rate_modifier"].items()}
        want_r = {int(k): v for k, v in rmod.items()}
        got_o = {k: (list(v["factors"]), [list(x) for x in v["reactants"]]) for k, v in cfg["chemistry"]["ode_modifier"].items()}
        want_o = {k: ([f], [d]) for k, (f, d) in om.items()}
        if got_r != want_r or got_o != want_o:
            res.violation("oracle", f"modifiers changed on the way through init -> TOML: rate {want_r} -> {got_r}; ode {want_o} -> {got_o}", case)
    ol.cleanup_scratch()
    res.case(("c13-init", tag, repr(args)), sample={"init": args[-2:]}, nontrivial=True)
    res.count("config-entry(init)")


def run(res, info):
    rng = random.Random(res.seed * 7919 + 13)
    model = fw.Model() if info["ok"] else None
    res.rule = ("networks x modifier sets (indices present / absent / shared by several reactions, unindexed networks that get "
                "re-indexed, partially indexed, factors with signs and arithmetic, 1-3 dependency species) through the API, "
                "TemplateLoader.render, Network.export -> `naunet render`, and `naunet init`; non-trivial = at least one modifier")
    res.assumptions = ["rate-modifier values contain no ':' or ',' on the init command line (C20 finding)"]
    n_a = 150 if res.tier == "quick" else 2500
    n_r = 12 if res.tier == "quick" else 100
    n_c = 4 if res.tier == "quick" else 30
    for i in range(n_a):
        desc = gen_case(rng)
        check_api(res, model, desc, rng, i)
        if i < n_r:
            check_render(res, model, desc, i)
        if i < n_c:
            d2 = copy.deepcopy(desc)
            if not d2.get("rate_modifier"):
                d2["rate_modifier"] = {next(iter(v for v in d2["idx"].values())): "1.0e-10"} if d2["mode"] != "unindexed" else {0: "1.0e-10"}
            check_config(res, d2, i)
            check_init(res, rng, i)
    # a reaction switched off by the number 0.0 (as the bundled ism example does), through every entry
    fixed = {"reactions": [(["H", "H"], ["H2"]), (["C", "O"], ["CO"]), (["CO", "H"], ["C", "OH"]), (["H2", "O"], ["OH", "H"])],
             "required": [], "idx": {0: 10, 1: 11, 2: 12, 3: 13}, "tmin": {}, "tmax": {}, "mode": "indexed",
             "rate_modifier": {12: 0.0, 13: "1.0e-12 * sqrt(Tgas)", 10: 0}}
    check_api(res, model, fixed, rng, "fixed-zero")
    check_render(res, model, fixed, "fixed-zero")
    check_config(res, fixed, "fixed-zero")
    if model:
        model.close()


def replay(rp, info):
    res = fw.Result("C13", "quick", 0)
    model = fw.Model() if info["ok"] else None
    case = rp.get("case") or {}
    if "desc" in case:
        d = case["desc"]
        d["reactions"] = [tuple(x) for x in d["reactions"]]
        for k in ("idx", "tmin", "tmax"):
            if k in d:
                d[k] = {int(a): b for a, b in d[k].items()}
        if d.get("rate_modifier"):
            d["rate_modifier"] = {int(a): b for a, b in d["rate_modifier"].items()}
        if case["kind"] == "c13":
            check_api(res, model, d, random.Random(0), "replay")
        elif case["kind"] == "c13-render":
            check_render(res, model, d, "replay")
        else:
            check_config(res, d, "replay")
    for v in res.violations:
        print(v["kind"], v["what"][:600])
    print("replay:", "FAILS" if res.violations else "passes")
    return 1 if res.violations else 0
