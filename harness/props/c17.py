"""C17 — code generation is a deterministic function of the network description.
Correspondence: the process-global tables (Species.known_elements / known_pseudoelements, user binding
energies) after histories of network constructions against Model.Globals.  Exploration (labelled so): sha256 of
the rendered include/ src/ python/ trees (dates masked) of the same description across fresh interpreters with
different hash seeds, across repeated renderings, and after other networks were built, edited and rendered in
the same process."""
import json
import random
import subprocess

from .. import framework as fw
from .. import odelib as ol

TRUST = ["CPython's set/dict behaviour under a hash seed is explored, not modelled", "sha256 over the rendered trees with dates masked"]
WORKER = fw.VERIF / "harness" / "c17_worker.py"
R = str(fw.REPO)

TARGETS = {
    "kida": {"file": f"{R}/tests/data/minimal.kida", "format": "kida"},
    "krome": {"file": f"{R}/tests/data/primordial.krome", "format": "krome"},
    "krome+commons": {"file": str(fw.VERIF / "harness" / "data" / "commons.krome"), "format": "krome"},
    "leeds+hh93": {"file": f"{R}/tests/data/minimal.leeds", "format": "leeds", "grain_model": "hh93", "method": "sparse"},
    "ucl+rr07": {"file": f"{R}/tests/data/minimal.ucl", "format": "uclchem", "grain_model": "rr07", "solver": "odeint", "method": "rosenbrock4"},
    "api": {"binding": {"#CO": 1150.0}, "reactions": [[["H", "H"], ["H2"]], [["H2", "CO"], ["H", "H", "CO"]], [["C", "O"], ["CO"]], [["H+", "e-"], ["H"]], [["He+", "E"], ["He"]],
                          [["#CO"], ["CO"]], [["O", "H"], ["OH"]], [["OH", "H"], ["H2O"]], [["Si", "O"], ["SiO"]]], "required": ["He", "N", "N2", "D"]},
    # several thermal processes and shielding functions: their order must be the order they were given in
    "api+thermal": {"reactions": [[["H", "e-"], ["H+", "e-", "e-"]], [["H+", "e-"], ["H"]], [["He", "e-"], ["He+", "e-", "e-"]], [["He+", "e-"], ["He"]],
                                  [["He+", "e-"], ["He++", "e-", "e-"]], [["He++", "e-"], ["He+"]], [["H", "H"], ["H2"]], [["C", "O"], ["CO"]]],
                    "cooling": ["RC_HeIII", "CIC_HI", "CEC_HeII", "CIC_HeI", "RC_HII", "CIC_He_2S", "CEC_HI", "RC_HeI", "CIC_HeII", "RC_HeII", "CEC_HeI"],
                    "shielding": {"CO": "VB88Table", "H2": "L96Table", "N2": "L13Table"}, "binding": {"#CO": 1150.0, "#H2O": 5700.0}},
    # dust grains of one group in several charge states under a dust model: the grain-density sum lists them in species order
    "api+grains": {"grain_model": "hh93", "binding": {"#CO": 1150.0, "#H": 600.0},
                   "reactions": [[["GRAIN0", "e-"], ["GRAIN-"]], [["GRAIN-", "H+"], ["GRAIN0", "H"]], [["GRAIN+", "e-"], ["GRAIN0"]], [["GRAIN0", "H+"], ["GRAIN+", "H"]],
                                 [["GRAIN-", "C+"], ["GRAIN0", "C"]], [["GRAIN0", "He+"], ["GRAIN+", "He"]], [["H", "H"], ["H2"]], [["CO"], ["#CO"]], [["H"], ["#H"]],
                                 [["GRAIN--", "H+"], ["GRAIN-", "H"]], [["GRAIN++", "e-"], ["GRAIN+"]]], "required": ["O"]},
    # upper-case element spelling (UCLCHEM / KROME style) with its own lists: SI next to S+, HE next to H
    "api+upper": {"elements": ["E", "H", "HE", "C", "O", "SI", "S", "MG"], "pseudo": ["CR", "PHOTON"],
                  "reactions": [[["HE+", "E"], ["HE"]], [["SI", "H+"], ["SI+", "H"]], [["S+", "E"], ["S"]], [["S", "H+"], ["S+", "H"]], [["SI", "O"], ["SIO"]],
                                [["MG", "H+"], ["MG+", "H"]], [["C", "O"], ["CO"]]], "required": ["H2"]},
    # the same spelling through the documented API flow (network first, reactions added afterwards), with a required species
    # that no reaction holds and that reads differently under other lists (HE = helium here, H + E under the defaults)
    "api+upper-required": {"elements": ["E", "H", "HE", "C", "O"], "pseudo": ["CR", "PHOTON"], "network_first": True,
                           "reactions": [[["C", "O"], ["CO"]], [["H+", "E"], ["H"]], [["C+", "E"], ["C"]]], "required": ["HE", "H2"]},
}
EXPLICIT = {"elements": ["e", "E", "H", "D", "He", "C", "N", "O", "Si"], "pseudo": ["CR", "CRP", "PHOTON", "CRPHOT", "Photon", "g", "o", "p", "m"]}
OTHERS = [
    {"reactions": [[["H", "C"], ["CH"]]], "elements": ["H", "C", "O"], "pseudo": ["CR"], "binding": {"#CO": 9999.0}},
    {"file": f"{R}/tests/data/minimal.krome", "format": "krome"},
    {"file": f"{R}/tests/data/minimal.umist", "format": "umist", "edit": True, "elements": ["e", "H", "C"], "pseudo": ["PHOTON", "CRP", "CRPHOT"]},
]


def work(steps, seed):
    env = fw.env_for_impl(str(seed))
    env["TQDM_DISABLE"] = "1"
    scratch = ol.scratch_dir()
    for s in steps:
        s["scratch"] = str(scratch)
    p = subprocess.run([fw.PY, str(WORKER)], input=json.dumps(steps), env=env, stdout=subprocess.PIPE, stderr=subprocess.PIPE, text=True, timeout=900)
    out = [json.loads(l) for l in p.stdout.splitlines() if l.startswith("{")]
    if len(out) != len(steps):
        raise RuntimeError(f"worker failed: {p.stderr[-500:]}")
    return out


def run(res, info):
    rng = random.Random(res.seed * 7919 + 17)
    model = fw.Model() if info["ok"] else None
    res.rule = ("network descriptions (KIDA, KROME, Leeds+hh93 sparse, UCLCHEM+rr07 odeint, API networks with required species / thermal processes and shielding / dust grains in five charge states under hh93), each with its own "
                "element lists, rendered in fresh interpreters under hash seeds 0/1/12345(+random), twice in one process, and after three other networks "
                "(custom element lists + user binding energy, a KROME file with directives, an edited UMIST network) were built and rendered; the same "
                "descriptions relying on the default lists (known finding); histories of up to 4 constructions for the global-table model")
    res.assumptions = ["dates and project version are masked", "exploration, not proof, for everything CPython's hashing decides"]
    seeds = [0, 1, 12345] + ([rng.randrange(1 << 30)] if res.tier == "thorough" else [])
    names = list(TARGETS) if res.tier == "thorough" else ["kida", "leeds+hh93", "api", "krome+commons", "api+thermal", "api+grains", "api+upper", "api+upper-required"]
    for name in names:
        desc = dict(EXPLICIT, **TARGETS[name])        # a target may bring its own element lists
        case = {"kind": "c17", "target": name}
        ref = None
        for seed in seeds:
            out = work([{"op": "render", "desc": desc, "tag": "a"}, {"op": "render", "desc": desc, "tag": "again"}], seed)
            if "error" in out[0]:
                res.violation("oracle", f"{name}: rendering fails: {out[0]['error']}", case)
                break
            if out[0]["sha"] != out[1].get("sha"):
                res.violation("oracle", f"{name}: rendering the same description twice in one process gives different sources (seed {seed})", dict(case, seed=seed))
            if ref is None:
                ref = out[0]["sha"]
            elif out[0]["sha"] != ref:
                res.violation("oracle", f"{name}: sources differ between PYTHONHASHSEED={seeds[0]} and {seed} (species {out[0].get('species')})", dict(case, seed=seed))
            res.count("renderings", 2)
            res.case(("c17", name, seed), sample={"target": name, "seed": seed, "sha": out[0]["sha"][:16]}, nontrivial=True)
        if ref is None:
            continue
        # equal descriptions whose dictionaries were filled in another key order
        for key in ("shielding", "binding"):
            if len(desc.get(key) or {}) >= 2:
                d2 = dict(desc, **{key: dict(reversed(list(desc[key].items())))})
                o2 = work([{"op": "render", "desc": d2, "tag": "reordered"}], 0)[0]
                if o2.get("sha") != ref:
                    res.violation("oracle", f"{name}: the same description with the {key} dictionary filled in the opposite key order "
                                            f"({list(d2[key])} instead of {list(desc[key])}) renders different sources", dict(case, reordered=key))
                res.count(f"key-order runs ({key})")
        # interference: other networks built, edited and rendered first
        steps = [{"op": "render", "desc": o, "tag": f"other{i}"} for i, o in enumerate(OTHERS)] + [{"op": "render", "desc": desc, "tag": "target"}]
        out = work(steps, 0)
        if out[-1].get("sha") != ref:
            res.violation("oracle", f"{name}: sources after other networks were rendered in the same process differ from a fresh rendering "
                                    f"({out[-1].get('error', 'different sha')})", case)
        res.count("interference runs")
        res.case(("c17-interference", name), nontrivial=True)
        # the same description relying on the defaults: inherits the lists of the previous network (known finding)
        plain = dict(TARGETS[name])
        fresh = work([{"op": "render", "desc": plain, "tag": "fresh"}], 0)[0]
        after = work([{"op": "build", "desc": OTHERS[0]}, {"op": "render", "desc": plain, "tag": "after"}], 0)[-1]
        if fresh.get("sha") != after.get("sha"):
            res.violation("oracle", f"{name} (default element lists): rendering after a network with custom element lists "
                                    f"{'fails: ' + after['error'] if 'error' in after else 'gives different sources'}; fresh rendering {'fails' if 'error' in fresh else 'works'}",
                          dict(case, finding="C17-default-lists-inherit-previous-network"))
    # ---- correspondence of the global-table model
    pool = [{"elements": [], "pseudo": [], "binding": {}}, {"elements": ["H", "C", "O"], "pseudo": ["CR"], "binding": {"#CO": 9999.0}},
            {"elements": ["e", "H", "He"], "pseudo": [], "binding": {}}, {"elements": [], "pseudo": ["PHOTON"], "binding": {"#H2O": 5700.0, "#CO": 1.5}}]
    nh = 12 if res.tier == "quick" else 120
    for i in range(nh):
        hist = [rng.choice(pool) for _ in range(rng.randint(0, 4))]
        steps = [{"op": "build", "desc": dict(h, reactions=[[["H", "H"], ["H2"]]]) if h["elements"] != ["e", "H", "He"] else dict(h, reactions=[[["H", "He"], ["H", "He"]]])} for h in hist]
        steps.append({"op": "tables"})
        out = work(steps, 0)
        tab = out[-1]
        case = {"kind": "c17-globals", "history": hist}
        if model is not None and hist:
            def nd(h):
                return [h["elements"], h["pseudo"], [[k, repr(float(v))] for k, v in h["binding"].items()]]
            m = model.call("glob.history", [nd(h) for h in hist[:-1]], nd(hist[-1]))
            got = [tab["elements"], tab["pseudo"], tab["binding"]]
            # a network whose species cannot be parsed under inherited tables never finishes construction: tables are still installed
            if [list(m[0]), list(m[1]), [list(x) for x in m[2]]] != got:
                res.corr_disagreements += 1
                res.violation("correspondence", f"global tables after {hist}: implementation {got} vs model {m}", case)
        res.count("histories")
        res.case(("c17-globals", i, json.dumps(hist)), nontrivial=bool(hist))
    ol.cleanup_scratch()
    if model:
        model.close()


def replay(rp, info):
    print("replay: case", str(rp.get("case"))[:800])
    return 0
