"""C05 — gas-phase rate coefficients follow each database's published rate law.
Correspondence: rateexpr() of every gas-phase (format, type) for all 64 sign/zero classes of
(alpha, beta, gamma) and several magnitude shapes against Model.RateGas (exact text).  Oracle (no model):
the emitted text, lexed with C's maximal munch, holds no '--'/'++' and compiles as an expression
(g++ -fsyntax-only); evaluated at random physical parameters it equals an independent
implementation of the published laws."""
import itertools
import math
import random
import re
import subprocess

from .. import framework as fw
from .. import odelib as ol
from .. import ratelib as rl
from ..impl import Species, ReactionType, reset_globals
from naunet.reactions.reaction import Reaction
from naunet.reactions.kidareaction import KIDAReaction
from naunet.reactions.umistreaction import UMISTReaction
from naunet.reactions.leedsreaction import LEEDSReaction
from naunet.reactions.uclchemreaction import UCLCHEMReaction

TRUST = ["the reference laws in harness/props/c05.py (LAWS) are a transcription of the published formulae",
         "Python str.replace on the printed text equals the atom-level replace of the model when magnitudes hold no two adjacent sign "
         "characters and are fenced by digits (every repr(float) but inf/nan); sampled by the exact-text correspondence on every run",
         "g++ (syntax only) for the compile check"]

RT = {m.name: int(m.value) for m in ReactionType}
CLASSES = ["pos", "neg", "zero", "negzero"]
MAGS = [(1e-10, 0.5, 100.0), (2.5e-09, 3.0, 1.5), (1.0, 2.0, 30450.0), (1.23e-30, 0.25, 1e+300), (5e-324, 7.0, 123456789.123), (3.33e+5, 1e-5, 2.0)]


def value(cls, mag):
    return {"pos": mag, "neg": -mag, "zero": 0.0, "negzero": -0.0}[cls]


def magtext(mag):
    return repr(float(mag))


KIDA_LINE = "C          CH                     H          C2                                            2.400e-10  0.000e+00  0.000e+00 2.00e+00 1.00e+02 logn  4     10    300  3  4894 1  1"
UMIST_LINE = '5173:NN:C:CH:C2:H:::1:6.59e-11:0.00:0.0:10:300:L:C:"x"::'
LEEDS_LINE = "4956 {r:<10}CH                  C2        H                                       6.59E-11     0.00       0.0    541000  1"
UCL_LINE = "{r},CH,NAN,C2,H,NAN,NAN,6.59e-11,0.0,0.0,10,300"


def make(fmt, code, a, b, c, extra):
    """an implementation reaction object of the given format / type with the given coefficients"""
    reset_globals()
    if fmt == "kida":
        r = KIDAReaction(KIDA_LINE)
        r.formula = code
        r.reaction_type = KIDAReaction.formula2type.get(code)
    elif fmt == "umist":
        r = UMISTReaction(UMIST_LINE)
        r.reaction_type = None if code is None else code
        if code is not None:
            r.reaction_type = next((m for m in UMISTReaction.ReactionType if int(m) == code), code)
    elif fmt == "leeds":
        r = LEEDSReaction(LEEDS_LINE.format(r=extra or "C"))
        r.rtype = code
        r.reaction_type = LEEDSReaction.rtype2type.get(code)
    elif fmt == "uclchem":
        r = UCLCHEMReaction(UCL_LINE.format(r=extra or "C"))
        r.reaction_type = next((m for m in UCLCHEMReaction.ReactionType if int(m) == code), code)
    else:
        r = Reaction(["C", "CH"], ["C2", "H"], -1.0, -1.0, a, b, c, ReactionType(code))
    r.alpha, r.beta, r.gamma = a, b, c
    return r


def impl_rate(fmt, code, a, b, c, extra):
    r = make(fmt, code, a, b, c, extra)
    try:
        return ("ok", r.rateexpr())
    except NotImplementedError:
        return ("refused", "notimplemented")
    except (RuntimeError, ValueError) as e:
        return ("refused", "unknown")


# ---- C lexing (maximal munch) of the emitted text ------------------------------------------------
TOK = re.compile(r"\s*(?:(\d+\.?\d*(?:[eE][+-]?\d+)?|\.\d+(?:[eE][+-]?\d+)?)|([A-Za-z_]\w*)|(\+\+|--|[-+*/(),]))")


def c_tokens(s):
    out, pos = [], 0
    s = s.strip()
    while pos < len(s):
        m = TOK.match(s, pos)
        if not m:
            return None
        out.append(m.group(1) or m.group(2) or m.group(3))
        pos = m.end()
    return out


# ---- independent reference laws ------------------------------------------------------------------
def env(rng):
    e = dict(Tgas=rng.choice([10.0, 57.3, 300.0, 2500.0]), Av=rng.choice([0.0, 1.0, 3.7]), zeta=rng.choice([1.3e-17, 5e-16]),
             omega=0.5, zeta_cr=2.6e-17, zeta_xr=1e-18, zism=1.3e-17, G0=rng.choice([1.0, 100.0]), h2col=1e21, cocol=1e16, n2col=1e15,
             lambdabar=1000.0)
    e["shield"] = 0.37
    e["scatter"] = 0.81
    return e


def arr(a, b, c, e):
    return a * math.pow(e["Tgas"] / 300.0, b) * math.exp(-c / e["Tgas"])


LAWS = {
    ("kida", 1): lambda a, b, c, e, x: a * e["zeta"],
    ("kida", 2): lambda a, b, c, e, x: a * math.exp(-c * e["Av"]),
    ("kida", 3): lambda a, b, c, e, x: arr(a, b, c, e),
    ("kida", 4): lambda a, b, c, e, x: a * b * (0.62 + 0.4767 * c * math.sqrt(300.0 / e["Tgas"])),
    ("kida", 5): lambda a, b, c, e, x: a * b * (1 + 0.0967 * c * math.sqrt(300.0 / e["Tgas"]) + c * c * 300.0 / (10.526 * e["Tgas"])),
    ("umist", RT["GAS_TWOBODY"]): lambda a, b, c, e, x: arr(a, b, c, e),
    ("umist", RT["GAS_PHOTON"]): lambda a, b, c, e, x: a * math.exp(-c * e["Av"]),
    ("umist", RT["GAS_COSMICRAY"]): lambda a, b, c, e, x: a,
    ("umist", RT["GAS_UMIST_CRPHOT"]): lambda a, b, c, e, x: a * math.pow(e["Tgas"] / 300.0, b) * c / (1 - e["omega"]),
    ("leeds", 1): lambda a, b, c, e, x: arr(a, b, c, e),
    ("leeds", 2): lambda a, b, c, e, x: a * (e["zeta_cr"] + e["zeta_xr"]) / e["zism"],
    ("leeds", 3): lambda a, b, c, e, x: a * ((e["zeta_cr"] + e["zeta_xr"]) / e["zism"]) * math.pow(e["Tgas"] / 300.0, b) * c / (1 - e["omega"]),
    ("leeds", 4): lambda a, b, c, e, x: e["G0"] * a * math.exp(-c * e["Av"]) * (e["shield"] if x in ("H2", "CO", "N2") else 1.0),
    ("leeds", 5): lambda a, b, c, e, x: 0.0,
    ("leeds", 11): lambda a, b, c, e, x: a * ((e["zeta_cr"] + e["zeta_xr"]) / e["zism"]) * math.pow(e["Tgas"] / 300.0, b) * c / (1 - e["omega"]),
    ("leeds", 12): lambda a, b, c, e, x: e["G0"] * a * math.exp(-c * e["Av"]) * (e["shield"] if x in ("GH2", "GCO", "GN2") else 1.0),
    ("uclchem", RT["GAS_TWOBODY"]): lambda a, b, c, e, x: arr(a, b, c, e),
    ("uclchem", RT["GAS_COSMICRAY"]): lambda a, b, c, e, x: a * e["zeta"] / e["zism"],
    ("uclchem", RT["GAS_UMIST_CRPHOT"]): lambda a, b, c, e, x: a * (e["zeta"] / e["zism"]) * math.pow(e["Tgas"] / 300.0, b) * c / (1 - e["omega"]),
    ("uclchem", RT["GAS_PHOTON"]): lambda a, b, c, e, x: (2.0e-10 * e["G0"] * e["shield"] * e["scatter"] / 1.7) if x == "CO" else e["G0"] * a * math.exp(-c * e["Av"]) / 1.7,
    ("naunet", RT["GAS_TWOBODY"]): lambda a, b, c, e, x: arr(a, b, c, e),
    ("naunet", RT["GAS_COSMICRAY"]): lambda a, b, c, e, x: a * e["zeta"],
    ("naunet", RT["GAS_PHOTON"]): lambda a, b, c, e, x: a * math.exp(-c * e["Av"]),
    ("naunet", RT["GAS_KIDA_IP1"]): lambda a, b, c, e, x: a * b * (0.62 + 0.4767 * c * math.sqrt(300.0 / e["Tgas"])),
    ("naunet", RT["GAS_KIDA_IP2"]): lambda a, b, c, e, x: a * b * (1 + 0.0967 * c * math.sqrt(300.0 / e["Tgas"]) + c * c * 300.0 / (10.526 * e["Tgas"])),
    ("naunet", RT["GAS_UMIST_CRPHOT"]): lambda a, b, c, e, x: a * math.pow(e["Tgas"] / 300.0, b) * c / (1 - e["omega"]),
    ("naunet", RT["DUMMY"]): lambda a, b, c, e, x: 0.0,
}
for k in (15, 16, 17, 18, 19):
    LAWS[("leeds", k)] = lambda a, b, c, e, x: 0.0


def evaluate(text, e):
    ns = {"pow": math.pow, "exp": math.exp, "sqrt": math.sqrt, "GetShieldingFactor": lambda *a: e["shield"],
          "GetGrainScattering": lambda *a: e["scatter"], "__builtins__": {}}
    ns.update({k: v for k, v in e.items()})
    for k in ("IDX_H2I", "IDX_COI", "IDX_N2I"):
        ns[k] = 0
    return eval(text, ns)


def close(x, y):
    if x == y:
        return True
    if math.isinf(x) or math.isinf(y) or math.isnan(x) or math.isnan(y):
        return (math.isnan(x) and math.isnan(y)) or x == y
    # relative 1e-11; subnormal results differ by evaluation order (floating point is outside every theorem)
    return abs(x - y) <= 1e-11 * max(abs(x), abs(y)) + 1e-300


def cases():
    for f in (1, 2, 3, 4, 5, 6, 7, 0):
        yield "kida", f, ""
    for ty in (RT["GAS_TWOBODY"], RT["GAS_PHOTON"], RT["GAS_COSMICRAY"], RT["GAS_UMIST_CRPHOT"], None):
        yield "umist", ty, ""
    for rt in (1, 2, 3, 5, 11, 15, 17, 19):
        yield "leeds", rt, "C"
    for rt, sp in ((4, "C"), (4, "H2"), (4, "CO"), (4, "N2"), (12, "GH2O"), (12, "GCO"), (12, "GH2"), (12, "GN2")):
        yield "leeds", rt, sp
    for ty, sp in ((RT["GAS_TWOBODY"], "C"), (RT["GAS_COSMICRAY"], "C"), (RT["GAS_UMIST_CRPHOT"], "C"), (RT["GAS_PHOTON"], "C"), (RT["GAS_PHOTON"], "CO")):
        yield "uclchem", ty, sp
    for name in ("GAS_TWOBODY", "GAS_COSMICRAY", "GAS_PHOTON", "GAS_KIDA_IP1", "GAS_KIDA_IP2", "GAS_UMIST_CRPHOT", "DUMMY", "GAS_THREEBODY", "GAS_XRAY", "UNKNOWN"):
        yield "naunet", RT[name], ""


def shield_text(fmt, code, sp):
    if fmt == "leeds" and code == 4 and sp in ("H2", "CO", "N2"):
        return f"GetShieldingFactor(IDX_{sp}I, h2col, {sp.lower()}col, Tgas, 0)"
    if fmt == "leeds" and code == 12 and sp in ("GH2", "GCO", "GN2"):
        return f"GetShieldingFactor(IDX_{sp[1:]}I, h2col, {sp[1:].lower()}col, Tgas, 0)"
    if fmt == "uclchem":
        return "co" if sp == "CO" else ""
    return ""


def compile_check(exprs):
    """g++ -fsyntax-only on one translation unit holding every expression; returns list of (index, message)"""
    d = ol.scratch_dir()
    src = ["#include <cmath>", "double GetShieldingFactor(int, double, double, double, int);", "double GetGrainScattering(double, double);",
           "enum { IDX_H2I, IDX_COI, IDX_N2I };",
           "double Tgas, Av, zeta, omega, zeta_cr, zeta_xr, zism, G0, h2col, cocol, n2col, lambdabar;", "double k[%d];" % max(len(exprs), 1),
           "void f() {"]
    for i, e in enumerate(exprs):
        src.append(f"#line {1000 + i}")
        src.append(f"k[{i}] = {e};")
    src.append("}")
    p = d / "rates.cpp"
    p.write_text("\n".join(src) + "\n")
    r = subprocess.run(["g++", "-std=c++17", "-fsyntax-only", "-Wall", "-Werror", str(p)], stdout=subprocess.PIPE, stderr=subprocess.STDOUT, text=True)
    bad = []
    if r.returncode != 0:
        for m in re.finditer(r":(\d+):\d+: error: (.*)", r.stdout):
            bad.append((int(m.group(1)) - 1000, m.group(2)))
        if not bad:
            bad.append((-1, r.stdout[-300:]))
    ol.cleanup_scratch()
    return bad


def network_level(res, model, rng, n, groups=None):
    """the coefficient written for reaction i of a NETWORK is reaction i's own law: groups of reactions with the same
    reactants, products and window (they compare equal) but different coefficients, types and source formats, through
    TemplateLoader._assign_rates (the list EvalRates is rendered from)"""
    from naunet.templateloader import TemplateLoader
    emitting = [(f, c, sp) for f, c, sp in cases() if (f, c) in LAWS]
    for k in range(n if groups is None else len(groups)):
        if groups is not None:
            group = [(f, c, sp, cl, [float(x) for x in mg]) for f, c, sp, cl, mg in groups[k]]
        else:
            group = []
            f0 = rng.choice(["kida", "umist", "naunet", "leeds", "uclchem"])
            for _ in range(rng.randint(2, 4)):
                f, c, sp = rng.choice([x for x in emitting if x[0] == f0 or rng.random() < 0.3])
                cls = [rng.choice(CLASSES[:2] if rng.random() < 0.8 else CLASSES) for _ in range(3)]
                mag = [abs(rng.choice(MAGS)[j]) * rng.choice([1.0, 1.5, 2.0, 7.0]) for j in range(3)]
                group.append((f, c, sp, cls, mag))
        objs = [make(f, c, value(cl[0], mg[0]), value(cl[1], mg[1]), value(cl[2], mg[2]), sp) for f, c, sp, cl, mg in group]
        case = {"kind": "c05-network", "group": [[f, c, sp, cl, [repr(x) for x in mg]] for f, c, sp, cl, mg in group]}
        try:
            sts = TemplateLoader("cvode", "dense", "cpu")._assign_rates("k", objs, [])
        except Exception as e:
            res.violation("oracle", f"_assign_rates fails on a group of gas-phase reactions: {e!r}", case)
            continue
        for i, ((f, c, sp, cl, mg), o, st) in enumerate(zip(group, objs, sts)):
            try:
                g, sym, ix, expr = rl.parse_assign(st)
            except ValueError as e:
                res.violation("oracle", f"assignment {i}: {e}", case)
                break
            own = o.rateexpr()
            a, b, c_ = value(cl[0], mg[0]), value(cl[1], mg[1]), value(cl[2], mg[2])
            if sym != "k" or ix != i or expr != own:
                res.violation("oracle", f"reaction {i} of the network ({f} type {c}, a={a!r} b={b!r} c={c_!r}) gets the coefficient "
                                        f"{sym}[{ix}] = {expr!r}; its own law is {own!r}", case)
                break
            if model is not None:
                m = model.call("rate.emit", f, "none" if c is None else c, cl[0], cl[1], cl[2], [magtext(x) for x in mg], shield_text(f, c, sp))
                if m[0] != "ok" or m[1] != expr:
                    res.corr_disagreements += 1
                    res.violation("correspondence", f"network-level coefficient of reaction {i} ({f} type {c}): implementation {expr!r} vs model {m[:2]}", case)
                    break
        res.count("network-level groups")
        res.case(("c05-network", k, repr(case["group"])), nontrivial=True)


def run(res, info):
    rng = random.Random(res.seed * 7919 + 5)
    model = fw.Model() if info["ok"] else None
    res.rule = ("every gas-phase (format, type/formula/rtype) incl. refused ones x all 64 sign/zero classes (+, -, 0.0, -0.0) of (alpha, beta, gamma) "
                "x magnitude shapes (ordinary, integer-valued, 1e+300, 5e-324, long mantissa); groups of 2-4 reactions that compare equal "
                "(same species and window) but differ in coefficients, type and source format, through _assign_rates; non-trivial = an expression is emitted")
    res.assumptions = ["coefficients are finite floats (inf/nan excluded)"]
    nmag = 2 if res.tier == "quick" else len(MAGS)
    to_compile = []
    for fmt, code, sp in cases():
        for ka, kb, kc in itertools.product(CLASSES, repeat=3):
            for mi in range(nmag):
                ma, mb, mc = MAGS[(mi + (hash((fmt, str(code))) % 3)) % len(MAGS)] if mi else MAGS[rng.randrange(len(MAGS))]
                a, b, c = value(ka, ma), value(kb, mb), value(kc, mc)
                case = {"kind": "c05", "format": fmt, "code": code, "species": sp, "alpha": repr(a), "beta": repr(b), "gamma": repr(c)}
                i = impl_rate(fmt, code, a, b, c, sp)
                res.count(f"format={fmt}")
                res.count("emitted" if i[0] == "ok" else "refused")
                if model is not None:
                    m = model.call("rate.emit", fmt, "none" if code is None else code, ka, kb, kc, [magtext(ma), magtext(mb), magtext(mc)], shield_text(fmt, code, sp))
                    if m[0] == "ok" and m[-1] != "1":
                        res.violation("correspondence", f"magnitudes {[magtext(ma), magtext(mb), magtext(mc)]} are outside the hypothesis of beautify_bridge", case)
                    if m[0] != i[0] or m[1] != i[1]:
                        res.corr_disagreements += 1
                        res.violation("correspondence", f"{fmt} type {code} ({sp}) a={a!r} b={b!r} c={c!r}: implementation {i} vs model {m}", case)
                if i[0] == "ok":
                    text = i[1]
                    toks = c_tokens(text)
                    if toks is None or "--" in toks or "++" in toks:
                        res.violation("oracle", f"{fmt} type {code}: a={a!r} b={b!r} c={c!r} emits {text!r}, which is not a C expression "
                                                f"(operator fusion: {[t for t in (toks or []) if t in ('--', '++')] or 'unlexable'})", case)
                    else:
                        if len(to_compile) < (150 if res.tier == "quick" else 3000):
                            to_compile.append((text, case))
                        law = LAWS.get((fmt, code))
                        if law is None:
                            res.violation("oracle", f"{fmt} type {code}: an expression {text!r} is emitted for a type without a published law", case)
                        else:
                            e = env(rng)
                            try:
                                got = evaluate(text, e)
                                want = law(a, b, c, e, sp)
                                if not close(got, want):
                                    res.violation("oracle", f"{fmt} type {code} ({sp}) a={a!r} b={b!r} c={c!r}: {text!r} evaluates to {got!r}, the law gives {want!r} at {e}", case)
                            except OverflowError:
                                res.count("overflow(skipped)")
                elif (fmt, code) in LAWS:
                    res.violation("oracle", f"{fmt} type {code}: refused although the database defines its law", case)
                res.case(("c05", fmt, code, sp, ka, kb, kc, mi), sample={"format": fmt, "code": code, "coeffs": [a, b, c], "text": i[1]}, nontrivial=i[0] == "ok")
    network_level(res, model, rng, 60 if res.tier == "quick" else 1500)
    bad = compile_check([t for t, _ in to_compile])
    res.count("compiled expressions", len(to_compile))
    for idx, msg in bad[:5]:
        case = to_compile[idx][1] if 0 <= idx < len(to_compile) else {}
        res.violation("oracle", f"g++ rejects the emitted expression {to_compile[idx][0] if idx >= 0 else ''!r}: {msg}", case)
    if model:
        model.close()


def replay(rp, info):
    case = rp.get("case") or {}
    if case.get("kind") == "c05":
        a, b, c = float(case["alpha"]), float(case["beta"]), float(case["gamma"])
        i = impl_rate(case["format"], case["code"], a, b, c, case.get("species", ""))
        print("implementation:", i)
        if i[0] == "ok":
            toks = c_tokens(i[1])
            bad = toks is None or "--" in toks or "++" in toks
            print("C tokens:", toks)
            print("replay:", "FAILS" if bad else "passes (token check)")
            return 1 if bad else 0
    if case.get("kind") == "c05-network":
        res = fw.Result("C05", "quick", 0)
        network_level(res, fw.Model() if info["ok"] else None, None, 0, groups=[case["group"]])
        for v in res.violations:
            print(v["kind"], v["what"][:800])
        print("replay:", "FAILS" if res.violations else "passes")
        return 1 if res.violations else 0
    print("replay: nothing to replay")
    return 0
