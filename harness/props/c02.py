"""C02 — the analytic Jacobian is the exact derivative of the emitted right-hand side.
(A) model jac terms vs ode.jac.rhs / ode.jac.vals; (B) the Jacobian of the four rendered
back-ends; oracle: exact first derivatives of the emitted right-hand side by dual numbers
over the rationals against the exact value of every emitted Jacobian entry."""
import random
import re
from fractions import Fraction

from .. import framework as fw
from .. import odelib as ol
from . import c01

TRUST = c01.TRUST + ["oracle: dual-number arithmetic over Fractions (harness/odelib.py Dual)"]


def rhs_texts(a):
    return [ol.strip_lhs(s)[1] for s in a.ode.fex]


def oracle_jac(res, a, rhs, entry, where, rng, case, neq):
    """rhs: list of texts per row; entry(r, c) -> text or None (omitted = zero)"""
    env = c01.make_env(a, rng)
    names = [f"IDX_{al}" for al in a.aliases] + (["IDX_TGAS"] if (a.info.heating or a.info.cooling) else [])
    for col in range(len(names)):
        yd = dict(env["y"])
        yd[names[col]] = ol.Dual(env["y"][names[col]], 1)
        envd = dict(env)
        envd["y"] = yd
        envd["y_cur"] = yd
        for row in range(neq if names else 0):
            try:
                d = ol.eval_expr(rhs[row], envd)
            except Exception as e:
                res.violation("oracle", f"{where}: right-hand side {row} not evaluable: {e!r}", case)
                return
            want = d.b if isinstance(d, ol.Dual) else Fraction(0)
            t = entry(row, col)
            if t is None:
                got = Fraction(0)
            else:
                try:
                    got = ol.eval_expr(t, env)
                except Exception as e:
                    res.violation("oracle", f"{where}: Jacobian entry ({row},{col}) is not a valid expression: {e!r}: {t[:200]}", case)
                    return
            if got != want:
                sp = lambda i: (a.species[i].name if i < a.nspec else "Tgas")
                res.violation("oracle", f"{where}: J[{sp(row)},{sp(col)}] evaluates to {got} but d(rhs)/dy = {want}; entry: {str(t)[:200]}; rhs: {rhs[row][:200]}", case)
                return


def corr_jac(res, a, entry_texts, where, case):
    # exact text of every entry, temperature row included (C02.jac_text_is_derivative and
    # C02.jac_thermal_text_is_derivative are about these very strings)
    if where.startswith("channel A") and a.model is not None and a.m_model_obj is not None:
        n = a.m_neq
        mt = a.m_model_obj.call("ode.jactext", a.nspec, a.rx, a.mods, a.heat, a.cool, a.aliases)
        k = 0
        for r in range(n):
            for c in range(n):
                if mt[k] != "none" and entry_texts[r * n + c].strip() != mt[k]:
                    res.corr_disagreements += 1
                    res.violation("correspondence", f"{where}: text of entry ({r},{c}): implementation {entry_texts[r * n + c].strip()[:160]!r} != model text {mt[k][:160]!r}", case)
                    return
                k += 1
        res.count("Jacobian entries compared as exact text", sum(1 for x in mt if x != "none"))
    for idx, t in enumerate(entry_texts):
        try:
            c = ol.canon(*ol.parse_sum(t))
        except ol.ParseError as e:
            res.corr_disagreements += 1
            res.violation("correspondence", f"{where}: entry {idx}: {e}", case)
            return
        if c != a.m_jac[idx]:
            res.corr_disagreements += 1
            res.violation("correspondence", f"{where}: flat entry {idx}: implementation {c} != model {a.m_jac[idx]}", case)
            return


def rendered_matrix(d, solver, method):
    """{(row, col): text} of a rendered Jacobian, plus declared CSR arrays if any; (None, reason) when the reader does not
    understand the layout of the file (the compiled routines of channel C then decide alone)"""
    try:
        return _rendered_matrix(d, solver, method)
    except (ValueError, AttributeError, IndexError, KeyError) as e:
        return None, f"{type(e).__name__}: {e}"


def _rendered_matrix(d, solver, method):
    if solver == "odeint":
        src = (d / "src" / "naunet_ode.cpp").read_text()
        body = ol.resolve_aliases(src[src.index("void Jac::operator()"):])        # a local reference to the matrix is the matrix
        st = ol.extract_statements(body, r"j\((\d+), (\d+)\)")
        return {(int(re.match(r"j\((\d+), (\d+)\)", l).group(1)), int(re.match(r"j\((\d+), (\d+)\)", l).group(2))): r for l, r in st}, None
    f = "naunet_jac.cu" if method == "cusparse" else "naunet_jac.cpp"
    src = (d / "src" / f).read_text()
    if method == "dense":
        body = src[src.index("int Jac("):]
        out = {}
        for l, r in ol.extract_statements(body, r"IJth\(jmatrix, (\d+), (\d+)\)"):
            m = re.match(r"IJth\(jmatrix, (\d+), (\d+)\)", l)
            out[(int(m.group(1)), int(m.group(2)))] = r
        return out, None
    if method == "sparse":
        body = src[src.index("int Jac("):]
        rp = [int(r) for l, r in ol.extract_statements(body, r"rowptrs\[(\d+)\]")]
        cv = [int(r) for l, r in ol.extract_statements(body, r"colvals\[(\d+)\]")]
        dv = [r for l, r in ol.extract_statements(body, r"data\[(\d+)\]")]
        idxs = [int(re.match(r"data\[(\d+)\]", l).group(1)) for l, r in ol.extract_statements(body, r"data\[(\d+)\]")]
    else:
        init = src[src.index("int InitJac("):src.index("__global__ void JacKernel")]
        m1 = re.search(r"rowptrs\[NEQUATIONS \+ 1\] = \{(.*?)\};", init, re.S)
        m2 = re.search(r"colvals\[NNZ\] = \{(.*?)\};", init, re.S)
        nocom = lambda t: re.sub(r"/\*.*?\*/|//[^\n]*", " ", t, flags=re.S)
        rp = [int(x) for x in nocom(m1.group(1)).replace("\n", " ").split(",") if x.strip()]
        cv = [int(x) for x in nocom(m2.group(1)).replace("\n", " ").split(",") if x.strip()]
        # pointer aliases and the per-system offset are resolved first: `data[jistart + 3]`, `data_cur[3]` are one element
        body = ol.resolve_aliases(src[src.index("__global__ void JacKernel"):src.index("int Jac(")])
        st = ol.extract_statements(body, r"data\[(\d+)\]")
        dv = [r for l, r in st]
        idxs = [int(re.match(r"data\[(\d+)\]", l).group(1)) for l, r in st]
    out = {}
    ok = idxs == list(range(len(dv))) and len(cv) == len(dv)
    if ok:
        for row in range(len(rp) - 1):
            for k in range(rp[row], rp[row + 1]):
                if k < len(dv):
                    out[(row, cv[k])] = dv[k]
    return out, {"rowptrs": rp, "colvals": cv, "ndata": len(dv), "indices_ok": ok}


def check_desc(res, model, desc, rng, tag, channel_b=False, after=None):
    case = {"kind": "c02", "desc": desc}
    if after is not None:
        case["after"] = after          # generated right after this description in the same process
    a = ol.analyse(desc, model)
    n = a.ode.jac.nrow
    rhs = rhs_texts(a)
    flat = a.ode.jac.rhs
    nre = len(desc["reactions"])
    res.count(f"reactions={'0' if nre == 0 else '1-4' if nre < 5 else '5-15' if nre < 16 else '16+'}")
    if desc.get("ode_modifier"):
        for m in desc["ode_modifier"].values():
            for dep in m["reactants"]:
                res.count(f"modifier-deps={len(dep)}{'-repeated' if len(set(dep)) < len(dep) else ''}")
    if a.info.heating or a.info.cooling:
        res.count("thermal")
    neq = len(rhs)
    oracle_jac(res, a, rhs, lambda r, c: (None if flat[r * n + c] == "0.0" else flat[r * n + c]), "channel A (ode.jac.rhs)", rng, case, neq)
    # sparse values must be the same non-zero entries
    nz = [t for t in flat if t != "0.0"]
    if nz != list(a.ode.jac.vals) or a.ode.jac.nnz != len(nz):
        res.violation("oracle", "channel A: ode.jac.vals is not the list of non-'0.0' entries of ode.jac.rhs", case)
    if a.model is not None:
        if len(flat) != len(a.m_jac):
            res.violation("correspondence", f"flat Jacobian length {len(flat)} != model {len(a.m_jac)}", case)
        else:
            corr_jac(res, a, flat, "channel A (ode.jac.rhs)", case)
    if channel_b and not desc.get("heating"):          # user-registered heating processes exist in channel A only
        for solver, method, device in [("cvode", "dense", "cpu"), ("cvode", "sparse", "cpu"), ("cvode", "cusparse", "gpu"), ("odeint", "rosenbrock4", "cpu")]:
            net = ol.build_network(desc)
            tmpl = (["src/naunet_ode.cpp.j2"] if solver == "odeint" else ["src/naunet_jac.cpp.j2", "src/naunet_fex.cpp.j2"]) + ["include/naunet_macros.h.j2"]
            d = ol.render(net, solver, method, device, templates=tmpl)
            mat, csr = rendered_matrix(d, solver, method)
            where = f"channel B ({solver}/{method})"
            res.count(f"rendered:{method}")
            if mat is None:
                res.corr_disagreements += 1
                res.violation("correspondence", f"{where}: the reader does not understand the rendered Jacobian file ({csr})", case)
                continue
            if solver == "odeint":
                src = (d / "src" / "naunet_ode.cpp").read_text()
                st = c01.fex_statements(src[src.index("void Fex::operator()"):src.index("Jac::Jac(")])
            else:
                f = "naunet_fex.cu" if method == "cusparse" else "naunet_fex.cpp"
                st = c01.fex_statements((d / "src" / f).read_text(), kernel=(method == "cusparse"))
            rhs_b = [r for _, r in st]
            if len(rhs_b) != neq:
                res.violation("correspondence", f"{where}: {len(rhs_b)} equations rendered, {neq} expected", case)
                continue
            if not mat and a.ode.jac.nnz > 0:
                # nothing the reader recognises as an entry although the generator hands non-zero entries to the template: the
                # reader does not understand the file (the compiled routines of channel C decide what it computes)
                res.corr_disagreements += 1
                res.violation("correspondence", f"{where}: the reader finds no Jacobian entry in the rendered file ({a.ode.jac.nnz} expected)", case)
                continue
            if any(r >= n or c >= n for (r, c) in mat):
                res.violation("oracle", f"{where}: Jacobian subscript out of range", case)
                continue
            oracle_jac(res, a, rhs_b, lambda r, c: mat.get((r, c)), where, rng, case, neq)
        ol.cleanup_scratch()
        c01.exec_check(res, a, desc, rng, case, jac=True)
    res.case(("c02", tag, ol.nontrivial_sig(desc)),
             sample={"reactions": [f"{' + '.join(r)} -> {' + '.join(p)}" for r, p in desc["reactions"]][:4],
                     "ode_modifier": desc.get("ode_modifier"), "jac.vals[0]": (a.ode.jac.vals[0][:120] if a.ode.jac.vals else None)},
             nontrivial=a.ode.jac.nnz > 0)


MOD_FIXED = [
    {"reactions": [(["H", "O"], ["OH"])], "required": [],
     "ode_modifier": {"H": {"factors": ["-2.0"], "reactants": [["OH"]]}}},
    {"reactions": [(["H", "O"], ["OH"])], "required": [],
     "ode_modifier": {"H": {"factors": ["1.5 * k[0]"], "reactants": [["H", "O"]]}}},
    {"reactions": [(["H", "O"], ["OH"])], "required": ["He"],
     "ode_modifier": {"OH": {"factors": ["zeta", "-1.0 + nH"], "reactants": [["H", "H", "O"], ["He", "He"]]}}},
    {"reactions": [(["H", "H"], ["H2"]), (["H", "H", "H"], ["H2", "H"])], "required": []},
    {"reactions": [(["H2", "CO"], ["H", "H", "CO"]), (["CO", "H"], ["CO", "H"])], "required": []},
]


def run(res, info):
    rng = random.Random(res.seed * 7919 + 2)
    model = fw.Model() if info["ok"] else None
    res.rule = ("networks as in C01 (repeated reactants, 3-body terms, catalysts, thermal rows) x ODE modifiers with 1-3 "
                "(repeated) dependencies; every (row, col) pair checked; non-trivial = at least one non-zero entry")
    res.assumptions = ["derivative with respect to the explicit occurrences of y[IDX_j] in the emitted right-hand side; "
                       "rate coefficients, gamma, kerg, npar and modifier factors held fixed", "species aliases are distinct (C09)"]
    n_a = 150 if res.tier == "quick" else 2500
    n_b = 5 if res.tier == "quick" else 40
    for i, d in enumerate(MOD_FIXED + c01.FIXED):
        check_desc(res, model, d, rng, ("fixed", i), channel_b=True)
    for i in range(n_a):
        desc = c01.gen_desc(rng, "small" if i % 6 else "large", allow_heating=True)
        check_desc(res, model, desc, rng, i, channel_b=(i < n_b))
        if i % 3 == 0:
            d2 = ol.follow_up(rng, desc)
            if d2 is not None:
                check_desc(res, model, d2, rng, (i, "follow-up"), channel_b=(i < n_b), after=desc)
    if model:
        model.close()


def replay(rp, info):
    res = fw.Result("C02", "quick", 0)
    model = fw.Model() if info["ok"] else None
    case = rp.get("case") or {}
    if "desc" in case:
        if case.get("after"):
            prev = case["after"]
            prev["reactions"] = [tuple(x) for x in prev["reactions"]]
            check_desc(fw.Result("C02", "quick", 0), model, prev, random.Random(0), "replay-before", channel_b=True)
        d = case["desc"]
        d["reactions"] = [tuple(x) for x in d["reactions"]]
        check_desc(res, model, d, random.Random(0), "replay", channel_b=True)
    for v in res.violations:
        print(v["kind"], v["what"][:600])
    print("replay:", "FAILS" if res.violations else "passes")
    return 1 if res.violations else 0
