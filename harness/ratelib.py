"""Parsing of generated rate assignments (shared by C06 and C13)."""
import re
from fractions import Fraction


def parse_assign(stmt: str):
    """'if (Tgas>=10.0 && Tgas<300.0) {\\nk[3] = expr;\\n}' -> (guard, idx, expr)
    guard = ('none',) | ('lower', a) | ('upper', b) | ('both', a, b) with exact Fractions"""
    s = " ".join(stmt.split())
    # nested `if (A) { if (B) { ... } }` without else branches is the conjunction `if (A && B) { ... }`
    conds = []
    while True:
        mn = re.fullmatch(r"if \(([^{}]*?)\) \{ (if \(.*\}) \}", s)
        if not mn:
            break
        conds.append(mn.group(1))
        s = mn.group(2)
    m = re.fullmatch(r"if \((.*?)\) \{ (k|kh|kc)\[(\d+)\] = (.*); \}", s)
    if m:
        cond, sym, idx, expr = m.groups()
        parts = [c.strip() for c0 in conds + [cond] for c in c0.split("&&")]
        lo = hi = None
        for c in parts:
            ml = re.fullmatch(r"Tgas>=(\S+)", c)
            mu = re.fullmatch(r"Tgas<(\S+)", c)
            if ml and lo is None:
                lo = Fraction(float(ml.group(1)))
            elif mu and hi is None:
                hi = Fraction(float(mu.group(1)))
            else:
                raise ValueError(f"unrecognised guard {cond!r}")
        g = ("both", lo, hi) if lo is not None and hi is not None else ("lower", lo) if lo is not None else ("upper", hi)
        return g, sym, int(idx), expr
    m = re.fullmatch(r"(k|kh|kc)\[(\d+)\] = (.*);", s)
    if m:
        return ("none",), m.group(1), int(m.group(2)), m.group(3)
    raise ValueError(f"unrecognised assignment {stmt[:120]!r}")


def q(x) -> str:
    f = Fraction(x)
    return f"{f.numerator}/{f.denominator}"


def model_guard(g):
    kind = g[0]
    vals = []
    for v in g[1:]:
        n, d = v.split("/")
        vals.append(Fraction(int(n), int(d)))
    return (kind, *vals)


def rates_statements(src: str, func="EvalRates"):
    """the assignments of the rendered EvalRates, in order, as raw statement texts"""
    start = src.index(f"int {func}(")
    end = src.index("return NAUNET_SUCCESS;", start)
    body = src[start:end]
    out = []
    for m in re.finditer(r"((?:if \([^\n{]*\) \{\s*)+k[hc]?\[\d+\] = .*?;(?:\s*\})+|^\s*k[hc]?\[\d+\] = .*?;)", body, re.S | re.M):
        out.append(m.group(1))
    return out
