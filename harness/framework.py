"""Shared machinery of every check: build, model runner, proof status,
evidence, verdicts, known findings."""
from __future__ import annotations

import fcntl
import hashlib
import json
import os
import random
import re
import shutil
import subprocess
import sys
import time
from pathlib import Path

from . import sexp

VERIF = Path(__file__).resolve().parent.parent
REPO = Path(os.environ.get("NAUNET_REPO", "/repo"))
COQ = VERIF / "coq"
BUILD = VERIF / "build"
PY = "/venv/bin/python"

GATE_RE = re.compile(
    r"\b(Admitted|admit|Axiom|Axioms|Parameter|Parameters|Conjecture|Conjectures|Hypothesis|Hypotheses|Variable|Variables)\b"
    r"|Unset\s+Guard|bypass_check|type-in-type|impredicative-set|Unset\s+Universe\s+Checking|Unset\s+Positivity"
)

# axioms of the standard library that a theorem may depend on (DESIGN.md §10)
ALLOWED_AXIOMS = {
    "ClassicalDedekindReals.sig_forall_dec",
    "ClassicalDedekindReals.sig_not_dec",
    "FunctionalExtensionality.functional_extensionality_dep",
    "Classical_Prop.classic",
}


def env_for_impl(hashseed: str = "0") -> dict:
    e = dict(os.environ)
    e["PYTHONPATH"] = str(REPO)
    e["PYTHONHASHSEED"] = hashseed
    e["NAUNET_VERIF"] = "1"
    e["PYTHONWARNINGS"] = "ignore"
    return e


class BuildError(Exception):
    pass


def _run(cmd, cwd=None, timeout=1800, env=None):
    p = subprocess.run(cmd, cwd=cwd, timeout=timeout, env=env,
                       stdout=subprocess.PIPE, stderr=subprocess.STDOUT, text=True)
    return p.returncode, p.stdout


def _vfiles():
    fs = sorted(str(p.relative_to(COQ)) for p in (COQ / "theories").rglob("*.v"))
    fs += sorted(str(p.relative_to(COQ)) for p in (COQ / "gen").rglob("*.v"))
    return fs


def gate_scan() -> list[str]:
    """The grep gate: no Admitted/admit/Axiom/... anywhere in the development.
    `Variable`/`Hypothesis`/`Context` are allowed only inside a Section."""
    bad = []
    for f in _vfiles():
        depth = 0
        incomment = 0
        for ln, line in enumerate((COQ / f).read_text().splitlines(), 1):
            # strip comments (nesting-aware, line-wise approximation)
            out = []
            i = 0
            while i < len(line):
                if line.startswith("(*", i):
                    incomment += 1
                    i += 2
                elif line.startswith("*)", i) and incomment:
                    incomment -= 1
                    i += 2
                else:
                    if not incomment:
                        out.append(line[i])
                    i += 1
            code = "".join(out)
            # string literals cannot hide vernacular; drop them
            code = re.sub(r'"[^"]*"', '""', code)
            if re.match(r"\s*(Section|Module)\s", code):
                depth += 1
            if re.match(r"\s*End\s", code):
                depth = max(0, depth - 1)
            for m in GATE_RE.finditer(code):
                w = m.group(0)
                if w.split()[0] in ("Variable", "Variables", "Hypothesis", "Hypotheses") and depth > 0:
                    continue
                bad.append(f"{f}:{ln}: {w}")
    return bad


def build(verbose=False) -> dict:
    """gen tables -> make (full .vo) -> runner.  Serialised by a file lock.
    Returns {'ok': bool (model+runner usable), 'log': str, 'failed': [vfiles]}."""
    BUILD.mkdir(exist_ok=True)
    lock = open(BUILD / ".lock", "w")
    fcntl.flock(lock, fcntl.LOCK_EX)
    try:
        t0 = time.time()
        info = {"ok": False, "log": "", "failed": [], "tables_ok": True}
        # 1. tables from the live /repo
        (COQ / "gen").mkdir(exist_ok=True)
        rc, out = _run([PY, str(VERIF / "harness" / "gen_tables.py"), str(COQ / "gen")],
                       env=env_for_impl(), timeout=300)
        if rc != 0:
            info["tables_ok"] = False
            info["log"] += "gen_tables failed:\n" + out[-3000:]
            # keep the previous Tables.v if any: the proofs are then stale wrt the
            # source; callers treat tables_ok=False as a broken tie.
            if not (COQ / "gen" / "Tables.v").exists():
                return info
        # 2. coq build
        files = _vfiles()
        proj = (COQ / "_CoqProject.in").read_text() + "\n".join(files) + "\n"
        cp = COQ / "_CoqProject"
        if not cp.exists() or cp.read_text() != proj or not (COQ / "Makefile").exists():
            cp.write_text(proj)
            rc, out = _run(["coq_makefile", "-f", "_CoqProject", "-o", "Makefile"], cwd=COQ)
            if rc != 0:
                info["log"] += out
                return info
        rc, out = _run(["timeout", "1500", "make", "-k", "-j16"], cwd=COQ, timeout=1600)
        info["log"] += out[-6000:]
        for f in files:
            if not (COQ / f).with_suffix(".vo").exists():
                info["failed"].append(f)
            elif (COQ / f).with_suffix(".vo").stat().st_mtime < (COQ / f).stat().st_mtime:
                info["failed"].append(f)
        if verbose:
            print(out)
        # 3. runner
        ml = COQ / "model.ml"
        runner = BUILD / "runner"
        if "theories/Extract.v" in info["failed"] or not ml.exists():
            return info
        drv = VERIF / "ocaml" / "driver.ml"
        stamp = hashlib.sha256(ml.read_bytes() + drv.read_bytes()).hexdigest()
        stampf = BUILD / "runner.stamp"
        if not runner.exists() or not stampf.exists() or stampf.read_text() != stamp:
            od = BUILD / "ocaml"
            od.mkdir(exist_ok=True)
            shutil.copy(ml, od / "model.ml")
            shutil.copy(COQ / "model.mli", od / "model.mli")
            shutil.copy(drv, od / "driver.ml")
            rc, out = _run(["ocamlfind", "ocamlopt", "-O3", "-w", "-a", "-o", str(runner),
                            "model.mli", "model.ml", "driver.ml"], cwd=od, timeout=600)
            if rc != 0:
                info["log"] += out
                return info
            stampf.write_text(stamp)
        info["ok"] = True
        info["build_s"] = round(time.time() - t0, 2)
        return info
    finally:
        fcntl.flock(lock, fcntl.LOCK_UN)
        lock.close()


class Model:
    """Pipe to the extracted model."""

    def __init__(self):
        def big_stack():
            # the extracted code is not tail-recursive everywhere (long request lines, long digit strings)
            import resource
            soft, hard = resource.getrlimit(resource.RLIMIT_STACK)
            try:
                resource.setrlimit(resource.RLIMIT_STACK, (hard, hard))
            except (ValueError, OSError):
                pass
        self.p = subprocess.Popen([str(BUILD / "runner")], stdin=subprocess.PIPE,
                                  stdout=subprocess.PIPE, text=True, bufsize=1, preexec_fn=big_stack)
        self.calls = 0

    def call(self, *req):
        line = sexp.dumps(list(req))
        assert "\n" not in line
        self.p.stdin.write(line + "\n")
        self.p.stdin.flush()
        out = self.p.stdout.readline()
        if not out:
            try:
                (BUILD / "failed_request.sexp").write_text(line + "\n")
            except OSError:
                pass
            raise RuntimeError(f"model runner died on request: {line[:300]}")
        self.calls += 1
        return sexp.loads(out)

    def call_many(self, reqs):
        return [self.call(*r) for r in reqs]

    def close(self):
        try:
            self.p.stdin.close()
            self.p.wait(timeout=5)
        except Exception:
            self.p.kill()


def coq_flags():
    return ["-Q", "theories", "Naunet", "-Q", "gen", "NaunetGen", "-w",
            "-notation-overridden,-deprecated-hint-without-locality,-deprecated-instance-without-locality"]


def vm_eval_requests(reqs: list[str]) -> list[str]:
    """Cross-evaluation inside Coq (vm_compute) of the same request lines; used by
    the thorough tier so extraction is not the only evaluator."""
    d = BUILD / "vmeval"
    d.mkdir(exist_ok=True)
    name = f"Cases{os.getpid()}"
    def q(s):
        return '"' + s.replace('"', '""') + '"'
    body = ("From Coq Require Import String List.\nFrom Naunet Require Import Dispatch.\n"
            "Import ListNotations.\nOpen Scope string_scope.\n")
    for i, r in enumerate(reqs):
        body += f"Definition r{i} := Eval vm_compute in dispatch {q(r)}.\n"
    # print one reply per definition with a marker
    for i in range(len(reqs)):
        body += f'Eval vm_compute in ("@@{i}@@" ++ r{i} ++ "@@END@@").\n'
    f = d / f"{name}.v"
    f.write_text(body)
    rc, out = _run(["timeout", "900", "coqc"] + coq_flags() + ["-o", str(d / f"{name}.vo"), str(f)], cwd=COQ)
    res = []
    if rc != 0:
        raise BuildError("vm_eval failed: " + out[-2000:])
    flat = out.replace("\n", " ")
    for i in range(len(reqs)):
        m = re.search(rf'@@{i}@@(.*?)@@END@@', flat)
        res.append(None if not m else re.sub(r"\s+", " ", m.group(1).replace('""', '"')))
    for p in d.glob(f"{name}.*"):
        p.unlink()
    return res


def proof_status(prop: str, buildinfo: dict) -> dict:
    """Recompile Props/<prop>.v fresh, collect theorem names and Print Assumptions."""
    f = COQ / "theories" / "Props" / f"{prop}.v"
    st = {"file": str(f.relative_to(VERIF)), "obligations": 0, "discharged": 0, "theorems": [],
          "axioms": {}, "bad_axioms": [], "ok": False, "log": ""}
    if not f.exists():
        st["log"] = "no property file"
        return st
    src = f.read_text()
    thms = re.findall(r"^\s*(?:Theorem|Corollary)\s+([A-Za-z0-9_']+)", src, re.M)
    st["theorems"] = thms
    st["obligations"] = len(thms)
    gate = gate_scan()
    if gate:
        st["log"] = "gate: " + "; ".join(gate[:10])
        return st
    rel = str(f.relative_to(COQ))
    if rel in buildinfo.get("failed", []) or not buildinfo.get("tables_ok", True):
        st["log"] = "property file (or a dependency) does not compile:\n" + _first_error(buildinfo.get("log", ""))
        return st
    od = BUILD / "props"
    od.mkdir(exist_ok=True)
    rc, out = _run(["timeout", "900", "coqc"] + coq_flags() + ["-o", str(od / f"{prop}.vo"), rel], cwd=COQ)
    if rc != 0:
        # name the theorem that no longer checks: the last `Theorem` at or before the line coqc reports
        m = re.search(r'File "[^"]*", line (\d+), characters[^\n]*\n((?:.*\n?){0,14})', out)
        if m:
            line = int(m.group(1))
            before = [(i + 1, re.match(r"\s*(?:Theorem|Corollary)\s+([A-Za-z0-9_']+)", l)) for i, l in enumerate(src.splitlines())]
            names = [mm.group(1) for i, mm in before if mm and i <= line]
            st["failed_theorem"] = names[-1] if names else None
            msg = " ".join(m.group(2).split())[:600]
            st["log"] = (f"theorem {st['failed_theorem']} ({st['file']} line {line}) no longer checks: {msg}" if names
                         else f"{st['file']} line {line} (before the first theorem: a Require or a definition) no longer checks: {msg}")
        else:
            st["log"] = out[-3000:]
        return st
    # Print Assumptions blocks
    blocks = re.split(r"(?m)^(?=Closed under the global context|Axioms:)", out)
    pa = [b for b in blocks if b.startswith("Closed under") or b.startswith("Axioms:")]
    names_pa = re.findall(r"Print Assumptions\s+([A-Za-z0-9_']+)", src)
    for name, b in zip(names_pa, pa):
        if b.startswith("Closed"):
            st["axioms"][name] = []
        else:
            ax = re.findall(r"(?m)^([A-Za-z_][A-Za-z0-9_'.]*)\s*:", b[len("Axioms:"):])
            st["axioms"][name] = ax
            for a in ax:
                if a not in ALLOWED_AXIOMS:
                    st["bad_axioms"].append(f"{name}:{a}")
    if not thms:
        st["log"] = "property file states no theorem"
        return st
    missing = [t for t in thms if t not in st["axioms"]]
    if missing:
        st["log"] = "no Print Assumptions output for: " + ", ".join(missing)
        return st
    if st["bad_axioms"]:
        st["log"] = "assumptions outside the allow-list: " + ", ".join(st["bad_axioms"])
        return st
    st["discharged"] = len(thms)
    st["ok"] = True
    return st


def _first_error(log: str) -> str:
    m = re.search(r"(File \"[^\n]*\n(?:.*\n){0,12})", log)
    return m.group(1) if m else log[-1500:]


# --------------------------------------------------------------------------
# known findings

def load_findings():
    p = VERIF / "known_findings.json"
    if not p.exists():
        return []
    return json.loads(p.read_text())["findings"]


class Result:
    """Accumulates what a check run covered and found."""

    def __init__(self, prop: str, tier: str, seed: int):
        self.prop = prop
        self.tier = tier
        self.seed = seed
        self.t0 = time.time()
        self.evaluations = 0
        self.nontrivial = set()
        self.samples = []
        self.dist = {}
        self.violations = []      # (kind, what, case)
        self.known_hits = []      # finding ids replayed and still failing
        self.notes = []
        self.rule = ""
        self.assumptions = []
        self.corr_disagreements = 0
        self.extra = {}

    def count(self, key, n=1):
        self.dist[key] = self.dist.get(key, 0) + n

    def case(self, sig, sample=None, nontrivial=True):
        """record one explored case; sig is any hashable/str identifying it"""
        self.evaluations += 1
        if nontrivial:
            self.nontrivial.add(hashlib.sha1(repr(sig).encode()).hexdigest())
        if sample is not None and len(self.samples) < 4:
            self.samples.append(sample)

    def violation(self, kind: str, what: str, case):
        """kind: 'oracle' (property fails on the implementation),
        'correspondence' (model != implementation), 'proof' (obligation broken)"""
        self.violations.append({"kind": kind, "what": what, "case": case})


def finish(res: Result, proof: dict, level: str = "proof", trusted=None) -> int:
    """Decide the verdict, write evidence and replays, print lines, return exit code."""
    findings = [f for f in load_findings() if f["property"] == res.prop]
    open_f = {f["id"]: f for f in findings if f.get("status") == "open"}
    real = []
    for v in res.violations:
        fid = (v["case"] or {}).get("finding") if isinstance(v["case"], dict) else None
        if fid and fid in open_f:
            if fid not in res.known_hits:
                res.known_hits.append(fid)
            continue
        real.append(v)
    for fid in res.known_hits:
        print(f"KNOWN-FINDING: property={res.prop} {open_f[fid]['what']}")
    rc = 0
    rp_dir = VERIF / "replays"
    if rp_dir.exists():
        for old in rp_dir.glob(f"{res.prop}-*.json"):
            old.unlink()
    oracle_v = [v for v in real if v["kind"] == "oracle"]
    other_v = [v for v in real if v["kind"] != "oracle"]
    if not proof.get("ok"):
        other_v.append({"kind": "proof", "what": f"proof obligations of {proof.get('file')} no longer check: {proof.get('log','')[:1500]}",
                        "case": {"theorems": proof.get("theorems", [])}})
    if oracle_v:
        rp_dir.mkdir(exist_ok=True)
        for i, v in enumerate(oracle_v[:5]):
            p = rp_dir / f"{res.prop}-{i}.json"
            p.write_text(json.dumps({"property": res.prop, "seed": res.seed, "tier": res.tier, **v,
                                     "also_broken": [o["what"][:300] for o in other_v[:5]]}, indent=1, default=str))
            print(f"VIOLATION property={res.prop} replay={p}")
        rc = 1
    elif other_v:
        rp_dir.mkdir(exist_ok=True)
        p = rp_dir / f"{res.prop}-broken.json"
        p.write_text(json.dumps({"property": res.prop, "seed": res.seed, "tier": res.tier,
                                 "no_longer_checks": other_v[:10]}, indent=1, default=str))
        print(f"VIOLATION property={res.prop} replay={p} no-failing-input-found")
        rc = 1
    wall = time.time() - res.t0
    cov = {
        "obligations": max(proof.get("obligations", 0), 1),
        "discharged": proof.get("discharged", 0),
        "checker_cmd": f"make -C coq (coq_makefile, full .vo) ; coqc {proof.get('file')} (Print Assumptions)",
        "trusted_base": trusted or [],
        "theorems": proof.get("theorems", []),
        "axioms_per_theorem": proof.get("axioms", {}),
        "evaluations": res.evaluations,
        "distinct_nontrivial": len(res.nontrivial),
        "rule": res.rule,
        "samples": res.samples or ["(none)"],
        "input_distribution": res.dist,
        "correspondence_disagreements": res.corr_disagreements,
        "known_findings_replayed": res.known_hits,
        "notes": res.notes,
    }
    cov.update(res.extra)
    ev = {
        "property_id": res.prop,
        "tier": res.tier,
        "seed": res.seed,
        "level": level,
        "coverage": cov,
        "assumptions": res.assumptions,
        "wall_s": round(wall, 2),
        "violations": len(real) + (0 if proof.get("ok") else 1),
    }
    (VERIF / "evidence").mkdir(exist_ok=True)
    (VERIF / "evidence" / f"{res.prop}.json").write_text(json.dumps(ev, indent=1, default=str))
    print(f"{res.prop} tier={res.tier} seed={res.seed}: proof {proof.get('discharged',0)}/{proof.get('obligations',0)}; "
          f"{res.evaluations} cases ({len(res.nontrivial)} distinct non-trivial); "
          f"{len(real)} violation(s); {len(res.known_hits)} known finding(s); {wall:.1f}s")
    return rc


BASE_TRUST = [
    "Coq 8.16.1 kernel (coqc; vm_compute for finite sweeps); no native_compute",
    "extraction: ExtrOcamlBasic + ExtrOcamlString (their standard Extract Inductive bool/option/unit/list/prod/sumbool/sumor/ascii/string directives, no directive of our own), OCaml 4.13.1, ocaml/driver.ml",
    "harness: gen_tables.py, generators, canonicalisers and implementation drivers in /verif/harness",
    "CPython float/repr/format, re, jinja2 are modelled or observed, not verified",
]
