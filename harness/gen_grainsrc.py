"""Translator: the rate_* methods of /repo's dust-model classes -> coq/gen/GrainLive.v (C11).

Fail-closed symbolic evaluation of straight-line method bodies (Python ast):
    super().rate_X(reac)                        skipped (argument checks of the base class)
    v = reac.symbols.<attr>.symbol              the identifier atom of that reaction symbol (table RSYM below)
    v = self.symbols.<attr>.symbol              the identifier atom of that grain symbol: looked up on a LIVE instance of the class
                                                (group 2, so that a symbol registered without the group suffix shows)
    spec = reac.reactants[0] / [spec] = [...]    the species;  re1, re2 = reac.reactants  the two species of a surface reaction
    a = reac.alpha                              the coefficient atom
    x = f"..." / " * ".join([...]) / x = f"...{x}..."   atom strings; {spec.A} / {spec.massnumber} -> A1, eb_{spec.alias} -> the
                                                identifier atom Neb1, {spec.binding_energy} -> E1, {spec.photon_yield or D} -> Y1
    if / elif chains on the species            one translation per branch, keyed by the test text
Anything else aborts (the build then writes a stub and only Props/C11.live_grain_sources stops checking)."""
import ast
import sys
from pathlib import Path

RSYM = {"temperature": 0, "dust_temperature": 1, "cosmic_ray_ionization_rate": 2, "ism_cosmic_ray_ionization_rate": 3,
        "radiation_field": 4, "visual_extinction": 5, "H2_formation_rate": 6}
GS = ["rG", "gdens", "opt_frz", "opt_thd", "cov", "nMono", "sites", "densites", "opt_uvd", "garea", "opt_crd", "duty",
      "Tcr", "freq", "quan", "hop", "unisites", "gxsec", "fr", "mant", "mantabund", "eb_uvd", "uvcreff", "eb_crd",
      "crdeseff", "opt_h2d", "eb_h2d", "h2deseff"]


class Abort(Exception):
    pass


def qs(s):
    return '"' + s.replace('"', '""') + '"'


def grain_atom(inst, attr):
    sym = getattr(inst.symbols, attr).symbol
    if sym.endswith("2") and sym[:-1] in GS:
        return f"[N {10 + GS.index(sym[:-1])}]"
    if sym == "opt_thd":                       # registered without the group suffix (RR07X)
        return "[N 39]"
    if sym in ("habing", "crphot"):            # constants registered without suffix: plain text in the model
        return f"(tx {qs(sym)})"
    raise Abort(f"grain symbol {attr} -> {sym!r} is not in the model's table")


class Tr:
    def __init__(self, inst):
        self.inst = inst
        self.defaults = []
        self.guards = []

    def fstr(self, e, env):
        parts = []
        vals = list(e.values)
        k = 0
        while k < len(vals):
            v = vals[k]
            if isinstance(v, ast.Constant):
                text = v.value
                nxt = vals[k + 1] if k + 1 < len(vals) else None
                if text.endswith("eb_") and isinstance(nxt, ast.FormattedValue) and ast.unparse(nxt.value) in ("spec.alias",):
                    if text[:-3]:
                        parts.append(f"tx {qs(text[:-3])}")
                    parts.append("[N 38]")
                    k += 2
                    continue
                parts.append(f"tx {qs(text)}")
            elif isinstance(v, ast.FormattedValue) and v.conversion == -1 and v.format_spec is None:
                src = ast.unparse(v.value)
                if isinstance(v.value, ast.Name) and v.value.id in env:
                    parts.append(env[v.value.id])
                elif src in ("spec.A", "spec.massnumber"):
                    parts.append("A1")
                elif src == "spec.binding_energy":
                    parts.append("E1")
                elif isinstance(v.value, ast.BoolOp) and isinstance(v.value.op, ast.Or) and ast.unparse(v.value.values[0]) == "spec.photon_yield":
                    self.defaults.append(ast.unparse(v.value.values[1]))
                    parts.append("Y1")
                else:
                    raise Abort(f"format value {src}")
            else:
                raise Abort(ast.unparse(v))
            k += 1
        return "(" + " ++ ".join(parts) + ")" if parts else "[]"

    def expr(self, e, env):
        if isinstance(e, ast.JoinedStr):
            return self.fstr(e, env)
        if isinstance(e, ast.Constant) and isinstance(e.value, str):
            return "[]" if e.value == "" else f"(tx {qs(e.value)})"
        if isinstance(e, ast.Call) and isinstance(e.func, ast.Attribute) and e.func.attr == "join" and isinstance(e.func.value, ast.Constant) \
                and e.func.value.value == " * " and len(e.args) == 1 and isinstance(e.args[0], ast.List):
            return "(joinstar [" + "; ".join(self.expr(x, env) for x in e.args[0].elts) + "])"
        if isinstance(e, ast.Name) and e.id in env:
            return env[e.id]
        raise Abort(ast.unparse(e))

    def block(self, stmts, env):
        """-> list of (condition text, rate term)"""
        env = dict(env)
        for i, st in enumerate(stmts):
            src = ast.unparse(st)
            if isinstance(st, ast.Expr) and src.startswith("super()."):
                continue
            if isinstance(st, ast.Return):
                if isinstance(st.value, ast.Name) and st.value.id in env:
                    return [("", env[st.value.id])]
                raise Abort(src)
            if isinstance(st, ast.If) and len(st.body) == 1 and isinstance(st.body[0], ast.Raise) and not st.orelse:
                self.guards.append(ast.unparse(st.test))     # an argument check of the base class: recorded, not a branch
                continue
            if isinstance(st, ast.If):
                out = []
                node = st
                rest = stmts[i + 1:]
                while True:
                    for cond, term in self.block(list(node.body) + rest, env):
                        out.append(((ast.unparse(node.test) + (" & " + cond if cond else "")), term))
                    if len(node.orelse) == 1 and isinstance(node.orelse[0], ast.If):
                        node = node.orelse[0]
                    else:
                        for cond, term in self.block(list(node.orelse) + rest, env):
                            out.append((("else" + (" & " + cond if cond else "")), term))
                        return out
            if not isinstance(st, ast.Assign) or len(st.targets) != 1:
                raise Abort(src)
            tgt, val = st.targets[0], st.value
            vs = ast.unparse(val)
            if isinstance(tgt, ast.Name):
                n = tgt.id
                if vs.startswith("reac.symbols.") and vs.endswith(".symbol"):
                    attr = vs[len("reac.symbols."):-len(".symbol")]
                    if attr not in RSYM:
                        raise Abort(f"reaction symbol {attr}")
                    env[n] = f"[N {RSYM[attr]}]"
                elif vs.startswith("self.symbols.") and vs.endswith(".symbol"):
                    env[n] = grain_atom(self.inst, vs[len("self.symbols."):-len(".symbol")])
                elif vs == "reac.reactants[0]" and n == "spec":
                    pass
                elif vs == "reac.alpha" and n == "a":
                    env[n] = "a"
                elif vs == "self._rate_surface(reac)":
                    env[n] = "SURFACE"
                else:
                    env[n] = self.expr(val, env)
            elif src == "[spec] = [s for s in reac.reactants if not s.is_grain]":
                pass
            elif src == "re1, re2 = reac.reactants":
                pass
            elif src == "eb1, nmass1, eb2, nmass2 = (re1.eb, re1.A, re2.eb, re2.A)":
                env.update(eb1="E1", nmass1="A1", eb2="E2", nmass2="A2")
            else:
                raise Abort(src)
        raise Abort("no return")


def translate(repo, modfile, cls, live_cls, methods, tag):
    tree = ast.parse((Path(repo) / modfile).read_text())
    cdef = next((c for c in tree.body if isinstance(c, ast.ClassDef) and c.name == cls), None)
    if cdef is None:
        raise Abort(f"class {cls} not found")
    inst = live_cls(group=2)
    out = []
    for m in methods:
        fn = next((f for f in cdef.body if isinstance(f, ast.FunctionDef) and f.name == m), None)
        if fn is None:
            raise Abort(f"{cls}.{m} not found")
        tr = Tr(inst)
        body = [s for s in fn.body if not (isinstance(s, ast.Expr) and isinstance(s.value, ast.Constant))]
        branches = tr.block(body, {})
        name = f"{tag}_{m}_src"
        if len(branches) == 1 and branches[0][0] == "":
            out.append(f"Definition {name} : txt := {branches[0][1]}.")
        else:
            out.append(f"Definition {name} : list (string * txt) :=\n  [ " + ";\n    ".join(f"({qs(c)}, {t})" for c, t in branches) + " ].")
        out.append(f"Definition {name}_yield_default : list string := [" + "; ".join(qs(d) for d in tr.defaults) + "].")
        if tr.guards:
            out.append(f"Definition {name}_guards : list string := [" + "; ".join(qs(g) for g in tr.guards) + "].")
    return "\n".join(out)


def main(repo, outdir, name="GrainLive.v"):
    from naunet.grains.grain import Grain
    from naunet.grains.hh93grain import HH93Grain
    from naunet.grains.rr07grain import RR07Grain, RR07XGrain
    parts = ["(* GENERATED on every run by harness/gen_grainsrc.py from the rate_* methods of /repo's dust models - do not edit *)",
             "From Coq Require Import List String Ascii ZArith.",
             "From Naunet Require Import Lib.ListX Lib.PyStr Model.CExpr Model.RateGas Model.RateGrain.",
             "Import ListNotations.", "Open Scope string_scope.", "Open Scope list_scope.", "",
             "Section Src.", "Variable ka : cls.", "Let a := coef ka 0.",
             "Let A1 := [M 3].  Let E1 := [M 4].  Let Y1 := [M 5].  Let A2 := [M 6].  Let E2 := [M 7].",
             "Let SURFACE : txt := [N 999].    (* the result of _rate_surface inside rate_reactive_desorption / rate_surface_twobody *)", ""]
    parts.append(translate(repo, "naunet/grains/grain.py", "Grain", Grain, ["rate_depletion"], "base"))
    parts.append(translate(repo, "naunet/grains/hh93grain.py", "HH93Grain", HH93Grain,
                           ["rate_depletion", "rate_thermal_desorption", "rate_photon_desorption", "rate_cosmicray_desorption",
                            "rate_electron_capture", "rate_recombination", "_rate_surface", "rate_surface_twobody", "rate_reactive_desorption"], "hh93"))
    parts.append(translate(repo, "naunet/grains/rr07grain.py", "RR07Grain", RR07Grain,
                           ["rate_depletion", "rate_photon_desorption", "rate_cosmicray_desorption", "rate_h2_desorption"], "rr07"))
    parts.append(translate(repo, "naunet/grains/rr07grain.py", "RR07XGrain", RR07XGrain, ["rate_thermal_desorption"], "rr07x"))
    parts.append("")
    parts.append("End Src.")
    Path(outdir, name).write_text("\n".join(parts) + "\n")


if __name__ == "__main__":
    main(sys.argv[1], sys.argv[2])
