(** The few CPython str / re primitives naunet uses, on ASCII strings, with their
    CPython semantics.  Executable definitions only. *)
From Coq Require Import List Arith Bool String Ascii ZArith.
Import ListNotations.
Open Scope string_scope.

Definition chars (s : string) : list ascii := list_ascii_of_string s.
Definition str (l : list ascii) : string := string_of_list_ascii l.

Definition ascii_eqb := Ascii.eqb.

Fixpoint starts_with (p s : list ascii) : bool :=
  match p, s with
  | [], _ => true
  | _ :: _, [] => false
  | a :: p', b :: s' => Ascii.eqb a b && starts_with p' s'
  end.

(** re.finditer(literal, s): start positions of the leftmost non-overlapping
    occurrences of a non-empty literal.  [fuel] = length s. *)
Fixpoint find_all_from (fuel : nat) (p : list ascii) (s : list ascii) (pos : nat) : list nat :=
  match fuel with
  | O => []
  | S f =>
      match s with
      | [] => []
      | _ :: s' =>
          if starts_with p s
          then pos :: find_all_from f p (skipn (List.length p) s) (pos + List.length p)
          else find_all_from f p s' (S pos)
      end
  end.
Definition find_all (p s : list ascii) : list nat :=
  match p with [] => [] | _ => find_all_from (List.length s) p s 0 end.

(** str.replace(old, new) for a non-empty [old]: leftmost, non-overlapping, all *)
Fixpoint replace_from (fuel : nat) (old new s : list ascii) : list ascii :=
  match fuel with
  | O => s
  | S f =>
      match s with
      | [] => []
      | c :: s' =>
          if starts_with old s
          then new ++ replace_from f old new (skipn (List.length old) s)
          else c :: replace_from f old new s'
      end
  end.
Definition replace_l (old new s : list ascii) : list ascii :=
  match old with [] => s | _ => replace_from (List.length s) old new s end.
Definition replace (old new s : string) : string := str (replace_l (chars old) (chars new) (chars s)).

(** re.sub(c + "*$", "", s): drop the trailing run of character c *)
Fixpoint strip_trailing_l (c : ascii) (s : list ascii) : list ascii :=
  match s with
  | [] => []
  | a :: r => match strip_trailing_l c r with
              | [] => if Ascii.eqb a c then [] else [a]
              | r' => a :: r'
              end
  end.
Fixpoint count_trailing_l (c : ascii) (s : list ascii) : nat :=
  match s with
  | [] => 0
  | a :: r => if forallb (Ascii.eqb c) (a :: r) then S (List.length r) else count_trailing_l c r
  end.

Definition is_digit (c : ascii) : bool :=
  let n := nat_of_ascii c in Nat.leb 48 n && Nat.leb n 57.
Definition is_upper (c : ascii) : bool :=
  let n := nat_of_ascii c in Nat.leb 65 n && Nat.leb n 90.
Definition is_lower (c : ascii) : bool :=
  let n := nat_of_ascii c in Nat.leb 97 n && Nat.leb n 122.
Definition is_alnum (c : ascii) : bool := is_digit c || is_upper c || is_lower c.

(* str.isdigit() on ASCII: non-empty and all digits *)
Definition all_digits (s : list ascii) : bool :=
  match s with [] => false | _ => forallb is_digit s end.

Definition to_upper (c : ascii) : ascii :=
  if is_lower c then ascii_of_nat (nat_of_ascii c - 32) else c.
Definition to_lower (c : ascii) : ascii :=
  if is_upper c then ascii_of_nat (nat_of_ascii c + 32) else c.
Definition upper (s : string) : string := str (map to_upper (chars s)).
Definition lower (s : string) : string := str (map to_lower (chars s)).

(* int(digits) *)
Fixpoint digits_val (s : list ascii) (acc : N) : N :=
  match s with
  | [] => acc
  | c :: r => digits_val r (acc * 10 + N.of_nat (nat_of_ascii c - 48))%N
  end.

Definition slice (s : list ascii) (a b : nat) : list ascii := firstn (b - a) (skipn a s).

Definition is_space (c : ascii) : bool :=
  match c with
  | " "%char | "009"%char | "010"%char | "011"%char | "012"%char | "013"%char => true
  | _ => false
  end.

(* str.strip() *)
Fixpoint lstrip_l (s : list ascii) : list ascii :=
  match s with [] => [] | c :: r => if is_space c then lstrip_l r else s end.
Definition rstrip_l (s : list ascii) : list ascii := rev (lstrip_l (rev s)).
Definition strip_l (s : list ascii) : list ascii := rstrip_l (lstrip_l s).
Definition strip (s : string) : string := str (strip_l (chars s)).

(* str.split() on whitespace runs *)
Fixpoint split_ws_go (s : list ascii) (cur : list ascii) : list (list ascii) :=
  match s with
  | [] => match cur with [] => [] | _ => [rev cur] end
  | c :: r =>
      if is_space c
      then match cur with [] => split_ws_go r [] | _ => rev cur :: split_ws_go r [] end
      else split_ws_go r (c :: cur)
  end.
Definition split_ws (s : string) : list string := map str (split_ws_go (chars s) []).

(* str.split(sep) for a one-character separator *)
Fixpoint split_on_go (sep : ascii) (s : list ascii) (cur : list ascii) : list (list ascii) :=
  match s with
  | [] => [rev cur]
  | c :: r => if Ascii.eqb c sep then rev cur :: split_on_go sep r [] else split_on_go sep r (c :: cur)
  end.
Definition split_on (sep : ascii) (s : string) : list string := map str (split_on_go sep (chars s) []).

Fixpoint repeat_char (c : ascii) (n : nat) : list ascii :=
  match n with O => [] | S m => c :: repeat_char c m end.

(* sep.join(fields) for a one-character separator *)
Fixpoint join_l (sep : ascii) (fs : list (list ascii)) : list ascii :=
  match fs with
  | [] => []
  | [f] => f
  | f :: r => f ++ sep :: join_l sep r
  end.
Definition join (sep : ascii) (fs : list string) : string := str (join_l sep (map chars fs)).
