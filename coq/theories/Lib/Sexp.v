(** S-expressions: the one wire format between the harness and the model.
    Executable definitions only. *)
From Coq Require Import List String Ascii ZArith Bool.
Import ListNotations.
Open Scope string_scope.

Inductive sexp : Type :=
| A : string -> sexp
| L : list sexp -> sexp.

Inductive token : Type := TOpen | TClose | TAtom (s : string).

Definition is_ws (c : ascii) : bool :=
  match c with
  | " "%char => true
  | "009"%char => true
  | "010"%char => true
  | "013"%char => true
  | _ => false
  end.

Fixpoint rev_string_acc (s acc : string) : string :=
  match s with
  | EmptyString => acc
  | String c r => rev_string_acc r (String c acc)
  end.
Definition rev_string (s : string) : string := rev_string_acc s EmptyString.

(* mode: 0 = between tokens, 1 = inside bare atom, 2 = inside quoted atom,
   3 = inside quoted atom just after a backslash.  [cur] is reversed. *)
Fixpoint tokenize_go (mode : nat) (cur : string) (s : string) (acc : list token)
  : list token :=
  match s with
  | EmptyString =>
      match mode with
      | 0 => rev acc
      | _ => rev (TAtom (rev_string cur) :: acc)
      end
  | String c r =>
      match mode with
      | 0 =>
          if is_ws c then tokenize_go 0 EmptyString r acc
          else match c with
               | "("%char => tokenize_go 0 EmptyString r (TOpen :: acc)
               | ")"%char => tokenize_go 0 EmptyString r (TClose :: acc)
               | """"%char => tokenize_go 2 EmptyString r acc
               | _ => tokenize_go 1 (String c EmptyString) r acc
               end
      | 1 =>
          if is_ws c then tokenize_go 0 EmptyString r (TAtom (rev_string cur) :: acc)
          else match c with
               | "("%char => tokenize_go 0 EmptyString r (TOpen :: TAtom (rev_string cur) :: acc)
               | ")"%char => tokenize_go 0 EmptyString r (TClose :: TAtom (rev_string cur) :: acc)
               | _ => tokenize_go 1 (String c cur) r acc
               end
      | 2 =>
          match c with
          | """"%char => tokenize_go 0 EmptyString r (TAtom (rev_string cur) :: acc)
          | "\"%char => tokenize_go 3 cur r acc
          | _ => tokenize_go 2 (String c cur) r acc
          end
      | _ =>
          match c with
          | "n"%char => tokenize_go 2 (String "010"%char cur) r acc
          | "t"%char => tokenize_go 2 (String "009"%char cur) r acc
          | "r"%char => tokenize_go 2 (String "013"%char cur) r acc
          | _ => tokenize_go 2 (String c cur) r acc
          end
      end
  end.

Definition tokenize (s : string) : list token := tokenize_go 0 EmptyString s [].

(* stack parser: [cur] is the reversed list under construction,
   [stack] the reversed enclosing lists *)
Fixpoint parse_go (ts : list token) (cur : list sexp) (stack : list (list sexp))
  : option sexp :=
  match ts with
  | [] => match stack, cur with
          | [], [x] => Some x
          | _, _ => None
          end
  | TAtom s :: r => parse_go r (A s :: cur) stack
  | TOpen :: r => parse_go r [] (cur :: stack)
  | TClose :: r =>
      match stack with
      | [] => None
      | up :: st => parse_go r (L (rev cur) :: up) st
      end
  end.

Definition parse_sexp (s : string) : option sexp := parse_go (tokenize s) [] [].

Definition needs_quote_char (c : ascii) : bool :=
  is_ws c ||
  match c with
  | "("%char | ")"%char | """"%char | "\"%char => true
  | _ => false
  end.

Fixpoint needs_quote (s : string) : bool :=
  match s with
  | EmptyString => false
  | String c r => needs_quote_char c || needs_quote r
  end.

Fixpoint escape (s : string) : string :=
  match s with
  | EmptyString => EmptyString
  | String c r =>
      match c with
      | """"%char => String "\"%char (String """"%char (escape r))
      | "\"%char => String "\"%char (String "\"%char (escape r))
      | "010"%char => String "\"%char (String "n"%char (escape r))
      | "009"%char => String "\"%char (String "t"%char (escape r))
      | "013"%char => String "\"%char (String "r"%char (escape r))
      | _ => String c (escape r)
      end
  end.

Definition print_atom (s : string) : string :=
  match s with
  | EmptyString => """"""
  | _ => if needs_quote s then """" ++ escape s ++ """" else s
  end.

Fixpoint print_sexp (x : sexp) : string :=
  match x with
  | A s => print_atom s
  | L l =>
      "(" ++
      (fix go (l : list sexp) : string :=
         match l with
         | [] => ""
         | [y] => print_sexp y
         | y :: r => print_sexp y ++ " " ++ go r
         end) l ++ ")"
  end.

(** decimal numbers *)
Definition digit_val (c : ascii) : option Z :=
  let n := Z.of_nat (nat_of_ascii c) in
  if (48 <=? n)%Z && (n <=? 57)%Z then Some (n - 48)%Z else None.

Fixpoint parse_digits (s : string) (acc : Z) : option Z :=
  match s with
  | EmptyString => Some acc
  | String c r => match digit_val c with
                  | Some d => parse_digits r (acc * 10 + d)%Z
                  | None => None
                  end
  end.

Definition parse_Z (s : string) : option Z :=
  match s with
  | EmptyString => None
  | String "-"%char r =>
      match r with
      | EmptyString => None
      | _ => option_map Z.opp (parse_digits r 0%Z)
      end
  | _ => parse_digits s 0%Z
  end.

Definition digit_char (d : Z) : ascii := ascii_of_nat (Z.to_nat (48 + d)).

Fixpoint print_pos_fuel (fuel : nat) (n : Z) (acc : string) : string :=
  match fuel with
  | O => acc
  | S f =>
      if (n <? 10)%Z then String (digit_char n) acc
      else print_pos_fuel f (n / 10)%Z (String (digit_char (n mod 10)%Z) acc)
  end.

Definition print_Z (n : Z) : string :=
  if (n <? 0)%Z
  then String "-"%char (print_pos_fuel (S (Z.to_nat (Z.log2 (- n)))) (- n)%Z EmptyString)
  else print_pos_fuel (S (Z.to_nat (Z.log2 n))) n EmptyString.

Definition zs (n : Z) : sexp := A (print_Z n).
Definition ns (n : nat) : sexp := A (print_Z (Z.of_nat n)).
Definition bs (b : bool) : sexp := A (if b then "1" else "0").

(** typed readers *)
Definition get_Z (x : sexp) : option Z :=
  match x with A s => parse_Z s | L _ => None end.
Definition get_nat (x : sexp) : option nat :=
  match get_Z x with
  | Some z => if (z <? 0)%Z then None else Some (Z.to_nat z)
  | None => None
  end.
Definition get_str (x : sexp) : option string :=
  match x with A s => Some s | L _ => None end.
Definition get_bool (x : sexp) : option bool :=
  match x with A "1" => Some true | A "0" => Some false | _ => None end.

Fixpoint all_some {X} (l : list (option X)) : option (list X) :=
  match l with
  | [] => Some []
  | None :: _ => None
  | Some x :: r => option_map (cons x) (all_some r)
  end.

Definition get_list {X} (f : sexp -> option X) (x : sexp) : option (list X) :=
  match x with
  | L l => all_some (map f l)
  | A _ => None
  end.

Definition err (msg : string) : sexp := L [A "error"; A msg].
