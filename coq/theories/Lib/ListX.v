(** Small executable list helpers shared by the model. *)
From Coq Require Import List Arith Bool ZArith String Ascii.
Import ListNotations.

Section Gen.
Context {X : Type}.
Variable eqb : X -> X -> bool.

Fixpoint memb (x : X) (l : list X) : bool :=
  match l with [] => false | y :: r => eqb x y || memb x r end.

Fixpoint count (x : X) (l : list X) : nat :=
  match l with [] => 0 | y :: r => (if eqb x y then 1 else 0) + count x r end.

(* Python list.remove(x): drop the first element equal to x *)
Fixpoint remove1 (x : X) (l : list X) : list X :=
  match l with
  | [] => []
  | y :: r => if eqb x y then r else y :: remove1 x r
  end.

(* Python list.index(x) *)
Fixpoint index_of (x : X) (l : list X) : option nat :=
  match l with
  | [] => None
  | y :: r => if eqb x y then Some 0 else option_map S (index_of x r)
  end.

(* multiset equality, as collections.Counter.__eq__ *)
Definition mset_eqb (a b : list X) : bool :=
  Nat.eqb (List.length a) (List.length b) && forallb (fun x => Nat.eqb (count x a) (count x b)) a.

Fixpoint dedup (l : list X) : list X :=
  match l with
  | [] => []
  | x :: r => if memb x r then dedup r else x :: dedup r
  end.

(* keep first occurrences *)
Fixpoint nub_acc (seen : list X) (l : list X) : list X :=
  match l with
  | [] => []
  | x :: r => if memb x seen then nub_acc seen r else x :: nub_acc (x :: seen) r
  end.
Definition nub (l : list X) : list X := nub_acc [] l.
End Gen.

Fixpoint list_eqb {X} (eqb : X -> X -> bool) (a b : list X) : bool :=
  match a, b with
  | [], [] => true
  | x :: r, y :: s => eqb x y && list_eqb eqb r s
  | _, _ => false
  end.

Fixpoint enumerate_from {X} (n : nat) (l : list X) : list (nat * X) :=
  match l with [] => [] | x :: r => (n, x) :: enumerate_from (S n) r end.
Definition enumerate {X} (l : list X) := enumerate_from 0 l.

Fixpoint update_nth {X} (n : nat) (f : X -> X) (l : list X) : list X :=
  match l, n with
  | [], _ => []
  | x :: r, O => f x :: r
  | x :: r, S m => x :: update_nth m f r
  end.

Fixpoint remove_nth {X} (n : nat) (l : list X) : list X :=
  match l, n with
  | [], _ => []
  | _ :: r, O => r
  | x :: r, S m => x :: remove_nth m r
  end.

Definition sum_nat (l : list nat) : nat := fold_right Nat.add 0 l.

(* insertion sort with a boolean "less or equal"; stable *)
Section Sort.
Context {X : Type}.
Variable leb : X -> X -> bool.
Fixpoint insert_sorted (x : X) (l : list X) : list X :=
  match l with
  | [] => [x]
  | y :: r => if leb x y then x :: y :: r else y :: insert_sorted x r
  end.
Definition isort (l : list X) : list X := fold_right insert_sorted [] l.
End Sort.

(* byte-wise string comparison, as Python's str ordering on ASCII *)
Fixpoint string_leb (a b : string) : bool :=
  match a, b with
  | EmptyString, _ => true
  | String _ _, EmptyString => false
  | String x r, String y s =>
      let nx := nat_of_ascii x in
      let ny := nat_of_ascii y in
      if Nat.ltb nx ny then true
      else if Nat.ltb ny nx then false
      else string_leb r s
  end.
Definition string_ltb (a b : string) : bool := string_leb a b && negb (String.eqb a b).
