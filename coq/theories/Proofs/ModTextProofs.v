(** C01 / C02 / C13 (text level): rows holding ODE-modifier terms.  The factor of a modifier is arbitrary user
    text; whenever it parses on its own as a C expression, the whole row - "0.0", reaction terms, and the
    terms " + (fact) * y[..]*y[..]" - lexes and parses to the left-nested sum in which the factor appears as
    the very expression it parses to, and the value of the row is the mass-action law plus, for each modifier
    term, the value of its factor times the product of its dependencies. *)
From Coq Require Import List Arith Bool String Ascii Lia.
From Coq Require Import Ring.
From Naunet Require Import Lib.ListX Lib.PyStr Model.CExpr Model.OdeGen Model.OdeText Proofs.OdeSem
  Proofs.OdeTextProofs Proofs.ParserFrame Proofs.LexerFrame.
Import ListNotations.

(** ** tokens and expressions of general terms *)
Inductive gsterm := SR (s : sterm) | SM (ft : list tok) (fs : list factor).

Definition fe_of (ft : list tok) : ex := match parse_toks ft with Some e => e | None => ELit [] end.
Definition mulf (acc : ex) (f : factor) : ex := EBin "*"%char acc (fex f).
Definition g_neg (g : gsterm) : bool := match g with SR s => s_neg s | SM _ _ => false end.
Definition g_body (g : gsterm) : list tok :=
  match g with
  | SR s => prod_toks (s_coef s) (s_vars s)
  | SM ft fs => (TOp "("%char :: ft ++ TOp ")"%char :: more_toks fs)%list
  end.
Definition g_ex (g : gsterm) : ex :=
  match g with
  | SR s => prod_ex (s_coef s) (s_vars s)
  | SM ft fs => fold_left mulf fs (fe_of ft)
  end.
Definition gs_toks (g : gsterm) : list tok := sign_tok (g_neg g) :: g_body g.
Definition gadd_ex (acc : ex) (g : gsterm) : ex := EBin (if g_neg g then "-"%char else "+"%char) acc (g_ex g).
Definition gsum_toks (lit : list ascii) (gs : list gsterm) : list tok := TNum lit :: flat_map gs_toks gs.
Definition gsum_ex (lit : list ascii) (gs : list gsterm) : ex := fold_left gadd_ex gs (ELit lit).
Definition gs_ok (g : gsterm) : Prop := match g with SR _ => True | SM ft _ => parse_toks ft <> None end.

Definition gneed1 (g : gsterm) : nat :=
  match g with SR s => List.length (s_vars s) | SM ft fs => 10 * List.length ft + 14 + List.length fs end.
Definition gneed (gs : list gsterm) : nat := fold_right (fun g m => Nat.max (gneed1 g) m) 0 gs.

Lemma parse_toks_pcond ft : parse_toks ft <> None ->
  pcond (10 * List.length ft + 10) ft = Some (fe_of ft, []).
Proof.
  unfold fe_of, parse_toks. intro H.
  destruct (pcond (10 * List.length ft + 10) ft) as [[e [|t r]]|]; try (exfalso; apply H; reflexivity).
  reflexivity.
Qed.

(* a parenthesised factor followed by "* y[..]" factors *)
Lemma pterm_mod ft fs rest n : parse_toks ft <> None -> stops_term rest ->
  10 * List.length ft + 14 + List.length fs + 10 <= n ->
  pterm n (TOp "("%char :: ft ++ TOp ")"%char :: more_toks fs ++ rest) = Some (fold_left mulf fs (fe_of ft), rest).
Proof.
  intros Hp Hs Hn. do 3 (destruct n as [|n]; [lia|]).
  rewrite pterm_S, punary_paren, pprimary_paren.
  rewrite (pcond_frame _ _ _ _ n _ (parse_toks_pcond ft Hp)) by lia.
  cbn [app]. apply pterm_rest_more; auto. lia.
Qed.

Lemma pterm_gbody g tail n : gs_ok g -> stops_term tail -> gneed1 g + 12 <= n ->
  pterm n (g_body g ++ tail) = Some (g_ex g, tail).
Proof.
  intros Hok Hs Hn. destruct g as [s|ft fs]; cbn [g_body g_ex gneed1] in *.
  - apply pterm_prod; auto; lia.
  - cbn [app]. rewrite <- app_assoc. cbn [app]. apply pterm_mod; auto; lia.
Qed.

Lemma stops_term_gs gs rest : stops_term rest -> stops_term (flat_map gs_toks gs ++ rest).
Proof.
  destruct gs as [|g gs]; simpl; auto. unfold sign_tok. destruct (g_neg g); simpl; exact (fun _ => I).
Qed.

Lemma pexpr_rest_plus n l ts : pexpr_rest (S n) l (TOp "+"%char :: ts) =
  match pterm n ts with Some (e, r') => pexpr_rest n (EBin "+"%char l e) r' | None => None end.
Proof. reflexivity. Qed.
Lemma pexpr_rest_minus n l ts : pexpr_rest (S n) l (TOp "-"%char :: ts) =
  match pterm n ts with Some (e, r') => pexpr_rest n (EBin "-"%char l e) r' | None => None end.
Proof. reflexivity. Qed.

Lemma pexpr_rest_gterms : forall gs l rest n, Forall gs_ok gs -> stops_expr rest ->
  List.length gs + gneed gs + 14 <= n ->
  pexpr_rest n l (flat_map gs_toks gs ++ rest) = Some (fold_left gadd_ex gs l, rest).
Proof.
  induction gs as [|g gs IH]; intros l rest n Hok Hs Hn.
  - destruct n as [|n]; [simpl in Hn; lia|]. apply pexpr_rest_stop. exact Hs.
  - inversion Hok as [|? ? Hg Hgs]; subst.
    cbn [gneed fold_right List.length] in Hn. fold (gneed gs) in Hn.
    destruct n as [|n]; [lia|].
    cbn [flat_map]. unfold gs_toks at 1. rewrite <- ?app_assoc. cbn [app]. rewrite <- ?app_assoc.
    assert (Hp : pterm n (g_body g ++ flat_map gs_toks gs ++ rest) = Some (g_ex g, (flat_map gs_toks gs ++ rest)%list)).
    { apply pterm_gbody; auto. apply stops_term_gs. destruct Hs; auto. lia. }
    cbn [fold_left]. unfold gadd_ex at 2. unfold sign_tok.
    destruct (g_neg g).
    + rewrite pexpr_rest_minus, Hp. apply IH; auto. lia.
    + rewrite pexpr_rest_plus, Hp. apply IH; auto. lia.
Qed.

Lemma pexpr_gsum lit gs n : Forall gs_ok gs -> List.length gs + gneed gs + 18 <= n ->
  pexpr n (gsum_toks lit gs) = Some (gsum_ex lit gs, []).
Proof.
  intros Hok Hn. do 5 (destruct n as [|n]; [lia|]).
  unfold gsum_toks.
  assert (Hs : stops_term (flat_map gs_toks gs ++ [])) by (apply stops_term_gs; exact I).
  rewrite <- (app_nil_r (flat_map gs_toks gs)).
  change (pexpr (S (S (S (S (S n))))) (TNum lit :: (flat_map gs_toks gs ++ [])%list))
    with (match pterm_rest (S (S (S n))) (ELit lit) (flat_map gs_toks gs ++ []) with
          | Some (l, r) => pexpr_rest (S (S (S (S n)))) l r | None => None end).
  rewrite pterm_rest_stop by exact Hs.
  apply pexpr_rest_gterms; auto. split; exact I. lia.
Qed.

Theorem parse_toks_gsum lit gs : Forall gs_ok gs -> parse_toks (gsum_toks lit gs) = Some (gsum_ex lit gs).
Proof.
  intro Hok. unfold parse_toks.
  set (N := 10 * List.length (gsum_toks lit gs) + 10).
  assert (HN : List.length gs + gneed gs + 20 <= N).
  { unfold N, gsum_toks. cbn [List.length].
    assert (G : forall l, List.length l + gneed l <= 10 * List.length (flat_map gs_toks l)).
    { induction l as [|g l IH]; simpl; auto.
      rewrite app_length.
      assert (gneed1 g + 1 <= 10 * S (List.length (g_body g))).
      { destruct g as [s|ft fs]; cbn [gneed1 g_body].
        - unfold prod_toks. rewrite app_length.
          assert (List.length (s_vars s) <= List.length (more_toks (s_vars s))).
          { clear. unfold more_toks. induction (s_vars s) as [|f fs IHf]; simpl; auto. lia. }
          lia.
        - cbn [List.length]. rewrite app_length. cbn [List.length].
          assert (List.length fs <= List.length (more_toks fs)).
          { clear. unfold more_toks. induction fs as [|f fs IHf]; simpl; auto. lia. }
          lia. }
      lia. }
    specialize (G gs). lia. }
  destruct N as [|[|N']]; try lia.
  rewrite pcond_S, prel_S.
  rewrite pexpr_gsum by (auto; lia). reflexivity.
Qed.

(** ** the text and its tokens *)
Definition to_gs (g : gterm) : gsterm :=
  match g with GR t => SR (to_sterm t) | GM _ f vs => SM (lex (tx f)) (map yfac vs) end.

Lemma rev_shape (a b c : tok) X Y acc :
  (rev (a :: b :: X ++ c :: Y) ++ acc = rev Y ++ c :: rev X ++ b :: a :: acc)%list.
Proof.
  change (a :: b :: X ++ c :: Y)%list with ([a; b] ++ X ++ [c] ++ Y)%list.
  rewrite !rev_app_distr. cbn [rev app]. rewrite <- !app_assoc. reflexivity.
Qed.

Lemma lex_gterm g r acc :
  lex_go 0 [] (gterm_txt g ++ r)%list acc = lex_go 0 [] r (rev (gs_toks (to_gs g)) ++ acc)%list.
Proof.
  destruct g as [t|sp f vs].
  - exact (lex_term t r acc).
  - cbn [gterm_txt to_gs]. rewrite <- ?app_assoc.
    change (tx " + (" ++ tx f ++ [C ")"%char] ++ vars_txt sp vs ++ r)%list
      with (C " "%char :: C "+"%char :: C " "%char :: C "("%char :: tx f ++ C ")"%char :: (vars_txt sp vs ++ r))%list.
    change (lex_go 0 [] (C " "%char :: C "+"%char :: C " "%char :: C "("%char :: tx f ++ C ")"%char :: (vars_txt sp vs ++ r))%list acc)
      with (lex_go 0 [] (C "("%char :: tx f ++ C ")"%char :: (vars_txt sp vs ++ r))%list (TOp "+"%char :: acc)).
    rewrite lex_paren, lex_vars.
    unfold gs_toks. cbn [g_neg g_body sign_tok]. rewrite rev_shape. reflexivity.
Qed.

Lemma lex_gterms : forall gs r acc,
  lex_go 0 [] (flat_map gterm_txt gs ++ r)%list acc =
  lex_go 0 [] r (rev (flat_map gs_toks (map to_gs gs)) ++ acc)%list.
Proof.
  induction gs as [|g gs IH]; intros r acc. reflexivity.
  cbn [flat_map map]. rewrite <- app_assoc, lex_gterm, IH. f_equal.
  rewrite rev_app_distr, <- app_assoc. reflexivity.
Qed.

(* every term starts with a blank, which closes the literal *)
Lemma gterm_txt_blank g : exists r, gterm_txt g = C " "%char :: r.
Proof. destruct g as [t|sp f vs]; eexists; reflexivity. Qed.

Theorem lex_grhs gs : lex (grhs_txt gs) = gsum_toks zero_lit (map to_gs gs).
Proof.
  unfold lex, grhs_txt, gsum_toks.
  destruct gs as [|g gs].
  - reflexivity.
  - assert (H0 : forall r acc, lex_go 0 [] (map C zero_lit ++ C " "%char :: r)%list acc = lex_go 0 [] (C " "%char :: r) (TNum zero_lit :: acc)).
    { intros r acc. reflexivity. }
    cbn [flat_map]. destruct (gterm_txt_blank g) as (r0 & Hr0).
    rewrite Hr0. cbn [app]. rewrite H0. 
    change (C " "%char :: (r0 ++ flat_map gterm_txt gs))%list with ((C " "%char :: r0) ++ flat_map gterm_txt gs)%list.
    rewrite <- Hr0.
    rewrite <- (app_nil_r (flat_map gterm_txt gs)), lex_gterm, lex_gterms.
    cbn [lex_go flush]. rewrite !rev_app_distr, !rev_involutive. cbn [rev app map flat_map].
    rewrite <- ?app_assoc. reflexivity.
Qed.

Lemma facts_parse_ok gs : facts_parse gs = true -> Forall gs_ok (map to_gs gs).
Proof.
  unfold facts_parse. intro H. rewrite forallb_forall in H. apply Forall_forall. intros x Hx.
  apply in_map_iff in Hx. destruct Hx as (g & <- & Hg). specialize (H g Hg).
  destruct g as [t|sp f vs]; cbn [to_gs gs_ok]; auto.
  unfold parse in H. destruct (parse_toks (lex (tx f))); [discriminate|discriminate H].
Qed.

Theorem parse_grhs gs : facts_parse gs = true ->
  parse (grhs_txt gs) = Some (gsum_ex zero_lit (map to_gs gs)).
Proof. intro H. unfold parse. rewrite lex_grhs. apply parse_toks_gsum. apply facts_parse_ok. exact H. Qed.

(** ** what the parsed row denotes.  Arrays k, kh, kc, y and the operators + - * are read as in C; every other
    form (literals, variables, calls, quotients - whatever the user's factor is made of) is valued by an
    arbitrary function [atom], which must only read the literal 0.0 as zero. *)
Section DenG.
Variable R : Type.
Variables (rO rI : R) (radd rmul rsub : R -> R -> R) (ropp : R -> R).
Hypothesis Rth : ring_theory rO rI radd rmul rsub ropp (@eq R).
Add Ring Rr3 : Rth.
Variable E : env R.
Variable atom : ex -> R.
Hypothesis atom_zero : atom (ELit zero_lit) = rO.

Fixpoint denG (e : ex) : R :=
  match e with
  | EIdx a (EMag i) => arr_val R rO E a i
  | EIdx a (EName i) => arr_val R rO E a i
  | EBin op x y =>
      match op with
      | "+"%char => radd (denG x) (denG y)
      | "-"%char => rsub (denG x) (denG y)
      | "*"%char => rmul (denG x) (denG y)
      | _ => atom e
      end
  | _ => atom e
  end.

(* the reading of a modifier factor: the value of the expression its text parses to *)
Definition fact_val (f : string) : R := denG (fe_of (lex (tx f))).
Hypothesis E_reads_factors : forall f, e_f R E f = fact_val f.

Lemma denG_more : forall vs acc,
  denG (fold_left mulf (map yfac vs) acc) = rmul (denG acc) (prod_y R rI rmul E vs).
Proof.
  induction vs as [|v vs IH]; intro acc; simpl. ring.
  rewrite IH. unfold mulf. cbn [denG fex yfac fst snd fac_ex sub_ex].
  assert (arr_val R rO E (arr_name AY) v = e_y R E v) as -> by reflexivity. ring.
Qed.

Lemma denG_prod a i vs :
  denG (prod_ex (arr_name a, SMag i) (map yfac vs)) = rmul (arr_val R rO E (arr_name a) i) (prod_y R rI rmul E vs).
Proof.
  unfold prod_ex. change (fun acc f => EBin "*"%char acc (fex f)) with mulf. rewrite denG_more. reflexivity.
Qed.

Theorem denG_sum : forall sp e gs, gterms_of sp e = Some gs ->
  denG (gsum_ex zero_lit (map to_gs gs)) = ev_eqn R rO rI radd rmul ropp E e.
Proof.
  assert (G : forall sp e gs acc, gterms_of sp e = Some gs ->
            denG (fold_left gadd_ex (map to_gs gs) acc) = radd (denG acc) (ev_eqn R rO rI radd rmul ropp E e)).
  { induction e as [|t e IH]; intros gs acc H; simpl in H.
    - injection H as <-. simpl. ring.
    - destruct (gterm_of sp t) as [x|] eqn:Ex; [|discriminate].
      destruct (gterms_of sp e) as [xs|] eqn:Exs; [|discriminate]. injection H as <-.
      cbn [map fold_left]. rewrite (IH xs _ eq_refl).
      cbn [ev_eqn]. unfold ev_term, signed.
      unfold gterm_of in Ex.
      destruct (t_coef t) as [l|h|c|f] eqn:Ec.
      4:{ destruct (t_neg t); [discriminate|]. injection Ex as <-.
          unfold gadd_ex; cbn [to_gs g_neg g_ex denG]. rewrite denG_more.
          cbn [coef_val]. rewrite E_reads_factors. unfold fact_val. ring. }
      all: unfold tterm_of in Ex; rewrite Ec in Ex; cbn [arr_of] in Ex; injection Ex as <-;
           unfold gadd_ex; cbn [to_gs g_neg g_ex to_sterm s_neg s_coef s_vars tt_neg tt_arr tt_idx tt_vars];
           destruct (t_neg t); cbn [denG]; rewrite denG_prod; cbn [coef_val].
      all: match goal with |- context [arr_val R rO E (arr_name ?a) ?i] =>
             first [ rewrite (coef_arr R rO E (CK i) a i eq_refl)
                   | rewrite (coef_arr R rO E (CKH i) a i eq_refl)
                   | rewrite (coef_arr R rO E (CKC i) a i eq_refl) ] end; cbn [coef_val]; ring. }
  intros sp e gs H. unfold gsum_ex. rewrite (G sp e gs _ H). cbn [denG]. rewrite atom_zero. ring.
Qed.
End DenG.

(** ** composed with the index-level theorems *)
From Naunet Require Import Proofs.OdeRefine.
Section ModTextLaw.
Variable R : Type.
Variables (rO rI : R) (radd rmul rsub : R -> R -> R) (ropp : R -> R).
Hypothesis Rth : ring_theory rO rI radd rmul rsub ropp (@eq R).

(* a species row with its ODE-modifier terms: the text, read as C, is the mass-action law plus the modifier sum,
   each modifier factor being valued as the expression its own text parses to *)
Theorem rhs_mod_text_lemma (E : env R) (atom : ex -> R) (i : ode_input) (s : nat) (gs : list gterm) :
  atom (ELit zero_lit) = rO ->
  (forall f, e_f R E f = fact_val R rO radd rmul rsub E atom f) ->
  wf_input i -> s < i_nspec i -> gterms_of true (rhs_row i s) = Some gs -> facts_parse gs = true ->
  exists e, parse (grhs_txt gs) = Some e /\
            denG R rO radd rmul rsub E atom e =
            radd (ma_sum R rO rI radd rmul rsub E s 0 (i_rxns i)) (mod_sum R rO rI radd rmul ropp E s (i_mods i)).
Proof.
  intros Hz Hf Hwf Hs Hgs Hp. exists (gsum_ex zero_lit (map to_gs gs)). split.
  - apply parse_grhs. exact Hp.
  - rewrite (denG_sum R rO rI radd rmul rsub ropp Rth E atom Hz Hf true _ _ Hgs).
    apply (rhs_species_row R rO rI radd rmul rsub ropp Rth); assumption.
Qed.

(* a Jacobian entry with modifier terms: the text, read as C, is the formal derivative of the row *)
Theorem jac_mod_text_lemma (E : env R) (atom : ex -> R) (i : ode_input) (row col : nat) (gs : list gterm) :
  atom (ELit zero_lit) = rO ->
  (forall f, e_f R E f = fact_val R rO radd rmul rsub E atom f) ->
  wf_input i -> row < n_eqns i -> col < n_eqns i ->
  gterms_of false (jac_entry i row col) = Some gs -> facts_parse gs = true ->
  exists e, parse (grhs_txt gs) = Some e /\
            denG R rO radd rmul rsub E atom e = deqn R rO rI radd rmul ropp E col (rhs_row i row).
Proof.
  intros Hz Hf Hwf Hr Hc Hgs Hp. exists (gsum_ex zero_lit (map to_gs gs)). split.
  - apply parse_grhs. exact Hp.
  - rewrite (denG_sum R rO rI radd rmul rsub ropp Rth E atom Hz Hf false _ _ Hgs).
    apply (jac_is_formal_derivative R rO rI radd rmul rsub ropp Rth); assumption.
Qed.
End ModTextLaw.

(* every row can be written once no modifier term is negated (the generator never negates one) *)
Lemma gterms_of_total sp e : Forall (fun t => match t_coef t with CF _ => t_neg t = false | _ => True end) e ->
  exists gs, gterms_of sp e = Some gs.
Proof.
  induction 1 as [|t e Ht He IH]. exists []; reflexivity.
  destruct IH as (gs & Hgs). simpl. rewrite Hgs. unfold gterm_of, tterm_of.
  destruct (t_coef t); simpl in *; try (eexists; reflexivity). rewrite Ht. eexists; reflexivity.
Qed.

(* non-vacuity: a row with one reaction term and the modifier factor "-1.0 + nH" *)
Example mod_row_example :
  let gs := [GR {| tt_neg := true; tt_arr := AK; tt_idx := 0; tt_spaced := false; tt_vars := [0; 1] |};
             GM true "-1.0 + nH" [1; 2]] in
  facts_parse gs = true /\
  parse (grhs_txt gs) =
  Some (EBin "+"%char
          (EBin "-"%char (ELit zero_lit)
             (EBin "*"%char (EBin "*"%char (EIdx (arr_name AK) (EMag 0)) (EIdx (arr_name AY) (EName 0))) (EIdx (arr_name AY) (EName 1))))
          (EBin "*"%char (EBin "*"%char (EBin "+"%char (ENeg (ELit (chars "1.0"))) (EVar (chars "nH")))
                            (EIdx (arr_name AY) (EName 1))) (EIdx (arr_name AY) (EName 2)))).
Proof. split; vm_compute; reflexivity. Qed.
