(** C19: the recovery ladder integrates exactly the requested interval or fails. *)
From Coq Require Import List Arith Bool ZArith QArith Lia Lqa.
From Naunet Require Import Lib.ListX Model.Solve.
Import ListNotations.
Open Scope Q_scope.

(* the integrator's contract: a failing call returns a negative flag *)
Definition outcome_ok (o : outcome) : Prop := match o with COk => True | CFail f _ => (f < 0)%Z end.
Definition script_ok (cs : list outcome) : Prop := Forall outcome_ok cs.

Lemma next_c_ok cs : script_ok cs -> outcome_ok (fst (next_c cs)) /\ script_ok (snd (next_c cs)).
Proof. intro H. destruct cs; simpl. split; [exact I | constructor]. inversion H; subst. split; auto. Qed.

(* one call: the state advances exactly as far as the clock; a non-negative flag means tout was reached *)
Lemma cvode_spec tcur tout y cs : script_ok cs ->
  let '(f, t, y', cs') := cvode tcur tout y cs in
  y' - y == t - tcur /\ script_ok cs' /\ ((0 <= f)%Z -> t == tout).
Proof.
  intro H. unfold cvode. destruct (next_c_ok cs H) as [Ho Hr].
  destruct (next_c cs) as [o r]. cbn [fst snd] in *. destruct o.
  - repeat split; auto; try (rewrite Qred_correct; ring); try (intros _; reflexivity).
  - repeat split; auto; try (rewrite !Qred_correct; ring); try (intro Hf; simpl in Ho; lia).
Qed.

Section Ladder.
Variable g : nat -> nat -> Q.
Hypothesis g_last : forall level, g level (10 * level)%nat == 1.

Lemma substeps_spec level nsub : forall k dt tcur y cs calls, script_ok cs ->
  let '(f, t, y', cs', calls') := substeps g level nsub k dt tcur y cs calls in
  y' - y == t - tcur /\ script_ok cs' /\ ((0 <= f)%Z -> (0 < k)%nat -> t == dt * g level nsub).
Proof.
  induction k as [|k IH]; intros dt tcur y cs calls H; simpl.
  - repeat split; auto; try ring. intros _ Hk. lia.
  - pose proof (cvode_spec tcur (dt * g level (nsub - k)) y cs H) as Hc.
    destruct (cvode tcur (dt * g level (nsub - k)) y cs) as [[[f t] y1] cs1].
    destruct Hc as (Hadv & Hok & Hreach).
    destruct (f <? 0)%Z eqn:Ef.
    + repeat split; auto. intro Hf. apply Z.ltb_lt in Ef. lia.
    + destruct k as [|k'].
      * repeat split; auto. intros Hf _. rewrite Nat.sub_0_r in Hreach. apply Hreach. exact Hf.
      * specialize (IH dt t y1 cs1 (S calls) Hok).
        destruct (substeps g level nsub (S k') dt t y1 cs1 (S calls)) as [[[[f2 t2] y2] cs2] calls2].
        destruct IH as (Hadv2 & Hok2 & Hreach2).
        repeat split; auto.
        -- lra.
        -- intros Hf _. apply Hreach2; auto. lia.
Qed.

(* the accounting invariant of the ladder: progress made so far + time still to integrate = dt_init *)
Lemma levels_exact : forall left level cvflag y dt t0 y_init dt_init cs rs calls reinits,
  script_ok cs -> (0 < level)%nat ->
  y - y_init + (dt - t0) == dt_init ->
  let '(res, yf, _, _) := levels g left level cvflag y dt t0 y_init dt_init cs rs calls reinits in
  res = Success -> yf == y_init + dt_init.
Proof.
  induction left as [|left IH]; intros level cvflag y dt t0 y_init dt_init cs rs calls reinits Hs Hl Hinv; cbn [levels].
  - discriminate.
  - set (restart := if ((cvflag <? 0)%Z && (-5 <? cvflag)%Z)%bool then Some (y, dt - t0)
                    else if (cvflag =? -6)%Z then Some (y_init, dt_init) else None).
    assert (forall y1 dt1, restart = Some (y1, dt1) -> y1 - y_init + dt1 == dt_init) as Hre.
    { intros y1 dt1. unfold restart. destruct ((cvflag <? 0)%Z && (-5 <? cvflag)%Z)%bool.
      - intro E; injection E as <- <-. lra.
      - destruct (cvflag =? -6)%Z; [|discriminate]. intro E; injection E as <- <-. lra. }
    destruct restart as [[y1 dt1]|]; [|discriminate].
    specialize (Hre y1 dt1 eq_refl).
    destruct (next_r rs) as [[|fr] rs']; [|discriminate].
    pose proof (substeps_spec level (10 * level) (10 * level) dt1 0 y1 cs calls Hs) as Hsub.
    destruct (substeps g level (10 * level) (10 * level) dt1 0 y1 cs calls) as [[[[f t] y2] cs'] calls'].
    destruct Hsub as (Hadv & Hok & Hreach).
    destruct (0 <=? f)%Z eqn:Ef.
    + intros _. apply Z.leb_le in Ef. assert (t == dt1) as Ht.
      { rewrite Hreach; auto; try lia. rewrite g_last. ring. }
      lra.
    + specialize (IH (S level) f y2 dt1 t y_init dt_init cs' rs' calls' (S reinits) Hok (Nat.lt_0_succ _)).
      apply IH. lra.
Qed.

Theorem solve_exact_lemma dt y0 cs rs : script_ok cs ->
  let '(res, yf, _, _, _) := solve g dt y0 cs rs in
  res = Success -> yf == y0 + dt.
Proof.
  intro H. unfold solve.
  pose proof (cvode_spec 0 dt y0 cs H) as Hc.
  destruct (cvode 0 dt y0 cs) as [[[f t] y] cs'].
  destruct Hc as (Hadv & Hok & Hreach).
  destruct (0 <=? f)%Z eqn:Ef.
  - intros _. apply Z.leb_le in Ef. pose proof (Hreach Ef) as Ht. lra.
  - pose proof (levels_exact 5 1 f y dt t y0 dt cs' rs 1%nat 0%nat Hok (Nat.lt_0_succ _)) as HL.
    destruct (levels g 5 1 f y dt t y0 dt cs' rs 1 0) as [[[res yf] c] r].
    apply HL. lra.
Qed.

(* failure is reported as failure and the initial state is logged; success logs nothing *)
Theorem failure_logged_lemma dt y0 cs rs :
  let '(res, _, _, _, logged) := solve g dt y0 cs rs in
  (res = Failure -> logged = Some y0) /\ (res = Success -> logged = None).
Proof.
  unfold solve. destruct (cvode 0 dt y0 cs) as [[[f t] y] cs'].
  destruct (0 <=? f)%Z. split; [discriminate | reflexivity].
  destruct (levels g 5 1 f y dt t y0 dt cs' rs 1 0) as [[[res yf] c] r].
  destruct res; split; auto; discriminate.
Qed.

(* an unrecoverable flag (anything negative but -1..-4 and -6) at the first call is a failure at once *)
Theorem unrecoverable_lemma dt y0 f rho cs rs :
  (f < 0)%Z -> (f <= -5)%Z -> f <> (-6)%Z ->
  let '(res, _, calls, reinits, _) := solve g dt y0 (CFail f rho :: cs) rs in
  res = Failure /\ calls = 1%nat /\ reinits = 0%nat.
Proof.
  intros H1 H2 H3. unfold solve, cvode. simpl.
  destruct (0 <=? f)%Z eqn:E. apply Z.leb_le in E. lia.
  destruct ((f <? 0)%Z && (-5 <? f)%Z)%bool eqn:E2.
  { apply andb_true_iff in E2. destruct E2 as [_ E2]. apply Z.ltb_lt in E2. lia. }
  destruct (f =? -6)%Z eqn:E3. apply Z.eqb_eq in E3. congruence.
  repeat split.
Qed.

(* a failing re-initialisation is a failure *)
Theorem reinit_failure_lemma dt y0 f rho cs fr rs :
  (f < 0)%Z -> (-5 < f)%Z ->
  let '(res, _, _, _, _) := solve g dt y0 (CFail f rho :: cs) (RFail fr :: rs) in res = Failure.
Proof.
  intros H1 H2. unfold solve, cvode. simpl.
  destruct (0 <=? f)%Z eqn:E. apply Z.leb_le in E. lia.
  assert (((f <? 0)%Z && (-5 <? f)%Z)%bool = true) as ->.
  { apply andb_true_iff. split; [apply Z.ltb_lt | apply Z.ltb_lt]; lia. }
  reflexivity.
Qed.
End Ladder.

(* five levels that all fail: failure after 1 + 5 calls (every call fails at once) *)
Lemma five_levels_lemma g dt y0 :
  let '(res, _, calls, reinits, logged) := solve g dt y0 (repeat (CFail (-1) 0) 6) [] in
  res = Failure /\ calls = 6%nat /\ reinits = 5%nat /\ logged = Some y0.
Proof. repeat split. Qed.

(* the cuSPARSE branch reports success whatever the integrator returned *)
Lemma cusparse_refuted_lemma :
  exists dt y0 cs, fst (solve_cusparse dt y0 cs) = Success /\ ~ snd (solve_cusparse dt y0 cs) == y0 + dt.
Proof.
  exists 1, 0, [CFail (-4) 0]. split. reflexivity. simpl. unfold Qeq. simpl. lia.
Qed.

Lemma odeint_budget_lemma mx n : (mx < n)%nat -> solve_odeint mx n = Failure.
Proof. intro H. unfold solve_odeint. apply Nat.ltb_lt in H. rewrite H. reflexivity. Qed.
Lemma odeint_within_lemma mx n : (n <= mx)%nat -> solve_odeint mx n = Success.
Proof. intro H. unfold solve_odeint. destruct (Nat.ltb_spec mx n); [lia | reflexivity]. Qed.

(* the budget in force at the end of a history of Init / Reset calls is the last one given *)
Fixpoint last_budget (b : nat) (cs : list ocall) : nat :=
  match cs with
  | [] => b
  | OInit b' :: r => last_budget b' r
  | OReset b' :: r => last_budget b' r
  | OSolve _ :: r => last_budget b r
  end.
Lemma odeint_history_app b cs n :
  odeint_history b (cs ++ [OSolve n]) = odeint_history b cs ++ [solve_odeint (last_budget b cs) n].
Proof.
  revert b. induction cs as [|c cs IH]; intro b; [reflexivity|].
  destruct c as [b'|b'|m]; cbn [app odeint_history last_budget]; rewrite IH; reflexivity.
Qed.
Lemma odeint_last_budget_lemma b cs n :
  last (odeint_history b (cs ++ [OSolve n])) Success = if Nat.ltb (last_budget b cs) n then Failure else Success.
Proof. rewrite odeint_history_app, last_last. reflexivity. Qed.
