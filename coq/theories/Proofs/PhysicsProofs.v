(** C04 (helper clause): GetElementAbund evaluates to the count-weighted sum of
    the abundances, GetMantleDens to the sum over the ice species — over any ring. *)
From Coq Require Import List Arith Bool String ZArith NArith Ring Lia.
From Naunet Require Import Lib.ListX Lib.PyStr Model.Species Model.Physics.
Import ListNotations.

Section AnyRing.
Variable R : Type.
Variables (rO rI : R) (radd rmul rsub : R -> R -> R) (ropp : R -> R).
Hypothesis Rth : ring_theory rO rI radd rmul rsub ropp (@eq R).
Add Ring Rring : Rth.
Variable ofN : N -> R.                (* the value of the literal "n.0" *)
Hypothesis ofN_0 : ofN 0%N = rO.
Variable y : nat -> R.                (* the abundance in slot i *)

(* value of the emitted statement: t1 + (t2 + ... + 0.0) *)
Definition ev_terms (ts : list (N * nat)) : R :=
  fold_right (fun t acc => radd (rmul (ofN (fst t)) (y (snd t))) acc) rO ts.

(* the count-weighted sum over the species list, slots numbered from [k] *)
Fixpoint wsum (el : string) (k : nat) (sp : list hspec) : R :=
  match sp with
  | [] => rO
  | s :: r => radd (rmul (ofN (count_of el (h_counts s))) (y k)) (wsum el (S k) r)
  end.

Lemma elem_terms_from el : forall sp k,
  ev_terms (flat_map (fun is : nat * hspec =>
              let n := count_of el (h_counts (snd is)) in
              if N.eqb n 0 then [] else [(n, fst is)]) (enumerate_from k sp)) = wsum el k sp.
Proof.
  induction sp as [|s r IH]; intro k; simpl. reflexivity.
  destruct (N.eqb_spec (count_of el (h_counts s)) 0) as [E|E]; simpl.
  - rewrite IH, E, ofN_0. ring.
  - rewrite IH. reflexivity.
Qed.

Theorem element_abund_lemma el sp : ev_terms (elem_terms el sp) = wsum el 0 sp.
Proof. apply elem_terms_from. Qed.

(* every emitted term names a species that holds the element, each such species once *)
Theorem element_terms_exact_lemma el sp n i :
  In (n, i) (elem_terms el sp) <->
  exists s, nth_error sp i = Some s /\ n = count_of el (h_counts s) /\ n <> 0%N.
Proof.
  unfold elem_terms, enumerate.
  assert (G : forall k l, In (n, i) (flat_map (fun is : nat * hspec =>
              let c := count_of el (h_counts (snd is)) in
              if N.eqb c 0 then [] else [(c, fst is)]) (enumerate_from k l)) <->
            exists s, k <= i /\ nth_error l (i - k) = Some s /\ n = count_of el (h_counts s) /\ n <> 0%N).
  { intros k l. revert k. induction l as [|s r IH]; intro k; simpl.
    - split. intros []. intros (s & _ & H & _). destruct (i - k); discriminate.
    - rewrite in_app_iff, IH. split.
      + intros [H|(s' & Hk & Hn & Hc)].
        * destruct (N.eqb_spec (count_of el (h_counts s)) 0) as [E|E]; simpl in H. destruct H.
          destruct H as [H|[]]. injection H as <- <-. exists s. rewrite Nat.sub_diag. simpl. auto.
        * exists s'. split. lia. replace (i - k) with (S (i - S k)) by lia. simpl. auto.
      + intros (s' & Hk & Hn & Hc & Hnz).
        destruct (Nat.eq_dec i k) as [->|Hne].
        * left. rewrite Nat.sub_diag in Hn. simpl in Hn. injection Hn as <-.
          destruct (N.eqb_spec (count_of el (h_counts s)) 0) as [E|E]; simpl. congruence. left. congruence.
        * right. exists s'. split. lia. replace (i - k) with (S (i - S k)) in Hn by lia. simpl in Hn. auto. }
  rewrite G. split.
  - intros (s & _ & H & Hc). exists s. rewrite Nat.sub_0_r in H. auto.
  - intros (s & H & Hc). exists s. rewrite Nat.sub_0_r. split. lia. auto.
Qed.

Definition ev_mantle (ts : list nat) : R := fold_right (fun i acc => radd (y i) acc) rO ts.
Fixpoint msum (k : nat) (sp : list hspec) : R :=
  match sp with
  | [] => rO
  | s :: r => radd (if h_surface s then y k else rO) (msum (S k) r)
  end.

Theorem mantle_lemma sp : ev_mantle (mantle_terms sp) = msum 0 sp.
Proof.
  unfold mantle_terms, enumerate. generalize 0.
  induction sp as [|s r IH]; intro k; simpl. reflexivity.
  destruct (h_surface s); simpl; rewrite IH; ring.
Qed.
End AnyRing.
