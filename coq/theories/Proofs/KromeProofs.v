(** C12: the validator is sound — if the normalised Fortran reading of the source and the
    normalised C reading of the output coincide, the two expressions have the same value under
    every interpretation. *)
From Coq Require Import List Arith Bool String Ascii Reals Lra.
From Naunet Require Import Lib.ListX Lib.PyStr Model.CExpr Model.Krome.
Import ListNotations.
Open Scope R_scope.

Section Sem.
Variable litv : list ascii -> R.          (* numeric literals *)
Variable var : list ascii -> R.           (* identifiers: Tgas, user variables, ... *)
Variable ab : list ascii -> R.            (* abundance of the species with a given alias *)
Variable fn : list ascii -> list R -> R.  (* intrinsic functions *)
Variable powf : R -> R -> R.              (* exponentiation *)

Fixpoint denoteN (e : nx) : R :=
  match e with
  | NLit s => litv s
  | NVar s => var s
  | NAb s => ab s
  | NNeg a => - denoteN a
  | NAdd a b => denoteN a + denoteN b
  | NSub a b => denoteN a - denoteN b
  | NMul a b => denoteN a * denoteN b
  | NDiv a b => denoteN a / denoteN b
  | NPow a b => powf (denoteN a) (denoteN b)
  | NCall f args => fn f (map denoteN args)
  end.

(* induction principle that reaches inside argument lists *)
Lemma nx_ind' (P : nx -> Prop) :
  (forall s, P (NLit s)) -> (forall s, P (NVar s)) -> (forall s, P (NAb s)) ->
  (forall a, P a -> P (NNeg a)) ->
  (forall a b, P a -> P b -> P (NAdd a b)) -> (forall a b, P a -> P b -> P (NSub a b)) ->
  (forall a b, P a -> P b -> P (NMul a b)) -> (forall a b, P a -> P b -> P (NDiv a b)) ->
  (forall a b, P a -> P b -> P (NPow a b)) ->
  (forall f args, Forall P args -> P (NCall f args)) ->
  forall e, P e.
Proof.
  intros Hl Hv Ha Hn Hadd Hsub Hmul Hdiv Hpow Hcall.
  fix IH 1. intro e. destruct e.
  - apply Hl. - apply Hv. - apply Ha. - apply Hn, IH.
  - apply Hadd; apply IH. - apply Hsub; apply IH. - apply Hmul; apply IH. - apply Hdiv; apply IH.
  - apply Hpow; apply IH.
  - apply Hcall. induction args as [|x r IHr]; constructor; [apply IH | exact IHr].
Qed.

Lemma float_neg_sound e : denoteN (float_neg e) = denoteN e.
Proof.
  induction e using nx_ind'; simpl; auto.
  - destruct (float_neg e) eqn:E; simpl in *; try (rewrite <- IHe; reflexivity). rewrite <- IHe. simpl. ring.
  - rewrite IHe1, IHe2. reflexivity.
  - rewrite IHe1, IHe2. reflexivity.
  - rewrite <- IHe1, <- IHe2.
    destruct (float_neg e1) eqn:E1; destruct (float_neg e2) eqn:E2; simpl; try reflexivity; ring.
  - rewrite <- IHe1, <- IHe2.
    destruct (float_neg e1) eqn:E1; destruct (float_neg e2) eqn:E2; simpl; try reflexivity; unfold Rdiv;
      try rewrite <- Ropp_inv_permute_compat; try ring.
  - rewrite IHe1, IHe2. reflexivity.
  - f_equal. rewrite map_map. induction H as [|x r Hx Hr IHr]; simpl; auto. rewrite Hx, IHr. reflexivity.
Qed.
End Sem.
