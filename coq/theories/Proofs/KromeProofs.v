(** C12: the validator is sound — if the normalised Fortran reading of the source and the
    normalised C reading of the output coincide, the two expressions have the same value under
    every interpretation. *)
From Coq Require Import List Arith Bool String Ascii Reals Lra.
From Naunet Require Import Lib.ListX Lib.PyStr Model.CExpr Model.Krome.
Import ListNotations.
Open Scope R_scope.

Section Sem.
Variable litv : list ascii -> R.          (* numeric literals *)
Variable var : list ascii -> R.           (* identifiers: Tgas, user variables, ... *)
Variable ab : list ascii -> R.            (* abundance of the species with a given alias *)
Variable fn : list ascii -> list R -> R.  (* intrinsic functions *)
Variable powf : R -> R -> R.              (* exponentiation *)

Fixpoint denoteN (e : nx) : R :=
  match e with
  | NLit s => litv s
  | NVar s => var s
  | NAb s => ab s
  | NNeg a => - denoteN a
  | NAdd a b => denoteN a + denoteN b
  | NSub a b => denoteN a - denoteN b
  | NMul a b => denoteN a * denoteN b
  | NDiv a b => denoteN a / denoteN b
  | NPow a b => powf (denoteN a) (denoteN b)
  | NCall f args => fn f (map denoteN args)
  end.

(* induction principle that reaches inside argument lists *)
Lemma nx_ind' (P : nx -> Prop) :
  (forall s, P (NLit s)) -> (forall s, P (NVar s)) -> (forall s, P (NAb s)) ->
  (forall a, P a -> P (NNeg a)) ->
  (forall a b, P a -> P b -> P (NAdd a b)) -> (forall a b, P a -> P b -> P (NSub a b)) ->
  (forall a b, P a -> P b -> P (NMul a b)) -> (forall a b, P a -> P b -> P (NDiv a b)) ->
  (forall a b, P a -> P b -> P (NPow a b)) ->
  (forall f args, Forall P args -> P (NCall f args)) ->
  forall e, P e.
Proof.
  intros Hl Hv Ha Hn Hadd Hsub Hmul Hdiv Hpow Hcall.
  fix IH 1. intro e. destruct e.
  - apply Hl. - apply Hv. - apply Ha. - apply Hn, IH.
  - apply Hadd; apply IH. - apply Hsub; apply IH. - apply Hmul; apply IH. - apply Hdiv; apply IH.
  - apply Hpow; apply IH.
  - apply Hcall. induction args as [|x r IHr]; constructor; [apply IH | exact IHr].
Qed.

Lemma float_neg_sound e : denoteN (float_neg e) = denoteN e.
Proof.
  induction e using nx_ind'; simpl; auto.
  - destruct (float_neg e) eqn:E; simpl in *; try (rewrite <- IHe; reflexivity). rewrite <- IHe. simpl. ring.
  - rewrite IHe1, IHe2. reflexivity.
  - rewrite IHe1, IHe2. reflexivity.
  - rewrite <- IHe1, <- IHe2.
    destruct (float_neg e1) eqn:E1; destruct (float_neg e2) eqn:E2; simpl; try reflexivity; ring.
  - rewrite <- IHe1, <- IHe2.
    destruct (float_neg e1) eqn:E1; destruct (float_neg e2) eqn:E2; simpl; try reflexivity; unfold Rdiv;
      rewrite ?Rinv_opp; ring.
  - rewrite IHe1, IHe2. reflexivity.
  - f_equal. rewrite map_map. induction H as [|x r Hx Hr IHr]; simpl; auto. rewrite Hx, IHr. reflexivity.
Qed.

Lemma list_eqb_ascii_eq a : forall b, list_eqb Ascii.eqb a b = true -> a = b.
Proof.
  induction a as [|x a IH]; intros [|y b] H; simpl in H; try discriminate; auto.
  apply andb_true_iff in H. destruct H as [H1 H2]. apply Ascii.eqb_eq in H1. subst. f_equal. auto.
Qed.

Lemma nx_eqb_eq a : forall b, nx_eqb a b = true -> a = b.
Proof.
  induction a using nx_ind'; intros b Hb; destruct b; simpl in Hb; try discriminate.
  - f_equal. apply list_eqb_ascii_eq; auto.
  - f_equal. apply list_eqb_ascii_eq; auto.
  - f_equal. apply list_eqb_ascii_eq; auto.
  - f_equal. auto.
  - apply andb_true_iff in Hb. destruct Hb. f_equal; auto.
  - apply andb_true_iff in Hb. destruct Hb. f_equal; auto.
  - apply andb_true_iff in Hb. destruct Hb. f_equal; auto.
  - apply andb_true_iff in Hb. destruct Hb. f_equal; auto.
  - apply andb_true_iff in Hb. destruct Hb. f_equal; auto.
  - apply andb_true_iff in Hb. destruct Hb as [Hf Hl]. f_equal. apply list_eqb_ascii_eq; auto.
    clear Hf. revert args0 Hl. induction H as [|x r Hx Hr IHr]; intros [|y l] Hl; try discriminate; auto.
    apply andb_true_iff in Hl. destruct Hl as [H1 H2]. f_equal; auto.
Qed.

Theorem agree_sound_lemma f c : agree f c = true -> denoteN f = denoteN c.
Proof.
  unfold agree. intro H. apply nx_eqb_eq in H.
  rewrite <- (float_neg_sound f), <- (float_neg_sound c), H. reflexivity.
Qed.
End Sem.

Theorem validate_sound_lemma t : validate t = true ->
  exists f c, parse_fortran (yield_f t) = Some f /\ parse_c (to_c t) = Some c /\
    forall litv var ab fn powf, denoteN litv var ab fn powf f = denoteN litv var ab fn powf c.
Proof.
  unfold validate. destruct (parse_fortran (yield_f t)) as [f|]; [|discriminate].
  destruct (parse_c (to_c t)) as [c|]; [|discriminate].
  intro H. exists f, c. repeat split. intros. apply agree_sound_lemma. exact H.
Qed.

(** ** trees Lark returns, and what the validator says *)
Definition tk := FTok.
Definition nd := FNode.
Definition v (s : string) : ftree := nd "atom" [nd "variable" [tk s]].
Definition num (s : string) : ftree := nd "atom" [nd "scientific" [tk s]].
Definition expr1 (a : ftree) : ftree := nd "expression" [nd "multiply" [a]].
(* a**b**c as Lark parses it: ((a**b)**c) *)
Definition t_pow3 : ftree :=
  expr1 (nd "atom" [nd "power" [nd "atom" [nd "power" [v "a"; tk "**"; v "b"]]; tk "**"; v "c"]]).
(* -1.0e0**2: the sign is part of the literal token *)
Definition t_signed_base : ftree := expr1 (nd "atom" [nd "power" [num "-1.0e0"; tk "**"; num "2"]]).
(* n(idx_H2): only one-character names get their charge suffix in the pre-pass *)
Definition t_idx : ftree :=
  expr1 (nd "atom" [nd "listvar" [nd "variable" [tk "n"]; tk "("; nd "index" [tk "_"; tk "H2"]; tk ")"]]).
(* 4.67e-10*(T32)**(-5.0e-01)*exp(-3.04e+04*invT) *)
Definition t_good : ftree :=
  nd "expression" [nd "multiply" [num "4.67e-10"; tk "*";
     nd "atom" [nd "power" [nd "atom" [tk "("; expr1 (v "T32"); tk ")"]; tk "**"; nd "atom" [tk "("; expr1 (num "-5.0e-01"); tk ")"]]]; tk "*";
     nd "atom" [nd "func" [nd "variable" [tk "exp"]; tk "("; nd "expression" [nd "multiply" [num "-3.04e+04"; tk "*"; v "invT"]]; tk ")"]]]].

Lemma examples_lemma :
  to_c t_pow3 = "pow(pow(a, b), c)"%string /\ validate t_pow3 = false /\
  to_c t_signed_base = "pow(-1.0e0, 2)"%string /\ validate t_signed_base = false /\
  to_c t_idx = "y[IDX_H2]"%string /\ validate t_idx = false /\
  to_c t_good = "4.67e-10 * pow((T32), (-5.0e-01)) * exp(-3.04e+04 * invT)"%string /\ validate t_good = true.
Proof. vm_compute. repeat split; reflexivity. Qed.

(* the two readings of a**b**c really differ: with exponentiation taking its true values on the
   arguments used (2^9 = 512, 3^2 = 9, 2^3 = 8, 8^2 = 64) *)
Definition pw (x y : R) : R :=
  if Req_EM_T y 2 then x * x else if Req_EM_T y 3 then x * x * x
  else if Req_EM_T y 9 then x * x * x * x * x * x * x * x * x else 0.
Definition val (s : list ascii) : R :=
  if list_eqb Ascii.eqb s (chars "a") then 2 else if list_eqb Ascii.eqb s (chars "b") then 3 else 2.
Lemma pow_assoc_refuted_lemma :
  exists f c, parse_fortran (yield_f t_pow3) = Some f /\ parse_c (to_c t_pow3) = Some c /\
    denoteN (fun _ => 0) val (fun _ => 0) (fun _ _ => 0) pw f = 512 /\
    denoteN (fun _ => 0) val (fun _ => 0) (fun _ _ => 0) pw c = 64.
Proof.
  eexists. eexists. split. vm_compute. reflexivity. split. vm_compute. reflexivity.
  unfold val. cbn [denoteN chars list_ascii_of_string list_eqb Ascii.eqb Bool.eqb andb].
  unfold pw.
  repeat match goal with |- context [Req_EM_T ?a ?b] => destruct (Req_EM_T a b); try lra end.
Qed.
