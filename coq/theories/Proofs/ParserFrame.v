(** The frame property of the C-expression parser (Model/CExpr): an expression that parses on its own parses
    identically, with any larger fuel, in front of a closing parenthesis - for ALL token lists. *)
From Coq Require Import List Arith Bool String Ascii Lia.
From Naunet Require Import Lib.ListX Lib.PyStr Model.CExpr.
Import ListNotations.

(** one-step unfoldings of every parser function *)
Lemma f_pcond n ts : pcond (S n) ts =
  match prel n ts with
  | Some (c, TOp "?"%char :: r) =>
      match pcond n r with
      | Some (a, TOp ":"%char :: r') => match pcond n r' with Some (b, r'') => Some (ECond c a b, r'') | None => None end
      | _ => None end
  | other => other end.
Proof. reflexivity. Qed.
Lemma f_prel n ts : prel (S n) ts =
  match pexpr n ts with
  | Some (a, TOp ">"%char :: r) => match pexpr n r with Some (b, r') => Some (ERel false a b, r') | None => None end
  | Some (a, TGe :: r) => match pexpr n r with Some (b, r') => Some (ERel true a b, r') | None => None end
  | other => other end.
Proof. reflexivity. Qed.
Lemma f_pexpr n ts : pexpr (S n) ts = match pterm n ts with Some (l, r) => pexpr_rest n l r | None => None end.
Proof. reflexivity. Qed.
Lemma f_pterm n ts : pterm (S n) ts = match punary n ts with Some (l, r) => pterm_rest n l r | None => None end.
Proof. reflexivity. Qed.
Lemma f_pexpr_rest n l ts : pexpr_rest (S n) l ts =
  match ts with
  | TOp "+"%char :: r => match pterm n r with Some (e, r') => pexpr_rest n (EBin "+"%char l e) r' | None => None end
  | TOp "-"%char :: r => match pterm n r with Some (e, r') => pexpr_rest n (EBin "-"%char l e) r' | None => None end
  | _ => Some (l, ts) end.
Proof. reflexivity. Qed.
Lemma f_pterm_rest n l ts : pterm_rest (S n) l ts =
  match ts with
  | TOp "*"%char :: r => match punary n r with Some (e, r') => pterm_rest n (EBin "*"%char l e) r' | None => None end
  | TOp "/"%char :: r => match punary n r with Some (e, r') => pterm_rest n (EBin "/"%char l e) r' | None => None end
  | _ => Some (l, ts) end.
Proof. reflexivity. Qed.
Lemma f_punary n ts : punary (S n) ts =
  match ts with
  | TOp "-"%char :: r => match punary n r with Some (e, r') => Some (ENeg e, r') | None => None end
  | TOp "+"%char :: r => match punary n r with Some (e, r') => Some (EPos e, r') | None => None end
  | _ => pprimary n ts end.
Proof. reflexivity. Qed.
Lemma f_pprimary n ts : pprimary (S n) ts =
  match ts with
  | TNum s :: r => Some (ELit s, r)
  | TMag i :: r => Some (EMag i, r)
  | TName i :: r => Some (EName i, r)
  | TId f :: TOp "("%char :: TOp ")"%char :: r => Some (ECall f [], r)
  | TId f :: TOp "("%char :: r =>
      match pargs n r with
      | Some (args, TOp ")"%char :: r') => Some (ECall f args, r')
      | _ => None end
  | TId v :: TOp "["%char :: r =>
      match pcond n r with
      | Some (e, TOp "]"%char :: r') => Some (EIdx v e, r')
      | _ => None end
  | TId v :: r => Some (EVar v, r)
  | TOp "("%char :: r =>
      match pcond n r with
      | Some (e, TOp ")"%char :: r') => Some (e, r')
      | _ => None end
  | _ => None end.
Proof. reflexivity. Qed.
Lemma f_pargs n ts : pargs (S n) ts =
  match pcond n ts with
  | Some (e, TOp ","%char :: r) => match pargs n r with Some (es, r') => Some (e :: es, r') | None => None end
  | Some (e, r) => Some ([e], r)
  | None => None end.
Proof. reflexivity. Qed.

Definition closes (k : list tok) : Prop := exists k', k = TOp ")"%char :: k'.

Definition frame1 {A} (p : nat -> list tok -> option (A * list tok)) (n : nat) : Prop :=
  forall ts e r, p n ts = Some (e, r) -> forall m k, n <= m -> closes k -> p m (ts ++ k)%list = Some (e, (r ++ k)%list).
Definition frame2 (p : nat -> ex -> list tok -> option (ex * list tok)) (n : nat) : Prop :=
  forall l ts e r, p n l ts = Some (e, r) -> forall m k, n <= m -> closes k -> p m l (ts ++ k)%list = Some (e, (r ++ k)%list).

Record frames (n : nat) : Prop := {
  fr_cond : frame1 pcond n; fr_rel : frame1 prel n; fr_expr : frame1 pexpr n; fr_term : frame1 pterm n;
  fr_unary : frame1 punary n; fr_primary : frame1 pprimary n; fr_args : frame1 pargs n;
  fr_expr_rest : frame2 pexpr_rest n; fr_term_rest : frame2 pterm_rest n }.

Ltac bits c := destruct c as [[|] [|] [|] [|] [|] [|] [|] [|]].
Ltac done_same H := cbn in H |- *; first [discriminate H | injection H as <- <-; reflexivity].

Lemma frames_0 : frames 0.
Proof. split; intros ? **; try (intros ? **); discriminate. Qed.

Lemma frame_cond n : frames n -> frame1 pcond (S n).
Proof.
  intros F ts e r H m k Hm Hk. destruct m as [|m]; [lia|]. apply le_S_n in Hm.
  rewrite f_pcond in H |- *.
  destruct (prel n ts) as [[c r0]|] eqn:Hp; [|discriminate].
  rewrite (fr_rel n F _ _ _ Hp m k Hm Hk).
  destruct r0 as [|t r0].
  { destruct Hk as [k' ->]. cbn in H |- *. injection H as <- <-. reflexivity. }
  destruct t as [s|s|i|i|o| |]; try (done_same H).
  bits o; try (done_same H).
  cbn in H |- *.
  destruct (pcond n r0) as [[a r1]|] eqn:Ha; [|discriminate].
  rewrite (fr_cond n F _ _ _ Ha m k Hm Hk).
  destruct r1 as [|t1 r1]; [discriminate|].
  destruct t1 as [s|s|i|i|o| |]; try discriminate.
  bits o; try discriminate.
  cbn in H |- *.
  destruct (pcond n r1) as [[b r2]|] eqn:Hb; [|discriminate].
  rewrite (fr_cond n F _ _ _ Hb m k Hm Hk). injection H as <- <-. reflexivity.
Qed.

Lemma frame_rel n : frames n -> frame1 prel (S n).
Proof.
  intros F ts e r H m k Hm Hk. destruct m as [|m]; [lia|]. apply le_S_n in Hm.
  rewrite f_prel in H |- *.
  destruct (pexpr n ts) as [[a r0]|] eqn:Hp; [|discriminate].
  rewrite (fr_expr n F _ _ _ Hp m k Hm Hk).
  destruct r0 as [|t r0].
  { destruct Hk as [k' ->]. cbn in H |- *. injection H as <- <-. reflexivity. }
  destruct t as [s|s|i|i|o| |]; try (done_same H).
  - bits o; try (done_same H).
    cbn in H |- *.
    destruct (pexpr n r0) as [[b r1]|] eqn:Hb; [|discriminate].
    rewrite (fr_expr n F _ _ _ Hb m k Hm Hk). injection H as <- <-. reflexivity.
  - cbn in H |- *.
    destruct (pexpr n r0) as [[b r1]|] eqn:Hb; [|discriminate].
    rewrite (fr_expr n F _ _ _ Hb m k Hm Hk). injection H as <- <-. reflexivity.
Qed.

Lemma frame_expr n : frames n -> frame1 pexpr (S n).
Proof.
  intros F ts e r H m k Hm Hk. destruct m as [|m]; [lia|]. apply le_S_n in Hm.
  rewrite f_pexpr in H |- *.
  destruct (pterm n ts) as [[l r0]|] eqn:Hp; [|discriminate].
  rewrite (fr_term n F _ _ _ Hp m k Hm Hk).
  exact (fr_expr_rest n F _ _ _ _ H m k Hm Hk).
Qed.

Lemma frame_term n : frames n -> frame1 pterm (S n).
Proof.
  intros F ts e r H m k Hm Hk. destruct m as [|m]; [lia|]. apply le_S_n in Hm.
  rewrite f_pterm in H |- *.
  destruct (punary n ts) as [[l r0]|] eqn:Hp; [|discriminate].
  rewrite (fr_unary n F _ _ _ Hp m k Hm Hk).
  exact (fr_term_rest n F _ _ _ _ H m k Hm Hk).
Qed.

Lemma frame_expr_rest n : frames n -> frame2 pexpr_rest (S n).
Proof.
  intros F l ts e r H m k Hm Hk. destruct m as [|m]; [lia|]. apply le_S_n in Hm.
  rewrite f_pexpr_rest in H |- *.
  destruct ts as [|t ts].
  { destruct Hk as [k' ->]. cbn in H |- *. injection H as <- <-. reflexivity. }
  destruct t as [s|s|i|i|o| |]; try (done_same H).
  bits o; try (done_same H); cbn in H |- *.
  - destruct (pterm n ts) as [[b r1]|] eqn:Hb; [|discriminate].
    rewrite (fr_term n F _ _ _ Hb m k Hm Hk). exact (fr_expr_rest n F _ _ _ _ H m k Hm Hk).
  - destruct (pterm n ts) as [[b r1]|] eqn:Hb; [|discriminate].
    rewrite (fr_term n F _ _ _ Hb m k Hm Hk). exact (fr_expr_rest n F _ _ _ _ H m k Hm Hk).
Qed.

Lemma frame_term_rest n : frames n -> frame2 pterm_rest (S n).
Proof.
  intros F l ts e r H m k Hm Hk. destruct m as [|m]; [lia|]. apply le_S_n in Hm.
  rewrite f_pterm_rest in H |- *.
  destruct ts as [|t ts].
  { destruct Hk as [k' ->]. cbn in H |- *. injection H as <- <-. reflexivity. }
  destruct t as [s|s|i|i|o| |]; try (done_same H).
  bits o; try (done_same H); cbn in H |- *.
  - destruct (punary n ts) as [[b r1]|] eqn:Hb; [|discriminate].
    rewrite (fr_unary n F _ _ _ Hb m k Hm Hk). exact (fr_term_rest n F _ _ _ _ H m k Hm Hk).
  - destruct (punary n ts) as [[b r1]|] eqn:Hb; [|discriminate].
    rewrite (fr_unary n F _ _ _ Hb m k Hm Hk). exact (fr_term_rest n F _ _ _ _ H m k Hm Hk).
Qed.

Lemma frame_unary n : frames n -> frame1 punary (S n).
Proof.
  intros F ts e r H m k Hm Hk. destruct m as [|m]; [lia|]. apply le_S_n in Hm.
  rewrite f_punary in H |- *.
  destruct ts as [|t ts].
  { (* pprimary n [] = None *) destruct n; cbn in H; discriminate. }
  destruct t as [s|s|i|i|o| |];
    try (cbn [app]; exact (fr_primary n F _ _ _ H m k Hm Hk)).
  bits o; try (cbn [app]; exact (fr_primary n F _ _ _ H m k Hm Hk)); cbn in H |- *.
  - destruct (punary n ts) as [[b r1]|] eqn:Hb; [|discriminate].
    rewrite (fr_unary n F _ _ _ Hb m k Hm Hk). injection H as <- <-. reflexivity.
  - destruct (punary n ts) as [[b r1]|] eqn:Hb; [|discriminate].
    rewrite (fr_unary n F _ _ _ Hb m k Hm Hk). injection H as <- <-. reflexivity.
Qed.

Lemma frame_args n : frames n -> frame1 pargs (S n).
Proof.
  intros F ts e r H m k Hm Hk. destruct m as [|m]; [lia|]. apply le_S_n in Hm.
  rewrite f_pargs in H |- *.
  destruct (pcond n ts) as [[a r0]|] eqn:Hp; [|discriminate].
  rewrite (fr_cond n F _ _ _ Hp m k Hm Hk).
  destruct r0 as [|t r0].
  { destruct Hk as [k' ->]. cbn in H |- *. injection H as <- <-. reflexivity. }
  destruct t as [s|s|i|i|o| |]; try (done_same H).
  bits o; try (done_same H); cbn in H |- *.
  destruct (pargs n r0) as [[b r1]|] eqn:Hb; [|discriminate].
  rewrite (fr_args n F _ _ _ Hb m k Hm Hk). injection H as <- <-. reflexivity.
Qed.

Lemma pprimary_nil n : pprimary n [] = None. Proof. destruct n; reflexivity. Qed.
Lemma punary_nil n : punary n [] = None. Proof. destruct n; [reflexivity|]. rewrite f_punary. apply pprimary_nil. Qed.
Lemma pterm_nil n : pterm n [] = None. Proof. destruct n; [reflexivity|]. rewrite f_pterm, punary_nil. reflexivity. Qed.
Lemma pexpr_nil n : pexpr n [] = None. Proof. destruct n; [reflexivity|]. rewrite f_pexpr, pterm_nil. reflexivity. Qed.
Lemma prel_nil n : prel n [] = None. Proof. destruct n; [reflexivity|]. rewrite f_prel, pexpr_nil. reflexivity. Qed.
Lemma pcond_nil n : pcond n [] = None. Proof. destruct n; [reflexivity|]. rewrite f_pcond, prel_nil. reflexivity. Qed.
Lemma pargs_nil n : pargs n [] = None. Proof. destruct n; [reflexivity|]. rewrite f_pargs, pcond_nil. reflexivity. Qed.

(* a sub-parser followed by one expected closing token *)
Lemma close_paren A (mk : A -> ex) (a : A) r1 k e r :
  match r1 with TOp ")"%char :: r' => Some (mk a, r') | _ => None end = Some (e, r) ->
  match (r1 ++ k)%list with TOp ")"%char :: r' => Some (mk a, r') | _ => None end = Some (e, (r ++ k)%list).
Proof.
  intro H. destruct r1 as [|t r1]; [discriminate|].
  destruct t as [?|?|?|?|o| |]; try discriminate. bits o; try discriminate.
  cbn in H |- *. injection H as <- <-. reflexivity.
Qed.
Lemma close_bracket A (mk : A -> ex) (a : A) r1 k e r :
  match r1 with TOp "]"%char :: r' => Some (mk a, r') | _ => None end = Some (e, r) ->
  match (r1 ++ k)%list with TOp "]"%char :: r' => Some (mk a, r') | _ => None end = Some (e, (r ++ k)%list).
Proof.
  intro H. destruct r1 as [|t r1]; [discriminate|].
  destruct t as [?|?|?|?|o| |]; try discriminate. bits o; try discriminate.
  cbn in H |- *. injection H as <- <-. reflexivity.
Qed.

Ltac sub_then F proj lem mk H n m k Hm Hk :=
  match type of H with
  | context [match ?p n ?ts with _ => _ end] =>
      let a := fresh "a" in let r1 := fresh "r" in let Hb := fresh "Hb" in
      destruct (p n ts) as [[a r1]|] eqn:Hb; [|discriminate H];
      let Hx := fresh "Hx" in pose proof (proj n F _ _ _ Hb m k Hm Hk) as Hx; cbn [app] in Hx; rewrite Hx; clear Hx;
      exact (lem _ mk a r1 k _ _ H)
  end.

Lemma frame_primary n : frames n -> frame1 pprimary (S n).
Proof.
  intros F ts e r H m k Hm Hk. destruct m as [|m]; [lia|]. apply le_S_n in Hm.
  rewrite f_pprimary in H |- *.
  destruct ts as [|t ts]; [discriminate|].
  destruct t as [f|s|i|i|o| |]; try (done_same H).
  - (* identifier *)
    destruct ts as [|t1 ts].
    { destruct Hk as [k' ->]. cbn in H |- *. injection H as <- <-. reflexivity. }
    destruct t1 as [s|s|i|i|o| |]; try (done_same H).
    bits o; try (done_same H).
    + (* f [ e ] *)
      cbn in H |- *. sub_then F fr_cond close_bracket (EIdx f) H n m k Hm Hk.
    + (* f ( ... ) *)
      destruct ts as [|t2 ts].
      { cbn in H. rewrite pargs_nil in H. discriminate. }
      destruct t2 as [s|s|i|i|o| |]; try (cbn in H |- *; sub_then F fr_args close_paren (ECall f) H n m k Hm Hk).
      bits o; try (cbn in H |- *; sub_then F fr_args close_paren (ECall f) H n m k Hm Hk).
      done_same H.
  - (* parenthesis *)
    bits o; try discriminate.
    cbn in H |- *. sub_then F fr_cond close_paren (fun x : ex => x) H n m k Hm Hk.
Qed.

Theorem frames_all n : frames n.
Proof.
  induction n as [|n IH]. exact frames_0.
  split; [apply frame_cond | apply frame_rel | apply frame_expr | apply frame_term | apply frame_unary
         | apply frame_primary | apply frame_args | apply frame_expr_rest | apply frame_term_rest]; exact IH.
Qed.

(** the frame property of the expression parser: an expression that parses on its own parses identically,
    with any larger fuel, in front of a closing parenthesis *)
Theorem pcond_frame n ts e r m k :
  pcond n ts = Some (e, r) -> n <= m -> pcond m (ts ++ TOp ")"%char :: k)%list = Some (e, (r ++ TOp ")"%char :: k)%list).
Proof. intros H Hm. apply (fr_cond n (frames_all n) ts e r H m); [exact Hm | eexists; reflexivity]. Qed.
