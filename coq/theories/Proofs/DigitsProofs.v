(** print_N (int(digits)) gives the digits back, for digit strings without a leading zero. *)
From Coq Require Import List Arith Bool String Ascii ZArith NArith Lia.
From Naunet Require Import Lib.ListX Lib.PyStr Lib.Sexp Model.Species Proofs.IndexProofs.
Import ListNotations.
Open Scope Z_scope.

Definition dig (c : ascii) : Z := Z.of_nat (nat_of_ascii c - 48).

Lemma is_digit_cases c : is_digit c = true ->
  c = "0"%char \/ c = "1"%char \/ c = "2"%char \/ c = "3"%char \/ c = "4"%char \/
  c = "5"%char \/ c = "6"%char \/ c = "7"%char \/ c = "8"%char \/ c = "9"%char.
Proof.
  unfold is_digit. intro H.
  assert (48 <= nat_of_ascii c <= 57)%nat as Hr.
  { apply andb_true_iff in H. destruct H as [H1 H2]. apply Nat.leb_le in H1, H2. lia. }
  rewrite <- (ascii_nat_embedding c).
  assert (nat_of_ascii c = 48 \/ nat_of_ascii c = 49 \/ nat_of_ascii c = 50 \/ nat_of_ascii c = 51 \/ nat_of_ascii c = 52 \/
          nat_of_ascii c = 53 \/ nat_of_ascii c = 54 \/ nat_of_ascii c = 55 \/ nat_of_ascii c = 56 \/ nat_of_ascii c = 57)%nat as E by lia.
  repeat (destruct E as [E|E]; [rewrite E; vm_compute; tauto|]). rewrite E; vm_compute; tauto.
Qed.

Lemma dig_range c : is_digit c = true -> 0 <= dig c <= 9.
Proof. intro H. destruct (is_digit_cases c H) as [->|[->|[->|[->|[->|[->|[->|[->|[->| ->]]]]]]]]]; vm_compute; split; discriminate. Qed.

Lemma digit_char_dig c : is_digit c = true -> digit_char (dig c) = c.
Proof. intro H. destruct (is_digit_cases c H) as [->|[->|[->|[->|[->|[->|[->|[->|[->| ->]]]]]]]]]; reflexivity. Qed.

(* int(digits) over Z *)
Fixpoint zval (s : list ascii) (acc : Z) : Z :=
  match s with [] => acc | c :: r => zval r (acc * 10 + dig c) end.

Lemma digits_val_zval s : forall acc, Z.of_N (digits_val s acc) = zval s (Z.of_N acc).
Proof.
  induction s as [|c r IH]; intro acc; simpl. reflexivity.
  rewrite IH. f_equal. unfold dig. lia.
Qed.

Lemma zval_snoc s c : forall acc, zval (s ++ [c]) acc = zval s acc * 10 + dig c.
Proof. induction s as [|x r IH]; intro acc; simpl; auto. Qed.

Lemma zval_nonneg s : forallb is_digit s = true -> forall acc, 0 <= acc -> 0 <= zval s acc.
Proof.
  induction s as [|c r IH]; intros H acc Ha; simpl. exact Ha.
  simpl in H. apply andb_true_iff in H. destruct H as [Hc Hr]. apply IH; auto.
  pose proof (dig_range c Hc). lia.
Qed.

(* a non-empty digit string whose first digit is not 0 has a positive value *)
Lemma zval_pos c r : is_digit c = true -> c <> "0"%char -> forallb is_digit r = true -> 1 <= zval (c :: r) 0.
Proof.
  intros Hc Hnz Hr. simpl.
  assert (1 <= dig c).
  { destruct (is_digit_cases c Hc) as [->|[->|[->|[->|[->|[->|[->|[->|[->| ->]]]]]]]]]; try congruence; vm_compute; discriminate. }
  assert (G : forall s acc, forallb is_digit s = true -> 1 <= acc -> 1 <= zval s acc).
  { induction s as [|x s IH]; intros acc Hs Ha; simpl. exact Ha.
    simpl in Hs. apply andb_true_iff in Hs. destruct Hs as [Hx Hs]. apply IH; auto. pose proof (dig_range x Hx). lia. }
  apply G; auto; lia.
Qed.

Definition canonical (d : list ascii) : Prop :=
  forallb is_digit d = true /\ match d with [] => False | c :: r => c <> "0"%char \/ r = [] end.

Lemma print_pos_canonical : forall d, canonical d ->
  forall f acc, (1 <= f)%nat -> zval d 0 < 10 ^ Z.of_nat f ->
  print_pos_fuel f (zval d 0) acc = (str d ++ acc)%string.
Proof.
  intro d. induction d as [|c d' IH] using rev_ind; intros [Hd Hc] f acc Hf Hlt.
  - destruct Hc.
  - rewrite forallb_app in Hd. apply andb_true_iff in Hd. destruct Hd as [Hd' Hcc]. simpl in Hcc. rewrite andb_true_r in Hcc.
    rewrite zval_snoc in *. pose proof (dig_range c Hcc) as Hr.
    destruct f as [|f']; [lia|]. 
    destruct d' as [|x r].
    + simpl in *. assert (dig c <? 10 = true) as -> by (apply Z.ltb_lt; lia).
      rewrite digit_char_dig by auto. reflexivity.
    + (* at least two digits: the leading one is not 0 *)
      assert (Hx : x <> "0"%char).
      { simpl in Hc. destruct Hc as [Hc|Hc]; auto. destruct r; discriminate. }
      simpl in Hd'. apply andb_true_iff in Hd'. destruct Hd' as [Hxd Hrd].
      pose proof (zval_pos x r Hxd Hx Hrd) as Hpos.
      set (v := zval (x :: r) 0) in *.
      cbn [print_pos_fuel].
      assert (v * 10 + dig c <? 10 = false) as -> by (apply Z.ltb_ge; lia).
      assert (Ediv : (v * 10 + dig c) / 10 = v).
      { symmetry. apply (Z.div_unique (v * 10 + dig c) 10 v (dig c)); [left; lia | lia]. }
      assert (Emod : (v * 10 + dig c) mod 10 = dig c).
      { symmetry. apply (Z.mod_unique (v * 10 + dig c) 10 v (dig c)); [left; lia | lia]. }
      rewrite Ediv, Emod.
      rewrite digit_char_dig by auto.
      assert (Hlt' : v < 10 ^ Z.of_nat f').
      { rewrite Nat2Z.inj_succ, Z.pow_succ_r in Hlt by lia. lia. }
      assert (Hf' : (1 <= f')%nat).
      { destruct f'; [|lia]. simpl in Hlt'. lia. }
      unfold v. rewrite IH; auto.
      * unfold str. rewrite !IndexProofs.chars_str || idtac.
        clear. induction (x :: r) as [|a l IHl]; simpl. reflexivity. f_equal. exact IHl.
      * split. simpl. rewrite Hxd. exact Hrd. left. exact Hx.
Qed.

Theorem print_digits_lemma d : canonical d -> print_N (digits_val d 0) = str d.
Proof.
  intros Hc. unfold print_N, print_Z. rewrite digits_val_zval. simpl Z.of_N.
  destruct Hc as [Hd Hs]. pose proof (zval_nonneg d Hd 0 ltac:(lia)) as Hnn.
  assert (zval d 0 <? 0 = false) as -> by (apply Z.ltb_ge; lia).
  rewrite print_pos_canonical with (acc := EmptyString).
  - clear. induction (str d) as [|a s IH]; simpl; congruence.
  - split; assumption.
  - lia.
  - set (n := zval d 0) in *. rewrite Nat2Z.inj_succ, Z2Nat.id by apply Z.log2_nonneg.
    destruct (Z.eq_dec n 0) as [->|Hnz]. { vm_compute. reflexivity. }
    assert (0 < n) as Hpos by lia. destruct (Z.log2_spec n Hpos) as [_ Hlt].
    eapply Z.lt_le_trans; [exact Hlt|].
    apply Z.pow_le_mono_l. pose proof (Z.log2_nonneg n). lia.
Qed.

Definition canonicalb (d : list ascii) : bool :=
  forallb is_digit d && match d with [] => false | c :: r => negb (Ascii.eqb c "0"%char) || match r with [] => true | _ => false end end.
Lemma canonicalb_sound d : canonicalb d = true -> canonical d.
Proof.
  unfold canonicalb, canonical. rewrite andb_true_iff. intros [H1 H2]. split; auto.
  destruct d as [|c r]; [discriminate|]. apply orb_true_iff in H2. destruct H2 as [H|H].
  - left. intro E. subst. discriminate.
  - right. destruct r; [reflexivity | discriminate].
Qed.
