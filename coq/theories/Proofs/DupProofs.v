(** Lemmas for C15 (duplicate detection). *)
From Coq Require Import List Arith Bool Lia Sorted Permutation String ZArith.
From Naunet Require Import Lib.ListX Model.Dup.
Import ListNotations.

Section Equiv.
Context {K : Type}.
Variable keqb : K -> K -> bool.
Hypothesis keqb_refl : forall x, keqb x x = true.
Hypothesis keqb_sym : forall x y, keqb x y = keqb y x.
Hypothesis keqb_trans : forall x y z, keqb x y = true -> keqb y z = true -> keqb x z = true.

Lemma keqb_cong_l x y z : keqb x y = true -> keqb x z = keqb y z.
Proof.
  intro H. destruct (keqb y z) eqn:E.
  - eapply keqb_trans; eauto.
  - destruct (keqb x z) eqn:E2; auto.
    rewrite <- E. symmetry. eapply keqb_trans; [ rewrite keqb_sym; exact H | exact E2 ].
Qed.

Lemma existsb_cong x y l : keqb x y = true -> existsb (keqb x) l = existsb (keqb y) l.
Proof.
  intro H. induction l as [|a l IH]; simpl; auto.
  rewrite IH. f_equal. apply keqb_cong_l; auto.
Qed.

(** recursive specifications over the reversed prefix [rp] (latest first) *)
Fixpoint keys_r (rp : list K) : list K :=
  match rp with
  | [] => []
  | x :: r => if existsb (keqb x) r then keys_r r else keys_r r ++ [x]
  end.

Fixpoint idxs_r (k : K) (rp : list K) : list nat :=
  match rp with
  | [] => []
  | y :: r => if keqb y k then List.length r :: idxs_r k r else idxs_r k r
  end.

Fixpoint dups_r (rp : list K) : list nat :=
  match rp with
  | [] => []
  | x :: r => if existsb (keqb x) r then List.length r :: dups_r r else dups_r r
  end.

Definition seen_of (rp : list K) : list (K * list nat) :=
  map (fun k => (k, idxs_r k rp)) (keys_r rp).

Lemma keys_r_incl rp k : In k (keys_r rp) -> In k rp.
Proof.
  induction rp as [|x r IH]; simpl; auto.
  destruct (existsb (keqb x) r).
  - intro H. right. auto.
  - intro H. apply in_app_or in H. destruct H as [H|[H|[]]]; auto.
Qed.

Lemma existsb_keys_r x rp : existsb (keqb x) (keys_r rp) = existsb (keqb x) rp.
Proof.
  induction rp as [|y r IH]; simpl; auto.
  destruct (existsb (keqb y) r) eqn:E.
  - rewrite IH. destruct (keqb x y) eqn:Exy; simpl; auto.
    rewrite (existsb_cong x y r Exy). auto.
  - rewrite existsb_app. simpl. rewrite IH. rewrite orb_false_r. apply orb_comm.
Qed.

Lemma seen_lookup_map (f : K -> list nat) x l :
  seen_lookup keqb x (map (fun k => (k, f k)) l) = existsb (keqb x) l.
Proof. induction l as [|a l IH]; simpl; auto. rewrite IH. auto. Qed.

(* pairwise inequivalent *)
Inductive distinctK : list K -> Prop :=
| dK_nil : distinctK []
| dK_cons x l : existsb (keqb x) l = false -> distinctK l -> distinctK (x :: l).

Lemma existsb_false_iff (p : K -> bool) l : existsb p l = false <-> forall y, In y l -> p y = false.
Proof.
  induction l as [|a l IH]; simpl.
  - split; auto. intros _ y [].
  - rewrite orb_false_iff, IH. split.
    + intros [Ha H] y [<-|Hy]; auto.
    + intro H. split; auto.
Qed.

Lemma distinctK_snoc l x : distinctK l -> existsb (keqb x) l = false -> distinctK (l ++ [x]).
Proof.
  induction 1 as [|a l Ha Hd IH]; simpl; intro Hx.
  - constructor; auto. constructor.
  - apply orb_false_iff in Hx. destruct Hx as [Hxa Hx].
    constructor; auto. rewrite existsb_app. simpl. rewrite Ha. simpl.
    rewrite keqb_sym, Hxa. auto.
Qed.

Lemma keys_r_distinct rp : distinctK (keys_r rp).
Proof.
  induction rp as [|x r IH]; simpl. constructor.
  destruct (existsb (keqb x) r) eqn:E; auto.
  apply distinctK_snoc; auto. rewrite existsb_keys_r. auto.
Qed.

Lemma seen_append_map (f : K -> list nat) x idx l :
  distinctK l ->
  seen_append keqb x idx (map (fun k => (k, f k)) l)
  = map (fun k => (k, if keqb x k then idx :: f k else f k)) l.
Proof.
  induction 1 as [|a l Ha Hd IH]; simpl; auto.
  destruct (keqb x a) eqn:E.
  - f_equal. apply map_ext_in. intros k Hk.
    assert (keqb a k = false) as Hak by (eapply existsb_false_iff in Ha; eauto).
    rewrite (keqb_cong_l x a k E), Hak. auto.
  - f_equal. auto.
Qed.

Lemma idxs_r_none k rp : existsb (keqb k) rp = false -> idxs_r k rp = [].
Proof.
  induction rp as [|y r IH]; simpl; auto.
  intro H. apply orb_false_iff in H. destruct H as [H1 H2].
  rewrite keqb_sym, H1. auto.
Qed.

(** the loop invariant, as one equation per component *)
Lemma dup_loop_spec keys : forall rp,
  dup_loop keqb (List.length rp) keys (seen_of rp) (dups_r rp)
  = (seen_of (rev keys ++ rp), dups_r (rev keys ++ rp)).
Proof.
  induction keys as [|x keys IH]; intro rp; auto.
  cbn [dup_loop rev]. rewrite <- app_assoc. cbn [app].
  rewrite <- (IH (x :: rp)). cbn [List.length dups_r].
  unfold seen_of. rewrite seen_lookup_map, existsb_keys_r. cbn [keys_r].
  destruct (existsb (keqb x) rp) eqn:E.
  - rewrite seen_append_map by apply keys_r_distinct. reflexivity.
  - f_equal. rewrite map_app. cbn [map idxs_r].
    rewrite keqb_refl, (idxs_r_none x rp E). f_equal.
    apply map_ext_in. intros k Hk.
    assert (keqb x k = false) as Hxk.
    { eapply existsb_false_iff in E; [exact E|]. apply keys_r_incl; auto. }
    rewrite Hxk. auto.
Qed.

Lemma find_dup_spec ks :
  find_dup keqb ks = (rev (dups_r (rev ks)), first_of (seen_of (rev ks))).
Proof.
  unfold find_dup. pose proof (dup_loop_spec ks []) as H.
  change (seen_of []) with (@nil (K * list nat)) in H. cbn [List.length dups_r] in H.
  rewrite H, app_nil_r. auto.
Qed.

Lemma existsb_rev (p : K -> bool) l : existsb p (rev l) = existsb p l.
Proof.
  induction l as [|a l IH]; simpl; auto.
  rewrite existsb_app. simpl. rewrite IH, orb_false_r. apply orb_comm.
Qed.

Lemma dups_r_lt rp i : In i (dups_r rp) -> i < List.length rp.
Proof.
  induction rp as [|x r IH]; simpl. intros [].
  destruct (existsb (keqb x) r); simpl; intros H.
  - destruct H as [<-|H]; [lia | apply IH in H; lia].
  - apply IH in H; lia.
Qed.

(** index-level reading of [dups_r] *)
Lemma dups_r_in rp i :
  In i (dups_r rp) <->
  exists x, nth_error (rev rp) i = Some x /\ existsb (keqb x) (firstn i (rev rp)) = true.
Proof.
  revert i. induction rp as [|x r IH]; intro i; simpl.
  - split. intros []. intros (y & H & _). destruct i; discriminate.
  - assert (Hlen : List.length (rev r) = List.length r) by apply rev_length.
    split.
    + intro H.
      assert (Hcase : (i = List.length r /\ existsb (keqb x) r = true) \/ In i (dups_r r)).
      { destruct (existsb (keqb x) r); simpl in H; intuition. }
      destruct Hcase as [[-> E]|Hin].
      * exists x. split.
        -- rewrite nth_error_app2 by lia. rewrite Hlen, Nat.sub_diag. auto.
        -- rewrite firstn_app, Hlen, Nat.sub_diag. simpl. rewrite app_nil_r.
           rewrite firstn_all2 by lia. rewrite existsb_rev. auto.
      * pose proof (dups_r_lt _ _ Hin) as Hlt.
        apply IH in Hin. destruct Hin as (y & Hy & Hex). exists y. split.
        -- rewrite nth_error_app1 by lia. auto.
        -- rewrite firstn_app. replace (i - List.length (rev r)) with 0 by lia.
           simpl. rewrite app_nil_r. auto.
    + intros (y & Hy & Hex).
      destruct (Nat.lt_ge_cases i (List.length r)) as [Hlt|Hge].
      * assert (In i (dups_r r)) as Hin.
        { apply IH. exists y. rewrite nth_error_app1 in Hy by lia. split; auto.
          rewrite firstn_app in Hex. replace (i - List.length (rev r)) with 0 in Hex by lia.
          simpl in Hex. rewrite app_nil_r in Hex. auto. }
        destruct (existsb (keqb x) r); simpl; auto.
      * assert (i = List.length r) as ->.
        { assert (i < List.length (rev r ++ [x])) by (apply nth_error_Some; congruence).
          rewrite app_length in H. simpl in H. lia. }
        rewrite nth_error_app2 in Hy by lia. rewrite Hlen, Nat.sub_diag in Hy.
        simpl in Hy. injection Hy as <-.
        rewrite firstn_app, Hlen, Nat.sub_diag in Hex. simpl in Hex.
        rewrite app_nil_r, firstn_all2, existsb_rev in Hex by lia.
        rewrite Hex. simpl. auto.
Qed.

Lemma existsb_firstn_iff (p : K -> bool) l i :
  existsb p (firstn i l) = true <-> exists j y, j < i /\ nth_error l j = Some y /\ p y = true.
Proof.
  revert i. induction l as [|a l IH]; intro i.
  - rewrite firstn_nil. simpl. split. discriminate.
    intros (j & y & _ & H & _). destruct j; discriminate.
  - destruct i; simpl.
    + split. discriminate. intros (j & y & H & _). lia.
    + rewrite orb_true_iff, IH. split.
      * intros [H|(j & y & Hj & Hy & Hp)].
        -- exists 0, a. repeat split; auto. lia.
        -- exists (S j), y. repeat split; auto. lia.
      * intros (j & y & Hj & Hy & Hp). destruct j; simpl in Hy.
        -- injection Hy as ->. auto.
        -- right. exists j, y. repeat split; auto. lia.
Qed.

Theorem dup_spec_lemma ks i :
  In i (fst (find_dup keqb ks)) <->
  exists x, nth_error ks i = Some x /\
            exists j y, j < i /\ nth_error ks j = Some y /\ keqb x y = true.
Proof.
  rewrite find_dup_spec. simpl. rewrite <- in_rev, dups_r_in, rev_involutive.
  split; intros (x & Hx & H); exists x; split; auto; apply existsb_firstn_iff; auto.
Qed.

Lemma dups_r_desc rp : StronglySorted (fun a b => b < a) (dups_r rp).
Proof.
  induction rp as [|x r IH]; simpl. constructor.
  destruct (existsb (keqb x) r); auto.
  constructor; auto. apply Forall_forall. intros i Hi. apply dups_r_lt; auto.
Qed.

Lemma sorted_rev_desc l : StronglySorted (fun a b => b < a) l -> StronglySorted lt (rev l).
Proof.
  induction 1 as [|a l Hs IH Ha]; simpl. constructor.
  clear Hs. revert IH. generalize (rev_involutive l). 
  assert (Forall (fun b => b < a) (rev l)) as Hr.
  { apply Forall_forall. intros b Hb. apply in_rev in Hb.
    rewrite Forall_forall in Ha. auto. }
  clear Ha. intros _. revert Hr. generalize (rev l) as m. clear l.
  induction m as [|b m IHm]; simpl; intros Hr Hs.
  - constructor; constructor.
  - inversion Hs; subst. inversion Hr; subst. constructor.
    + apply IHm; auto.
    + apply Forall_app. split; auto.
Qed.

Theorem dup_sorted_lemma ks : StronglySorted lt (fst (find_dup keqb ks)).
Proof. rewrite find_dup_spec. simpl. apply sorted_rev_desc, dups_r_desc. Qed.

(** positions (ascending) of the elements of [l] equivalent to [k] *)
Definition pos (k : K) (l : list K) : list nat :=
  map fst (filter (fun p : nat * K => keqb (snd p) k) (enumerate l)).

Lemma enumerate_from_app {X} n (a b : list X) :
  enumerate_from n (a ++ b) = enumerate_from n a ++ enumerate_from (n + List.length a) b.
Proof.
  revert n. induction a as [|x a IH]; intro n; simpl.
  - rewrite Nat.add_0_r. auto.
  - rewrite IH. do 3 f_equal. lia.
Qed.

Lemma rev_idxs_r k rp : rev (idxs_r k rp) = pos k (rev rp).
Proof.
  unfold pos, enumerate. induction rp as [|y r IH]; simpl; auto.
  rewrite enumerate_from_app, filter_app, map_app. simpl. rewrite rev_length.
  destruct (keqb y k); simpl; rewrite IH; auto. rewrite app_nil_r. auto.
Qed.

Lemma enumerate_from_in {X} n (l : list X) i x :
  In (i, x) (enumerate_from n l) <-> n <= i /\ nth_error l (i - n) = Some x.
Proof.
  revert n. induction l as [|a l IH]; intro n; simpl.
  - split. intros []. intros [_ H]. destruct (i - n); discriminate.
  - rewrite IH. split.
    + intros [H|[H1 H2]].
      * injection H as -> ->. rewrite Nat.sub_diag. auto.
      * split. lia. replace (i - n) with (S (i - S n)) by lia. auto.
    + intros [H1 H2]. destruct (Nat.eq_dec i n) as [->|Hne].
      * rewrite Nat.sub_diag in H2. simpl in H2. injection H2 as ->. auto.
      * right. split. lia. replace (i - n) with (S (i - S n)) in H2 by lia. auto.
Qed.

Lemma pos_in k l j :
  In j (pos k l) <-> exists y, nth_error l j = Some y /\ keqb y k = true.
Proof.
  unfold pos. rewrite in_map_iff. split.
  - intros ([i x] & <- & H). apply filter_In in H. destruct H as [H1 H2]. simpl in *.
    apply enumerate_from_in in H1. rewrite Nat.sub_0_r in H1. exists x. tauto.
  - intros (y & H1 & H2). exists (j, y). split; auto. apply filter_In. split; auto.
    apply enumerate_from_in. rewrite Nat.sub_0_r. split; auto. lia.
Qed.

Lemma enumerate_from_sorted {X} n (l : list X) :
  StronglySorted lt (map fst (enumerate_from n l)).
Proof.
  revert n. induction l as [|a l IH]; intro n; simpl; constructor; auto.
  apply Forall_forall. intros i Hi. apply in_map_iff in Hi.
  destruct Hi as ([i' x] & <- & Hin). apply enumerate_from_in in Hin. simpl. lia.
Qed.

Lemma sorted_map_filter {X} (f : X -> nat) (p : X -> bool) l :
  StronglySorted lt (map f l) -> StronglySorted lt (map f (filter p l)).
Proof.
  induction l as [|a l IH]; simpl; auto. intro H. inversion H; subst.
  destruct (p a); simpl; auto. constructor; auto.
  apply Forall_forall. intros i Hi. apply in_map_iff in Hi.
  destruct Hi as (x & <- & Hx). apply filter_In in Hx.
  rewrite Forall_forall in H3. apply H3. apply in_map. tauto.
Qed.

Lemma pos_sorted k l : StronglySorted lt (pos k l).
Proof. apply sorted_map_filter, enumerate_from_sorted. Qed.

Lemma sorted_head l i :
  StronglySorted lt l -> In i l -> (forall m, In m l -> i <= m) -> exists tl, l = i :: tl.
Proof.
  intros Hs Hi Hmin. destruct l as [|a tl]. destruct Hi.
  exists tl. f_equal. inversion Hs; subst. destruct Hi as [->|Hi]; auto.
  rewrite Forall_forall in H2. specialize (H2 i Hi). specialize (Hmin a (or_introl eq_refl)). lia.
Qed.

Lemma first_of_in (s : list (K * list nat)) i :
  In i (first_of s) <-> exists e, In e s /\ exists j rest, rev (snd e) = i :: j :: rest.
Proof.
  unfold first_of. rewrite in_flat_map. split.
  - intros (e & He & Hi). exists e. split; auto.
    destruct (rev (snd e)) as [|a [|b r]]; try destruct Hi.
    + subst. eauto.
    + destruct H.
  - intros (e & He & j & rest & H). exists e. split; auto. rewrite H. simpl. auto.
Qed.

Theorem first_spec_lemma ks i :
  In i (snd (find_dup keqb ks)) <->
  exists x, nth_error ks i = Some x /\
    (forall j y, j < i -> nth_error ks j = Some y -> keqb x y = false) /\
    (exists j y, i < j /\ nth_error ks j = Some y /\ keqb y x = true).
Proof.
  rewrite find_dup_spec. simpl. rewrite first_of_in. split.
  - intros (e & He & j & rest & Hrev). unfold seen_of in He. apply in_map_iff in He.
    destruct He as (k & <- & Hk). simpl in Hrev. rewrite rev_idxs_r, rev_involutive in Hrev.
    assert (Hi : In i (pos k ks)) by (rewrite Hrev; simpl; auto).
    assert (Hj : In j (pos k ks)) by (rewrite Hrev; simpl; auto).
    pose proof (pos_sorted k ks) as Hs. rewrite Hrev in Hs.
    apply pos_in in Hi. destruct Hi as (x & Hx & Hxk).
    apply pos_in in Hj. destruct Hj as (y & Hy & Hyk).
    exists x. split; auto. split.
    + intros j' y' Hlt Hy'. destruct (keqb x y') eqn:E; auto. exfalso.
      assert (In j' (pos k ks)) as Hin.
      { apply pos_in. exists y'. split; auto. rewrite <- Hxk. symmetry.
        apply keqb_cong_l. auto. }
      rewrite Hrev in Hin. inversion Hs; subst. rewrite Forall_forall in H2.
      destruct Hin as [->|Hin]. lia. specialize (H2 j' Hin). lia.
    + exists j, y. inversion Hs; subst. rewrite Forall_forall in H2.
      split. apply H2. simpl; auto. split; auto.
      rewrite (keqb_cong_l y k x Hyk). rewrite keqb_sym. auto.
  - intros (x & Hx & Hnone & j & y & Hij & Hy & Hyx).
    assert (Hex : existsb (keqb x) (keys_r (rev ks)) = true).
    { rewrite existsb_keys_r, existsb_rev. apply existsb_exists. exists x. split; auto.
      eapply nth_error_In; eauto. }
    apply existsb_exists in Hex. destruct Hex as (k & Hk & Hxk).
    exists (k, idxs_r k (rev ks)). split.
    { unfold seen_of. apply in_map_iff. exists k. auto. }
    simpl. rewrite rev_idxs_r, rev_involutive.
    assert (Hi : In i (pos k ks)) by (apply pos_in; eauto).
    assert (Hj : In j (pos k ks)).
    { apply pos_in. exists y. split; auto. eapply keqb_trans; eauto. }
    destruct (sorted_head (pos k ks) i (pos_sorted k ks) Hi) as (tl & Htl).
    { intros m Hm. apply pos_in in Hm. destruct Hm as (z & Hz & Hzk).
      destruct (Nat.lt_ge_cases m i) as [Hlt|]; auto. exfalso.
      specialize (Hnone m z Hlt Hz).
      rewrite (keqb_cong_l x k z Hxk), keqb_sym, Hzk in Hnone. discriminate. }
    rewrite Htl in Hj |- *. destruct Hj as [->|Hj]. lia.
    destruct tl as [|b tl]. destruct Hj. eauto.
Qed.

(** removing the reported indices *)
Lemma memb_in l i : memb Nat.eqb i l = true <-> In i l.
Proof.
  induction l as [|a l IH]; simpl. split. discriminate. intros [].
  rewrite orb_true_iff, IH, Nat.eqb_eq. intuition.
Qed.

Lemma remove_idxs_ext {Y} (d d' : list nat) (l : list Y) :
  (forall i, i < List.length l -> (In i d <-> In i d')) -> remove_idxs d l = remove_idxs d' l.
Proof.
  intro H. unfold remove_idxs. f_equal. apply filter_ext_in. intros [i y] Hin. simpl.
  apply enumerate_from_in in Hin. destruct Hin as [_ Hin].
  assert (i < List.length l) as Hlt by (apply nth_error_Some; rewrite Nat.sub_0_r in Hin; congruence).
  specialize (H i Hlt). f_equal.
  destruct (memb Nat.eqb i d) eqn:E1, (memb Nat.eqb i d') eqn:E2; auto.
  - apply memb_in in E1. apply H in E1. apply memb_in in E1. congruence.
  - apply memb_in in E2. apply H in E2. apply memb_in in E2. congruence.
Qed.

Lemma remove_idxs_snoc {Y} d (l : list Y) x :
  remove_idxs d (l ++ [x]) =
  remove_idxs d l ++ (if memb Nat.eqb (List.length l) d then [] else [x]).
Proof.
  unfold remove_idxs, enumerate. rewrite enumerate_from_app, filter_app, map_app. simpl.
  destruct (memb Nat.eqb (List.length l) d); auto.
Qed.

Lemma remove_dups_r rp : remove_idxs (dups_r rp) (rev rp) = keys_r rp.
Proof.
  induction rp as [|x r IH]; simpl; auto.
  rewrite remove_idxs_snoc, rev_length.
  destruct (existsb (keqb x) r) eqn:E.
  - simpl. rewrite Nat.eqb_refl. simpl. rewrite app_nil_r. rewrite <- IH.
    apply remove_idxs_ext. intros i Hi. rewrite rev_length in Hi. simpl. intuition lia.
  - rewrite IH. destruct (memb Nat.eqb (List.length r) (dups_r r)) eqn:M; auto.
    apply memb_in, dups_r_lt in M. lia.
Qed.

Theorem remove_keeps_first_lemma ks :
  remove_idxs (fst (find_dup keqb ks)) ks = keys_r (rev ks).
Proof.
  rewrite find_dup_spec. simpl. rewrite <- (remove_dups_r (rev ks)), rev_involutive.
  apply remove_idxs_ext. intros i _. rewrite <- in_rev. tauto.
Qed.

Lemma distinctK_nth l : distinctK l ->
  forall i j x y, i < j -> nth_error l i = Some x -> nth_error l j = Some y -> keqb x y = false.
Proof.
  induction 1 as [|a l Ha Hd IH]; intros i j x y Hij Hx Hy.
  - destruct i; discriminate.
  - destruct j. lia. simpl in Hy. destruct i; simpl in Hx.
    + injection Hx as ->. eapply existsb_false_iff in Ha; eauto. eapply nth_error_In; eauto.
    + apply (IH i j x y); auto. lia.
Qed.

Lemma no_members_nil (l : list nat) : (forall i, ~ In i l) -> l = [].
Proof. destruct l; auto. intro H. exfalso. apply (H n). simpl; auto. Qed.

Theorem find_dup_distinct l : distinctK l -> find_dup keqb l = ([], []).
Proof.
  intro Hd. rewrite (surjective_pairing (find_dup keqb l)). f_equal.
  - apply no_members_nil. intros i Hi. apply dup_spec_lemma in Hi.
    destruct Hi as (x & Hx & j & y & Hji & Hy & Hxy).
    rewrite keqb_sym in Hxy. rewrite (distinctK_nth l Hd j i y x Hji Hy Hx) in Hxy. discriminate.
  - apply no_members_nil. intros i Hi. apply first_spec_lemma in Hi.
    destruct Hi as (x & Hx & _ & j & y & Hij & Hy & Hyx).
    rewrite keqb_sym in Hyx. rewrite (distinctK_nth l Hd i j x y Hij Hx Hy) in Hyx. discriminate.
Qed.

Theorem remove_roundtrip_lemma ks :
  find_dup keqb (remove_idxs (fst (find_dup keqb ks)) ks) = ([], []).
Proof. rewrite remove_keeps_first_lemma. apply find_dup_distinct, keys_r_distinct. Qed.

(* the kept list: pairwise inequivalent, and every input has a representative *)
Theorem kept_represents_lemma ks x :
  In x ks -> exists y, In y (remove_idxs (fst (find_dup keqb ks)) ks) /\ keqb x y = true.
Proof.
  intro Hx. rewrite remove_keeps_first_lemma.
  assert (existsb (keqb x) (keys_r (rev ks)) = true) as H.
  { rewrite existsb_keys_r, existsb_rev. apply existsb_exists. eauto. }
  apply existsb_exists in H. destruct H as (y & Hy & Hxy). eauto.
Qed.

End Equiv.

(** [find_dup] only looks at [keqb] on the elements of the list *)
Section Ext.
Context {K : Type}.
Variables e1 e2 : K -> K -> bool.

Lemma seen_lookup_ext k (s : list (K * list nat)) :
  (forall k', In k' (map fst s) -> e1 k k' = e2 k k') -> seen_lookup e1 k s = seen_lookup e2 k s.
Proof.
  induction s as [|[k' l] s IH]; simpl; auto. intro H. rewrite H, IH; auto.
Qed.

Lemma seen_append_ext k idx (s : list (K * list nat)) :
  (forall k', In k' (map fst s) -> e1 k k' = e2 k k') -> seen_append e1 k idx s = seen_append e2 k idx s.
Proof.
  induction s as [|[k' l] s IH]; simpl; auto. intro H. rewrite H, IH; auto.
Qed.

Lemma seen_append_keys (e : K -> K -> bool) k idx (s : list (K * list nat)) :
  map fst (seen_append e k idx s) = map fst s.
Proof.
  induction s as [|[k' l] s IH]; simpl; auto. destruct (e k k'); simpl; f_equal; auto.
Qed.

Lemma dup_loop_ext keys : forall idx seen dups (P : K -> Prop),
  (forall a b, P a -> P b -> e1 a b = e2 a b) ->
  Forall P keys -> Forall P (map fst seen) ->
  dup_loop e1 idx keys seen dups = dup_loop e2 idx keys seen dups.
Proof.
  induction keys as [|k keys IH]; intros idx seen dups P HP Hk Hs; simpl; auto.
  inversion Hk; subst.
  assert (forall k', In k' (map fst seen) -> e1 k k' = e2 k k') as Hx.
  { intros k' Hk'. apply HP; auto. rewrite Forall_forall in Hs. auto. }
  rewrite (seen_lookup_ext k seen Hx), (seen_append_ext k idx seen Hx).
  destruct (seen_lookup e2 k seen).
  - apply (IH _ _ _ P); auto. rewrite seen_append_keys. auto.
  - apply (IH _ _ _ P); auto. rewrite map_app. apply Forall_app. split; auto.
    simpl. constructor; auto.
Qed.

Theorem find_dup_ext (P : K -> Prop) ks :
  (forall a b, P a -> P b -> e1 a b = e2 a b) -> Forall P ks -> find_dup e1 ks = find_dup e2 ks.
Proof.
  intros HP Hk. unfold find_dup. rewrite (dup_loop_ext ks 0 [] [] P HP Hk); auto.
  simpl. constructor.
Qed.
End Ext.

(** the comparison keys *)
Lemma count_perm {X} (eqb : X -> X -> bool) x a a' : Permutation a a' -> count eqb x a = count eqb x a'.
Proof. induction 1; simpl; lia. Qed.

Lemma mset_eqb_perm_l {X} (eqb : X -> X -> bool) a a' b :
  Permutation a a' -> mset_eqb eqb a b = mset_eqb eqb a' b.
Proof.
  intro H. unfold mset_eqb. rewrite (Permutation_length H). f_equal.
  apply eq_iff_eq_true. rewrite !forallb_forall. split; intros E x Hx.
  - rewrite <- (count_perm eqb x a a' H). apply E.
    eapply Permutation_in; [symmetry; exact H | exact Hx].
  - rewrite (count_perm eqb x a a' H). apply E. eapply Permutation_in; eauto.
Qed.

Lemma mset_eqb_perm_r {X} (eqb : X -> X -> bool) a b b' :
  Permutation b b' -> mset_eqb eqb a b = mset_eqb eqb a b'.
Proof.
  intro H. unfold mset_eqb. rewrite (Permutation_length H). f_equal.
  apply eq_iff_eq_true. rewrite !forallb_forall.
  split; intros E x Hx; specialize (E x Hx); rewrite (count_perm eqb x b b' H) in *; auto.
Qed.

Lemma nat_count_in x l : count Nat.eqb x l <> 0 <-> In x l.
Proof.
  induction l as [|a l IH]; simpl. intuition.
  destruct (Nat.eqb_spec x a); subst; simpl; intuition.
Qed.

(* Counter equality on identities is multiset equality *)
Lemma mset_eqb_spec a b : mset_eqb Nat.eqb a b = true <-> Permutation a b.
Proof.
  split.
  - unfold mset_eqb. rewrite andb_true_iff, Nat.eqb_eq, forallb_forall. intros [Hl Hc].
    revert b Hl Hc. induction a as [|x a IH]; intros b Hl Hc.
    + destruct b; [constructor | discriminate].
    + assert (In x b) as Hin.
      { apply nat_count_in. specialize (Hc x (or_introl eq_refl)). apply Nat.eqb_eq in Hc.
        simpl in Hc. rewrite Nat.eqb_refl in Hc. lia. }
      apply in_split in Hin. destruct Hin as (b1 & b2 & ->).
      apply Permutation_cons_app. apply IH.
      * rewrite app_length in *. simpl in *. lia.
      * intros y Hy. specialize (Hc y (or_intror Hy)). apply Nat.eqb_eq in Hc. apply Nat.eqb_eq.
        assert (count Nat.eqb y (b1 ++ x :: b2) = count Nat.eqb y (x :: b1 ++ b2)) as E.
        { apply count_perm. symmetry. apply Permutation_middle. }
        rewrite E in Hc. simpl in Hc. lia.
  - intro H. rewrite <- (mset_eqb_perm_r Nat.eqb a a b H). unfold mset_eqb.
    rewrite Nat.eqb_refl. simpl. apply forallb_forall. intros. apply Nat.eqb_refl.
Qed.

Lemma mset_eqb_refl a : mset_eqb Nat.eqb a a = true.
Proof. apply mset_eqb_spec. reflexivity. Qed.
Lemma mset_eqb_sym a b : mset_eqb Nat.eqb a b = mset_eqb Nat.eqb b a.
Proof.
  destruct (mset_eqb Nat.eqb a b) eqn:E, (mset_eqb Nat.eqb b a) eqn:E'; auto.
  - apply mset_eqb_spec in E. symmetry in E. apply mset_eqb_spec in E. congruence.
  - apply mset_eqb_spec in E'. symmetry in E'. apply mset_eqb_spec in E'. congruence.
Qed.
Lemma mset_eqb_trans a b c :
  mset_eqb Nat.eqb a b = true -> mset_eqb Nat.eqb b c = true -> mset_eqb Nat.eqb a c = true.
Proof. rewrite !mset_eqb_spec. intros. etransitivity; eauto. Qed.

Lemma rpeq_refl a : rpeq a a = true.
Proof. unfold rpeq. rewrite !mset_eqb_refl. auto. Qed.
Lemma rpeq_sym a b : rpeq a b = rpeq b a.
Proof. unfold rpeq. rewrite (mset_eqb_sym (k_reac a)), (mset_eqb_sym (k_prod a)). auto. Qed.
Lemma rpeq_trans a b c : rpeq a b = true -> rpeq b c = true -> rpeq a c = true.
Proof.
  unfold rpeq. rewrite !andb_true_iff. intros [H1 H2] [H3 H4].
  split; eapply mset_eqb_trans; eauto.
Qed.

Lemma streqb_fun_refl {X} (f : X -> string) a : String.eqb (f a) (f a) = true.
Proof. apply String.eqb_refl. Qed.
Lemma streqb_fun_sym {X} (f : X -> string) a b : String.eqb (f a) (f b) = String.eqb (f b) (f a).
Proof. apply String.eqb_sym. Qed.
Lemma streqb_fun_trans {X} (f : X -> string) a b c :
  String.eqb (f a) (f b) = true -> String.eqb (f b) (f c) = true -> String.eqb (f a) (f c) = true.
Proof. rewrite !String.eqb_eq. congruence. Qed.

(* default mode without the UNKNOWN wildcard: an equivalence *)
Definition rxn_eqb_strict (a b : rxn_key) : bool :=
  rpeq a b && String.eqb (k_tmin a) (k_tmin b) && String.eqb (k_tmax a) (k_tmax b)
  && Z.eqb (k_type a) (k_type b).

Lemma strict_refl a : rxn_eqb_strict a a = true.
Proof. unfold rxn_eqb_strict. rewrite rpeq_refl, !String.eqb_refl, Z.eqb_refl. auto. Qed.
Lemma strict_sym a b : rxn_eqb_strict a b = rxn_eqb_strict b a.
Proof.
  unfold rxn_eqb_strict. rewrite rpeq_sym, (String.eqb_sym (k_tmin a)), (String.eqb_sym (k_tmax a)), Z.eqb_sym. auto.
Qed.
Lemma strict_trans a b c : rxn_eqb_strict a b = true -> rxn_eqb_strict b c = true -> rxn_eqb_strict a c = true.
Proof.
  unfold rxn_eqb_strict. rewrite !andb_true_iff, !String.eqb_eq, !Z.eqb_eq.
  intros [[[H1 H2] H3] H4] [[[H5 H6] H7] H8]. repeat split; try congruence.
  eapply rpeq_trans; eauto.
Qed.

Definition known_type (a : rxn_key) : Prop := k_type a <> UNKNOWN_T.
Definition unknown_type (a : rxn_key) : Prop := k_type a = UNKNOWN_T.

Lemma rxn_eqb_strict_on_known a b : known_type a -> known_type b -> rxn_eqb a b = rxn_eqb_strict a b.
Proof.
  unfold known_type, rxn_eqb, rxn_eqb_strict. intros Ha Hb. f_equal.
  apply Z.eqb_neq in Ha, Hb. rewrite Ha, Hb, !orb_false_r. auto.
Qed.

(** sorted lists of names: the formatted modes *)
Lemma string_leb_total a b : string_leb a b = true \/ string_leb b a = true.
Proof.
  revert b. induction a as [|x a IH]; intro b; simpl; auto.
  destruct b as [|y b]; simpl; auto.
  destruct (Nat.ltb_spec (Ascii.nat_of_ascii x) (Ascii.nat_of_ascii y)); auto.
  destruct (Nat.ltb_spec (Ascii.nat_of_ascii y) (Ascii.nat_of_ascii x)); auto.
Qed.

Lemma string_leb_antisym a b : string_leb a b = true -> string_leb b a = true -> a = b.
Proof.
  revert b. induction a as [|x a IH]; intro b; destruct b as [|y b]; simpl; auto; try discriminate.
  destruct (Nat.ltb_spec (Ascii.nat_of_ascii x) (Ascii.nat_of_ascii y));
  destruct (Nat.ltb_spec (Ascii.nat_of_ascii y) (Ascii.nat_of_ascii x)); try discriminate; try lia.
  intros H1 H2. f_equal; auto.
  rewrite <- (Ascii.ascii_nat_embedding x), <- (Ascii.ascii_nat_embedding y). f_equal. lia.
Qed.

Lemma string_leb_trans a b c : string_leb a b = true -> string_leb b c = true -> string_leb a c = true.
Proof.
  revert b c. induction a as [|x a IH]; intros b c; simpl; auto.
  destruct b as [|y b]; simpl; try discriminate. destruct c as [|z c]; simpl.
  - intros _ H; discriminate.
  - generalize (Ascii.nat_of_ascii x) (Ascii.nat_of_ascii y) (Ascii.nat_of_ascii z). intros nx ny nz.
    destruct (Nat.ltb_spec nx ny); destruct (Nat.ltb_spec ny nx);
    destruct (Nat.ltb_spec ny nz); destruct (Nat.ltb_spec nz ny);
    destruct (Nat.ltb_spec nx nz); destruct (Nat.ltb_spec nz nx);
    intros Hab Hbc; try discriminate; try lia; auto.
    eapply IH; eauto.
Qed.

Section SortUnique.
Variable leb : string -> string -> bool.
Hypothesis leb_total : forall a b, leb a b = true \/ leb b a = true.
Hypothesis leb_antisym : forall a b, leb a b = true -> leb b a = true -> a = b.
Hypothesis leb_trans : forall a b c, leb a b = true -> leb b c = true -> leb a c = true.

Lemma insert_perm x l : Permutation (insert_sorted leb x l) (x :: l).
Proof.
  induction l as [|y l IH]; simpl; auto. destruct (leb x y); auto.
  rewrite IH. apply perm_swap.
Qed.
Lemma isort_perm l : Permutation (isort leb l) l.
Proof. induction l as [|x l IH]; simpl; auto. rewrite insert_perm. auto. Qed.

Definition sortedS := StronglySorted (fun a b => leb a b = true).

Lemma insert_sortedS x l : sortedS l -> sortedS (insert_sorted leb x l).
Proof.
  induction 1 as [|y l Hs IH Hy]; simpl. repeat constructor.
  destruct (leb x y) eqn:E.
  - constructor. constructor; auto. constructor; auto.
    eapply Forall_impl; [|exact Hy]. intros z Hz. eapply leb_trans; eauto.
  - constructor; auto. apply Forall_forall. intros z Hz.
    eapply Permutation_in in Hz; [|apply insert_perm]. destruct Hz as [<-|Hz].
    + destruct (leb_total x y); congruence.
    + rewrite Forall_forall in Hy. auto.
Qed.
Lemma isort_sortedS l : sortedS (isort leb l).
Proof. induction l; simpl. constructor. apply insert_sortedS; auto. Qed.

Lemma sorted_perm_eq l l' : sortedS l -> sortedS l' -> Permutation l l' -> l = l'.
Proof.
  intros Hl. revert l'. induction Hl as [|x l Hs IH Hx]; intros l' Hl' Hp.
  - apply Permutation_nil in Hp. auto.
  - destruct l' as [|y l']. { symmetry in Hp. apply Permutation_nil in Hp. discriminate. }
    inversion Hl'; subst.
    assert (x = y) as ->.
    { assert (In x (y :: l')) as Hin by (eapply Permutation_in; eauto; simpl; auto).
      assert (In y (x :: l)) as Hin' by (eapply Permutation_in; [symmetry; eauto|]; simpl; auto).
      rewrite Forall_forall in Hx, H2.
      destruct Hin as [->|Hin]; auto. destruct Hin' as [->|Hin']; auto. }
    f_equal. apply IH; auto. eapply Permutation_cons_inv; eauto.
Qed.

Lemma isort_perm_eq l l' : Permutation l l' -> isort leb l = isort leb l'.
Proof.
  intro H. apply sorted_perm_eq; try apply isort_sortedS.
  rewrite isort_perm, isort_perm. auto.
Qed.
End SortUnique.

Lemma sort_names_perm l l' : Permutation l l' -> isort string_leb l = isort string_leb l'.
Proof.
  apply isort_perm_eq. apply string_leb_total. apply string_leb_antisym. apply string_leb_trans.
Qed.

Lemma mode_equivalence_lemma :
  ((forall x, brief_eqb x x = true) /\ (forall x y, brief_eqb x y = brief_eqb y x) /\
   (forall x y z, brief_eqb x y = true -> brief_eqb y z = true -> brief_eqb x z = true)) /\
  ((forall x, minimal_eqb x x = true) /\ (forall x y, minimal_eqb x y = minimal_eqb y x) /\
   (forall x y z, minimal_eqb x y = true -> minimal_eqb y z = true -> minimal_eqb x z = true)) /\
  ((forall x, short_eqb x x = true) /\ (forall x y, short_eqb x y = short_eqb y x) /\
   (forall x y z, short_eqb x y = true -> short_eqb y z = true -> short_eqb x z = true)).
Proof.
  repeat split.
  - apply rpeq_refl. - apply rpeq_sym. - apply rpeq_trans.
  - apply (streqb_fun_refl minimal_str). - apply (streqb_fun_sym minimal_str). - apply (streqb_fun_trans minimal_str).
  - apply (streqb_fun_refl short_str). - apply (streqb_fun_sym short_str). - apply (streqb_fun_trans short_str).
Qed.

Section Thms.
Context {K : Type} (e : K -> K -> bool).
Hypothesis He : (forall x, e x x = true) /\ (forall x y, e x y = e y x) /\
  (forall x y z, e x y = true -> e y z = true -> e x z = true).
Let r := proj1 He. Let s := proj1 (proj2 He). Let t := proj2 (proj2 He).
Definition dup_spec_thm := dup_spec_lemma e r s t.
Definition dup_sorted_thm := dup_sorted_lemma e r s t.
Definition first_spec_thm := first_spec_lemma e r s t.
Definition remove_roundtrip_thm := remove_roundtrip_lemma e r s t.
Definition kept_represents_thm := kept_represents_lemma e r s t.
End Thms.

Lemma order_irrelevant_thm : forall a a' b,
  Permutation (k_reac a) (k_reac a') -> Permutation (k_prod a) (k_prod a') ->
  Permutation (k_rnames a) (k_rnames a') -> Permutation (k_pnames a) (k_pnames a') ->
  k_tmin a = k_tmin a' -> k_tmax a = k_tmax a' -> k_tminf a = k_tminf a' -> k_tmaxf a = k_tmaxf a' ->
  k_type a = k_type a' -> k_tname a = k_tname a' ->
  forall mode, mode_eqb mode a b = mode_eqb mode a' b /\ mode_eqb mode b a = mode_eqb mode b a'.
Proof.
  intros a a' b Hr Hp Hrn Hpn H1 H2 H3 H4 H5 H6 mode.
  assert (Hrp : rpeq a b = rpeq a' b /\ rpeq b a = rpeq b a').
  { unfold rpeq. rewrite (mset_eqb_perm_l Nat.eqb _ _ _ Hr), (mset_eqb_perm_l Nat.eqb _ _ _ Hp),
      (mset_eqb_perm_r Nat.eqb _ _ _ Hr), (mset_eqb_perm_r Nat.eqb _ _ _ Hp). auto. }
  assert (Hm : minimal_str a = minimal_str a').
  { unfold minimal_str. rewrite (sort_names_perm _ _ Hrn), (sort_names_perm _ _ Hpn). auto. }
  assert (Hs : short_str a = short_str a').
  { unfold short_str. rewrite Hm, H3, H4, H6. auto. }
  unfold mode_eqb.
  destruct (String.eqb mode "brief"). { exact Hrp. }
  destruct (String.eqb mode "minimal"). { unfold minimal_eqb. rewrite Hm. auto. }
  destruct (String.eqb mode "short"). { unfold short_eqb. rewrite Hs. auto. }
  unfold rxn_eqb. destruct Hrp as [-> ->]. rewrite H1, H2, H5. auto.
Qed.

Lemma default_on_known_thm : forall ks, Forall known_type ks ->
  find_dup rxn_eqb ks = find_dup rxn_eqb_strict ks /\
  ((forall x, rxn_eqb_strict x x = true) /\ (forall x y, rxn_eqb_strict x y = rxn_eqb_strict y x) /\
   (forall x y z, rxn_eqb_strict x y = true -> rxn_eqb_strict y z = true -> rxn_eqb_strict x z = true)).
Proof.
  intros ks H. split.
  - apply (find_dup_ext rxn_eqb rxn_eqb_strict known_type); auto.
    apply rxn_eqb_strict_on_known.
  - repeat split. apply strict_refl. apply strict_sym. apply strict_trans.
Qed.

Definition mk (r p : list nat) (ty : Z) : rxn_key :=
  {| k_reac := r; k_prod := p; k_rnames := []; k_pnames := []; k_tmin := "-1.0"; k_tmax := "-1.0";
     k_tminf := ""; k_tmaxf := ""; k_type := ty; k_tname := "" |}.

Lemma default_refuted_thm :
  exists a b c, rxn_eqb a b = true /\ rxn_eqb b c = true /\ rxn_eqb a c = false /\
    fst (find_dup rxn_eqb [a; b; c]) = [1] /\ fst (find_dup rxn_eqb [b; a; c]) = [1; 2].
Proof.
  exists (mk [0;1] [2] 100%Z), (mk [1;0] [2] 999%Z), (mk [0;1] [2] 101%Z).
  vm_compute. repeat split.
Qed.
