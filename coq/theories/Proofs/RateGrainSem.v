(** C11: the dust-model laws (Hasegawa & Herbst 1993; Roberts et al. 2007 as in UCLCHEM 1.3) *)
From Coq Require Import List Arith Bool String Ascii ZArith Reals Lra.
From Naunet Require Import Lib.ListX Lib.PyStr Model.CExpr Model.RateGas Model.RateGrain Proofs.RateSem.
Import ListNotations.
Open Scope R_scope.

(* one interpretation of the emitted text: literals, identifiers, library functions, printed
   magnitudes, array subscripts, registry symbols *)
Record interp := {
  i_lit : list ascii -> R; i_var : list ascii -> R; i_fn : list ascii -> list R -> R;
  i_mag : nat -> R; i_idx : list ascii -> R -> R; i_nm : nat -> R;
}.

Section Laws.
Variable I : interp.
Notation litv := (i_lit I).
Notation var := (i_var I).
Notation fn := (i_fn I).
Notation mag := (i_mag I).
Notation idx := (i_idx I).
Notation nm := (i_nm I).
Hypothesis lit0 : litv ["0"; "."; "0"]%char = 0.
Notation sem := (sem litv var fn mag idx nm).
Notation cval := (cval mag).
Notation V := (V var).
Notation Lt := (Lt litv).
Notation F1 := (F1 fn).
Notation F2 := (F2 fn).

(* what the generated code computes for a grain reaction: the model's string after the
   reaction class's sign clean-up *)
Definition gsem (s : txt) : option R := sem (inr (beautify s)).

Ltac glaw :=
  unfold gsem, sem; run_parse; cbn [option_map denote map];
  unfold cval, RateSem.V, RateSem.Lt, RateSem.F1, RateSem.F2; cbn [chars list_ascii_of_string];
  cbv delta [Ntgas Ntdust Ncrrate Nzism Nradfield Nav Nh2form NrG Ngdens Nopt_frz Nopt_thd Ncov NnMono Nsites Ndensites Nopt_uvd Ngarea Nopt_crd Nduty NTcr Nfreq Nquan Nhop Nunisites Ngxsec Nfr Nmant Nmantabund Neb_uvd Nuvcreff Neb_crd Ncrdeseff Nopt_h2d Neb_h2d Nh2deseff Neb1 Nopt_thd_x];
  f_equal; rewrite ?lit0;
  repeat match goal with |- context [if ?c then _ else _] => destruct c end;
  unify_fn (i_fn I) lit0; unfold Rdiv; rewrite ?lit0; try ring.

(** named quantities *)
Definition pi_ := V "pi".  Definition kerg := V "kerg".  Definition amu := V "amu".
Definition Tgas := nm Ntgas.  Definition Tdust := nm Ntdust.
Definition zrel := nm Ncrrate / nm Nzism.           (* cosmic-ray ionisation rate in ISM units *)
Definition A1 := mag 3.  Definition E1 := mag 4.  Definition Y1 := mag 5.  Definition A2 := mag 6.  Definition E2 := mag 7.
Definition eb := nm Neb1.                            (* the binding-energy constant eb_<alias> *)
Definition sigma := pi_ * nm NrG * nm NrG.           (* geometric cross-section of one grain *)
Definition vth := F1 "sqrt" (Lt "8.0" * kerg * Tgas / (pi_ * amu * A1)).
Definition nu0 := F1 "sqrt" (Lt "2.0" * nm Nsites * kerg * eb / (pi_ * pi_ * amu * A1)).

(** accretion: alpha sigma n_grain v_th  (HH93: times the freeze switch) *)
Lemma base_depletion_lemma ka : gsem (base_depletion ka) = Some (cval ka 0 * sigma * nm Ngdens * vth).
Proof. unfold sigma, vth, pi_, kerg, amu, Tgas, A1. destruct ka; glaw. Qed.
Lemma hh93_depletion_lemma ka :
  gsem (hh93_depletion ka) = Some (nm Nopt_frz * cval ka 0 * sigma * nm Ngdens * vth).
Proof. unfold sigma, vth, pi_, kerg, amu, Tgas, A1. destruct ka; glaw. Qed.

(** thermal desorption: coverage x active sites x nu0 x exp(-E_b / T_dust) *)
Lemma hh93_thermal_lemma :
  gsem hh93_thermal = Some (nm Nopt_thd * nm Ncov * (nm NnMono * nm Ndensites) * nu0 * F1 "exp" (- (eb / Tdust))).
Proof. unfold nu0, pi_, kerg, amu, Tdust, eb, A1. glaw. Qed.

(** photodesorption: (ISRF photons attenuated + cosmic-ray induced photons) x yield x active area *)
Lemma hh93_photon_lemma :
  gsem hh93_photon =
  Some (nm Nopt_uvd * nm Ncov * (nm Nradfield * V "habing" * F1 "exp" (- (nm Nav * Lt "3.02")) + V "crphot" * zrel)
        * Y1 * nm NnMono * nm Ngarea).
Proof. unfold zrel, Y1. glaw. Qed.

(** cosmic-ray induced desorption: duty cycle at the peak temperature Tcr *)
Lemma hh93_cosmicray_lemma :
  gsem hh93_cosmicray =
  Some (nm Nopt_crd * nm Ncov * (nm Nduty * nm NnMono * nm Ndensites) * zrel * nu0 * F1 "exp" (- (eb / nm NTcr))).
Proof. unfold zrel, nu0, pi_, kerg, amu, eb, A1. glaw. Qed.

Lemma hh93_ecapture_lemma :
  gsem hh93_ecapture = Some (sigma * F1 "sqrt" (Lt "8.0" * kerg * Tgas / pi_ / amu / V "meu")).
Proof. unfold sigma, pi_, kerg, amu, Tgas. glaw. Qed.

Definition e2 := F2 "pow" (V "echarge") (Lt "2.0").
Lemma hh93_recombination_lemma ka :
  gsem (hh93_recombination ka) =
  Some (cval ka 0 * sigma * nm Ngdens * F1 "sqrt" (Lt "8.0" * kerg * Tgas / (pi_ * amu * A1))
        * (Lt "1.0" + e2 / nm NrG / kerg / Tgas)
        * (Lt "1.0" + F1 "sqrt" (Lt "2.0" * e2 / (nm NrG * kerg * Tgas + Lt "2.0" * e2)))).
Proof. unfold sigma, e2, pi_, kerg, amu, Tgas, A1. destruct ka; glaw. Qed.

(** surface two-body reactions: hopping (and tunnelling for H, H2) of both partners *)
Definition hopfreq (E A : R) := nm Nfreq * F1 "sqrt" (E / A).
Definition thermal_hop (E A : R) := hopfreq E A * F1 "exp" (- (E * nm Nhop / Tdust)) / nm Nunisites.
Definition tunnel_hop (E A : R) := hopfreq E A * F1 "exp" (nm Nquan * F1 "sqrt" (nm Nhop * A * E)) / nm Nunisites.
Definition kappa_th (al : R) := F1 "exp" (- (al / Tdust)).
Definition kappa_qu (al : R) := F1 "exp" (nm Nquan * F1 "sqrt" (((A1 * A2) / (A1 + A2)) * al)).
Definition encounter := F2 "pow" (nm NnMono * nm Ndensites) (Lt "2.0") / nm Ngdens.
Definition fmax_ (x y : R) := F2 "fmax" x y.

Lemma hh93_surface_none_lemma ka :
  gsem (hh93_surface ka HNone) =
  Some (kappa_th (cval ka 0) * (thermal_hop E1 A1 + thermal_hop E2 A2) * encounter * nm Ncov * nm Ncov).
Proof. unfold kappa_th, thermal_hop, hopfreq, encounter, Tdust, E1, A1, E2, A2. destruct ka; glaw. Qed.

Lemma hh93_surface_both_lemma ka :
  gsem (hh93_surface ka HBoth) =
  Some (fmax_ (kappa_th (cval ka 0)) (kappa_qu (cval ka 0))
        * (fmax_ (thermal_hop E1 A1) (tunnel_hop E1 A1) + fmax_ (thermal_hop E2 A2) (tunnel_hop E2 A2))
        * encounter * nm Ncov * nm Ncov).
Proof.
  unfold fmax_, kappa_th, kappa_qu, thermal_hop, tunnel_hop, hopfreq, encounter, Tdust, E1, A1, E2, A2.
  destruct ka; glaw.
Qed.

Lemma hh93_surface_first_lemma ka :
  gsem (hh93_surface ka HFirst) =
  Some (fmax_ (kappa_th (cval ka 0)) (kappa_qu (cval ka 0))
        * (fmax_ (thermal_hop E1 A1) (tunnel_hop E1 A1) + thermal_hop E2 A2)
        * encounter * nm Ncov * nm Ncov).
Proof.
  unfold fmax_, kappa_th, kappa_qu, thermal_hop, tunnel_hop, hopfreq, encounter, Tdust, E1, A1, E2, A2.
  destruct ka; glaw.
Qed.

Lemma hh93_surface_second_lemma ka :
  gsem (hh93_surface ka HSecond) =
  Some (fmax_ (kappa_th (cval ka 0)) (kappa_qu (cval ka 0))
        * (thermal_hop E1 A1 + fmax_ (thermal_hop E2 A2) (tunnel_hop E2 A2))
        * encounter * nm Ncov * nm Ncov).
Proof.
  unfold fmax_, kappa_th, kappa_qu, thermal_hop, tunnel_hop, hopfreq, encounter, Tdust, E1, A1, E2, A2.
  destruct ka; glaw.
Qed.

(* reactive desorption = branching fraction of the surface reaction *)
Lemma hh93_reactive_lemma ka v : forall x,
  gsem (hh93_surface ka v) = Some x ->
  gsem (hh93_reactive ka v) = Some (V "opt_rcd" * V "branch" * x).
Proof.
  intros x. destruct ka, v; unfold gsem, RateSem.sem;
  repeat run_parse_all; cbn [option_map]; intro H; injection H as <-; cbn [option_map denote map];
  unfold RateSem.V; cbn [chars list_ascii_of_string]; f_equal; unfold Rdiv; ring.
Qed.

(** RR07 (UCLCHEM 1.3) *)
Definition head_rr07 (al : R) := Lt "4.57e4" * al * nm Ngxsec * nm Nfr.
Definition coulomb := Lt "1.0" + Lt "16.71e-4" / (nm NrG * Tgas).
Lemma rr07_depletion_lemma ka :
  gsem (rr07_depletion ka DNeutral) = Some (head_rr07 (cval ka 0) * F1 "sqrt" (Tgas / A1)) /\
  gsem (rr07_depletion ka DIon) = Some (head_rr07 (cval ka 0) * F1 "sqrt" (Tgas / A1) * coulomb) /\
  gsem (rr07_depletion ka DElectron) = Some (head_rr07 (cval ka 0) * coulomb).
Proof. unfold head_rr07, coulomb, Tgas, A1. repeat split; destruct ka; glaw. Qed.

(* desorption only while a mantle exists and only for species bound more weakly than the cap *)
Definition guarded_law (cap rate : R) : R :=
  if Rlt_le_dec (Lt "1e-30") (nm Nmantabund) then (if Rle_lt_dec E1 cap then rate else 0) else 0.

Lemma rr07_photon_lemma :
  gsem rr07_photon =
  Some (guarded_law (nm Neb_uvd)
          (nm Nopt_uvd * Lt "4.875e3" * nm Ngxsec *
           ((zrel + nm Nradfield / nm Nuvcreff * F1 "exp" (- (Lt "1.8" * nm Nav))) * Y1 / nm Nmant))).
Proof. unfold guarded_law, zrel, E1, Y1. glaw. Qed.

Lemma rr07_cosmicray_lemma :
  gsem rr07_cosmicray =
  Some (guarded_law (nm Neb_crd)
          (nm Nopt_crd * Lt "4.0" * pi_ * nm Ncrdeseff * zrel * (Lt "1.64e-4" * nm Ngxsec / nm Nmant))).
Proof. unfold guarded_law, zrel, pi_, E1. glaw. Qed.

Lemma rr07_h2_lemma :
  gsem rr07_h2 =
  Some (guarded_law (nm Neb_h2d)
          (nm Nopt_h2d * nm Nh2deseff * nm Nh2form * idx (chars "y") (V "IDX_HI") / nm Nmant)).
Proof. unfold guarded_law, E1. glaw. Qed.

Lemma rr07x_thermal_lemma :
  gsem rr07x_thermal =
  Some (if Rlt_le_dec (Lt "1e-30") (nm Nmantabund)
        then nm Nopt_thd_x * nu0 * (Lt "2.0" * nm Ndensites) * F1 "exp" (- (eb / Tdust)) else 0).
Proof. unfold nu0, pi_, kerg, amu, eb, Tdust, A1. glaw. Qed.
End Laws.

(** every implemented (model, process) emits valid C for every class of alpha; the others are refused *)
Definition all_models := [GBase; GHH93; GRR07; GRR07X].
Definition all_procs := [PRecombine; PFreeze; PThermal; PPhoton; PCosmicray; PH2; PSurface; PReactive; PEcapture].
Definition all_hv := [HBoth; HFirst; HSecond; HNone].
Definition all_dv := [DElectron; DNeutral; DIon].
Definition grain_valid : bool :=
  forallb (fun m => forallb (fun p => forallb (fun ka => forallb (fun hv => forallb (fun dv =>
    match grain_rate m p ka hv dv with
    | inr s => implemented m p && no_bad_token (beautify s) && match parse (beautify s) with Some _ => true | None => false end
    | inl _ => negb (implemented m p)
    end) all_dv) all_hv) [Pos; Neg; Zero; NegZero]) all_procs) all_models.
Lemma grain_valid_lemma : grain_valid = true.
Proof. vm_compute. reflexivity. Qed.
