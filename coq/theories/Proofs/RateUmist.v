(** C05: UMIST and native types *)
From Coq Require Import List Arith Bool String Ascii ZArith Reals Lra.
From Naunet Require Import Lib.ListX Lib.PyStr Model.CExpr Model.RateGas Proofs.RateSem.
Import ListNotations.
Open Scope R_scope.

Section Laws.
Variable litv : list ascii -> R.
Variable var : list ascii -> R.
Variable fn : list ascii -> list R -> R.
Variable mag : nat -> R.
Variable idx : list ascii -> R -> R.
Variable nm : nat -> R.
Hypothesis lit0 : litv ["0"; "."; "0"]%char = 0.
Hypothesis pow0 : forall x, fn ["p"; "o"; "w"]%char [x; 0] = 1.
Hypothesis exp0 : fn ["e"; "x"; "p"]%char [0] = 1.
Notation sem := (sem litv var fn mag idx nm).
Notation cval := (cval mag).
Notation V := (V var).
Notation Lt := (Lt litv).
Notation T := (T var).
Notation F2 := (F2 fn).
Notation law_arrhenius := (law_arrhenius litv var fn).
Notation law_cosmicray := (law_cosmicray var).
Notation law_photo := (law_photo var fn).
Notation law_ionpol1 := (law_ionpol1 litv var fn).
Notation law_ionpol2 := (law_ionpol2 litv var fn).
Notation law_crphot := (law_crphot litv var fn).
Ltac law := RateSem.law fn lit0 pow0 exp0.
(** UMIST (type values of ReactionType: 100 two-body, 102 photon, 101 cosmic ray, 120 cosmic-ray photon) *)
Definition umist := fun ka kb kc => umist_rate ka kb kc 100 102 101 120.

Lemma umist_tb_lemma ka kb kc :
  sem (umist ka kb kc (Some 100%Z)) = Some (law_arrhenius (cval ka 0) (cval kb 1) (cval kc 2)).
Proof. unfold law_arrhenius, umist. destruct ka, kb, kc; law. Qed.
Lemma umist_ph_lemma ka kb kc :
  sem (umist ka kb kc (Some 102%Z)) = Some (law_photo (cval ka 0) (cval kc 2)).
Proof. unfold law_photo, umist. destruct ka, kb, kc; law. Qed.
Lemma umist_cp_lemma ka kb kc : sem (umist ka kb kc (Some 101%Z)) = Some (cval ka 0).
Proof. unfold umist. destruct ka, kb, kc; law. Qed.
Lemma umist_cr_lemma ka kb kc :
  sem (umist ka kb kc (Some 120%Z)) = Some (law_crphot "1" (cval ka 0) (cval kb 1) (cval kc 2)).
Proof. unfold law_crphot, umist. destruct ka, kb, kc; law. Qed.
Lemma umist_refuses_lemma ka kb kc : umist ka kb kc None = inl RUnknown.
Proof. reflexivity. Qed.

(** native types (100, 101, 102, 110, 111, 120, 1000) *)
Definition nat_rate := fun bt ka kb kc => native_rate ka kb kc bt 100 101 102 110 111 120 1000.
Lemma native_laws_lemma ka kb kc :
  sem (nat_rate true ka kb kc 100%Z) = Some (law_arrhenius (cval ka 0) (cval kb 1) (cval kc 2)) /\
  sem (nat_rate true ka kb kc 101%Z) = Some (law_cosmicray (cval ka 0)) /\
  sem (nat_rate true ka kb kc 102%Z) = Some (law_photo (cval ka 0) (cval kc 2)) /\
  sem (nat_rate true ka kb kc 110%Z) = Some (law_ionpol1 (cval ka 0) (cval kb 1) (cval kc 2)) /\
  sem (nat_rate true ka kb kc 111%Z) = Some (law_ionpol2 (cval ka 0) (cval kb 1) (cval kc 2)) /\
  sem (nat_rate true ka kb kc 120%Z) = Some (law_crphot "1" (cval ka 0) (cval kb 1) (cval kc 2)).
Proof.
  unfold law_arrhenius, law_cosmicray, law_photo, law_ionpol1, law_ionpol2, law_crphot, nat_rate.
  repeat split; destruct ka, kb, kc; law.
Qed.
End Laws.
