(** The lexer in front of a closing parenthesis: "(" text ")" lexes to "(", the tokens of the text lexed on its
    own, ")" - for ALL texts (the one-symbol lookahead for ++, -- and >= never fires on a parenthesis). *)
From Coq Require Import List Arith Bool String Ascii Lia.
From Naunet Require Import Lib.ListX Lib.PyStr Model.CExpr.
Import ListNotations.

(** one step of the lexer: what it does with symbol [x] in state (st, buf) given the next symbol [nx] *)
Definition lstep (st : nat) (buf : list ascii) (x : sym) (nx : option sym) (acc : list tok) : nat * list ascii * list tok :=
  match st with
  | 4 => (0, [], acc)
  | _ =>
      match x with
      | M i => match st with 0 => (0, [], TMag i :: acc) | _ => (0, [], TBad :: flush st buf acc) end
      | N i => match st with 0 => (0, [], TName i :: acc) | _ => (0, [], TBad :: flush st buf acc) end
      | C c =>
          let continue :=
              match st with
              | 1 => is_idchar c
              | 2 => is_digit c || Ascii.eqb c "."%char || is_idchar c
              | 3 => is_digit c || is_sign c || is_idchar c
              | _ => false
              end in
          if continue then
            ((match st with 1 => 1 | _ => if is_e c then 3 else 2 end), c :: buf, acc)
          else
            let acc' := flush st buf acc in
            if is_space c then (0, [], acc')
            else if is_idstart c then (1, [c], acc')
            else if is_digit c || Ascii.eqb c "."%char then (2, [c], acc')
            else if is_opchar c then
              match nx with
              | Some (C d) =>
                  if is_sign c && Ascii.eqb c d then (4, [], TBad :: acc')
                  else if Ascii.eqb c ">"%char && Ascii.eqb d "="%char then (4, [], TGe :: acc')
                  else (0, [], TOp c :: acc')
              | _ => (0, [], TOp c :: acc')
              end
            else (0, [], TBad :: acc')
      end
  end.

Lemma lex_go_step st buf x r acc :
  lex_go st buf (x :: r) acc =
  let '(st', buf', acc') := lstep st buf x (hd_error r) acc in lex_go st' buf' r acc'.
Proof.
  destruct st as [|[|[|[|[|st]]]]]; destruct x as [c|i|i]; try reflexivity;
  cbn [lex_go lstep];
  repeat match goal with |- context [if ?b then _ else _] => destruct b end; try reflexivity;
  destruct r as [|[d|?|?] r]; try reflexivity; cbn [hd_error];
  repeat match goal with |- context [if ?b then _ else _] => destruct b end; reflexivity.
Qed.

(* a closing parenthesis as the next symbol changes nothing: it is neither the second half of ++ / -- nor of >= *)
Lemma lstep_close st buf x acc : lstep st buf x (Some (C ")"%char)) acc = lstep st buf x None acc.
Proof.
  destruct st as [|[|[|[|[|st]]]]]; destruct x as [c|i|i]; try reflexivity; cbn [lstep];
  repeat match goal with |- context [if ?b then _ else _] => destruct b eqn:? end; try reflexivity;
  exfalso;
  repeat match goal with
         | H : _ && _ = true |- _ => apply andb_prop in H; destruct H
         | H : Ascii.eqb _ _ = true |- _ => apply Ascii.eqb_eq in H; subst
         end; try discriminate;
  match goal with H : is_sign _ = true |- _ => discriminate H end.
Qed.

Lemma lstep_none_not4 st buf x acc : st <> 4 -> fst (fst (lstep st buf x None acc)) <> 4.
Proof.
  intro Hst.
  destruct st as [|[|[|[|[|st]]]]]; try congruence; destruct x as [c|i|i]; cbn [lstep fst]; try discriminate;
  repeat match goal with |- context [if ?b then _ else _] => destruct b eqn:? end; cbn [fst]; try discriminate;
  destruct (is_e c); discriminate.
Qed.

(** the lexer in front of a closing parenthesis: the tokens of the text, then ")" *)
Lemma lex_go_close : forall fact st buf acc rest, (st = 4 -> fact <> []) ->
  lex_go st buf (fact ++ C ")"%char :: rest)%list acc = lex_go 0 [] rest (TOp ")"%char :: rev (lex_go st buf fact acc)).
Proof.
  induction fact as [|x r IH]; intros st buf acc rest Hst.
  - cbn [app]. cbn [lex_go]. rewrite rev_involutive.
    destruct st as [|[|[|[|[|st]]]]]; try (exfalso; apply Hst; reflexivity);
    destruct rest as [|[d|?|?] rest]; reflexivity.
  - cbn [app]. rewrite !lex_go_step.
    destruct r as [|y r].
    + cbn [app hd_error]. rewrite lstep_close.
      destruct (lstep st buf x None acc) as [[st' buf'] acc'] eqn:Hs.
      apply IH. intro H4. exfalso.
      destruct (Nat.eq_dec st 4) as [->|Hne].
      * cbn [lstep] in Hs. congruence.
      * pose proof (lstep_none_not4 st buf x acc Hne) as Hn. rewrite Hs in Hn. apply Hn. exact H4.
    + cbn [app hd_error].
      destruct (lstep st buf x (Some y) acc) as [[st' buf'] acc'] eqn:Hs.
      apply IH. intros _. discriminate.
Qed.

Lemma flush_app st buf acc1 acc0 : flush st buf (acc1 ++ acc0)%list = (flush st buf acc1 ++ acc0)%list.
Proof. destruct st as [|[|[|[|st]]]]; reflexivity. Qed.

Lemma lstep_app st buf x nx acc1 acc0 :
  lstep st buf x nx (acc1 ++ acc0)%list =
  let '(st', buf', acc') := lstep st buf x nx acc1 in (st', buf', (acc' ++ acc0)%list).
Proof.
  destruct st as [|[|[|[|[|st]]]]]; destruct x as [c|i|i]; try reflexivity; cbn [lstep]; rewrite ?flush_app;
  repeat match goal with |- context [if ?b then _ else _] => destruct b eqn:? end; try reflexivity;
  destruct nx as [[d|?|?]|]; try reflexivity;
  repeat match goal with |- context [if ?b then _ else _] => destruct b eqn:? end; reflexivity.
Qed.

Lemma lex_go_acc : forall s st buf acc1 acc0,
  lex_go st buf s (acc1 ++ acc0)%list = (rev acc0 ++ lex_go st buf s acc1)%list.
Proof.
  induction s as [|x r IH]; intros st buf acc1 acc0.
  - cbn [lex_go]. rewrite flush_app, rev_app_distr. reflexivity.
  - rewrite !lex_go_step, lstep_app.
    destruct (lstep st buf x (hd_error r) acc1) as [[st' buf'] acc'].
    apply IH.
Qed.

(** a parenthesised text inside a longer one: "(", the tokens of the text lexed on its own, ")" *)
Theorem lex_paren fact rest acc :
  lex_go 0 [] (C "("%char :: fact ++ C ")"%char :: rest)%list acc =
  lex_go 0 [] rest (TOp ")"%char :: rev (lex fact) ++ TOp "("%char :: acc)%list.
Proof.
  assert (H1 : lex_go 0 [] (C "("%char :: fact ++ C ")"%char :: rest)%list acc =
               lex_go 0 [] (fact ++ C ")"%char :: rest)%list (TOp "("%char :: acc)).
  { destruct fact as [|[d|?|?] fact]; reflexivity. }
  rewrite H1, lex_go_close by discriminate.
  f_equal. f_equal.
  change (TOp "("%char :: acc) with ([] ++ TOp "("%char :: acc)%list.
  rewrite lex_go_acc, rev_app_distr, rev_involutive. reflexivity.
Qed.
