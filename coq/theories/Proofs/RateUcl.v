(** C05: UCLCHEM gas-phase types *)
From Coq Require Import List Arith Bool String Ascii ZArith Reals Lra.
From Naunet Require Import Lib.ListX Lib.PyStr Model.CExpr Model.RateGas Proofs.RateSem.
Import ListNotations.
Open Scope R_scope.

Section Laws.
Variable litv : list ascii -> R.
Variable var : list ascii -> R.
Variable fn : list ascii -> list R -> R.
Variable mag : nat -> R.
Variable idx : list ascii -> R -> R.
Variable nm : nat -> R.
Hypothesis lit0 : litv ["0"; "."; "0"]%char = 0.
Hypothesis pow0 : forall x, fn ["p"; "o"; "w"]%char [x; 0] = 1.
Hypothesis exp0 : fn ["e"; "x"; "p"]%char [0] = 1.
Notation sem := (sem litv var fn mag idx nm).
Notation cval := (cval mag).
Notation V := (V var).
Notation Lt := (Lt litv).
Notation T := (T var).
Notation F2 := (F2 fn).
Notation law_arrhenius := (law_arrhenius litv var fn).
Notation law_cosmicray := (law_cosmicray var).
Notation law_photo := (law_photo var fn).
Notation law_ionpol1 := (law_ionpol1 litv var fn).
Notation law_ionpol2 := (law_ionpol2 litv var fn).
Notation law_crphot := (law_crphot litv var fn).
Ltac law := RateSem.law fn lit0 pow0 exp0.
Definition shield_call (idx col : string) (flag : string) : R :=
  fn (chars "GetShieldingFactor") [V idx; V "h2col"; V col; T; Lt flag].
(** UCLCHEM gas-phase types (100 two-body, 101 cosmic ray, 120 cosmic-ray photon, 102 photon) *)
Definition ucl := fun ka kb kc => uclchem_rate ka kb kc 100 101 120 102.
Lemma ucl_ma_lemma ka kb kc :
  sem (ucl ka kb kc 100%Z false) = Some (law_arrhenius (cval ka 0) (cval kb 1) (cval kc 2)).
Proof. unfold law_arrhenius, ucl. destruct ka, kb, kc; law. Qed.
Lemma ucl_cr_lemma ka kb kc :
  sem (ucl ka kb kc 101%Z false) = Some (cval ka 0 * (V "zeta" / V "zism")).
Proof. unfold ucl. destruct ka, kb, kc; law. Qed.
Lemma ucl_cp_lemma ka kb kc :
  sem (ucl ka kb kc 120%Z false) =
  Some (cval ka 0 * (V "zeta" / V "zism") * F2 "pow" (T / Lt "300.0") (cval kb 1) * cval kc 2 / (Lt "1.0" - V "omega")).
Proof. unfold ucl. destruct ka, kb, kc; law. Qed.
Lemma ucl_ph_lemma ka kb kc :
  sem (ucl ka kb kc 102%Z false) = Some (V "G0" * law_photo (cval ka 0) (cval kc 2) / Lt "1.7").
Proof. unfold law_photo, ucl. destruct ka, kb, kc; law. Qed.
Lemma ucl_ph_co_lemma ka kb kc :
  sem (ucl ka kb kc 102%Z true) =
  Some (Lt "2.0e-10" * V "G0" * shield_call "IDX_COI" "cocol" "1" *
        fn (chars "GetGrainScattering") [V "Av"; V "lambdabar"] / Lt "1.7").
Proof. unfold shield_call, ucl. destruct ka, kb, kc; law. Qed.

End Laws.
