(** C16: the renormalisation restores the reference elemental abundances. *)
From Coq Require Import List Arith Bool ZArith QArith Reals Qreals Lra Lia.
From Naunet Require Import Lib.ListX Model.Renorm.
Import ListNotations.
Open Scope R_scope.

(** finite sums *)
Fixpoint sumf (f : nat -> R) (n : nat) : R :=
  match n with O => 0 | S m => sumf f m + f m end.
Definition sum_list (l : list R) : R := fold_right Rplus 0 l.

Lemma sum_list_app a b : sum_list (a ++ b) = sum_list a + sum_list b.
Proof. induction a; simpl. ring. rewrite IHa. ring. Qed.

Lemma sumf_ext f g n : (forall k, (k < n)%nat -> f k = g k) -> sumf f n = sumf g n.
Proof. induction n; intro H; simpl; auto. rewrite IHn, H; auto. Qed.
Lemma sumf_scale c f n : sumf (fun k => c * f k) n = c * sumf f n.
Proof. induction n; simpl. ring. rewrite IHn. ring. Qed.
Lemma sumf_plus f g n : sumf (fun k => f k + g k) n = sumf f n + sumf g n.
Proof. induction n; simpl. ring. rewrite IHn. ring. Qed.
Lemma sumf_zero n : sumf (fun _ => 0) n = 0.
Proof. induction n; simpl; auto. rewrite IHn. ring. Qed.
Lemma sumf_swap (f : nat -> nat -> R) n m :
  sumf (fun i => sumf (fun j => f i j) m) n = sumf (fun j => sumf (fun i => f i j) n) m.
Proof.
  induction n; simpl. rewrite sumf_zero. reflexivity.
  rewrite IHn. rewrite <- sumf_plus. reflexivity.
Qed.

(* a sum over seq / enumerate is an indexed sum *)
Lemma sumf_shift (h : nat -> R) m : h O + sumf (fun k => h (S k)) m = sumf h (S m).
Proof.
  induction m; simpl. ring. simpl in IHm. rewrite <- Rplus_assoc, IHm. ring.
Qed.

Lemma sum_flat_seq (g : nat -> list R) n : forall a,
  sum_list (flat_map g (seq a n)) = sumf (fun k => sum_list (g (a + k)%nat)) n.
Proof.
  induction n; intro a. reflexivity.
  cbn [seq flat_map]. rewrite sum_list_app, IHn.
  rewrite <- (sumf_shift (fun k => sum_list (g (a + k)%nat)) n). rewrite Nat.add_0_r. f_equal.
  apply sumf_ext. intros k _. replace (S a + k)%nat with (a + S k)%nat by lia. reflexivity.
Qed.

Lemma sum_flat_enum {X} (d : X) (g : nat * X -> list R) (l : list X) : forall a,
  sum_list (flat_map g (enumerate_from a l)) = sumf (fun k => sum_list (g ((a + k)%nat, nth k l d))) (List.length l).
Proof.
  induction l as [|x l IH]; intro a. reflexivity.
  cbn [enumerate_from flat_map List.length]. rewrite sum_list_app, IH.
  rewrite <- (sumf_shift (fun k => sum_list (g ((a + k)%nat, nth k (x :: l) d))) (List.length l)).
  cbn [nth]. rewrite Nat.add_0_r. f_equal.
  apply sumf_ext. intros k _. replace (S a + k)%nat with (a + S k)%nat by lia. reflexivity.
Qed.

Lemma Q2R_inject_Z z : Q2R (inject_Z z) = IZR z.
Proof. unfold Q2R, inject_Z. simpl. field. Qed.

(* the weight is never zero *)
Lemma weight_nonzero a : Q2R (weight a) <> 0.
Proof.
  unfold weight. destruct (Qle_bool a 0) eqn:E.
  - unfold Q2R. simpl. lra.
  - assert (0 < a)%Q as H.
    { apply Qnot_le_lt. intro H. apply Qle_bool_iff in H. congruence. }
    apply Qlt_Rlt in H. replace (Q2R 0) with 0 in H by (unfold Q2R; simpl; lra). lra.
Qed.

Section Renorm.
Variable elA : list Q.            (* mass number of each element of the network *)
Variable sps : list rsp.
Variable ab : nat -> R.           (* abundances before *)
Variable r : nat -> R.            (* the solution vector of the linear system *)
Variable Hn : R.                  (* hydrogen nuclei before *)
Let nel := List.length elA.
Let nsp := List.length sps.
Definition dsp : rsp := {| r_cnt := []; r_mass := 0; r_elec := true |}.
Let sp (k : nat) := nth k sps dsp.
Let A (j : nat) : R := Q2R (weight (nth j elA 0%Q)).
Let c (k i : nat) : R := IZR (cnt (sp k) i).
Let m (k : nat) : R := Q2R (weight (r_mass (sp k))).

(* value of the emitted expressions *)
Definition ev_matrix_entry (l : list term) : R :=
  sum_list (map (fun t : term => Q2R (fst (fst t)) * ab (snd (fst t)) / Q2R (snd t) / Hn) l).
Definition ev_factor (o : option (list term)) : R :=
  match o with
  | None => 1
  | Some l => sum_list (map (fun t : term => Q2R (fst (fst t)) * r (snd (fst t)) / Q2R (snd t)) l)
  end.
Definition M (i j : nat) : R := ev_matrix_entry (matrix_entry elA sps i j).
Definition ab' (k : nat) : R := ab k * ev_factor (factor_entry elA (sp k)).
Definition total (abv : nat -> R) (i : nat) : R := sumf (fun k => c k i * abv k) nsp.

Hypothesis electron_no_element : forall k i, (k < nsp)%nat -> r_elec (sp k) = true -> cnt (sp k) i = 0%Z.

Lemma nonzero_false z : nonzero z = false -> IZR z = 0.
Proof. unfold nonzero. intro H. apply negb_false_iff, Z.eqb_eq in H. subst. reflexivity. Qed.

Lemma M_sum i j :
  M i j = sumf (fun k => c k i * c k j * A j * ab k / m k / Hn) nsp.
Proof.
  unfold M, ev_matrix_entry, matrix_entry, enumerate.
  assert (forall (g : nat * rsp -> list term) l (h : term -> R),
            map h (flat_map g l) = flat_map (fun p => map h (g p)) l) as Hm.
  { intros g l h. induction l; simpl; auto. rewrite map_app, IHl. reflexivity. }
  rewrite Hm. rewrite (sum_flat_enum dsp). fold nsp.
  apply sumf_ext. intros k Hk. simpl.
  fold (sp k). unfold c, m, A.
  destruct (r_elec (sp k)) eqn:Ee; simpl.
  - rewrite (electron_no_element k i Hk Ee). simpl. unfold Rdiv. ring.
  - destruct (nonzero (cnt (sp k) i)) eqn:Ei; simpl.
    + destruct (nonzero (cnt (sp k) j)) eqn:Ej; simpl.
      * rewrite Q2R_mult, Q2R_inject_Z, mult_IZR. unfold Rdiv. ring.
      * rewrite (nonzero_false _ Ej). unfold Rdiv. ring.
    + rewrite (nonzero_false _ Ei). unfold Rdiv. ring.
Qed.

Lemma factor_terms_sum k :
  sum_list (map (fun t : term => Q2R (fst (fst t)) * r (snd (fst t)) / Q2R (snd t)) (factor_terms elA (sp k)))
  = sumf (fun j => c k j * A j * r j / m k) nel.
Proof.
  unfold factor_terms.
  assert (forall (g : nat -> list term) l (h : term -> R),
            map h (flat_map g l) = flat_map (fun p => map h (g p)) l) as Hm.
  { intros g l h. induction l; simpl; auto. rewrite map_app, IHl. reflexivity. }
  rewrite Hm, sum_flat_seq. fold nel. apply sumf_ext. intros j _. simpl.
  unfold c, m, A.
  destruct (nonzero (cnt (sp k) j)) eqn:Ej; simpl.
  - rewrite Q2R_mult, Q2R_inject_Z. unfold Rdiv. ring.
  - rewrite (nonzero_false _ Ej). unfold Rdiv. ring.
Qed.

(* no term at all: the species holds none of the network's elements *)
Lemma factor_terms_nil k : factor_terms elA (sp k) = [] -> forall j, (j < nel)%nat -> c k j = 0.
Proof.
  intros H j Hj. unfold c. destruct (nonzero (cnt (sp k) j)) eqn:E.
  - exfalso. assert (In (inject_Z (cnt (sp k) j) * weight (nth j elA 0%Q), j, weight (r_mass (sp k)))%Q (factor_terms elA (sp k))) as Hin.
    { unfold factor_terms. apply in_flat_map. exists j. split. apply in_seq. unfold nel in Hj. lia. rewrite E. simpl; auto. }
    rewrite H in Hin. destruct Hin.
  - apply nonzero_false. exact E.
Qed.

Lemma factor_sum k i : (k < nsp)%nat -> (i < nel)%nat -> r_elec (sp k) = false ->
  c k i * ev_factor (factor_entry elA (sp k)) = c k i * sumf (fun j => c k j * A j * r j / m k) nel.
Proof.
  intros Hk Hi Ee. unfold ev_factor, factor_entry. rewrite Ee.
  destruct (factor_terms elA (sp k)) eqn:E.
  - rewrite (factor_terms_nil k E i Hi). ring.
  - rewrite <- E. rewrite factor_terms_sum. reflexivity.
Qed.

(* electrons are left untouched *)
Lemma electron_untouched_lemma k : r_elec (sp k) = true -> ab' k = ab k.
Proof. intro H. unfold ab', ev_factor, factor_entry. rewrite H. ring. Qed.

(* after the renormalisation every element total is Hn x (M r)_i - whatever the masses, as long
   as no division by zero occurs *)
Lemma total_after i : (i < nel)%nat ->
  Hn <> 0 -> (forall k, (k < nsp)%nat -> r_elec (sp k) = false -> m k <> 0) ->
  total ab' i = Hn * sumf (fun j => M i j * r j) nel.
Proof.
  intros Hi HH Hm. unfold total.
  transitivity (sumf (fun k => sumf (fun j => c k i * c k j * A j * ab k / m k * r j) nel) nsp).
  - apply sumf_ext. intros k Hk. destruct (r_elec (sp k)) eqn:Ee.
    + unfold c at 1. rewrite (electron_no_element k i Hk Ee). simpl.
      rewrite Rmult_0_l. symmetry. rewrite <- (sumf_zero nel). apply sumf_ext. intros j _.
      unfold c at 1. rewrite (electron_no_element k i Hk Ee). simpl. unfold Rdiv. ring.
    + unfold ab'. replace (c k i * (ab k * ev_factor (factor_entry elA (sp k)))) with (ab k * (c k i * ev_factor (factor_entry elA (sp k)))) by ring.
      rewrite (factor_sum k i Hk Hi Ee). rewrite <- sumf_scale. rewrite <- sumf_scale.
      apply sumf_ext. intros j _. unfold Rdiv. ring.
  - rewrite sumf_swap. rewrite <- sumf_scale. apply sumf_ext. intros j _.
    rewrite M_sum.
    assert (forall f n x, sumf f n * x = sumf (fun k => f k * x) n) as Hs.
    { intros f n x. induction n; simpl. ring. rewrite <- IHn. ring. }
    rewrite Hs. rewrite <- sumf_scale. apply sumf_ext. intros k Hk.
    destruct (r_elec (sp k)) eqn:Ee.
    + unfold c at 1 3. rewrite (electron_no_element k i Hk Ee). simpl. unfold Rdiv. ring.
    + unfold Rdiv. field. split; auto.
Qed.

Theorem renorm_restores_lemma (ref : nat -> R) :
  Hn <> 0 -> (forall k, (k < nsp)%nat -> r_elec (sp k) = false -> m k <> 0) ->
  (forall i, (i < nel)%nat -> sumf (fun j => M i j * r j) nel = ref i) ->
  forall i, (i < nel)%nat -> total ab' i = Hn * ref i.
Proof. intros HH Hm Hsol i Hi. rewrite total_after by auto. rewrite Hsol by auto. reflexivity. Qed.

(* with consistent masses r = 1 solves the system exactly when the totals already match,
   and r = 1 changes nothing *)
Hypothesis mass_consistent : forall k, (k < nsp)%nat -> r_elec (sp k) = false ->
  m k = sumf (fun j => c k j * A j) nel.

Lemma identity_lemma :
  (forall k, (k < nsp)%nat -> r_elec (sp k) = false -> m k <> 0) ->
  (forall j, r j = 1) -> forall k, (k < nsp)%nat -> ab' k = ab k.
Proof.
  intros Hm Hr k Hk. destruct (r_elec (sp k)) eqn:Ee. apply electron_untouched_lemma; auto.
  unfold ab', ev_factor, factor_entry. rewrite Ee.
  destruct (factor_terms elA (sp k)) eqn:E. ring.
  rewrite <- E. rewrite factor_terms_sum.
  replace (sumf (fun j => c k j * A j * r j / m k) nel) with (sumf (fun j => c k j * A j) nel * / m k).
  - rewrite <- (mass_consistent k Hk Ee). field. auto.
  - assert (forall f n x, sumf f n * x = sumf (fun k => f k * x) n) as Hs.
    { intros f n x. induction n; simpl. ring. rewrite <- IHn. ring. }
    rewrite Hs. apply sumf_ext. intros j _. rewrite Hr. unfold Rdiv. ring.
Qed.

Lemma ones_solve_lemma :
  Hn <> 0 -> (forall k, (k < nsp)%nat -> r_elec (sp k) = false -> m k <> 0) ->
  (forall j, r j = 1) -> forall i, (i < nel)%nat -> Hn * sumf (fun j => M i j * r j) nel = total ab i.
Proof.
  intros HH Hm Hr i Hi. rewrite <- total_after by auto. unfold total. apply sumf_ext. intros k Hk.
  rewrite identity_lemma; auto.
Qed.
End Renorm.
