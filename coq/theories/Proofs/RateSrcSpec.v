(** C05: the rateexpr() methods as the translator (harness/gen_ratesrc.py) is expected to find them, written
    with the model's own templates, and the link to the model functions the law theorems are about:
    for every branch that yields text, the model function at that branch's key is the beautified text. *)
From Coq Require Import List String Ascii ZArith.
From Naunet Require Import Lib.ListX Lib.PyStr Model.CExpr Model.RateGas Model.RateSrc.
Import ListNotations.
Open Scope string_scope.
Open Scope list_scope.

Definition std_tail : list string := ["rate = self._beautify(rate)"; "return rate"].
Definition abc_bind (rest : list (string * string)) : list (string * string) :=
  [("a", "self.alpha"); ("b", "self.beta"); ("c", "self.gamma")] ++ rest.

Section Spec.
Variables ka kb kc : cls.
Let a := coef ka 0.
Let b := coef kb 1.
Let c := coef kc 2.

Definition kida_expected : list (string * src_branch) :=
  [ ("formula == 1", SText (a ++ tx " * zeta"));
    ("formula == 2", SText (join_star (nonempty [a; if truthy kc then tx "exp(-" ++ c ++ tx "*Av)" else []])));
    ("formula == 3", SText (arrhenius ka kb kc));
    ("formula == 4", SText (ionpol1 ka kb kc));
    ("formula == 5", SText (ionpol2 ka kb kc));
    ("formula == 6", SRaise "NotImplementedError");
    ("else", SRaise "RuntimeError") ].

Definition umist_expected : list (string * src_branch) :=
  [ ("rtype == self.ReactionType.UMIST_TWOBODY", SText (arrhenius ka kb kc));
    ("rtype == self.ReactionType.UMIST_PH", SText (photo ka kc));
    ("rtype == self.ReactionType.UMIST_CP", SText a);
    ("rtype == self.ReactionType.UMIST_CR", SText (crphot ka kb kc "1-"));
    ("else", SRaise "RuntimeError") ].

Definition leeds_expected : list (string * src_branch) :=
  [ ("rtype == 1", SText (arrhenius ka kb kc));
    ("rtype == 2", SText (a ++ tx " * (zeta_cr + zeta_xr) / zism"));
    ("rtype == 3", SText (a ++ tx " * ((zeta_cr + zeta_xr) / zism) * pow(Tgas/300.0, " ++ b ++ tx ") * " ++ c ++ tx " / (1.0 - omega)"));
    ("rtype == 4", SOther "rate = f'G0 * {a} * exp(-{c}*Av)' ; if re1.name in ['H2', 'CO', 'N2']: ; shield = f'GetShieldingFactor(IDX_{re1.alias}, h2col, {re1.name.lower()}col, Tgas, 0)' ; rate = f'{rate} * {shield}'");
    ("rtype == 5", SText (tx "0.0"));
    ("rtype == 6", SGrain); ("rtype == 7", SGrain); ("rtype == 8", SGrain); ("rtype == 9", SGrain); ("rtype == 10", SGrain);
    ("rtype == 11", SText (a ++ tx " * ((zeta_xr+zeta_cr)/zism) * pow(Tgas/300.0, " ++ b ++ tx ") * " ++ c ++ tx " / (1.0 - omega)"));
    ("rtype == 12", SOther "rate = f'G0 * {a} * exp(-{c}*Av)' ; if re1.name in ['GH2', 'GCO', 'GN2']: ; spidx = f'IDX_{re1.alias[1:]}' ; coldens = f'{re1.name[1:].lower()}col' ; shield = f'GetShieldingFactor({spidx}, h2col, {coldens}, Tgas, 0)' ; rate = f'{rate} * {shield}'");
    ("rtype == 13", SGrain); ("rtype == 14", SGrain);
    ("rtype in range(15, 20)", SText (tx "0.0"));
    ("rtype == 20", SGrain);
    ("else", SRaise "RuntimeError") ].

Definition uclchem_expected : list (string * src_branch) :=
  [ ("rtype == self.ReactionType.UCLCHEM_MA", SText (arrhenius ka kb kc));
    ("rtype == self.ReactionType.UCLCHEM_CR", SText (a ++ tx " * (zeta / zism)"));
    ("rtype == self.ReactionType.UCLCHEM_CP", SText (a ++ tx " * (zeta / zism) * pow(Tgas/300.0, " ++ b ++ tx ") * " ++ c ++ tx " / (1.0 - omega)"));
    ("rtype == self.ReactionType.UCLCHEM_PH", SOther "rate = f'G0 * {a} * exp(-{c}*Av) / 1.7' ; if re1.name in ['CO']: ; shield = f'GetShieldingFactor(IDX_{re1.alias}, h2col, {re1.name.lower()}col, Tgas, 1)' ; rate = f'(2.0e-10) * G0 * {shield} * GetGrainScattering(Av, lambdabar) / 1.7'");
    ("rtype == self.ReactionType.UCLCHEM_FR", SGrain); ("rtype == self.ReactionType.UCLCHEM_TH", SGrain);
    ("rtype == self.ReactionType.UCLCHEM_CD", SGrain); ("rtype == self.ReactionType.UCLCHEM_PD", SGrain);
    ("rtype == self.ReactionType.UCLCHEM_HD", SGrain);
    ("else", SRaise "ValueError") ].

Definition native_expected : list (string * src_branch) :=
  [ ("rtype == ReactionType.GAS_TWOBODY", SText (arrhenius ka kb kc));
    ("rtype == ReactionType.GAS_COSMICRAY", SText (a ++ tx " * zeta"));
    ("rtype == ReactionType.GAS_PHOTON", SText (photo ka kc));
    ("rtype == ReactionType.GAS_KIDA_IP1", SText (ionpol1 ka kb kc));
    ("rtype == ReactionType.GAS_KIDA_IP2", SText (ionpol2 ka kb kc));
    ("rtype == ReactionType.GAS_UMIST_CRPHOT", SText (crphot ka kb kc "1-"));
    ("rtype in [ReactionType.GRAIN_FREEZE, ReactionType.GRAIN_DESORB_THERMAL, ReactionType.GRAIN_DESORB_COSMICRAY, ReactionType.GRAIN_DESORB_PHOTON, ReactionType.GRAIN_DESORB_REACTIVE, ReactionType.GRAIN_DESORB_H2, ReactionType.GRAIN_RECOMINE, ReactionType.GRAIN_ECAPTURE, ReactionType.SURFACE_TWOBODY]", SGrain);
    ("rtype == ReactionType.DUMMY", SText (tx "0.0"));
    ("else", SRaise "RuntimeError") ].

(** the model functions are these branches: at the key of a branch that yields text (or refuses), the model
    function returns the beautified text (or the refusal) *)
Definition agrees (f : Z -> refusal + txt) (keys : list (option Z)) (bs : list (string * src_branch)) : Prop :=
  Forall2 (fun k b => match k, run_branch (snd b) with Some z, Some r => f z = r | _, _ => True end) keys bs.

Lemma kida_model_is_branches :
  agrees (kida_rate ka kb kc) [Some 1; Some 2; Some 3; Some 4; Some 5; Some 6; Some 7]%Z kida_expected.
Proof. repeat constructor. Qed.
Lemma umist_model_is_branches :
  agrees (fun z => umist_rate ka kb kc 100 102 101 120 (Some z)) [Some 100; Some 102; Some 101; Some 120; Some 0]%Z umist_expected.
Proof. repeat constructor. Qed.
Lemma leeds_model_is_branches :
  agrees (fun z => leeds_rate ka kb kc z "")
         [Some 1; Some 2; Some 3; None; Some 5; None; None; None; None; None; Some 11; None; None; None; Some 15; None; Some 0]%Z leeds_expected.
Proof. repeat constructor. Qed.
Lemma leeds_15_19 : forall z, In z [15; 16; 17; 18; 19]%Z -> leeds_rate ka kb kc z "" = inr (beautify (tx "0.0")).
Proof. intros z H. simpl in H. repeat (destruct H as [<-|H]; [reflexivity|]). contradiction. Qed.
Lemma uclchem_model_is_branches :
  agrees (fun z => uclchem_rate ka kb kc 100 101 120 102 z false)
         [Some 100; Some 101; Some 120; None; None; None; None; None; None; Some 0]%Z uclchem_expected.
Proof. repeat constructor. Qed.
Lemma native_model_is_branches :
  agrees (native_rate ka kb kc true 100 101 102 110 111 120 1000)
         [Some 100; Some 101; Some 102; Some 110; Some 111; Some 120; None; Some 1000; Some 0]%Z native_expected.
Proof. repeat constructor. Qed.
End Spec.
