(** C20: what is written on the command line is what reaches the configuration. *)
From Coq Require Import List Arith Bool String Ascii Lia.
From Naunet Require Import Lib.ListX Lib.PyStr Model.Config Model.Decode
     Proofs.SpeciesProofs Proofs.IndexProofs Proofs.DecodeProofs.
Import ListNotations.
Open Scope string_scope.
Open Scope list_scope.

Definition item_ok (x : string) : Prop := nosep ","%char x /\ edge_ok (chars x) = true.

Lemma edge_ok_nonempty x : edge_ok (chars x) = true -> nonempty_s x = true.
Proof. destruct x; simpl; [discriminate | reflexivity]. Qed.

Lemma strip_ok x : edge_ok (chars x) = true -> strip x = x.
Proof. intro H. unfold strip. rewrite strip_edge by auto. apply str_chars. Qed.

Lemma filter_all {X} (p : X -> bool) l : Forall (fun x => p x = true) l -> filter p l = l.
Proof. induction 1 as [|x l Hx _ IH]; simpl; auto. rewrite Hx, IH. reflexivity. Qed.

Lemma map_id_on {X} (f : X -> X) l : Forall (fun x => f x = x) l -> map f l = l.
Proof. induction 1 as [|x l Hx _ IH]; simpl; auto. rewrite Hx, IH. reflexivity. Qed.

(* a comma list: [x.strip() for x in ",".join(l).split(",") if x] = l *)
Lemma parse_list_comma l : Forall item_ok l -> parse_list (comma l) = l.
Proof.
  intro H. unfold parse_list, comma. destruct l as [|a l]. reflexivity.
  rewrite split_on_join; [| discriminate | eapply Forall_impl; [|exact H]; intros x [Hx _]; exact Hx].
  rewrite filter_all by (eapply Forall_impl; [|exact H]; intros x [_ Hx]; apply edge_ok_nonempty; exact Hx).
  apply map_id_on. eapply Forall_impl; [|exact H]. intros x [_ Hx]. apply strip_ok; exact Hx.
Qed.

(* key/value entries *)
Definition sep_str (sep : ascii) : string := String sep EmptyString.
Definition entry_ok (sep : ascii) (stripped : bool) (p : string * string) : Prop :=
  nosep ","%char (fst p) /\ nosep ","%char (snd p) /\ nosep sep (fst p) /\ nosep sep (snd p) /\ sep <> ","%char /\
  (stripped = true -> edge_ok (chars (fst p)) = true /\ edge_ok (chars (snd p)) = true).

Lemma kv_split sep p : nosep sep (fst p) -> nosep sep (snd p) ->
  split_on sep (kv (sep_str sep) p) = [fst p; snd p].
Proof.
  intros H1 H2. replace (kv (sep_str sep) p) with (join sep [fst p; snd p]).
  - apply split_on_join. discriminate. repeat constructor; auto.
  - unfold join, kv, sep_str. simpl. apply chars_inj. rewrite chars_str, !chars_app. reflexivity.
Qed.

Lemma kv_nosep_comma sep p : sep <> ","%char -> nosep ","%char (fst p) -> nosep ","%char (snd p) ->
  nosep ","%char (kv (sep_str sep) p).
Proof.
  intros Hs H1 H2. unfold nosep, no_char, kv, sep_str. rewrite !chars_app. simpl.
  intro Hin. apply in_app_or in Hin. destruct Hin as [Hin|[E|Hin]]; auto.
Qed.

Lemma kv_nonempty sep p : nonempty_s (kv (sep_str sep) p) = true.
Proof. unfold kv, sep_str. destruct (fst p); reflexivity. Qed.

Fixpoint keys_fresh (l : list (string * string)) : Prop :=
  match l with [] => True | p :: r => ~ In (fst p) (map fst r) /\ keys_fresh r end.

Lemma dict_put_fresh k v l : ~ In k (map fst l) -> dict_put k v l = l ++ [(k, v)].
Proof.
  induction l as [|[k' v'] l IH]; simpl; intro H; auto.
  destruct (String.eqb_spec k' k) as [->|Hne]. exfalso; auto.
  rewrite IH; auto.
Qed.

Lemma parse_entries_kv sep b l : forall acc, Forall (entry_ok sep b) l ->
  (forall p, In p l -> ~ In (fst p) (map fst acc)) -> keys_fresh l ->
  parse_entries sep b (map (kv (sep_str sep)) l) acc = Some (acc ++ l).
Proof.
  induction l as [|p l IH]; intros acc Hok Hacc Hfresh; simpl. rewrite app_nil_r. reflexivity.
  inversion Hok as [|? ? Hp Hl]; subst. destruct Hp as (C1 & C2 & S1 & S2 & Hs & Hstrip).
  rewrite kv_split by auto.
  assert ((if b then strip (fst p) else fst p) = fst p /\ (if b then strip (snd p) else snd p) = snd p) as [-> ->].
  { destruct b; auto. destruct (Hstrip eq_refl). split; apply strip_ok; auto. }
  rewrite dict_put_fresh by (apply Hacc; simpl; auto).
  destruct Hfresh as [Hf1 Hf2].
  rewrite IH; auto.
  - rewrite <- app_assoc. destruct p; reflexivity.
  - intros q Hq. rewrite map_app, in_app_iff. simpl. intros [Hin|[E|[]]].
    + apply (Hacc q); simpl; auto.
    + apply Hf1. rewrite E. apply in_map. exact Hq.
Qed.

Lemma parse_dict_comma sep b l : Forall (entry_ok sep b) l -> keys_fresh l ->
  parse_dict sep b (comma (map (kv (sep_str sep)) l)) = Some l.
Proof.
  intros Hok Hf. unfold parse_dict, comma. destruct l as [|p l]. reflexivity.
  rewrite split_on_join.
  - rewrite filter_all by (apply Forall_forall; intros x Hx; apply in_map_iff in Hx; destruct Hx as (q & <- & _); apply kv_nonempty).
    rewrite parse_entries_kv; auto.
  - discriminate.
  - apply Forall_forall. intros x Hx. apply in_map_iff in Hx. destruct Hx as (q & <- & Hq).
    rewrite Forall_forall in Hok. destruct (Hok q Hq) as (C1 & C2 & _ & _ & Hs & _). apply kv_nosep_comma; auto.
Qed.

Lemma edge_ok_app a m b : edge_ok a = true -> edge_ok b = true -> edge_ok (a ++ m ++ b) = true.
Proof.
  unfold edge_ok. intros Ha Hb. apply andb_true_iff in Ha, Hb. destruct Ha as [Ha _], Hb as [_ Hb].
  destruct a as [|c cs]; [discriminate|]. simpl. rewrite Ha. simpl.
  change (c :: cs ++ m ++ b) with ((c :: cs) ++ m ++ b). rewrite !rev_app_distr.
  destruct (rev b) as [|d r]; [discriminate|]. simpl. exact Hb.
Qed.

Lemma kv_edge_ok sep p : edge_ok (chars (fst p)) = true -> edge_ok (chars (snd p)) = true ->
  edge_ok (chars (kv (sep_str sep) p)) = true.
Proof. intros H1 H2. unfold kv, sep_str. rewrite !chars_app. apply edge_ok_app; auto. Qed.

(* rate modifiers, one option value per entry *)
Lemma parse_rate_mods_kv l : Forall (entry_ok ":"%char true) l -> keys_fresh l ->
  parse_rate_mods (map (kv ":") l) = Some l.
Proof.
  intros Hok Hf. unfold parse_rate_mods.
  assert (flat_map (fun l0 => map strip (split_on ","%char l0)) (map (kv ":") l) = map (kv ":") l) as ->.
  { induction Hok as [|p r Hp Hr IH]; simpl; auto. destruct Hf as [_ Hf]. rewrite (IH Hf).
    destruct Hp as (C1 & C2 & S1 & S2 & Hs & Hstrip). destruct (Hstrip eq_refl) as [E1 E2].
    replace (kv ":" p) with (join ","%char [kv ":" p]) at 1 by (unfold join; simpl; apply str_chars).
    rewrite split_on_join; [| discriminate | repeat constructor; apply (kv_nosep_comma ":"%char); auto ].
    simpl. f_equal. apply strip_ok. apply (kv_edge_ok ":"%char); auto. }
  assert (forall acc, (forall p, In p l -> ~ In (fst p) (map fst acc)) ->
    (fix go (es : list string) (acc : list (string * string)) : option (list (string * string)) :=
       match es with
       | [] => Some acc
       | e :: r => match split_on ":"%char e with
                   | k :: v :: _ => go r (dict_put (strip k) (strip v) acc)
                   | _ => None
                   end
       end) (map (kv ":") l) acc = Some (acc ++ l)) as G.
  { clear - Hok Hf. induction l as [|p l IH]; intros acc Hacc; simpl. rewrite app_nil_r; reflexivity.
    inversion Hok as [|? ? Hp Hl]; subst. destruct Hp as (C1 & C2 & S1 & S2 & Hs & Hstrip). destruct (Hstrip eq_refl) as [E1 E2].
    change (kv ":" p) with (kv (sep_str ":"%char) p). rewrite kv_split by auto.
    rewrite !strip_ok by auto. rewrite dict_put_fresh by (apply Hacc; simpl; auto).
    destruct Hf as [Hf1 Hf2]. rewrite IH; auto.
    - rewrite <- app_assoc. destruct p; reflexivity.
    - intros q Hq. rewrite map_app, in_app_iff. simpl. intros [Hin|[E|[]]].
      + apply (Hacc q); simpl; auto.
      + apply Hf1. rewrite E. apply in_map. exact Hq. }
  apply (G []). intros p _ [].
Qed.

Lemma join2 sep a b : join sep [a; b] = (a ++ String sep b)%string.
Proof. unfold join. simpl. apply chars_inj. rewrite chars_str, chars_app. reflexivity. Qed.

(* one ODE-modifier item "species:factor,[dep dep]" *)
Lemma parse_om_item_lemma key fact deps :
  nosep ":"%char key -> nosep ":"%char fact -> nosep ","%char fact ->
  Forall (fun d => word_ok (chars d) /\ nosep ":"%char d /\ nosep ","%char d /\ nosep "["%char d /\ nosep "]"%char d) deps ->
  deps <> [] ->
  parse_om_item (key ++ ":" ++ fact ++ ",[" ++ join " "%char deps ++ "]")%string =
  option_map (fun ds => (key, fact, ds)) (Some (split_ws (strip (replace "]" "" (replace "[" "" ("[" ++ join " "%char deps ++ "]")%string))))).
Proof.
  intros Hk Hf1 Hf2 Hd Hne. unfold parse_om_item.
  assert (nosep ":"%char (fact ++ ",[" ++ join " "%char deps ++ "]")%string) as Hv.
  { unfold nosep, no_char. rewrite !chars_app. intro Hin.
    apply in_app_or in Hin. destruct Hin as [Hin|Hin]; [apply Hf1; exact Hin|].
    simpl in Hin. destruct Hin as [E|[E|Hin]]; try discriminate.
    apply in_app_or in Hin. destruct Hin as [Hin|[E|[]]]; try discriminate.
    unfold join in Hin. rewrite chars_str in Hin.
    clear - Hin Hd. induction Hd as [|d r (_ & Hc & _) Hr IH]; simpl in Hin; auto.
    destruct r as [|d2 r'].
    - simpl in Hin. apply Hc. exact Hin.
    - simpl in Hin. apply in_app_or in Hin. destruct Hin as [Hin|[E|Hin]]; [apply Hc; exact Hin | discriminate | apply IH; exact Hin]. }
  replace (key ++ ":" ++ fact ++ ",[" ++ join " "%char deps ++ "]")%string with (join ":"%char [key; (fact ++ ",[" ++ join " "%char deps ++ "]")%string]).
  2:{ rewrite join2. reflexivity. }
  rewrite split_on_join; [| discriminate | repeat constructor; auto].
  assert (nosep ","%char ("[" ++ join " "%char deps ++ "]")%string) as Hr.
  { unfold nosep, no_char. rewrite !chars_app. simpl. intros [E|Hin]; [discriminate|].
    apply in_app_or in Hin. destruct Hin as [Hin|[E|[]]]; try discriminate.
    unfold join in Hin. rewrite chars_str in Hin.
    clear - Hin Hd. induction Hd as [|d r (_ & _ & Hc & _) Hr IH]; simpl in Hin; auto.
    destruct r as [|d2 r'].
    - simpl in Hin. apply Hc. exact Hin.
    - simpl in Hin. apply in_app_or in Hin. destruct Hin as [Hin|[E|Hin]]; [apply Hc; exact Hin | discriminate | apply IH; exact Hin]. }
  replace (fact ++ ",[" ++ join " "%char deps ++ "]")%string with (join ","%char [fact; ("[" ++ join " "%char deps ++ "]")%string]).
  2:{ rewrite join2. reflexivity. }
  rewrite split_on_join; [| discriminate | repeat constructor; auto].
  reflexivity.
Qed.

(** ** the whole description *)
Definition no_null (s : string) : Prop := opt_value s = s.
Definition list_ok (l : list string) : Prop := Forall item_ok l /\ no_null (comma l).
Definition dict_ok (sep : ascii) (b : bool) (l : list (string * string)) : Prop :=
  Forall (entry_ok sep b) l /\ keys_fresh l /\ no_null (comma (map (kv (sep_str sep)) l)).

Record wf_cfg (c : cfg) : Prop := {
  w_scalars : Forall no_null [c_name c; c_description c; c_grain c; c_surface c; c_bulk c; c_grain_model c;
                              c_solver c; c_device c; c_method c];
  w_loads : list_ok (c_loads c); w_elements : list_ok (c_elements c); w_pseudo : list_ok (c_pseudo c);
  w_allowed : list_ok (c_allowed c); w_required : list_ok (c_required c);
  w_files : list_ok (c_files c); w_formats : list_ok (c_formats c);
  w_heating : list_ok (c_heating c); w_cooling : list_ok (c_cooling c);
  w_replacement : dict_ok ":"%char true (c_replacement c);
  w_shielding : dict_ok ":"%char true (c_shielding c);
  w_binding : dict_ok "="%char false (c_binding c);
  w_yield : dict_ok "="%char false (c_yield c);
  w_rate : Forall (entry_ok ":"%char true) (c_rate_mods c) /\ keys_fresh (c_rate_mods c) /\
           Forall no_null (map (kv ":") (c_rate_mods c));
  w_ode : c_ode_mods c = [];
}.

Theorem options_roundtrip_lemma c : wf_cfg c -> init_config true (print_opts c) = Some c.
Proof.
  intros [Hs [Hl1 Hl2] [He1 He2] [Hp1 Hp2] [Ha1 Ha2] [Hq1 Hq2] [Hf1 Hf2] [Hm1 Hm2] [Hh1 Hh2] [Hc1 Hc2]
            [Hr1 [Hr2 Hr3]] [Hsh1 [Hsh2 Hsh3]] [Hb1 [Hb2 Hb3]] [Hy1 [Hy2 Hy3]] [Hrm1 [Hrm2 Hrm3]] Hode].
  repeat match goal with H : Forall no_null (_ :: _) |- _ => apply Forall_cons_iff in H; destruct H as [? H] end.
  unfold no_null in *.
  unfold init_config, print_opts. cbn [o_name o_description o_loading o_elements o_pseudo o_replacement o_surface o_bulk
    o_allowed o_extra o_binding o_yield o_grain_symbol o_grain_model o_files o_formats o_heating o_cooling o_shielding
    o_rate_mods o_ode_mods o_solver o_device o_method].
  change (kv ":") with (kv (sep_str ":"%char)). change (kv "=") with (kv (sep_str "="%char)).
  rewrite Hr3, Hsh3, Hb3, Hy3.
  rewrite (parse_dict_comma ":"%char true _ Hr1 Hr2), (parse_dict_comma ":"%char true _ Hsh1 Hsh2).
  rewrite (parse_dict_comma "="%char false _ Hb1 Hb2), (parse_dict_comma "="%char false _ Hy1 Hy2).
  assert (map opt_value (map (kv (sep_str ":"%char)) (c_rate_mods c)) = map (kv (sep_str ":"%char)) (c_rate_mods c)) as ->.
  { apply map_id_on. exact Hrm3. }
  change (kv (sep_str ":"%char)) with (kv ":"). rewrite (parse_rate_mods_kv _ Hrm1 Hrm2).
  rewrite Hode. cbn [flat_map map join join_l chars list_ascii_of_string str string_of_list_ascii].
  change (opt_value "") with "". cbn [parse_ode_mods split_on split_on_go chars list_ascii_of_string map rev app str string_of_list_ascii parse_om_line String.eqb].
  rewrite Hl2, He2, Hp2, Ha2, Hq2, Hf2, Hm2, Hh2, Hc2.
  fold (parse_list (comma (c_loads c))).
  rewrite !parse_list_comma by assumption.
  repeat match goal with H : opt_value ?x = ?x |- _ => rewrite H; clear H end.
  destruct c; simpl in *; subst; reflexivity.
Qed.
