(** C16 (text level): the matrix entries and factors of the renormalisation, as
    the generator writes them, read as C. *)
From Coq Require Import List Arith Bool String Ascii ZArith QArith Reals Lra Lia.
From Naunet Require Import Lib.ListX Lib.PyStr Model.CExpr Model.OdeText Model.SumText Model.Renorm Model.RenormText
     Proofs.OdeTextProofs Proofs.SumTextProofs Proofs.RenormProofs.
Import ListNotations.



Theorem matrix_entry_parses hn l :
  parse (matrix_entry_txt hn l) = Some (gsum_ex (SLit zero_lit) (map (mterm_more hn) l)).
Proof.
  apply parse_gsum. reflexivity. apply Forall_forall. intros m Hm. apply in_map_iff in Hm.
  destruct Hm as (t & <- & _). exact I.
Qed.

Theorem factor_parses t r :
  parse (gsum_txt true (fterm_smd t) (map (fun u => (false, fterm_smd u)) r))
  = Some (gsum_ex (fterm_smd t) (map (fun u => (false, fterm_smd u)) r)).
Proof.
  apply parse_gsum. exact I. apply Forall_forall. intros m Hm. apply in_map_iff in Hm.
  destruct Hm as (u & <- & _). exact I.
Qed.

Open Scope R_scope.
Section Den.
Variable ab : nat -> R.
Variable rv : nat -> R.
Variable Hn : R.
Variable hn : nat.
Variable mag : nat -> R.

Fixpoint denR (e : ex) : R :=
  match e with
  | EMag i => mag i
  | EName i => if Nat.eqb i hn then Hn else 0
  | EIdx a (EName i) => if list_eqb Ascii.eqb a (aname_chars NAb) then ab i
                        else if list_eqb Ascii.eqb a (aname_chars NRptr) then rv i else 0
  | EBin op x y =>
      match op with
      | "+"%char => denR x + denR y
      | "-"%char => denR x - denR y
      | "*"%char => denR x * denR y
      | "/"%char => denR x / denR y
      | _ => 0
      end
  | _ => 0
  end.

Lemma den_matrix_terms : forall l acc,
  denR (fold_left (fun acc (m : more) => EBin (if fst m then "-"%char else "+"%char) acc (smd_ex (snd m))) (map (mterm_more hn) l) acc)
  = denR acc + sum_list (map (fun t : tterm3 => mag (fst (fst t)) * ab (snd (fst t)) / mag (snd t) / Hn) l).
Proof.
  induction l as [|t r IH]; intro acc; [simpl; lra|]. cbn [map fold_left sum_list].
  rewrite IH. cbn [denR fst snd mterm_more smd_ex chain_ex fold_left opd_ex op_char].
  rewrite Nat.eqb_refl. cbn [list_eqb aname_chars chars list_ascii_of_string Ascii.eqb Bool.eqb andb]. simpl sum_list. lra.
Qed.

Theorem matrix_entry_den l :
  denR (gsum_ex (SLit zero_lit) (map (mterm_more hn) l))
  = sum_list (map (fun t : tterm3 => mag (fst (fst t)) * ab (snd (fst t)) / mag (snd t) / Hn) l).
Proof. unfold gsum_ex. rewrite den_matrix_terms. simpl. lra. Qed.

Lemma den_factor_terms : forall l acc,
  denR (fold_left (fun acc (m : more) => EBin (if fst m then "-"%char else "+"%char) acc (smd_ex (snd m))) (map (fun u => (false, fterm_smd u)) l) acc)
  = denR acc + sum_list (map (fun t : tterm3 => mag (fst (fst t)) * rv (snd (fst t)) / mag (snd t)) l).
Proof.
  induction l as [|t r IH]; intro acc; [simpl; lra|]. cbn [map fold_left sum_list].
  rewrite IH. cbn [denR fst snd fterm_smd smd_ex chain_ex fold_left opd_ex op_char].
  cbn [list_eqb aname_chars chars list_ascii_of_string Ascii.eqb Bool.eqb andb]. simpl sum_list. lra.
Qed.

Theorem factor_den t r :
  denR (gsum_ex (fterm_smd t) (map (fun u => (false, fterm_smd u)) r))
  = sum_list (map (fun t : tterm3 => mag (fst (fst t)) * rv (snd (fst t)) / mag (snd t)) (t :: r)).
Proof.
  unfold gsum_ex. rewrite den_factor_terms.
  cbn [denR fst snd fterm_smd smd_ex chain_ex fold_left opd_ex op_char map].
  cbn [list_eqb aname_chars chars list_ascii_of_string Ascii.eqb Bool.eqb andb]. unfold sum_list. cbn [fold_right]. lra.
Qed.
End Den.

(* the printed numbers: atom 2p is q_p, atom 2p+1 is d_p *)
Fixpoint magv (a : nat) (l : list term) (i : nat) : R :=
  match l with
  | [] => 0
  | t :: r => if Nat.eqb i (2 * a) then Q2R (fst (fst t))
              else if Nat.eqb i (2 * a + 1) then Q2R (snd t) else magv (S a) r i
  end.

Lemma magv_skip a t r i : (2 * a + 1 < i)%nat -> magv a (t :: r) i = magv (S a) r i.
Proof.
  intro H. simpl. destruct (Nat.eqb_spec i (a + (a + 0))); [lia|].
  destruct (Nat.eqb_spec i (a + (a + 0) + 1)); [lia|]. reflexivity.
Qed.

Lemma atoms_from_ge : forall l a t, In t (atoms_from a l) -> (2 * a <= fst (fst t) /\ 2 * a <= snd t)%nat.
Proof.
  induction l as [|x r IH]; intros a t H; simpl in H. destruct H.
  destruct H as [<-|H]; simpl. lia. apply IH in H. lia.
Qed.

(* with these numbers the text terms have the value of the model's terms *)
Lemma magv_head_q a t r : magv a (t :: r) (2 * a) = Q2R (fst (fst t)).
Proof. simpl. rewrite Nat.eqb_refl. reflexivity. Qed.
Lemma magv_head_d a t r : magv a (t :: r) (2 * a + 1) = Q2R (snd t).
Proof.
  simpl. destruct (Nat.eqb_spec (a + (a + 0) + 1) (a + (a + 0))); [lia|]. rewrite Nat.eqb_refl. reflexivity.
Qed.

Lemma atoms_sum (f : R -> nat -> R -> R) : forall l a,
  sum_list (map (fun t : tterm3 => f (magv a l (fst (fst t))) (snd (fst t)) (magv a l (snd t))) (atoms_from a l))
  = sum_list (map (fun t : term => f (Q2R (fst (fst t))) (snd (fst t)) (Q2R (snd t))) l).
Proof.
  induction l as [|x r IH]; intro a. reflexivity.
  unfold sum_list in *. cbn [atoms_from map fold_right fst snd].
  rewrite magv_head_q, magv_head_d. f_equal.
  rewrite <- (IH (S a)). f_equal. apply map_ext_in. intros t Ht. apply atoms_from_ge in Ht.
  rewrite !magv_skip by lia. reflexivity.
Qed.

(** ** the text of the model's terms has the value the index-level theorems are about *)
Theorem matrix_text_value ab rv Hn hn (l : list term) :
  parse (matrix_entry_txt hn (atoms_from 0 l)) = Some (gsum_ex (SLit zero_lit) (map (mterm_more hn) (atoms_from 0 l))) /\
  denR ab rv Hn hn (magv 0 l) (gsum_ex (SLit zero_lit) (map (mterm_more hn) (atoms_from 0 l))) = ev_matrix_entry ab Hn l.
Proof.
  split. apply matrix_entry_parses.
  rewrite matrix_entry_den. unfold ev_matrix_entry.
  apply (atoms_sum (fun q k d => q * ab k / d / Hn) l 0%nat).
Qed.

Theorem factor_text_value ab rv Hn hn (t : term) (r : list term) :
  match atoms_from 0 (t :: r) with
  | a0 :: ar =>
      parse (gsum_txt true (fterm_smd a0) (map (fun u => (false, fterm_smd u)) ar))
        = Some (gsum_ex (fterm_smd a0) (map (fun u => (false, fterm_smd u)) ar)) /\
      denR ab rv Hn hn (magv 0 (t :: r)) (gsum_ex (fterm_smd a0) (map (fun u => (false, fterm_smd u)) ar))
        = ev_factor rv (Some (t :: r))
  | [] => False
  end.
Proof.
  cbn [atoms_from]. split. apply factor_parses.
  rewrite factor_den. unfold ev_factor.
  apply (atoms_sum (fun q k d => q * rv k / d) (t :: r) 0%nat).
Qed.
