(** Semantics of emitted sums over an arbitrary commutative ring, and the algebra
    behind C01 (mass action), C02 (formal derivative), C04 (conservation), C13. *)
From Coq Require Import List Arith Bool Lia String Ring.
From Naunet Require Import Lib.ListX Model.OdeGen Proofs.OdeRefine.
Import ListNotations.

(** well-formed index-level input: every index denotes a species *)
Definition idx_ok (n : nat) (l : list nat) : Prop := Forall (fun x => x < n) l.

Record wf_input (i : ode_input) : Prop := {
  wf_rxns : Forall (fun r => idx_ok (i_nspec i) (reac r) /\ idx_ok (i_nspec i) (prod r)) (i_rxns i);
  wf_mods : Forall (fun m => m_target m < i_nspec i /\
                             Forall (fun fd : string * list nat => idx_ok (i_nspec i) (snd fd)) (m_terms m)) (i_mods i);
  wf_heat : Forall (idx_ok (i_nspec i)) (i_heat i);
  wf_cool : Forall (idx_ok (i_nspec i)) (i_cool i);
}.

Lemma nspec_le_neqns i : i_nspec i <= n_eqns i.
Proof. unfold n_eqns. lia. Qed.

Lemma thermal_row_lt i : has_thermal i = true -> i_nspec i < n_eqns i.
Proof. unfold n_eqns. intros ->. lia. Qed.

(** ranges of the additions *)
Definition vars_ok (n : nat) (a : adds) : Prop :=
  Forall (fun pt : nat * term => idx_ok n (t_vars (snd pt))) a.

Lemma in_range_app n a b : in_range n a -> in_range n b -> in_range n (a ++ b).
Proof. unfold in_range. intros. apply Forall_app; auto. Qed.
Lemma vars_ok_app n a b : vars_ok n a -> vars_ok n b -> vars_ok n (a ++ b).
Proof. unfold vars_ok. intros. apply Forall_app; auto. Qed.

Lemma rxns_adds_range n rs : forall l,
  Forall (fun r => idx_ok n (reac r) /\ idx_ok n (prod r)) rs ->
  in_range n (rxns_adds l rs) /\ vars_ok n (rxns_adds l rs).
Proof.
  induction rs as [|r rs IH]; intros l H; simpl.
  - split; constructor.
  - inversion H as [|? ? [Hr Hp] Hrest]; subst. destruct (IH (S l) Hrest) as [I1 I2].
    split; [apply in_range_app | apply vars_ok_app]; auto; unfold rxn_adds;
    apply Forall_app; split; apply Forall_forall; intros [p t] Hin;
    apply in_map_iff in Hin; destruct Hin as (sp & Heq & Hsp); inversion Heq; subst; simpl; auto;
    unfold idx_ok in *; rewrite Forall_forall in *; auto.
Qed.

Lemma mods_adds_range n ms :
  Forall (fun m => m_target m < n /\ Forall (fun fd : string * list nat => idx_ok n (snd fd)) (m_terms m)) ms ->
  in_range n (mods_adds ms) /\ vars_ok n (mods_adds ms).
Proof.
  induction ms as [|m ms IH]; intro H; simpl.
  - split; constructor.
  - inversion H as [|? ? [Ht Hd] Hrest]; subst. destruct (IH Hrest) as [I1 I2].
    split; [apply in_range_app | apply vars_ok_app]; auto; unfold mod_adds;
    apply Forall_forall; intros [p t] Hin; apply in_map_iff in Hin;
    destruct Hin as (fd & Heq & Hfd); inversion Heq; subst; simpl; auto.
    rewrite Forall_forall in Hd. auto.
Qed.

Lemma therm_adds_range n nspec neg mk ps : forall h,
  nspec < n -> Forall (idx_ok nspec) ps ->
  in_range n (therm_adds nspec neg mk h ps) /\ vars_ok nspec (therm_adds nspec neg mk h ps).
Proof.
  induction ps as [|rs ps IH]; intros h Hn H; simpl.
  - split; constructor.
  - inversion H; subst. destruct (IH (S h) Hn H3). split; constructor; simpl; auto.
Qed.

Lemma in_range_mono n m a : n <= m -> in_range n a -> in_range m a.
Proof. intros Hle H. eapply Forall_impl; [|exact H]. simpl. intros. lia. Qed.
Lemma vars_ok_mono n m a : n <= m -> vars_ok n a -> vars_ok m a.
Proof.
  intros Hle H. eapply Forall_impl; [|exact H]. simpl. intros pt Hp.
  eapply Forall_impl; [|exact Hp]. simpl. intros. lia.
Qed.

Lemma therm_nil nspec neg mk h : therm_adds nspec neg mk h [] = [].
Proof. auto. Qed.

Lemma rhs_adds_range i : wf_input i ->
  in_range (n_eqns i) (rhs_adds i) /\ vars_ok (i_nspec i) (rhs_adds i).
Proof.
  intros [H1 H2 H3 H4]. unfold rhs_adds.
  destruct (rxns_adds_range (i_nspec i) (i_rxns i) 0 H1) as [A1 A2].
  destruct (mods_adds_range (i_nspec i) (i_mods i) H2) as [B1 B2].
  pose proof (nspec_le_neqns i) as Hle.
  assert (in_range (n_eqns i) (therm_adds (i_nspec i) false CKH 0 (i_heat i)) /\
          vars_ok (i_nspec i) (therm_adds (i_nspec i) false CKH 0 (i_heat i)) /\
          in_range (n_eqns i) (therm_adds (i_nspec i) true CKC 0 (i_cool i)) /\
          vars_ok (i_nspec i) (therm_adds (i_nspec i) true CKC 0 (i_cool i))) as (C1 & C2 & D1 & D2).
  { destruct (has_thermal i) eqn:E.
    - pose proof (thermal_row_lt i E) as Hlt.
      destruct (therm_adds_range (n_eqns i) (i_nspec i) false CKH (i_heat i) 0 Hlt H3).
      destruct (therm_adds_range (n_eqns i) (i_nspec i) true CKC (i_cool i) 0 Hlt H4). auto.
    - unfold has_thermal in E. destruct (i_heat i), (i_cool i); try discriminate. simpl.
      repeat split; constructor. }
  split.
  - repeat apply in_range_app; auto; eapply in_range_mono; eauto.
  - repeat apply vars_ok_app; auto.
Qed.

Lemma at_pos_jac_row n p row col t l : idx_ok n l -> col < n ->
  at_pos (row * n + col) (map (fun ri => (p * n + ri, dterm ri t)) l)
  = if Nat.eqb p row then repeat (dterm col t) (count Nat.eqb col l) else [].
Proof.
  intros Hl Hc. unfold at_pos. induction Hl as [|ri l Hri Hl IHl].
  - simpl. destruct (Nat.eqb p row); auto.
  - cbn [map filter fst snd count]. 
    destruct (Nat.eqb_spec (p * n + ri) (row * n + col)) as [He|Hne].
    + assert (p = row /\ ri = col) as [-> ->].
      { assert ((p * n + ri) / n = (row * n + col) / n) as Hd by (rewrite He; auto).
        rewrite !Nat.div_add_l, !Nat.div_small in Hd by lia. split; nia. }
      cbn [map snd]. rewrite IHl, !Nat.eqb_refl. auto.
    + rewrite IHl. destruct (Nat.eqb_spec p row) as [->|Hpr]; auto.
      destruct (Nat.eqb_spec col ri); [subst; lia | auto].
Qed.

Section Sem.
Variable R : Type.
Variables (rO rI : R) (radd rmul rsub : R -> R -> R) (ropp : R -> R).
Hypothesis Rth : ring_theory rO rI radd rmul rsub ropp (@eq R).
Add Ring Rr : Rth.

Declare Scope rr_scope.
Delimit Scope rr_scope with rr.
Notation "a + b" := (radd a b) : rr_scope.
Notation "a * b" := (rmul a b) : rr_scope.
Notation "a - b" := (rsub a b) : rr_scope.
Notation "- a" := (ropp a) : rr_scope.
Local Open Scope rr_scope.

Record env := { e_k : nat -> R; e_kh : nat -> R; e_kc : nat -> R; e_f : string -> R; e_y : nat -> R }.

Definition coef_val (E : env) (c : coef) : R :=
  match c with CK l => e_k E l | CKH h => e_kh E h | CKC c => e_kc E c | CF f => e_f E f end.

Fixpoint prod_y (E : env) (vs : list nat) : R :=
  match vs with [] => rI | v :: r => e_y E v * prod_y E r end.

Definition signed (neg : bool) (x : R) : R := if neg then - x else x.

Definition ev_term (E : env) (t : term) : R :=
  signed (t_neg t) (coef_val E (t_coef t) * prod_y E (t_vars t)).

(** the value of the emitted text "0.0 (+|-) t1 (+|-) t2 ..." *)
Fixpoint ev_eqn (E : env) (e : eqn) : R :=
  match e with [] => rO | t :: r => ev_term E t + ev_eqn E r end.

Lemma ev_eqn_app E a b : ev_eqn E (a ++ b) = ev_eqn E a + ev_eqn E b.
Proof. induction a; simpl; [ring | rewrite IHa; ring]. Qed.

Fixpoint muln (n : nat) (x : R) : R := match n with O => rO | S m => x + muln m x end.

Lemma ev_eqn_repeat E t c : ev_eqn E (repeat t c) = muln c (ev_term E t).
Proof. induction c; simpl; auto. rewrite IHc. auto. Qed.

Lemma at_pos_map_const i t idxs :
  at_pos i (map (fun sp => (sp, t)) idxs) = repeat t (count Nat.eqb i idxs).
Proof.
  unfold at_pos. induction idxs as [|x l IH]; simpl; auto.
  rewrite (Nat.eqb_sym x i). destruct (Nat.eqb i x); simpl; rewrite IH; auto.
Qed.

(** C01: mass action *)
Definition flux (E : env) (l : nat) (r : rxn) : R := e_k E l * prod_y E (reac r).

Fixpoint ma_sum (E : env) (i l : nat) (rs : list rxn) : R :=
  match rs with
  | [] => rO
  | r :: rest =>
      (muln (count Nat.eqb i (prod r)) (flux E l r) - muln (count Nat.eqb i (reac r)) (flux E l r))
      + ma_sum E i (S l) rest
  end.

Lemma muln_opp c x : muln c (- x) = - muln c x.
Proof. induction c; simpl; [ring | rewrite IHc; ring]. Qed.

Lemma rxns_adds_sem E i rs : forall l,
  ev_eqn E (at_pos i (rxns_adds l rs)) = ma_sum E i l rs.
Proof.
  induction rs as [|r rs IH]; intro l; simpl; auto.
  rewrite at_pos_app, ev_eqn_app, IH. unfold rxn_adds.
  rewrite at_pos_app, ev_eqn_app, !at_pos_map_const, !ev_eqn_repeat.
  unfold ev_term, tm, flux. simpl. rewrite muln_opp. ring.
Qed.

(** ODE modifiers: the given factor times the product of the listed abundances *)
Definition mod_sum (E : env) (i : nat) (ms : list omod) : R :=
  ev_eqn E (at_pos i (mods_adds ms)).

Fixpoint modterms_val (E : env) (fds : list (string * list nat)) : R :=
  match fds with [] => rO | fd :: r => e_f E (fst fd) * prod_y E (snd fd) + modterms_val E r end.

Lemma mod_adds_hit E m : ev_eqn E (at_pos (m_target m) (mod_adds m)) = modterms_val E (m_terms m).
Proof.
  unfold mod_adds, at_pos. induction (m_terms m) as [|fd fds IH]; simpl; auto.
  rewrite Nat.eqb_refl. simpl. rewrite IH. auto.
Qed.

Lemma mod_adds_miss m i : m_target m <> i -> at_pos i (mod_adds m) = [].
Proof.
  intro H. unfold mod_adds, at_pos. induction (m_terms m) as [|fd fds IH]; simpl; auto.
  apply Nat.eqb_neq in H. rewrite H. auto.
Qed.

Lemma mod_sum_cons E i m ms :
  mod_sum E i (m :: ms) = (if Nat.eqb (m_target m) i then modterms_val E (m_terms m) else rO) + mod_sum E i ms.
Proof.
  unfold mod_sum, mods_adds. simpl. rewrite at_pos_app, ev_eqn_app.
  destruct (Nat.eqb_spec (m_target m) i).
  - subst. rewrite mod_adds_hit. auto.
  - rewrite mod_adds_miss; auto.
Qed.

(** thermal additions live in row nspec only *)
Lemma therm_adds_miss nspec neg mk ps i : forall h, i <> nspec -> at_pos i (therm_adds nspec neg mk h ps) = [].
Proof.
  induction ps as [|rs ps IH]; intros h H; simpl; auto.
  unfold at_pos in *. simpl. apply Nat.eqb_neq in H. rewrite Nat.eqb_sym, H. apply IH.
  apply Nat.eqb_neq. auto.
Qed.

Fixpoint therm_sum (E : env) (kk : nat -> R) (h : nat) (ps : list (list nat)) : R :=
  match ps with [] => rO | rs :: rest => kk h * prod_y E rs + therm_sum E kk (S h) rest end.

Lemma therm_adds_heat E nspec ps : forall h,
  ev_eqn E (at_pos nspec (therm_adds nspec false CKH h ps)) = therm_sum E (e_kh E) h ps.
Proof.
  induction ps as [|rs ps IH]; intro h; simpl; auto.
  unfold at_pos in *. simpl. rewrite Nat.eqb_refl. simpl. rewrite IH. auto.
Qed.
Lemma therm_adds_cool E nspec ps : forall h,
  ev_eqn E (at_pos nspec (therm_adds nspec true CKC h ps)) = - therm_sum E (e_kc E) h ps.
Proof.
  induction ps as [|rs ps IH]; intro h; simpl. ring.
  unfold at_pos in *. simpl. rewrite Nat.eqb_refl. simpl. rewrite IH.
  unfold ev_term. simpl. ring.
Qed.

Lemma at_pos_out_of_range n a i : in_range n a -> n <= i -> at_pos i a = [].
Proof.
  intros H Hi. unfold at_pos. induction H as [|[p t] a Hp Ha IH]; simpl; auto.
  simpl in Hp. destruct (Nat.eqb_spec p i); [lia | auto].
Qed.

(** value of equation [row] of the generated right-hand side *)
Definition rhs_row (i : ode_input) (row : nat) : eqn := nth row (st_rhs (ode_terms i)) [].
Definition jac_entry (i : ode_input) (row col : nat) : eqn :=
  nth (row * n_eqns i + col)%nat (st_jac (ode_terms i)) [].

Lemma rhs_row_adds i row : wf_input i -> rhs_row i row = at_pos row (rhs_adds i).
Proof.
  intro H. unfold rhs_row. destruct (ode_terms_adds i) as [-> _].
  apply nth_apply_adds_zero. apply rhs_adds_range; auto.
Qed.

Theorem rhs_species_row E i s : wf_input i -> s < i_nspec i ->
  ev_eqn E (rhs_row i s) = ma_sum E s 0 (i_rxns i) + mod_sum E s (i_mods i).
Proof.
  intros H Hs. rewrite rhs_row_adds by auto. unfold rhs_adds.
  rewrite !at_pos_app, !ev_eqn_app, rxns_adds_sem.
  rewrite !therm_adds_miss by lia. simpl. unfold mod_sum. ring.
Qed.

Lemma ma_sum_absent E s rs : forall l,
  Forall (fun r => count Nat.eqb s (reac r) = 0 /\ count Nat.eqb s (prod r) = 0) rs -> ma_sum E s l rs = rO.
Proof.
  induction rs as [|r rs IH]; intros l H; simpl; auto.
  inversion H as [|? ? [H1 H2] H3]; subst. rewrite H1, H2, IH by auto. simpl. ring.
Qed.

Lemma count_ge n s l : idx_ok n l -> n <= s -> count Nat.eqb s l = 0.
Proof.
  induction 1; simpl; auto. intro Hs. destruct (Nat.eqb_spec s x); [lia | auto].
Qed.

Theorem rhs_thermal_row E i : wf_input i -> has_thermal i = true ->
  ev_eqn E (rhs_row i (i_nspec i))
  = therm_sum E (e_kh E) 0 (i_heat i) - therm_sum E (e_kc E) 0 (i_cool i).
Proof.
  intros H Ht. rewrite rhs_row_adds by auto. unfold rhs_adds.
  rewrite !at_pos_app, !ev_eqn_app, rxns_adds_sem, therm_adds_heat, therm_adds_cool.
  destruct H as [H1 H2 H3 H4].
  rewrite ma_sum_absent.
  2:{ eapply Forall_impl; [|exact H1]. simpl. intros r [Hr Hp].
      split; eapply count_ge; eauto. }
  assert (at_pos (i_nspec i) (mods_adds (i_mods i)) = []) as ->.
  { eapply at_pos_out_of_range; [|apply Nat.le_refl]. apply mods_adds_range; auto. }
  simpl. ring.
Qed.

(** a species in no reaction and no modifier: the literal "0.0" *)
Theorem rhs_unreacting i s : wf_input i -> s < i_nspec i ->
  Forall (fun r => count Nat.eqb s (reac r) = 0 /\ count Nat.eqb s (prod r) = 0) (i_rxns i) ->
  Forall (fun m => m_target m <> s) (i_mods i) ->
  rhs_row i s = [].
Proof.
  intros H Hs Hr Hm. rewrite rhs_row_adds by auto. unfold rhs_adds.
  rewrite !at_pos_app, !therm_adds_miss by lia. rewrite !app_nil_r.
  assert (forall l, at_pos s (rxns_adds l (i_rxns i)) = []) as ->.
  { induction Hr as [|r rs [H1 H2] Hrs IH]; intro l; simpl; auto.
    rewrite at_pos_app, IH. unfold rxn_adds. rewrite at_pos_app, !at_pos_map_const, H1, H2. auto. }
  simpl. unfold mods_adds. induction Hm as [|m ms Hm1 Hms IH]; simpl; auto.
  rewrite at_pos_app, IH, mod_adds_miss; auto.
Qed.

(** C13: an ODE modifier changes exactly its target equation, by appending its terms *)
Definition without_mods (i : ode_input) : ode_input :=
  {| i_nspec := i_nspec i; i_rxns := i_rxns i; i_mods := []; i_heat := i_heat i; i_cool := i_cool i |}.

Lemma wf_without_mods i : wf_input i -> wf_input (without_mods i).
Proof. intros [H1 H2 H3 H4]. constructor; simpl; auto. Qed.

Theorem ode_mod_exact i row : wf_input i ->
  rhs_row i row = rhs_row (without_mods i) row ++ at_pos row (mods_adds (i_mods i)).
Proof.
  intro H. rewrite !rhs_row_adds by (auto using wf_without_mods).
  unfold rhs_adds. simpl. rewrite !at_pos_app. simpl.
  destruct (Nat.eq_dec row (i_nspec i)) as [->|Hne].
  - assert (at_pos (i_nspec i) (mods_adds (i_mods i)) = []) as ->.
    { eapply at_pos_out_of_range; [|apply Nat.le_refl]. apply mods_adds_range. apply H. }
    rewrite app_nil_r. auto.
  - rewrite !therm_adds_miss by auto. rewrite !app_nil_r. auto.
Qed.

(** C02: the formal partial derivative, by linearity and the Leibniz rule *)
Fixpoint dprod (E : env) (j : nat) (vs : list nat) : R :=
  match vs with
  | [] => rO
  | v :: r => (if Nat.eqb v j then prod_y E r else rO) + e_y E v * dprod E j r
  end.

Definition dterm_val (E : env) (j : nat) (t : term) : R :=
  signed (t_neg t) (coef_val E (t_coef t) * dprod E j (t_vars t)).

Fixpoint deqn (E : env) (j : nat) (e : eqn) : R :=
  match e with [] => rO | t :: r => dterm_val E j t + deqn E j r end.

Lemma deqn_app E j a b : deqn E j (a ++ b) = deqn E j a + deqn E j b.
Proof. induction a; simpl; [ring | rewrite IHa; ring]. Qed.

Lemma prod_remove1 E j vs : count Nat.eqb j vs <> 0 ->
  e_y E j * prod_y E (remove1 Nat.eqb j vs) = prod_y E vs.
Proof.
  induction vs as [|v r IH]; simpl. congruence.
  destruct (Nat.eqb_spec j v).
  - subst. auto.
  - simpl. intro H. rewrite <- IH by auto. ring.
Qed.

Lemma muln_mul c x y : muln c (x * y) = x * muln c y.
Proof. induction c; simpl; [ring | rewrite IHc; ring]. Qed.

Lemma dprod_count E j vs :
  dprod E j vs = muln (count Nat.eqb j vs) (prod_y E (remove1 Nat.eqb j vs)).
Proof.
  induction vs as [|v r IH]; simpl; auto.
  rewrite (Nat.eqb_sym v j). destruct (Nat.eqb_spec j v).
  - subst. simpl. rewrite IH.
    destruct (count Nat.eqb v r) eqn:C.
    + simpl. ring.
    + rewrite <- muln_mul. rewrite prod_remove1 by lia. simpl. ring.
  - simpl. rewrite IH, <- muln_mul. ring.
Qed.

Lemma muln_signed neg c x : muln c (signed neg x) = signed neg (muln c x).
Proof. destruct neg; simpl; auto. apply muln_opp. Qed.

(* what the generator emits for d/dy_j of one summand: one copy of the summand
   with one occurrence of y_j removed, per occurrence of y_j *)
Lemma dterm_emitted E j t :
  muln (count Nat.eqb j (t_vars t)) (ev_term E (dterm j t)) = dterm_val E j t.
Proof.
  unfold ev_term, dterm_val, dterm. simpl. rewrite muln_signed, muln_mul, dprod_count. auto.
Qed.

Lemma at_pos_cons i p t a :
  at_pos i ((p, t) :: a) = if Nat.eqb p i then t :: at_pos i a else at_pos i a.
Proof. unfold at_pos. simpl. destruct (Nat.eqb p i); auto. Qed.

Lemma jac_of_at_pos E n a row col : vars_ok n a -> col < n ->
  ev_eqn E (at_pos (row * n + col)%nat (jac_of n a)) = deqn E col (at_pos row a).
Proof.
  intros H Hc. induction H as [|[p t] a Hv Ha IH]; simpl; auto.
  rewrite at_pos_app, ev_eqn_app, IH. simpl in Hv.
  rewrite (at_pos_jac_row n p row col t (t_vars t) Hv Hc), at_pos_cons.
  destruct (Nat.eqb p row); simpl.
  - rewrite ev_eqn_repeat, dterm_emitted. auto.
  - ring.
Qed.

Lemma jac_entry_adds i row col : wf_input i -> row < n_eqns i -> col < n_eqns i ->
  jac_entry i row col = at_pos (row * n_eqns i + col)%nat (jac_of (n_eqns i) (rhs_adds i)).
Proof.
  intros H Hr Hc. unfold jac_entry. destruct (ode_terms_adds i) as [_ ->].
  apply nth_apply_adds_zero.
  destruct (rhs_adds_range i H) as [Hrange Hvars].
  unfold in_range, jac_of. apply Forall_forall. intros [p t] Hin.
  apply in_flat_map in Hin. destruct Hin as ([q u] & Hq & Hin).
  apply in_map_iff in Hin. destruct Hin as (ri & Heq & Hri). inversion Heq; subst. simpl.
  unfold in_range in Hrange. rewrite Forall_forall in Hrange. specialize (Hrange _ Hq). simpl in Hrange.
  unfold vars_ok in Hvars. rewrite Forall_forall in Hvars. specialize (Hvars _ Hq). simpl in Hvars.
  unfold idx_ok in Hvars. rewrite Forall_forall in Hvars. specialize (Hvars _ Hri).
  pose proof (nspec_le_neqns i). nia.
Qed.

Theorem jac_is_formal_derivative E i row col : wf_input i -> row < n_eqns i -> col < n_eqns i ->
  ev_eqn E (jac_entry i row col) = deqn E col (rhs_row i row).
Proof.
  intros H Hr Hc. rewrite jac_entry_adds, rhs_row_adds by auto.
  apply jac_of_at_pos; auto.
  eapply vars_ok_mono; [apply nspec_le_neqns | apply rhs_adds_range; auto].
Qed.

(** an omitted entry (literal "0.0") is an identically vanishing derivative *)
Theorem jac_omitted_zero E i row col : wf_input i -> row < n_eqns i -> col < n_eqns i ->
  is_zero (jac_entry i row col) = true -> deqn E col (rhs_row i row) = rO.
Proof.
  intros H Hr Hc Hz. rewrite <- jac_is_formal_derivative by auto.
  destruct (jac_entry i row col); simpl in *; auto. discriminate.
Qed.

(** C04: weighted sums *)
Fixpoint sumn (n : nat) (f : nat -> R) : R :=
  match n with O => rO | S m => sumn m f + f m end.

Lemma sumn_ext n f g : (forall i, i < n -> f i = g i) -> sumn n f = sumn n g.
Proof. induction n; simpl; intro H; auto. rewrite IHn, H; auto. Qed.
Lemma sumn_add n f g : sumn n (fun i => f i + g i) = sumn n f + sumn n g.
Proof. induction n; simpl; [ring | rewrite IHn; ring]. Qed.
Lemma sumn_zero n : sumn n (fun _ => rO) = rO.
Proof. induction n; simpl; [auto | rewrite IHn; ring]. Qed.
Lemma sumn_delta n p x : sumn n (fun i => if Nat.eqb p i then x else rO) = if Nat.ltb p n then x else rO.
Proof.
  induction n; simpl; auto. rewrite IHn.
  destruct (Nat.eqb_spec p n), (Nat.ltb_spec p n), (Nat.ltb_spec p (S n)); try lia; ring.
Qed.

Fixpoint wsum_adds (E : env) (w : nat -> R) (m : nat) (a : adds) : R :=
  match a with
  | [] => rO
  | (p, t) :: r => (if Nat.ltb p m then w p * ev_term E t else rO) + wsum_adds E w m r
  end.

Lemma weighted_rows E w m a :
  sumn m (fun i => w i * ev_eqn E (at_pos i a)) = wsum_adds E w m a.
Proof.
  induction a as [|[p t] a IH]; simpl.
  - transitivity (sumn m (fun _ => rO)); [apply sumn_ext; intros; unfold at_pos; simpl; ring | apply sumn_zero].
  - rewrite <- IH. rewrite <- (sumn_delta m p (w p * ev_term E t)), <- sumn_add.
    apply sumn_ext. intros i Hi. unfold at_pos. simpl.
    destruct (Nat.eqb_spec p i); simpl; [subst|]; ring.
Qed.

Fixpoint wlist (w : nat -> R) (l : list nat) : R :=
  match l with [] => rO | x :: r => w x + wlist w r end.

Lemma wsum_adds_app E w m a b : wsum_adds E w m (a ++ b) = wsum_adds E w m a + wsum_adds E w m b.
Proof. induction a as [|[p t] a IH]; simpl; [ring | rewrite IH; ring]. Qed.

Lemma wsum_map_const E w m t idxs : idx_ok m idxs ->
  wsum_adds E w m (map (fun sp => (sp, t)) idxs) = wlist w idxs * ev_term E t.
Proof.
  induction 1 as [|x l Hx Hl IH]; simpl. ring.
  apply Nat.ltb_lt in Hx. rewrite Hx, IH. ring.
Qed.

Definition balanced (w : nat -> R) (r : rxn) : Prop := wlist w (reac r) = wlist w (prod r).

Lemma wsum_rxns E w m rs : forall l,
  Forall (fun r => idx_ok m (reac r) /\ idx_ok m (prod r)) rs ->
  Forall (balanced w) rs -> wsum_adds E w m (rxns_adds l rs) = rO.
Proof.
  induction rs as [|r rs IH]; intros l Hwf Hb; simpl; auto.
  inversion Hwf as [|? ? [Hr Hp] Hwf']; subst. inversion Hb as [|? ? Hbr Hb']; subst.
  rewrite wsum_adds_app, IH by auto. unfold rxn_adds.
  rewrite wsum_adds_app, !wsum_map_const by auto. unfold balanced in Hbr. rewrite Hbr.
  unfold ev_term, tm. simpl. ring.
Qed.

Lemma wsum_therm E w nspec neg mk ps : forall h, wsum_adds E w nspec (therm_adds nspec neg mk h ps) = rO.
Proof.
  induction ps as [|rs ps IH]; intro h; simpl; auto.
  rewrite Nat.ltb_irrefl, IH. ring.
Qed.

Theorem conservation E (w : nat -> R) i : wf_input i -> i_mods i = [] ->
  Forall (balanced w) (i_rxns i) ->
  sumn (i_nspec i) (fun s => w s * ev_eqn E (rhs_row i s)) = rO.
Proof.
  intros H Hm Hb.
  rewrite (sumn_ext _ _ (fun s => w s * ev_eqn E (at_pos s (rhs_adds i)))).
  2:{ intros s _. rewrite rhs_row_adds; auto. }
  rewrite weighted_rows. unfold rhs_adds. rewrite Hm. simpl.
  rewrite !wsum_adds_app, !wsum_therm, wsum_rxns; auto. ring. apply H.
Qed.

End Sem.

(** packaged statements used by Props/C01.v *)
Section Pack.
Variable R : Type.
Variables (rO rI : R) (radd rmul rsub : R -> R -> R) (ropp : R -> R).
Hypothesis Rth : ring_theory rO rI radd rmul rsub ropp (@eq R).

Lemma rhs_thermal_row_full : forall (E : env R) (i : ode_input),
  wf_input i -> has_thermal i = true ->
  ev_eqn R rO rI radd rmul ropp E (rhs_row i (i_nspec i))
  = rsub (therm_sum R rO rI radd rmul E (e_kh R E) 0 (i_heat i))
         (therm_sum R rO rI radd rmul E (e_kc R E) 0 (i_cool i))
  /\ rhs_wrapped i (i_nspec i) = true
  /\ (forall s, s < i_nspec i -> rhs_wrapped i s = false).
Proof.
  intros E i H Ht. split; [apply (rhs_thermal_row R rO rI radd rmul rsub ropp Rth); auto|].
  unfold rhs_wrapped. rewrite Ht, Nat.eqb_refl. split; auto.
  intros s Hs. simpl. apply Nat.eqb_neq. lia.
Qed.
End Pack.

(** a concrete network over Z (non-vacuity) *)
From Coq Require Import ZArith.
Definition ex_input : ode_input :=
  {| i_nspec := 4;     (* 0:H 1:H2 2:CO 3:He *)
     i_rxns := [ {| reac := [0; 0]; prod := [1] |};
                 {| reac := [1; 2]; prod := [0; 0; 2] |};
                 {| reac := [0; 0; 0]; prod := [1; 0] |} ];
     i_mods := []; i_heat := []; i_cool := [] |}.
Definition ex_env : env Z :=
  {| e_k := fun l => Z.of_nat (l + 2); e_kh := fun _ => 0%Z; e_kc := fun _ => 0%Z;
     e_f := fun _ => 0%Z; e_y := fun v => Z.of_nat (v + 3) |}.

Lemma ex_wf : wf_input ex_input.
Proof.
  constructor; simpl; repeat constructor; unfold idx_ok; repeat constructor.
Qed.

Definition c01_example_statement : Prop :=
  wf_input ex_input /\
  map (ev_eqn Z 0%Z 1%Z Z.add Z.mul Z.opp ex_env) (st_rhs (ode_terms ex_input))
  = [(-2 * 2 * 9 + 2 * 3 * 20 - 2 * 4 * 27)%Z; (2 * 9 - 3 * 20 + 4 * 27)%Z; 0%Z; 0%Z] /\
  rhs_row ex_input 3 = [].
Lemma c01_example_proof : c01_example_statement.
Proof. split. exact ex_wf. split; vm_compute; reflexivity. Qed.

(** non-vacuity over Z: species 0 gets the modifier (f) * y1*y1*y2 *)
Definition ex2_input : ode_input :=
  {| i_nspec := 3;
     i_rxns := [ {| reac := [0; 1]; prod := [2] |} ];
     i_mods := [ {| m_target := 0; m_terms := [("f"%string, [1; 1; 2])] |} ];
     i_heat := []; i_cool := [] |}.
Definition ex2_env : env Z :=
  {| e_k := fun _ => 7%Z; e_kh := fun _ => 0%Z; e_kc := fun _ => 0%Z;
     e_f := fun _ => 5%Z; e_y := fun v => Z.of_nat (v + 2) |}.
Definition c02_example_statement : Prop :=
  wf_input ex2_input /\
  (* d/dy1 [ -7*y0*y1 + 5*y1*y1*y2 ] = -7*y0 + 2*5*y1*y2 ;  d/dy2 = 5*y1*y1 *)
  ev_eqn Z 0%Z 1%Z Z.add Z.mul Z.opp ex2_env (jac_entry ex2_input 0 1) = (-7 * 2 + 2 * 5 * 3 * 4)%Z /\
  ev_eqn Z 0%Z 1%Z Z.add Z.mul Z.opp ex2_env (jac_entry ex2_input 0 2) = (5 * 3 * 3)%Z /\
  is_zero (jac_entry ex2_input 1 2) = true.
Lemma c02_example_proof : c02_example_statement.
Proof.
  split.
  - constructor; simpl; repeat constructor; unfold idx_ok; repeat constructor.
  - repeat split; vm_compute; reflexivity.
Qed.

(** C04 non-vacuity *)
Definition ex4_input : ode_input :=
  {| i_nspec := 5;     (* 0:H2 1:CO+ 2:HCO+ 3:H 4:e- *)
     i_rxns := [ {| reac := [0; 1]; prod := [2; 3] |}; {| reac := [2; 4]; prod := [3; 3; 3] |} ];
     i_mods := []; i_heat := []; i_cool := [] |}.
Definition w_H (s : nat) : Z := match s with 0%nat => 2%Z | 2%nat => 1%Z | 3%nat => 1%Z | _ => 0%Z end.
Definition w_charge (s : nat) : Z := match s with 1%nat => 1%Z | 2%nat => 1%Z | 4%nat => (-1)%Z | _ => 0%Z end.
Definition c04_example_statement : Prop :=
  wf_input ex4_input /\
  Forall (balanced Z 0%Z Z.add w_charge) (i_rxns ex4_input) /\
  ~ Forall (balanced Z 0%Z Z.add w_H) (i_rxns ex4_input) /\
  sumn Z 0%Z Z.add 5 (fun s => (w_charge s * ev_eqn Z 0%Z 1%Z Z.add Z.mul Z.opp ex_env (rhs_row ex4_input s))%Z) = 0%Z /\
  sumn Z 0%Z Z.add 5 (fun s => (w_H s * ev_eqn Z 0%Z 1%Z Z.add Z.mul Z.opp ex_env (rhs_row ex4_input s))%Z) <> 0%Z.
Lemma c04_example_proof : c04_example_statement.
Proof.
  split. { constructor; simpl; repeat constructor; unfold idx_ok; repeat constructor. }
  split. { repeat constructor. }
  split. { intro H. inversion H as [|? ? _ H2]; subst. inversion H2 as [|? ? Hb _]; subst.
           unfold balanced in Hb. simpl in Hb. discriminate. }
  split; vm_compute; congruence.
Qed.
