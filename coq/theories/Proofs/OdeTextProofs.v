(** C01 (text level): the emitted right-hand side, read as C, is the sum of its terms. *)
From Coq Require Import List Arith Bool String Ascii Lia.
From Coq Require Import Ring.
From Naunet Require Import Lib.ListX Lib.PyStr Model.CExpr Model.OdeGen Model.OdeText Proofs.OdeSem.
Import ListNotations.

(** ** tokens of one factor  a[i]  where the subscript is one token *)
Definition sub_tok (s : sub) : tok := match s with SMag i => TMag i | SName i => TName i end.
Definition sub_ex (s : sub) : ex := match s with SMag i => EMag i | SName i => EName i end.

Definition fac_toks (a : list ascii) (s : sub) : list tok := [TId a; TOp "["%char; sub_tok s; TOp "]"%char].
Definition fac_ex (a : list ascii) (s : sub) : ex := EIdx a (sub_ex s).

(* what may follow a complete factor / product / sum without being absorbed *)
Definition stops_primary (rest : list tok) : Prop := True.
Definition stops_term (rest : list tok) : Prop :=
  match rest with TOp "*"%char :: _ | TOp "/"%char :: _ => False | _ => True end.
Definition stops_expr (rest : list tok) : Prop :=
  stops_term rest /\ match rest with TOp "+"%char :: _ | TOp "-"%char :: _ => False | _ => True end.

Lemma pprimary_fac a s rest n : 8 <= n ->
  pprimary n (fac_toks a s ++ rest) = Some (fac_ex a s, rest).
Proof.
  intro H. do 8 (destruct n as [|n]; [lia|]).
  destruct s; cbn; reflexivity.
Qed.

Lemma pterm_rest_stop n l rest : stops_term rest -> pterm_rest (S n) l rest = Some (l, rest).
Proof.
  intro H. destruct rest as [|t r]; [reflexivity|]. destruct t; try reflexivity.
  destruct c as [[] [] [] [] [] [] [] []]; try reflexivity; simpl in H; contradiction.
Qed.

Lemma pexpr_rest_stop n l rest : stops_expr rest -> pexpr_rest (S n) l rest = Some (l, rest).
Proof.
  intros [_ H]. destruct rest as [|t r]; [reflexivity|]. destruct t; try reflexivity.
  destruct c as [[] [] [] [] [] [] [] []]; try reflexivity; simpl in H; contradiction.
Qed.

Definition factor := (list ascii * sub)%type.
Definition ftoks (f : factor) := fac_toks (fst f) (snd f).
Definition fex (f : factor) := fac_ex (fst f) (snd f).
Definition more_toks (fs : list factor) : list tok := flat_map (fun f => TOp "*"%char :: ftoks f) fs.
Definition prod_toks (c : factor) (fs : list factor) : list tok := (ftoks c ++ more_toks fs)%list.
Definition prod_ex (c : factor) (fs : list factor) : ex := fold_left (fun acc f => EBin "*"%char acc (fex f)) fs (fex c).

Lemma punary_fac f rest n : 9 <= n -> punary n (ftoks f ++ rest) = Some (fex f, rest).
Proof.
  intro H. destruct n as [|n]; [lia|]. destruct f as [a s]. unfold ftoks, fex; cbn [fst snd].
  change (punary (S n) (fac_toks a s ++ rest)) with (pprimary n (fac_toks a s ++ rest)).
  apply pprimary_fac. lia.
Qed.

Lemma pterm_rest_more : forall fs l rest n, stops_term rest -> List.length fs + 10 <= n ->
  pterm_rest n l (more_toks fs ++ rest) = Some (fold_left (fun acc f => EBin "*"%char acc (fex f)) fs l, rest).
Proof.
  induction fs as [|f fs IH]; intros l rest n Hs Hn.
  - destruct n as [|n]; [simpl in Hn; lia|]. apply pterm_rest_stop. exact Hs.
  - destruct n as [|n]; [simpl in Hn; lia|].
    cbn [more_toks flat_map]. fold (more_toks fs). rewrite <- !app_assoc. cbn [app].
    change (pterm_rest (S n) l (TOp "*"%char :: (ftoks f ++ more_toks fs ++ rest)%list))
      with (match punary n (ftoks f ++ more_toks fs ++ rest) with
            | Some (e, r') => pterm_rest n (EBin "*"%char l e) r' | None => None end).
    rewrite punary_fac by (simpl in Hn; lia).
    rewrite IH; auto. simpl in Hn. lia.
Qed.

Lemma pterm_prod c fs rest n : stops_term rest -> List.length fs + 12 <= n ->
  pterm n (prod_toks c fs ++ rest) = Some (prod_ex c fs, rest).
Proof.
  intros Hs Hn. destruct n as [|n]; [lia|]. unfold prod_toks. rewrite <- app_assoc.
  change (pterm (S n) (ftoks c ++ more_toks fs ++ rest))
    with (match punary n (ftoks c ++ more_toks fs ++ rest) with Some (l, r) => pterm_rest n l r | None => None end).
  rewrite punary_fac by lia. apply pterm_rest_more; auto. lia.
Qed.

(** ** signed terms and the sum *)
Record sterm := { s_neg : bool; s_coef : factor; s_vars : list factor }.
Definition sign_tok (b : bool) : tok := TOp (if b then "-"%char else "+"%char).
Definition sterm_toks (t : sterm) : list tok := sign_tok (s_neg t) :: prod_toks (s_coef t) (s_vars t).
Definition sum_toks (lit : list ascii) (ts : list sterm) : list tok := TNum lit :: flat_map sterm_toks ts.
Definition add_ex (acc : ex) (t : sterm) : ex :=
  EBin (if s_neg t then "-"%char else "+"%char) acc (prod_ex (s_coef t) (s_vars t)).
Definition sum_ex (lit : list ascii) (ts : list sterm) : ex := fold_left add_ex ts (ELit lit).

Definition need (ts : list sterm) : nat := fold_right (fun t m => Nat.max (List.length (s_vars t)) m) 0 ts.

Lemma stops_term_sterms ts rest : stops_term rest -> stops_term (flat_map sterm_toks ts ++ rest).
Proof. destruct ts as [|t ts]; simpl; auto. destruct (s_neg t); simpl; exact (fun _ => I). Qed.

Lemma pexpr_rest_terms : forall ts l rest n, stops_expr rest -> List.length ts + need ts + 14 <= n ->
  pexpr_rest n l (flat_map sterm_toks ts ++ rest) = Some (fold_left add_ex ts l, rest).
Proof.
  induction ts as [|t ts IH]; intros l rest n Hs Hn.
  - destruct n as [|n]; [simpl in Hn; lia|]. apply pexpr_rest_stop. exact Hs.
  - destruct n as [|n]; [simpl in Hn; lia|].
    cbn [flat_map]. unfold sterm_toks at 1. rewrite <- !app_assoc. cbn [app].
    assert (Hp : pterm n (prod_toks (s_coef t) (s_vars t) ++ flat_map sterm_toks ts ++ rest) =
                 Some (prod_ex (s_coef t) (s_vars t), (flat_map sterm_toks ts ++ rest)%list)).
    { apply pterm_prod. apply stops_term_sterms. destruct Hs; auto. simpl in Hn. lia. }
    unfold sign_tok. destruct (s_neg t) eqn:En.
    + change (pexpr_rest (S n) l (TOp "-"%char :: (prod_toks (s_coef t) (s_vars t) ++ flat_map sterm_toks ts ++ rest)%list))
        with (match pterm n (prod_toks (s_coef t) (s_vars t) ++ flat_map sterm_toks ts ++ rest) with
              | Some (e, r') => pexpr_rest n (EBin "-"%char l e) r' | None => None end).
      rewrite Hp. rewrite IH; auto. 2:{ simpl in Hn. lia. }
      cbn [fold_left]. assert (add_ex l t = EBin "-"%char l (prod_ex (s_coef t) (s_vars t))) as -> by (unfold add_ex; rewrite En; reflexivity).
      reflexivity.
    + change (pexpr_rest (S n) l (TOp "+"%char :: (prod_toks (s_coef t) (s_vars t) ++ flat_map sterm_toks ts ++ rest)%list))
        with (match pterm n (prod_toks (s_coef t) (s_vars t) ++ flat_map sterm_toks ts ++ rest) with
              | Some (e, r') => pexpr_rest n (EBin "+"%char l e) r' | None => None end).
      rewrite Hp. rewrite IH; auto. 2:{ simpl in Hn. lia. }
      cbn [fold_left]. assert (add_ex l t = EBin "+"%char l (prod_ex (s_coef t) (s_vars t))) as -> by (unfold add_ex; rewrite En; reflexivity).
      reflexivity.
Qed.

Lemma pexpr_sum lit ts n : List.length ts + need ts + 18 <= n ->
  pexpr n (sum_toks lit ts) = Some (sum_ex lit ts, []).
Proof.
  intro Hn. do 5 (destruct n as [|n]; [lia|]).
  unfold sum_toks.
  assert (Hs : stops_term (flat_map sterm_toks ts ++ [])) by (apply stops_term_sterms; exact I).
  rewrite <- (app_nil_r (flat_map sterm_toks ts)).
  change (pexpr (S (S (S (S (S n))))) (TNum lit :: (flat_map sterm_toks ts ++ [])%list))
    with (match pterm_rest (S (S (S n))) (ELit lit) (flat_map sterm_toks ts ++ []) with
          | Some (l, r) => pexpr_rest (S (S (S (S n)))) l r | None => None end).
  rewrite pterm_rest_stop by exact Hs.
  apply pexpr_rest_terms. split; exact I. lia.
Qed.

Theorem parse_toks_sum lit ts : parse_toks (sum_toks lit ts) = Some (sum_ex lit ts).
Proof.
  unfold parse_toks.
  set (N := 10 * List.length (sum_toks lit ts) + 10).
  assert (HN : List.length ts + need ts + 20 <= N).
  { unfold N, sum_toks. cbn [List.length].
    assert (G : forall l, List.length l + need l <= List.length (flat_map sterm_toks l)).
    { induction l as [|t l IH]; simpl; auto.
      rewrite app_length.
      assert (List.length (s_vars t) <= List.length (more_toks (s_vars t))).
      { clear. unfold more_toks. induction (s_vars t) as [|f fs IHf]; simpl; auto. lia. }
      lia. }
    specialize (G ts). lia. }
  destruct N as [|[|N']]; try lia.
  change (pcond (S (S N')) (sum_toks lit ts))
    with (match prel (S N') (sum_toks lit ts) with
          | Some (c, TOp "?"%char :: r) =>
              match pcond (S N') r with
              | Some (a, TOp ":"%char :: r') => match pcond (S N') r' with Some (b, r'') => Some (ECond c a b, r'') | None => None end
              | _ => None end
          | other => other end).
  change (prel (S N') (sum_toks lit ts))
    with (match pexpr N' (sum_toks lit ts) with
          | Some (a, TOp ">"%char :: r) => match pexpr N' r with Some (b, r') => Some (ERel false a b, r') | None => None end
          | Some (a, TGe :: r) => match pexpr N' r with Some (b, r') => Some (ERel true a b, r') | None => None end
          | other => other end).
  rewrite pexpr_sum by lia. reflexivity.
Qed.

(** ** the text and its tokens *)

Lemma lex_fac a s r acc :
  lex_go 0 [] (fac_txt a s ++ r)%list acc = lex_go 0 [] r (TOp "]"%char :: sub_tok s :: TOp "["%char :: TId (arr_name a) :: acc).
Proof. destruct a, s; destruct r as [|[d| |] r']; reflexivity. Qed.

(* "*" directly followed by a factor *)
Lemma lex_star_fac a s r acc :
  lex_go 0 [] (C "*"%char :: fac_txt a s ++ r)%list acc =
  lex_go 0 [] r (TOp "]"%char :: sub_tok s :: TOp "["%char :: TId (arr_name a) :: TOp "*"%char :: acc).
Proof. destruct a, s; destruct r as [|[d| |] r']; reflexivity. Qed.

(* " * " followed by a factor (thermal terms) *)
Lemma lex_spstar_fac a s r acc :
  lex_go 0 [] (C " "%char :: C "*"%char :: C " "%char :: fac_txt a s ++ r)%list acc =
  lex_go 0 [] r (TOp "]"%char :: sub_tok s :: TOp "["%char :: TId (arr_name a) :: TOp "*"%char :: acc).
Proof. destruct a, s; destruct r as [|[d| |] r']; reflexivity. Qed.

(* " - " / " + " followed by a factor *)
Lemma lex_sign_fac (neg : bool) a s r acc :
  lex_go 0 [] (C " "%char :: C (if neg then "-"%char else "+"%char) :: C " "%char :: fac_txt a s ++ r)%list acc =
  lex_go 0 [] r (TOp "]"%char :: sub_tok s :: TOp "["%char :: TId (arr_name a) :: sign_tok neg :: acc).
Proof. destruct neg, a, s; destruct r as [|[d| |] r']; reflexivity. Qed.

Definition yfac (v : nat) : factor := (arr_name AY, SName v).
Definition to_sterm (t : tterm) : sterm :=
  {| s_neg := tt_neg t; s_coef := (arr_name (tt_arr t), SMag (tt_idx t)); s_vars := map yfac (tt_vars t) |}.

Lemma lex_more : forall vs r acc,
  lex_go 0 [] (more_txt vs ++ r)%list acc = lex_go 0 [] r (rev (more_toks (map yfac vs)) ++ acc)%list.
Proof.
  induction vs as [|v vs IH]; intros r acc. reflexivity.
  cbn [more_txt flat_map]. fold (more_txt vs). rewrite <- ?app_assoc. cbn [app]. rewrite <- ?app_assoc.
  rewrite lex_star_fac. rewrite IH.
  f_equal. cbn [map more_toks flat_map]. fold (more_toks (map yfac vs)).
  change (TOp "*"%char :: ftoks (yfac v) ++ more_toks (map yfac vs))%list
    with ((TOp "*"%char :: ftoks (yfac v)) ++ more_toks (map yfac vs))%list.
  rewrite rev_app_distr, <- app_assoc. reflexivity.
Qed.

Lemma lex_vars spaced vs r acc :
  lex_go 0 [] (vars_txt spaced vs ++ r)%list acc = lex_go 0 [] r (rev (more_toks (map yfac vs)) ++ acc)%list.
Proof.
  destruct vs as [|v vs]. reflexivity.
  unfold vars_txt. destruct spaced; rewrite <- ?app_assoc; cbn [app]; rewrite <- ?app_assoc.
  - rewrite lex_spstar_fac, lex_more. f_equal. cbn [map more_toks flat_map]. fold (more_toks (map yfac vs)).
    change (TOp "*"%char :: ftoks (yfac v) ++ more_toks (map yfac vs))%list
      with ((TOp "*"%char :: ftoks (yfac v)) ++ more_toks (map yfac vs))%list.
    rewrite rev_app_distr, <- app_assoc. reflexivity.
  - rewrite lex_star_fac, lex_more. f_equal. cbn [map more_toks flat_map]. fold (more_toks (map yfac vs)).
    change (TOp "*"%char :: ftoks (yfac v) ++ more_toks (map yfac vs))%list
      with ((TOp "*"%char :: ftoks (yfac v)) ++ more_toks (map yfac vs))%list.
    rewrite rev_app_distr, <- app_assoc. reflexivity.
Qed.

Lemma lex_term t r acc :
  lex_go 0 [] (term_txt t ++ r)%list acc = lex_go 0 [] r (rev (sterm_toks (to_sterm t)) ++ acc)%list.
Proof.
  unfold term_txt. rewrite <- ?app_assoc. cbn [app]. rewrite <- ?app_assoc.
  rewrite lex_sign_fac, lex_vars. f_equal.
  unfold sterm_toks, to_sterm, prod_toks; cbn [s_neg s_coef s_vars].
  change (sign_tok (tt_neg t) :: ftoks (arr_name (tt_arr t), SMag (tt_idx t)) ++ more_toks (map yfac (tt_vars t)))%list
    with ((sign_tok (tt_neg t) :: ftoks (arr_name (tt_arr t), SMag (tt_idx t))) ++ more_toks (map yfac (tt_vars t)))%list.
  rewrite rev_app_distr, <- app_assoc. reflexivity.
Qed.

Lemma lex_terms : forall ts r acc,
  lex_go 0 [] (flat_map term_txt ts ++ r)%list acc =
  lex_go 0 [] r (rev (flat_map sterm_toks (map to_sterm ts)) ++ acc)%list.
Proof.
  induction ts as [|t ts IH]; intros r acc. reflexivity.
  cbn [flat_map map]. rewrite <- app_assoc, lex_term, IH. f_equal.
  rewrite rev_app_distr, <- app_assoc. reflexivity.
Qed.

Theorem lex_rhs ts : lex (rhs_txt ts) = sum_toks zero_lit (map to_sterm ts).
Proof.
  unfold lex, rhs_txt, sum_toks.
  destruct ts as [|t ts].
  - reflexivity.
  - (* the literal is closed by the blank that starts the first term *)
    assert (H0 : forall r acc, lex_go 0 [] (map C zero_lit ++ C " "%char :: r)%list acc = lex_go 0 [] (C " "%char :: r) (TNum zero_lit :: acc)).
    { intros r acc. reflexivity. }
    cbn [flat_map]. unfold term_txt at 1. cbn [app]. rewrite H0.
    change (C " "%char :: C (if tt_neg t then "-"%char else "+"%char) :: C " "%char ::
              (fac_txt (tt_arr t) (SMag (tt_idx t)) ++ vars_txt (tt_spaced t) (tt_vars t)) ++ flat_map term_txt ts)%list
      with (term_txt t ++ flat_map term_txt ts)%list.
    rewrite <- (app_nil_r (flat_map term_txt ts)), lex_term, lex_terms.
    cbn [lex_go flush]. rewrite !rev_app_distr, !rev_involutive. cbn [rev app map flat_map].
    rewrite <- ?app_assoc. reflexivity.
Qed.

Theorem parse_rhs ts : parse (rhs_txt ts) = Some (sum_ex zero_lit (map to_sterm ts)).
Proof. unfold parse. rewrite lex_rhs. apply parse_toks_sum. Qed.

(** ** what the parsed text denotes (any commutative ring) *)

Section Den.
Variable R : Type.
Variables (rO rI : R) (radd rmul rsub : R -> R -> R) (ropp : R -> R).
Hypothesis Rth : ring_theory rO rI radd rmul rsub ropp (@eq R).
Add Ring Rr2 : Rth.
Variable E : env R.

Definition arr_val (a : list ascii) (i : nat) : R :=
  if list_eqb Ascii.eqb a (arr_name AK) then e_k R E i
  else if list_eqb Ascii.eqb a (arr_name AKH) then e_kh R E i
  else if list_eqb Ascii.eqb a (arr_name AKC) then e_kc R E i
  else if list_eqb Ascii.eqb a (arr_name AY) then e_y R E i
  else rO.

(* the C reading of the fragment: a[i] is the i-th element of array a, the literal 0.0 is 0 *)
Fixpoint den (e : ex) : R :=
  match e with
  | EIdx a (EMag i) => arr_val a i
  | EIdx a (EName i) => arr_val a i
  | EBin op x y =>
      match op with
      | "+"%char => radd (den x) (den y)
      | "-"%char => rsub (den x) (den y)
      | "*"%char => rmul (den x) (den y)
      | _ => rO
      end
  | _ => rO
  end.


Lemma den_prod a i vs :
  den (prod_ex (arr_name a, SMag i) (map yfac vs)) = rmul (arr_val (arr_name a) i) (prod_y R rI rmul E vs).
Proof.
  unfold prod_ex.
  assert (G : forall vs acc, den (fold_left (fun acc f => EBin "*"%char acc (fex f)) (map yfac vs) acc)
                             = rmul (den acc) (prod_y R rI rmul E vs)).
  { induction vs0 as [|v vs0 IH]; intro acc; simpl. ring.
    rewrite IH. cbn [den fex yfac fst snd fac_ex sub_ex]. 
    assert (arr_val (arr_name AY) v = e_y R E v) as -> by reflexivity. ring. }
  rewrite G. reflexivity.
Qed.

Lemma coef_arr c a i : arr_of c = Some (a, i) -> arr_val (arr_name a) i = coef_val R E c.
Proof. destruct c; simpl; intro H; inversion H; subst; reflexivity. Qed.

Theorem den_sum : forall e ts, tterms_of e = Some ts ->
  den (sum_ex zero_lit (map to_sterm ts)) = ev_eqn R rO rI radd rmul ropp E e.
Proof.
  assert (G : forall e ts acc, tterms_of e = Some ts ->
            den (fold_left add_ex (map to_sterm ts) acc) = radd (den acc) (ev_eqn R rO rI radd rmul ropp E e)).
  { induction e as [|t e IH]; intros ts acc H; simpl in H.
    - injection H as <-. simpl. ring.
    - destruct (tterm_of t) as [x|] eqn:Ex; [|discriminate].
      destruct (tterms_of e) as [xs|] eqn:Exs; [|discriminate]. injection H as <-.
      cbn [map fold_left]. rewrite (IH xs _ eq_refl).
      unfold tterm_of in Ex. destruct (arr_of (t_coef t)) as [[a i]|] eqn:Ea; [|discriminate]. injection Ex as <-.
      unfold add_ex, to_sterm; cbn [s_neg s_coef s_vars tt_neg tt_arr tt_idx tt_vars].
      cbn [ev_eqn]. unfold ev_term, signed.
      destruct (t_neg t); cbn [den]; rewrite den_prod, (coef_arr _ _ _ Ea); ring. }
  intros e ts H. unfold sum_ex. rewrite (G e ts _ H). simpl. ring.
Qed.
End Den.

(** ** composed with the index-level theorem: the text of a species row, read as C, is the mass-action law *)
From Naunet Require Import Proofs.OdeRefine.
Section TextLaw.
Variable R : Type.
Variables (rO rI : R) (radd rmul rsub : R -> R -> R) (ropp : R -> R).
Hypothesis Rth : ring_theory rO rI radd rmul rsub ropp (@eq R).

Theorem rhs_text_lemma (E : env R) (i : ode_input) (s : nat) (ts : list tterm) :
  wf_input i -> s < i_nspec i -> tterms_of (rhs_row i s) = Some ts ->
  exists e, parse (rhs_txt ts) = Some e /\
            den R rO radd rmul rsub E e =
            radd (ma_sum R rO rI radd rmul rsub E s 0 (i_rxns i)) (mod_sum R rO rI radd rmul ropp E s (i_mods i)).
Proof.
  intros Hwf Hs Hts. exists (sum_ex zero_lit (map to_sterm ts)). split.
  - apply parse_rhs.
  - rewrite (den_sum R rO rI radd rmul rsub ropp Rth E _ _ Hts).
    apply (rhs_species_row R rO rI radd rmul rsub ropp Rth); assumption.
Qed.
End TextLaw.

(* rows without an ODE-modifier term can always be written *)
Lemma tterms_of_total e : Forall (fun t => match t_coef t with CF _ => False | _ => True end) e ->
  exists ts, tterms_of e = Some ts.
Proof.
  induction 1 as [|t e Ht He IH]. exists []; reflexivity.
  destruct IH as (ts & Hts). simpl. rewrite Hts. unfold tterm_of.
  destruct (t_coef t); simpl in *; try contradiction; eexists; reflexivity.
Qed.

(** ** the same for a Jacobian entry: its text, read as C, is the formal derivative of the row *)
Section JacText.
Variable R : Type.
Variables (rO rI : R) (radd rmul rsub : R -> R -> R) (ropp : R -> R).
Hypothesis Rth : ring_theory rO rI radd rmul rsub ropp (@eq R).

Theorem jac_text_lemma (E : env R) (i : ode_input) (row col : nat) (ts : list tterm) :
  wf_input i -> row < n_eqns i -> col < n_eqns i -> tterms_of (jac_entry i row col) = Some ts ->
  exists e, parse (rhs_txt ts) = Some e /\
            den R rO radd rmul rsub E e = deqn R rO rI radd rmul ropp E col (rhs_row i row).
Proof.
  intros Hwf Hr Hc Hts. exists (sum_ex zero_lit (map to_sterm ts)). split.
  - apply parse_rhs.
  - rewrite (den_sum R rO rI radd rmul rsub ropp Rth E _ _ Hts).
    apply (jac_is_formal_derivative R rO rI radd rmul rsub ropp Rth); assumption.
Qed.
End JacText.

(** ** the temperature row:  (gamma - 1.0) * ( SUM ) / kerg / npar *)
Definition gamma_id : list ascii := chars "gamma".
Definition kerg_id : list ascii := chars "kerg".
Definition npar_id : list ascii := chars "npar".
Definition one_lit : list ascii := chars "1.0".
Definition wrap_pre : list tok :=
  [TOp "("%char; TId gamma_id; TOp "-"%char; TNum one_lit; TOp ")"%char; TOp "*"%char; TOp "("%char].
Definition wrap_post : list tok := [TOp ")"%char; TOp "/"%char; TId kerg_id; TOp "/"%char; TId npar_id].
Definition wrap_ex (e : ex) : ex :=
  EBin "/"%char (EBin "/"%char (EBin "*"%char (EBin "-"%char (EVar gamma_id) (ELit one_lit)) e) (EVar kerg_id)) (EVar npar_id).

(* the sum followed by anything that does not continue it *)
Lemma pexpr_sum_rest lit ts rest n : stops_expr rest -> List.length ts + need ts + 18 <= n ->
  pexpr n (sum_toks lit ts ++ rest) = Some (sum_ex lit ts, rest).
Proof.
  intros Hst Hn. do 5 (destruct n as [|n]; [lia|]).
  unfold sum_toks. cbn [app].
  assert (Hs : stops_term (flat_map sterm_toks ts ++ rest)) by (apply stops_term_sterms; destruct Hst; auto).
  change (pexpr (S (S (S (S (S n))))) (TNum lit :: (flat_map sterm_toks ts ++ rest)%list))
    with (match pterm_rest (S (S (S n))) (ELit lit) (flat_map sterm_toks ts ++ rest) with
          | Some (l, r) => pexpr_rest (S (S (S (S n)))) l r | None => None end).
  rewrite pterm_rest_stop by exact Hs.
  apply pexpr_rest_terms; auto. lia.
Qed.

(* one-step unfoldings *)
Lemma pcond_S n ts : pcond (S n) ts =
  match prel n ts with
  | Some (c, TOp "?"%char :: r) =>
      match pcond n r with
      | Some (a, TOp ":"%char :: r') => match pcond n r' with Some (b, r'') => Some (ECond c a b, r'') | None => None end
      | _ => None end
  | other => other end.
Proof. reflexivity. Qed.
Lemma prel_S n ts : prel (S n) ts =
  match pexpr n ts with
  | Some (a, TOp ">"%char :: r) => match pexpr n r with Some (b, r') => Some (ERel false a b, r') | None => None end
  | Some (a, TGe :: r) => match pexpr n r with Some (b, r') => Some (ERel true a b, r') | None => None end
  | other => other end.
Proof. reflexivity. Qed.
Lemma pexpr_S n ts : pexpr (S n) ts = match pterm n ts with Some (l, r) => pexpr_rest n l r | None => None end.
Proof. reflexivity. Qed.
Lemma pterm_S n ts : pterm (S n) ts = match punary n ts with Some (l, r) => pterm_rest n l r | None => None end.
Proof. reflexivity. Qed.
Lemma punary_paren n ts : punary (S n) (TOp "("%char :: ts) = pprimary n (TOp "("%char :: ts).
Proof. reflexivity. Qed.
Lemma pprimary_paren n ts : pprimary (S n) (TOp "("%char :: ts) =
  match pcond n ts with Some (e, TOp ")"%char :: r') => Some (e, r') | _ => None end.
Proof. reflexivity. Qed.
Lemma pterm_rest_star n l ts : pterm_rest (S n) l (TOp "*"%char :: ts) =
  match punary n ts with Some (e, r') => pterm_rest n (EBin "*"%char l e) r' | None => None end.
Proof. reflexivity. Qed.
Lemma pterm_rest_slash n l ts : pterm_rest (S n) l (TOp "/"%char :: ts) =
  match punary n ts with Some (e, r') => pterm_rest n (EBin "/"%char l e) r' | None => None end.
Proof. reflexivity. Qed.

(* "gamma - 1.0" up to the closing parenthesis *)
Lemma pcond_gamma rest n : 12 <= n ->
  pcond n (TId gamma_id :: TOp "-"%char :: TNum one_lit :: TOp ")"%char :: rest) =
  Some (EBin "-"%char (EVar gamma_id) (ELit one_lit), TOp ")"%char :: rest).
Proof. intro H. do 12 (destruct n as [|n]; [lia|]). reflexivity. Qed.

(* an identifier followed by "/" or by the end *)
Lemma punary_var_slash v rest n : 3 <= n -> punary n (TId v :: TOp "/"%char :: rest) = Some (EVar v, TOp "/"%char :: rest).
Proof. intro H. do 3 (destruct n as [|n]; [lia|]). reflexivity. Qed.
Lemma punary_var_end v n : 3 <= n -> punary n [TId v] = Some (EVar v, []).
Proof. intro H. do 3 (destruct n as [|n]; [lia|]). reflexivity. Qed.

Theorem parse_toks_wrapped lit ts :
  parse_toks (wrap_pre ++ sum_toks lit ts ++ wrap_post) = Some (wrap_ex (sum_ex lit ts)).
Proof.
  unfold parse_toks.
  set (N := 10 * List.length (wrap_pre ++ sum_toks lit ts ++ wrap_post)%list + 10).
  assert (HN : List.length ts + need ts + 60 <= N).
  { unfold N. rewrite !app_length. unfold sum_toks. cbn [List.length wrap_pre wrap_post].
    assert (G : forall l, List.length l + need l <= List.length (flat_map sterm_toks l)).
    { induction l as [|t l IH]; simpl; auto. rewrite app_length.
      assert (List.length (s_vars t) <= List.length (more_toks (s_vars t))).
      { clear. unfold more_toks. induction (s_vars t) as [|f fs IHf]; simpl; auto. lia. }
      lia. }
    specialize (G ts). lia. }
  clearbody N.
  do 14 (destruct N as [|N]; [lia|]).
  unfold wrap_pre. cbn [app].
  (* down to the first parenthesis *)
  rewrite pcond_S, prel_S, pexpr_S, pterm_S, punary_paren, pprimary_paren.
  rewrite pcond_gamma by lia.
  (* "* (" and the inner sum *)
  rewrite pterm_rest_star, punary_paren, pprimary_paren.
  rewrite pcond_S, prel_S.
  rewrite pexpr_sum_rest; [| split; exact I | lia].
  unfold wrap_post.
  (* "/ kerg / npar" *)
  rewrite pterm_rest_slash, punary_var_slash by lia.
  rewrite pterm_rest_slash, punary_var_end by lia.
  reflexivity.
Qed.


Lemma lex_wrap_pre r acc : lex_go 0 [] (wrap_pre_txt ++ r)%list acc = lex_go 0 [] r (rev wrap_pre ++ acc)%list.
Proof. reflexivity. Qed.
Lemma lex_wrap_post acc : lex_go 0 [] wrap_post_txt acc = rev (rev wrap_post ++ acc)%list.
Proof. reflexivity. Qed.

Theorem lex_wrapped ts : lex (wrapped_txt ts) = (wrap_pre ++ sum_toks zero_lit (map to_sterm ts) ++ wrap_post)%list.
Proof.
  unfold lex, wrapped_txt. rewrite lex_wrap_pre. unfold rhs_txt. rewrite <- app_assoc.
  assert (H0 : forall r acc, lex_go 0 [] (map C zero_lit ++ C " "%char :: r)%list acc = lex_go 0 [] (C " "%char :: r) (TNum zero_lit :: acc)).
  { intros r acc. reflexivity. }
  destruct ts as [|t ts].
  - cbn [flat_map app]. change wrap_post_txt with (C " "%char :: tx ") / kerg / npar").
    rewrite H0. change (C " "%char :: tx ") / kerg / npar") with wrap_post_txt.
    rewrite lex_wrap_post. rewrite rev_app_distr, rev_involutive. reflexivity.
  - cbn [flat_map]. unfold term_txt at 1. rewrite <- !app_assoc. cbn [app]. rewrite H0.
    replace (C " "%char :: C (if tt_neg t then "-"%char else "+"%char) :: C " "%char ::
              (fac_txt (tt_arr t) (SMag (tt_idx t)) ++ vars_txt (tt_spaced t) (tt_vars t) ++ flat_map term_txt ts ++ wrap_post_txt))%list
      with (term_txt t ++ flat_map term_txt ts ++ wrap_post_txt)%list
      by (unfold term_txt; rewrite <- !app_assoc; reflexivity).
    rewrite lex_term, lex_terms, lex_wrap_post.
    rewrite !rev_app_distr, !rev_involutive. cbn [rev app map flat_map sum_toks].
    rewrite <- ?app_assoc. reflexivity.
Qed.

Theorem parse_wrapped ts : parse (wrapped_txt ts) = Some (wrap_ex (sum_ex zero_lit (map to_sterm ts))).
Proof. unfold parse. rewrite lex_wrapped. apply parse_toks_wrapped. Qed.

(** composed with the index-level theorem of the temperature row *)
Section ThermalText.
Variable R : Type.
Variables (rO rI : R) (radd rmul rsub : R -> R -> R) (ropp : R -> R).
Hypothesis Rth : ring_theory rO rI radd rmul rsub ropp (@eq R).

Theorem thermal_text_lemma (E : env R) (i : ode_input) (ts : list tterm) :
  wf_input i -> has_thermal i = true -> tterms_of (rhs_row i (i_nspec i)) = Some ts ->
  exists inner, parse (wrapped_txt ts) = Some (wrap_ex inner) /\
    den R rO radd rmul rsub E inner =
    rsub (therm_sum R rO rI radd rmul E (e_kh R E) 0 (i_heat i)) (therm_sum R rO rI radd rmul E (e_kc R E) 0 (i_cool i)).
Proof.
  intros Hwf Hth Hts. exists (sum_ex zero_lit (map to_sterm ts)). split.
  - apply parse_wrapped.
  - rewrite (den_sum R rO rI radd rmul rsub ropp Rth E _ _ Hts).
    destruct (rhs_thermal_row_full R rO rI radd rmul rsub ropp Rth E i Hwf Hth) as [H _]. exact H.
Qed.
End ThermalText.

(** an entry of the temperature row of the Jacobian: wrapped like the row itself when it is not "0.0" *)
Section JacThermalText.
Variable R : Type.
Variables (rO rI : R) (radd rmul rsub : R -> R -> R) (ropp : R -> R).
Hypothesis Rth : ring_theory rO rI radd rmul rsub ropp (@eq R).

Lemma to_sterm_unspaced ts : map to_sterm (unspaced ts) = map to_sterm ts.
Proof. unfold unspaced. rewrite map_map. apply map_ext. intros t. reflexivity. Qed.

Theorem jac_thermal_text_lemma (E : env R) (i : ode_input) (col : nat) (ts : list tterm) :
  wf_input i -> has_thermal i = true -> col < n_eqns i -> tterms_of (jac_entry i (i_nspec i) col) = Some ts ->
  exists inner, parse (wrapped_txt (unspaced ts)) = Some (wrap_ex inner) /\
    den R rO radd rmul rsub E inner = deqn R rO rI radd rmul ropp E col (rhs_row i (i_nspec i)).
Proof.
  intros Hwf Hth Hc Hts. exists (sum_ex zero_lit (map to_sterm ts)). split.
  - rewrite parse_wrapped, to_sterm_unspaced. reflexivity.
  - rewrite (den_sum R rO rI radd rmul rsub ropp Rth E _ _ Hts).
    apply (jac_is_formal_derivative R rO rI radd rmul rsub ropp Rth); auto.
    unfold n_eqns. rewrite Hth. lia.
Qed.
End JacThermalText.
