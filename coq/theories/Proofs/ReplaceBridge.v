(** C05 / C11: Python's str.replace on the printed rate text equals the model's replace on atom
    strings.  A magnitude (repr of a float: digits, '.', 'e', an exponent sign) or an identifier is
    an opaque atom for the two-character sign patterns of Reaction._beautify as soon as it starts
    and ends with a non-sign character and holds no two adjacent signs. *)
From Coq Require Import List Arith Bool String Ascii Lia.
From Naunet Require Import Lib.ListX Lib.PyStr Model.CExpr Proofs.SpeciesProofs Proofs.IndexProofs.
Import ListNotations.

Definition sgn (c : ascii) : bool := Ascii.eqb c "+"%char || Ascii.eqb c "-"%char.

(* no two adjacent sign characters, last character no sign *)
Fixpoint tail_ok (t : list ascii) : bool :=
  match t with
  | [] => false
  | [x] => negb (sgn x)
  | x :: ((y :: _) as r) => negb (sgn x && sgn y) && tail_ok r
  end.
Definition atom_ok (t : list ascii) : bool :=
  match t with x :: _ => negb (sgn x) | [] => false end && tail_ok t.

Section Rep.
Variables p1 p2 new : ascii.
Hypothesis Hp1 : sgn p1 = true.
Hypothesis Hp2 : sgn p2 = true.

(* str.replace(p1 p2, new) as a structural scan *)
Fixpoint rep (s : list ascii) : list ascii :=
  match s with
  | [] => []
  | a :: tl =>
      match tl with
      | b :: r => if Ascii.eqb a p1 && Ascii.eqb b p2 then new :: rep r else a :: rep tl
      | [] => [a]
      end
  end.

Lemma replace_from_rep : forall fuel s, List.length s <= fuel -> replace_from fuel [p1; p2] [new] s = rep s.
Proof.
  induction fuel as [|f IH]; intros s H.
  - destruct s; [reflexivity | simpl in H; lia].
  - destruct s as [|a [|b r]]; try reflexivity.
    + simpl. rewrite andb_false_r. destruct f; reflexivity.
    + cbn [replace_from starts_with List.length skipn rep app].
      rewrite andb_true_r. rewrite (Ascii.eqb_sym p1 a), (Ascii.eqb_sym p2 b).
      destruct (Ascii.eqb a p1 && Ascii.eqb b p2) eqn:E.
      * f_equal. apply IH. simpl in H. lia.
      * f_equal. apply IH. simpl in H |- *. lia.
Qed.

Lemma replace_l_rep s : replace_l [p1; p2] [new] s = rep s.
Proof. unfold replace_l. apply replace_from_rep. lia. Qed.

Lemma eqb_sign_false a p : sgn p = true -> sgn a = false -> Ascii.eqb a p = false.
Proof.
  intros Hp Ha. destruct (Ascii.eqb_spec a p) as [->|]; auto. congruence.
Qed.

(* an atom is copied unchanged and the scan resumes after it *)
Lemma rep_tail t : forall rest, tail_ok t = true -> rep (t ++ rest) = (t ++ rep rest)%list.
Proof.
  induction t as [|x t IH]; intros rest H. discriminate.
  destruct t as [|y t'].
  - simpl in H. apply negb_true_iff in H. cbn [app rep].
    destruct rest as [|b r]. reflexivity.
    rewrite (eqb_sign_false x p1 Hp1 H). reflexivity.
  - cbn [tail_ok] in H. apply andb_true_iff in H. destruct H as [Hxy Ht].
    change ((x :: y :: t') ++ rest)%list with (x :: (y :: t') ++ rest)%list.
    cbn [rep]. change ((y :: t') ++ rest)%list with (y :: t' ++ rest)%list. cbv iota.
    assert (Ascii.eqb x p1 && Ascii.eqb y p2 = false) as ->.
    { apply negb_true_iff in Hxy. apply andb_false_iff in Hxy. destruct Hxy as [Hx|Hy].
      - rewrite (eqb_sign_false x p1 Hp1 Hx). reflexivity.
      - rewrite (eqb_sign_false y p2 Hp2 Hy). apply andb_false_r. }
    change (y :: t' ++ rest)%list with ((y :: t') ++ rest)%list. rewrite IH by exact Ht. reflexivity.
Qed.

Variables mag name : nat -> list ascii.
Definition atoms_ok (s : txt) : Prop :=
  Forall (fun x => match x with C _ => True | M i => atom_ok (mag i) = true | N i => atom_ok (name i) = true end) s.

Definition fl (s : txt) : list ascii := flatten_with mag name s.

Lemma fl_cons x s : fl (x :: s) = ((match x with C c => [c] | M i => mag i | N i => name i end) ++ fl s)%list.
Proof. reflexivity. Qed.

Lemma atom_head t rest a : atom_ok t = true -> rep (a :: t ++ rest) = a :: rep (t ++ rest).
Proof.
  intro H. unfold atom_ok in H. destruct t as [|x t']; [discriminate|].
  apply andb_true_iff in H. destruct H as [Hx _]. apply negb_true_iff in Hx.
  cbn [app rep]. rewrite (eqb_sign_false x p2 Hp2 Hx). rewrite andb_false_r. reflexivity.
Qed.

Lemma atom_tail_ok t : atom_ok t = true -> tail_ok t = true.
Proof. unfold atom_ok. intro H. apply andb_true_iff in H. tauto. Qed.

Lemma sr_CC a b r : sreplace2 p1 p2 new (C a :: C b :: r) =
  if Ascii.eqb a p1 && Ascii.eqb b p2 then C new :: sreplace2 p1 p2 new r else C a :: sreplace2 p1 p2 new (C b :: r).
Proof. reflexivity. Qed.
Lemma sr_CM a j r : sreplace2 p1 p2 new (C a :: M j :: r) = C a :: sreplace2 p1 p2 new (M j :: r).
Proof. reflexivity. Qed.
Lemma sr_CN a j r : sreplace2 p1 p2 new (C a :: N j :: r) = C a :: sreplace2 p1 p2 new (N j :: r).
Proof. reflexivity. Qed.
Lemma sr_M i tl : sreplace2 p1 p2 new (M i :: tl) = M i :: sreplace2 p1 p2 new tl.
Proof. destruct tl; reflexivity. Qed.
Lemma sr_N i tl : sreplace2 p1 p2 new (N i :: tl) = N i :: sreplace2 p1 p2 new tl.
Proof. destruct tl; reflexivity. Qed.
Lemma rep_2 a b r : rep (a :: b :: r) = if Ascii.eqb a p1 && Ascii.eqb b p2 then new :: rep r else a :: rep (b :: r).
Proof. reflexivity. Qed.

Lemma sreplace2_bridge : forall n s, List.length s <= n -> atoms_ok s ->
  fl (sreplace2 p1 p2 new s) = rep (fl s).
Proof.
  induction n as [|n IH]; intros s Hn Hok.
  - destruct s; [reflexivity | simpl in Hn; lia].
  - destruct s as [|x tl]. reflexivity.
    inversion Hok as [|? ? Hx Htl]; subst.
    assert (Ltl : List.length tl <= n) by (simpl in Hn; lia).
    destruct x as [a|i|i].
    + destruct tl as [|y r].
      * reflexivity.
      * destruct y as [b|j|j].
        -- rewrite sr_CC. rewrite (fl_cons (C a) (C b :: r)), (fl_cons (C b) r). cbn [app]. rewrite rep_2.
           destruct (Ascii.eqb a p1 && Ascii.eqb b p2) eqn:E.
           ++ rewrite fl_cons. cbn [app]. f_equal. apply IH. simpl in Hn. lia. inversion Htl; auto.
           ++ rewrite fl_cons. cbn [app]. f_equal. rewrite (IH (C b :: r) Ltl Htl). rewrite fl_cons. reflexivity.
        -- rewrite sr_CM. rewrite (fl_cons (C a)). cbn [app]. rewrite (IH (M j :: r) Ltl Htl).
           rewrite (fl_cons (C a)), (fl_cons (M j)). cbn [app].
           inversion Htl as [|? ? Hj _]; subst. rewrite (atom_head _ _ a Hj). reflexivity.
        -- rewrite sr_CN. rewrite (fl_cons (C a)). cbn [app]. rewrite (IH (N j :: r) Ltl Htl).
           rewrite (fl_cons (C a)), (fl_cons (N j)). cbn [app].
           inversion Htl as [|? ? Hj _]; subst. rewrite (atom_head _ _ a Hj). reflexivity.
    + rewrite sr_M. rewrite !fl_cons. rewrite (rep_tail _ _ (atom_tail_ok _ Hx)). f_equal. apply IH; auto.
    + rewrite sr_N. rewrite !fl_cons. rewrite (rep_tail _ _ (atom_tail_ok _ Hx)). f_equal. apply IH; auto.
Qed.

Lemma sreplace2_atoms_ok s : atoms_ok s -> atoms_ok (sreplace2 p1 p2 new s).
Proof.
  assert (forall n s, List.length s <= n -> atoms_ok s -> atoms_ok (sreplace2 p1 p2 new s)) as G.
  { induction n as [|n IH]; intros s0 Hn Hok.
    - destruct s0; [constructor | simpl in Hn; lia].
    - destruct s0 as [|x tl]. constructor.
      inversion Hok as [|? ? Hx Htl]; subst.
      assert (Ltl : List.length tl <= n) by (simpl in Hn; lia).
      destruct x as [a|i|i].
      + destruct tl as [|[b|j|j] r].
        * constructor; auto.
        * rewrite sr_CC. destruct (Ascii.eqb a p1 && Ascii.eqb b p2).
          -- constructor. exact I. apply IH. simpl in Hn; lia. inversion Htl; auto.
          -- constructor. exact I. apply (IH (C b :: r)); auto.
        * rewrite sr_CM. constructor. exact I. apply (IH (M j :: r)); auto.
        * rewrite sr_CN. constructor. exact I. apply (IH (N j :: r)); auto.
      + rewrite sr_M. constructor; auto. apply IH; auto.
      + rewrite sr_N. constructor; auto. apply IH; auto. }
  apply (G (List.length s)). lia.
Qed.
End Rep.

(** Reaction._beautify on the printed text = the model's beautify on the atom string *)
Definition py_beautify (s : list ascii) : list ascii :=
  replace_l ["-"; "+"]%char ["-"%char] (replace_l ["+"; "-"]%char ["-"%char]
    (replace_l ["-"; "-"]%char ["+"%char] (replace_l ["+"; "+"]%char ["+"%char] s))).

Theorem beautify_bridge_lemma mag name s : atoms_ok mag name s ->
  flatten_with mag name (beautify s) = py_beautify (flatten_with mag name s).
Proof.
  intro H. unfold beautify, py_beautify.
  rewrite !replace_l_rep.
  pose proof (sreplace2_atoms_ok "+" "+" "+" mag name s H) as H1.
  pose proof (sreplace2_atoms_ok "-" "-" "+" mag name _ H1) as H2.
  pose proof (sreplace2_atoms_ok "+" "-" "-" mag name _ H2) as H3.
  pose proof (sreplace2_bridge "+" "+" "+" eq_refl eq_refl mag name _ s (le_n _) H) as B1.
  pose proof (sreplace2_bridge "-" "-" "+" eq_refl eq_refl mag name _ _ (le_n _) H1) as B2.
  pose proof (sreplace2_bridge "+" "-" "-" eq_refl eq_refl mag name _ _ (le_n _) H2) as B3.
  pose proof (sreplace2_bridge "-" "+" "-" eq_refl eq_refl mag name _ _ (le_n _) H3) as B4.
  unfold fl in B1, B2, B3, B4.
  rewrite <- B1, <- B2, <- B3, <- B4. reflexivity.
Qed.
