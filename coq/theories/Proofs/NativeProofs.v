(** C18: write / read round trip of the native exchange format. *)
From Coq Require Import List Arith Bool String Ascii ZArith Lia Permutation Sorted.
From Naunet Require Import Lib.ListX Lib.PyStr Model.Decode Model.NativeFmt
     Proofs.SpeciesProofs Proofs.IndexProofs Proofs.DecodeProofs.
Import ListNotations.
Open Scope string_scope.

(** sorting names is idempotent *)
Lemma string_leb_order : total_order string_leb.
Proof.
  split. apply string_leb_total. intros a b c; apply string_leb_trans. intros a b; apply string_leb_antisym.
Qed.

Lemma sort_names_perm l : Permutation (sort_names l) l.
Proof. apply isort_perm. Qed.

Lemma sort_names_idem l : sort_names (sort_names l) = sort_names l.
Proof.
  unfold sort_names. apply (sorted_perm_eq string_leb string_leb_order).
  - apply isort_ssorted. exact string_leb_order.
  - apply isort_ssorted. exact string_leb_order.
  - apply isort_perm.
Qed.

(** the padded slots *)
Definition slot (l : list string) (i : nat) : string := nth i l "".

Lemma rjust_pad w x : rjust w x = pad (w - String.length x) x.
Proof. reflexivity. Qed.

Lemma fill3 l : List.length l <= 3 ->
  fill_list (map (rjust 12) l) 3 (rjust 12 "") = map (rjust 12) [slot l 0; slot l 1; slot l 2].
Proof.
  intro H. destruct l as [|a [|b [|c [|d l]]]]; simpl in H; try lia; reflexivity.
Qed.
Lemma fill5 l : List.length l <= 5 ->
  fill_list (map (rjust 12) l) 5 (rjust 12 "") = map (rjust 12) [slot l 0; slot l 1; slot l 2; slot l 3; slot l 4].
Proof.
  intro H. destruct l as [|a [|b [|c [|d [|e [|f l]]]]]]; simpl in H; try lia; reflexivity.
Qed.

Lemma keep_empty pseudo : keep_name pseudo "" = false.
Proof. reflexivity. Qed.

Lemma slots3_names pseudo l : List.length l <= 3 -> Forall (real_name pseudo) l ->
  species_names pseudo [slot l 0; slot l 1; slot l 2] = l.
Proof.
  intros H Hr. destruct l as [|a [|b [|c [|d l]]]]; simpl in H; try lia; unfold slot; simpl;
  repeat match goal with H : Forall _ (_ :: _) |- _ => apply Forall_cons_iff in H; destruct H as [? H] end;
  repeat match goal with H : real_name _ ?x |- _ => apply keep_name_spec in H; rewrite H; clear H end; reflexivity.
Qed.
Lemma slots5_names pseudo l : List.length l <= 5 -> Forall (real_name pseudo) l ->
  species_names pseudo [slot l 0; slot l 1; slot l 2; slot l 3; slot l 4] = l.
Proof.
  intros H Hr. destruct l as [|a [|b [|c [|d [|e [|f l]]]]]]; simpl in H; try lia; unfold slot; simpl;
  repeat match goal with H : Forall _ (_ :: _) |- _ => apply Forall_cons_iff in H; destruct H as [? H] end;
  repeat match goal with H : real_name _ ?x |- _ => apply keep_name_spec in H; rewrite H; clear H end; reflexivity.
Qed.

(** a name / code that survives: no separator, no blank at either end *)
Definition clean (x : string) : Prop := nosep ","%char x /\ edge_ok (chars x) = true.
Definition plain (x : string) : Prop := nosep ","%char x.

Lemma nosep_pad k x : nosep ","%char x -> nosep ","%char (pad k x).
Proof.
  unfold nosep, no_char, pad. rewrite chars_str. intros H Hin. apply in_app_or in Hin. destruct Hin as [Hin|Hin]; auto.
  clear H. induction k; simpl in Hin; auto. destruct Hin as [E|Hin]; [discriminate | auto].
Qed.
Lemma nosep_empty : nosep ","%char "".
Proof. intros []. Qed.
Lemma nosep_app x y : nosep ","%char x -> nosep ","%char y -> nosep ","%char (x ++ y).
Proof. unfold nosep, no_char. rewrite chars_app. intros H1 H2 Hin. apply in_app_or in Hin. tauto. Qed.
Lemma nosep_ljust w x : nosep ","%char x -> nosep ","%char (ljust w x).
Proof.
  unfold nosep, no_char, ljust. rewrite chars_str. intros H Hin. apply in_app_or in Hin. destruct Hin as [Hin|Hin]; auto.
  induction (w - String.length x); simpl in Hin; auto. destruct Hin as [E|Hin]; [discriminate | auto].
Qed.

Lemma slot_clean l i : Forall clean l -> field_ok (slot l i) /\ nosep ","%char (slot l i).
Proof.
  intro H. unfold slot. destruct (nth_in_or_default i l "") as [Hin|E].
  - rewrite Forall_forall in H. destruct (H _ Hin) as [H1 H2]. split; [right|]; auto.
  - rewrite E. split. left; reflexivity. apply nosep_empty.
Qed.

Lemma spaces_are_space k : forallb is_space (repeat_char " "%char k) = true.
Proof. induction k; simpl; auto. Qed.

Lemma strip_ljust w x : edge_ok (chars x) = true -> strip (ljust w x) = x.
Proof.
  intro H. unfold strip, ljust. rewrite chars_str.
  pose proof (strip_padded 0 (chars x) (repeat_char " "%char (w - String.length x)) H (spaces_are_space _)) as E.
  simpl in E. rewrite E. apply str_chars.
Qed.
Lemma strip_rjust_nl w x : edge_ok (chars x) = true -> strip (rjust w x ++ "
") = x.
Proof.
  intro H. unfold strip, rjust. rewrite chars_app, chars_str.
  rewrite <- app_assoc.
  rewrite (strip_padded (w - String.length x) (chars x) (chars "
") H eq_refl). apply str_chars.
Qed.
Lemma strip_rjust w x : edge_ok (chars x) = true -> strip (rjust w x) = x.
Proof. intro H. rewrite rjust_pad. apply strip_pad. right; exact H. Qed.

Lemma join_l_cons sep a r : r <> [] -> join_l sep (a :: r) = (a ++ sep :: join_l sep r)%list.
Proof. destruct r; [congruence | reflexivity]. Qed.
Lemma join_l_last sep l x y : (join_l sep (l ++ [x]) ++ y)%list = join_l sep (l ++ [x ++ y]%list).
Proof.
  induction l as [|a l IH]. reflexivity.
  cbn [app]. rewrite !join_l_cons by (destruct l; discriminate).
  rewrite <- app_assoc. cbn [app]. f_equal. f_equal. exact IH.
Qed.
Lemma join_last sep l x y : (join sep (l ++ [x]) ++ y)%string = join sep (l ++ [(x ++ y)%string]).
Proof.
  unfold join. apply chars_inj. rewrite chars_app, !chars_str, !map_app. simpl. rewrite chars_app.
  apply join_l_last.
Qed.

Record wf (pseudo : list string) (r : nrec) : Prop := {
  wf_nr : List.length (n_reac r) <= 3;
  wf_np : List.length (n_prod r) <= 5;
  wf_rnames : Forall clean (n_reac r) /\ Forall (real_name pseudo) (n_reac r);
  wf_pnames : Forall clean (n_prod r) /\ Forall (real_name pseudo) (n_prod r);
  wf_idx : clean (n_idx r);
  wf_type : clean (n_type r);
  wf_source : clean (n_source r);
  wf_nums : Forall plain [n_a r; n_b r; n_c r; n_lt r; n_ut r];
}.

Definition canon (r : nrec) : nrec :=
  {| n_idx := n_idx r; n_reac := sort_names (n_reac r); n_prod := sort_names (n_prod r);
     n_a := n_a r; n_b := n_b r; n_c := n_c r; n_lt := n_lt r; n_ut := n_ut r;
     n_type := n_type r; n_source := n_source r |}.

Lemma Forall_perm {X} (P : X -> Prop) l l' : Permutation l l' -> Forall P l -> Forall P l'.
Proof. intros Hp H. rewrite Forall_forall in *. intros x Hx. apply H. eapply Permutation_in; [apply Permutation_sym; exact Hp | exact Hx]. Qed.

Theorem write_read_lemma pseudo r : wf pseudo r ->
  reread pseudo (fmt_native r ++ "
") = Some (canon r).
Proof.
  intros [Hnr Hnp [Hrc Hrr] [Hpc Hpr] [Hi1 Hi2] [Ht1 Ht2] [Hs1 Hs2] Hnum].
  set (rs := sort_names (n_reac r)). set (ps := sort_names (n_prod r)).
  assert (Lrs : List.length rs <= 3) by (unfold rs; rewrite (Permutation_length (sort_names_perm _)); exact Hnr).
  assert (Lps : List.length ps <= 5) by (unfold ps; rewrite (Permutation_length (sort_names_perm _)); exact Hnp).
  assert (Crs : Forall clean rs) by (eapply Forall_perm; [apply Permutation_sym, sort_names_perm | exact Hrc]).
  assert (Cps : Forall clean ps) by (eapply Forall_perm; [apply Permutation_sym, sort_names_perm | exact Hpc]).
  assert (Rrs : Forall (real_name pseudo) rs) by (eapply Forall_perm; [apply Permutation_sym, sort_names_perm | exact Hrr]).
  assert (Rps : Forall (real_name pseudo) ps) by (eapply Forall_perm; [apply Permutation_sym, sort_names_perm | exact Hpr]).
  repeat match goal with H : Forall plain (_ :: _) |- _ => apply Forall_cons_iff in H; destruct H as [? H] end.
  unfold reread.
  assert (E : (fmt_native r ++ "
")%string =
    encode_native (ljust 5 (n_idx r))
      (pad (12 - String.length (slot rs 0)) (slot rs 0)) (pad (12 - String.length (slot rs 1)) (slot rs 1))
      (pad (12 - String.length (slot rs 2)) (slot rs 2))
      (pad (12 - String.length (slot ps 0)) (slot ps 0)) (pad (12 - String.length (slot ps 1)) (slot ps 1))
      (pad (12 - String.length (slot ps 2)) (slot ps 2)) (pad (12 - String.length (slot ps 3)) (slot ps 3))
      (pad (12 - String.length (slot ps 4)) (slot ps 4))
      (n_a r) (n_b r) (n_c r) (n_lt r) (n_ut r) (rjust 4 (n_type r)) (rjust 8 (n_source r) ++ "
")).
  { unfold fmt_native, native_fields. fold rs ps. rewrite (fill3 rs Lrs), (fill5 ps Lps).
    cbn [map app]. unfold encode_native.
    exact (join_last ","%char [_; _; _; _; _; _; _; _; _; _; _; _; _; _; _] _ _). }
  rewrite E. rewrite native_roundtrip_lemma.
  - unfold canon. fold rs ps. rewrite (slots3_names pseudo rs Lrs Rrs), (slots5_names pseudo ps Lps Rps).
    cbn [d_idx d_reac d_prod d_alpha d_beta d_gamma d_tmin d_tmax d_code d_source].
    rewrite strip_ljust by auto. rewrite strip_rjust by auto. rewrite strip_rjust_nl by auto. reflexivity.
  - repeat (apply Forall_cons; [first [ apply nosep_pad; apply (slot_clean _ _ Crs) | apply nosep_pad; apply (slot_clean _ _ Cps)
                                      | apply nosep_ljust; assumption | assumption
                                      | apply nosep_pad; assumption
                                      | apply nosep_app; [apply nosep_pad; assumption | intros [E'|[]]; discriminate] ] |]).
    constructor.
  - repeat (apply Forall_cons; [first [apply (slot_clean _ _ Crs) | apply (slot_clean _ _ Cps)] |]). constructor.
Qed.

(* the second cycle is the identity: the line written from what was read back is the same line *)
Theorem second_cycle_lemma pseudo r : wf pseudo r -> fmt_native (canon r) = fmt_native r.
Proof.
  intros _. unfold fmt_native, native_fields, canon. cbn [n_idx n_reac n_prod n_a n_b n_c n_lt n_ut n_type n_source].
  rewrite !sort_names_idem. reflexivity.
Qed.

(* reactants and products survive with multiplicity *)
Theorem multiset_lemma r : Permutation (n_reac (canon r)) (n_reac r) /\ Permutation (n_prod (canon r)) (n_prod r).
Proof. split; apply sort_names_perm. Qed.

(* a whole network: same reactions in the same order *)
Theorem file_roundtrip_lemma pseudo rs : Forall (wf pseudo) rs ->
  map (reread pseudo) (write_native rs) = map (fun r => Some (canon r)) rs.
Proof.
  induction 1 as [|r rs Hr _ IH]; simpl; auto. rewrite write_read_lemma by auto. f_equal. exact IH.
Qed.
