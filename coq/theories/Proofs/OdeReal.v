(** C02 over the reals: the formal derivative [deqn] is the derivative in the sense
    of analysis (Coquelicot's [is_derive]) of the emitted right-hand side, the rate
    coefficients and every other variable held fixed. *)
From Coq Require Import List Arith Bool Reals String.
From Coq Require Import RealField.
From Coquelicot Require Import Coquelicot.
From Naunet Require Import Lib.ListX Model.OdeGen Proofs.OdeRefine Proofs.OdeSem.
Import ListNotations.
Open Scope R_scope.

Notation envR := (env R).
Notation prodR := (prod_y R 1 Rmult).
Notation ev_termR := (ev_term R 1 Rmult Ropp).
Notation ev_eqnR := (ev_eqn R 0 1 Rplus Rmult Ropp).
Notation dprodR := (dprod R 0 1 Rplus Rmult).
Notation dtermR := (dterm_val R 0 1 Rplus Rmult Ropp).
Notation deqnR := (deqn R 0 1 Rplus Rmult Ropp).

(** abundance vector with component j replaced by x *)
Definition upd (E : envR) (j : nat) (x : R) : envR :=
  {| e_k := e_k R E; e_kh := e_kh R E; e_kc := e_kc R E; e_f := e_f R E;
     e_y := fun v => if Nat.eqb v j then x else e_y R E v |}.

Lemma prod_upd_self E j vs : prodR (upd E j (e_y R E j)) vs = prodR E vs.
Proof.
  induction vs as [|v r IH]; simpl; auto. rewrite IH.
  destruct (Nat.eqb_spec v j); subst; auto.
Qed.

Lemma prod_derive E j vs :
  is_derive (fun x => prodR (upd E j x) vs) (e_y R E j) (dprodR E j vs).
Proof.
  induction vs as [|v r IH]; simpl.
  - apply (is_derive_const (K := R_AbsRing) (V := R_NormedModule)).
  - destruct (Nat.eqb_spec v j) as [->|Hne].
    + eapply is_derive_ext with (f := fun t => mult ((fun x : R => x) t) ((fun x => prodR (upd E j x) r) t)).
      { intro t. reflexivity. }
      replace (prodR E r + e_y R E j * dprodR E j r)
        with (plus (mult 1 (prodR (upd E j (e_y R E j)) r)) (mult (e_y R E j) (dprodR E j r))).
      * apply (is_derive_mult (fun x : R => x) (fun x => prodR (upd E j x) r)); auto.
        apply (is_derive_id (K := R_AbsRing)). apply Rmult_comm.
      * rewrite prod_upd_self. unfold plus, mult. simpl. ring.
    + eapply is_derive_ext with (f := fun t => mult ((fun _ : R => e_y R E v) t) ((fun x => prodR (upd E j x) r) t)).
      { intro t. reflexivity. }
      replace (0 + e_y R E v * dprodR E j r)
        with (plus (mult 0 (prodR (upd E j (e_y R E j)) r)) (mult (e_y R E v) (dprodR E j r))).
      * apply (is_derive_mult (fun _ : R => e_y R E v) (fun x => prodR (upd E j x) r)); auto.
        apply (is_derive_const (K := R_AbsRing) (V := R_NormedModule)). apply Rmult_comm.
      * unfold plus, mult. simpl. ring.
Qed.

Lemma coef_upd E j x c : coef_val R (upd E j x) c = coef_val R E c.
Proof. destruct c; auto. Qed.

Lemma term_derive E j t :
  is_derive (fun x => ev_termR (upd E j x) t) (e_y R E j) (dtermR E j t).
Proof.
  unfold ev_term, dterm_val.
  assert (is_derive (fun x => coef_val R E (t_coef t) * prodR (upd E j x) (t_vars t)) (e_y R E j)
            (coef_val R E (t_coef t) * dprodR E j (t_vars t))) as H.
  { apply (is_derive_scal (fun x => prodR (upd E j x) (t_vars t))). apply prod_derive. }
  destruct (t_neg t); simpl.
  - eapply is_derive_ext with (f := fun x => opp (coef_val R E (t_coef t) * prodR (upd E j x) (t_vars t))).
    { intro x. rewrite coef_upd. reflexivity. }
    apply (is_derive_opp (K := R_AbsRing) (V := R_NormedModule)). exact H.
  - eapply is_derive_ext; [|exact H]. intro x. simpl. rewrite coef_upd. reflexivity.
Qed.

Theorem eqn_derive E j e :
  is_derive (fun x => ev_eqnR (upd E j x) e) (e_y R E j) (deqnR E j e).
Proof.
  induction e as [|t r IH]; simpl.
  - apply (is_derive_const (K := R_AbsRing) (V := R_NormedModule)).
  - apply (is_derive_plus (K := R_AbsRing) (V := R_NormedModule)
             (fun x => ev_termR (upd E j x) t) (fun x => ev_eqnR (upd E j x) r)); auto.
    apply term_derive.
Qed.

(** the wrapped temperature row: a constant factor *)
Theorem wrapped_derive E j e (wrapf : R) :
  is_derive (fun x => wrapf * ev_eqnR (upd E j x) e) (e_y R E j) (wrapf * deqnR E j e).
Proof. apply (is_derive_scal (fun x => ev_eqnR (upd E j x) e)). apply eqn_derive. Qed.

Lemma jac_is_derive_lemma : forall (E : envR) (i : ode_input) (row col : nat),
  wf_input i -> (row < n_eqns i)%nat -> (col < n_eqns i)%nat ->
  is_derive (fun x => ev_eqnR (upd E col x) (rhs_row i row)) (e_y R E col)
            (ev_eqnR E (jac_entry i row col)).
Proof.
  intros E i row col H Hr Hc.
  rewrite (jac_is_formal_derivative R 0 1 Rplus Rmult Rminus Ropp RTheory E i row col H Hr Hc).
  apply eqn_derive.
Qed.

Lemma jac_thermal_is_derive_lemma : forall (E : envR) (i : ode_input) (col : nat) (wrapf : R),
  wf_input i -> has_thermal i = true -> (col < n_eqns i)%nat ->
  is_derive (fun x => wrapf * ev_eqnR (upd E col x) (rhs_row i (i_nspec i))) (e_y R E col)
            (wrapf * ev_eqnR E (jac_entry i (i_nspec i) col)).
Proof.
  intros E i col w H Ht Hc.
  rewrite (jac_is_formal_derivative R 0 1 Rplus Rmult Rminus Ropp RTheory E i (i_nspec i) col H
             (thermal_row_lt i Ht) Hc).
  apply wrapped_derive.
Qed.

