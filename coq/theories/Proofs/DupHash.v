(** C15: reactions that compare equal hash alike, so the dictionary of
    find_duplicate_reaction finds the entry of an equal reaction. *)
From Coq Require Import List Arith Bool Lia Sorted Permutation String ZArith.
From Naunet Require Import Lib.ListX Model.Dup Proofs.DupProofs Proofs.IndexProofs.
Import ListNotations.

Lemma nat_leb_order : total_order Nat.leb.
Proof.
  split.
  - intros a b. destruct (Nat.leb_spec a b); auto. right. apply Nat.leb_le. lia.
  - intros a b c H1 H2. apply Nat.leb_le in H1, H2. apply Nat.leb_le. lia.
  - intros a b H1 H2. apply Nat.leb_le in H1, H2. lia.
Qed.

Lemma rpeq_same_hash h a b : rpeq a b = true -> rxn_hash h a = rxn_hash h b.
Proof.
  unfold rpeq, rxn_hash. rewrite andb_true_iff, !mset_eqb_spec. intros [Hr Hp].
  f_equal; apply (isort_canonical Nat.leb nat_leb_order); apply Permutation_map; assumption.
Qed.

Theorem eq_same_hash_lemma h a b :
  (rxn_eqb a b = true -> rxn_hash h a = rxn_hash h b) /\
  (brief_eqb a b = true -> rxn_hash h a = rxn_hash h b).
Proof.
  split.
  - unfold rxn_eqb. rewrite !andb_true_iff. intros [[[H _] _] _]. apply rpeq_same_hash. exact H.
  - apply rpeq_same_hash.
Qed.

(* the hash does not depend on the order the species were written in *)
Theorem hash_order_lemma h r r' p p' a :
  Permutation r r' -> Permutation p p' ->
  rxn_hash h {| k_reac := r; k_prod := p; k_rnames := k_rnames a; k_pnames := k_pnames a; k_tmin := k_tmin a; k_tmax := k_tmax a;
                k_tminf := k_tminf a; k_tmaxf := k_tmaxf a; k_type := k_type a; k_tname := k_tname a |} =
  rxn_hash h {| k_reac := r'; k_prod := p'; k_rnames := k_rnames a; k_pnames := k_pnames a; k_tmin := k_tmin a; k_tmax := k_tmax a;
                k_tminf := k_tminf a; k_tmaxf := k_tmaxf a; k_type := k_type a; k_tname := k_tname a |}.
Proof.
  intros Hr Hp. unfold rxn_hash; simpl.
  f_equal; apply (isort_canonical Nat.leb nat_leb_order); apply Permutation_map; assumption.
Qed.
