(** C09 (and C17): species ordering, index bijection, identifier legality. *)
From Coq Require Import List Arith Bool String Ascii ZArith NArith Lia Permutation Sorted.
From Naunet Require Import Lib.ListX Lib.PyStr Lib.Sexp Model.Species Model.Index Proofs.SpeciesProofs.
Import ListNotations.

(** ** byte-wise string order is a total order *)
Lemma nat_of_ascii_inj a b : nat_of_ascii a = nat_of_ascii b -> a = b.
Proof. intro H. rewrite <- (ascii_nat_embedding a), <- (ascii_nat_embedding b), H. reflexivity. Qed.

Lemma string_leb_total a : forall b, string_leb a b = true \/ string_leb b a = true.
Proof.
  induction a as [|x a IH]; intros [|y b]; simpl; auto.
  destruct (Nat.ltb_spec (nat_of_ascii x) (nat_of_ascii y)); auto.
  destruct (Nat.ltb_spec (nat_of_ascii y) (nat_of_ascii x)); auto.
Qed.

Lemma string_leb_antisym a : forall b, string_leb a b = true -> string_leb b a = true -> a = b.
Proof.
  induction a as [|x a IH]; intros [|y b]; simpl; auto; try discriminate.
  destruct (Nat.ltb_spec (nat_of_ascii x) (nat_of_ascii y));
  destruct (Nat.ltb_spec (nat_of_ascii y) (nat_of_ascii x)); try discriminate; try lia.
  intros H1 H2. f_equal. apply nat_of_ascii_inj. lia. apply IH; auto.
Qed.

Lemma string_leb_trans a : forall b c, string_leb a b = true -> string_leb b c = true -> string_leb a c = true.
Proof.
  induction a as [|x a IH]; intros [|y b] [|z c]; simpl; auto; try discriminate.
  destruct (Nat.ltb_spec (nat_of_ascii x) (nat_of_ascii y));
  destruct (Nat.ltb_spec (nat_of_ascii y) (nat_of_ascii x));
  destruct (Nat.ltb_spec (nat_of_ascii y) (nat_of_ascii z));
  destruct (Nat.ltb_spec (nat_of_ascii z) (nat_of_ascii y));
  destruct (Nat.ltb_spec (nat_of_ascii x) (nat_of_ascii z));
  destruct (Nat.ltb_spec (nat_of_ascii z) (nat_of_ascii x)); try discriminate; try lia; auto.
  apply IH.
Qed.

Record total_order {X} (leb : X -> X -> bool) : Prop := {
  to_total : forall a b, leb a b = true \/ leb b a = true;
  to_trans : forall a b c, leb a b = true -> leb b c = true -> leb a c = true;
  to_antisym : forall a b, leb a b = true -> leb b a = true -> a = b;
}.

Lemma key_leb_order : total_order key_leb.
Proof.
  split.
  - intros [d1 n1] [d2 n2]. unfold key_leb; simpl.
    destruct (Nat.ltb_spec d1 d2); auto. destruct (Nat.ltb_spec d2 d1); auto; simpl.
    assert (d1 = d2) as -> by lia. rewrite Nat.eqb_refl. simpl. apply string_leb_total.
  - intros [d1 n1] [d2 n2] [d3 n3]. unfold key_leb; simpl.
    rewrite !orb_true_iff, !andb_true_iff, !Nat.ltb_lt, !Nat.eqb_eq.
    intros [H1|[H1 S1]] [H2|[H2 S2]]; try (left; lia).
    right. split. lia. eapply string_leb_trans; eauto.
  - intros [d1 n1] [d2 n2]. unfold key_leb; simpl.
    rewrite !orb_true_iff, !andb_true_iff, !Nat.ltb_lt, !Nat.eqb_eq.
    intros [H1|[H1 S1]] [H2|[H2 S2]]; try lia. subst. f_equal. apply string_leb_antisym; auto.
Qed.

(** ** insertion sort: permutation, sortedness, canonical form *)
Section SortFacts.
Context {X : Type} (leb : X -> X -> bool) (TO : total_order leb).

Lemma insert_sorted_perm x l : Permutation (insert_sorted leb x l) (x :: l).
Proof.
  induction l as [|a l IH]; simpl; auto. destruct (leb x a); auto.
  eapply perm_trans. apply perm_skip. exact IH. apply perm_swap.
Qed.
Lemma isort_perm l : Permutation (isort leb l) l.
Proof.
  induction l as [|a l IH]; simpl; auto. eapply perm_trans. apply insert_sorted_perm. auto.
Qed.

Definition lebP (a b : X) : Prop := leb a b = true.

Lemma insert_sorted_ssorted x l : StronglySorted lebP l -> StronglySorted lebP (insert_sorted leb x l).
Proof.
  induction 1 as [|a l Hs IH Ha]; simpl. repeat constructor.
  destruct (leb x a) eqn:E.
  - constructor. constructor; auto. constructor; auto.
    rewrite Forall_forall in *. intros y Hy. eapply (to_trans _ TO); eauto. apply Ha; auto.
  - constructor; auto. rewrite Forall_forall in *. intros y Hy.
    apply insert_sorted_in in Hy. destruct Hy as [->|Hy]; auto.
    destruct (to_total _ TO x a) as [H|H]; [congruence | exact H].
Qed.
Lemma isort_ssorted l : StronglySorted lebP (isort leb l).
Proof. induction l; simpl. constructor. apply insert_sorted_ssorted; auto. Qed.

Lemma sorted_perm_eq l1 : forall l2, StronglySorted lebP l1 -> StronglySorted lebP l2 ->
  Permutation l1 l2 -> l1 = l2.
Proof.
  induction l1 as [|a l1 IH]; intros l2 S1 S2 P.
  - apply Permutation_nil in P. auto.
  - destruct l2 as [|b l2]. apply Permutation_sym, Permutation_nil in P. discriminate.
    inversion S1 as [|? ? S1' F1]; subst. inversion S2 as [|? ? S2' F2]; subst.
    assert (a = b) as ->.
    { assert (In a (b :: l2)) as Ha by (eapply Permutation_in; [exact P | simpl; auto]).
      assert (In b (a :: l1)) as Hb by (eapply Permutation_in; [apply Permutation_sym; exact P | simpl; auto]).
      rewrite Forall_forall in F1, F2.
      destruct Ha as [->|Ha]; auto. destruct Hb as [->|Hb]; auto.
      apply (to_antisym _ TO); [apply F1 | apply F2]; auto. }
    f_equal. apply IH; auto. eapply Permutation_cons_inv; eauto.
Qed.

Lemma isort_canonical l l' : Permutation l l' -> isort leb l = isort leb l'.
Proof.
  intro P. apply sorted_perm_eq; try apply isort_ssorted.
  eapply perm_trans. apply isort_perm. eapply perm_trans. exact P. apply Permutation_sym, isort_perm.
Qed.
End SortFacts.

(** ** the species order *)
Lemma species_order_perm_lemma sp rs : Permutation (species_order sp rs) sp.
Proof.
  unfold species_order.
  eapply perm_trans. apply Permutation_map. apply isort_perm.
  rewrite map_map. simpl. rewrite map_id. auto.
Qed.

Lemma species_order_nodup_lemma sp rs : NoDup sp -> NoDup (species_order sp rs).
Proof. intro H. eapply Permutation_NoDup; [apply Permutation_sym, species_order_perm_lemma | exact H]. Qed.

(* the order does not depend on the iteration order of the underlying set *)
Lemma species_order_canonical_lemma sp sp' rs : Permutation sp sp' ->
  species_order sp rs = species_order sp' rs.
Proof.
  intro P. unfold species_order. f_equal. apply (isort_canonical key_leb key_leb_order).
  apply Permutation_map. exact P.
Qed.

(* sorted by (degree, name) *)
Lemma species_order_sorted_lemma sp rs :
  StronglySorted (fun a b => key_leb (degree rs a, a) (degree rs b, b) = true) (species_order sp rs).
Proof.
  unfold species_order.
  pose proof (isort_ssorted key_leb key_leb_order (map (fun x => (degree rs x, x)) sp)) as H.
  assert (Forall (fun p : nat * string => fst p = degree rs (snd p))
                 (isort key_leb (map (fun x => (degree rs x, x)) sp))) as Hk.
  { apply Forall_forall. intros p Hp. apply (proj1 (isort_in key_leb _ _)) in Hp.
    apply in_map_iff in Hp. destruct Hp as (x & <- & _). reflexivity. }
  induction H as [|p l Hs IH Hp]; simpl. constructor.
  inversion Hk as [|? ? Hk1 Hk2]; subst. constructor; auto.
  rewrite Forall_forall in *. intros y Hy. apply in_map_iff in Hy. destruct Hy as (q & <- & Hq).
  specialize (Hp q Hq). unfold lebP in Hp. destruct p as [d n], q as [d' n']. simpl in *.
  specialize (Hk2 _ Hq). simpl in Hk2. subst. exact Hp.
Qed.

(** ** index macros: a bijection onto 0..n-1 *)
Lemma index_of_nth l : forall x i, index_of String.eqb x l = Some i -> nth_error l i = Some x.
Proof.
  induction l as [|a l IH]; intros x i H; simpl in *. discriminate.
  destruct (String.eqb_spec x a).
  - injection H as <-. subst. reflexivity.
  - destruct (index_of String.eqb x l) eqn:E; simpl in H; [|discriminate].
    injection H as <-. simpl. apply IH. exact E.
Qed.
Lemma nth_index_of l : NoDup l -> forall i x, nth_error l i = Some x -> index_of String.eqb x l = Some i.
Proof.
  induction 1 as [|a l Hn Hd IH]; intros i x H. destruct i; discriminate.
  simpl. destruct i; simpl in H.
  - injection H as ->. rewrite String.eqb_refl. reflexivity.
  - destruct (String.eqb_spec x a) as [->|Hne].
    + exfalso. apply Hn. eapply nth_error_In; eauto.
    + rewrite (IH _ _ H). reflexivity.
Qed.

Lemma idx_bijection_lemma l : NoDup l ->
  (forall x, In x l -> exists i, idx_of l x = Some i /\ i < List.length l) /\
  (forall i, i < List.length l -> exists x, In x l /\ idx_of l x = Some i) /\
  (forall x y i, idx_of l x = Some i -> idx_of l y = Some i -> x = y).
Proof.
  intro Hd. unfold idx_of. repeat split.
  - intros x Hx. apply In_nth_error in Hx. destruct Hx as (i & Hi).
    exists i. split. apply nth_index_of; auto. apply nth_error_Some. congruence.
  - intros i Hi. destruct (nth_error l i) as [x|] eqn:E.
    + exists x. split. eapply nth_error_In; eauto. apply nth_index_of; auto.
    + apply nth_error_None in E. lia.
  - intros x y i Hx Hy. apply index_of_nth in Hx, Hy. congruence.
Qed.

(** ** identifiers *)
Lemma chars_app a b : chars (a ++ b) = (chars a ++ chars b)%list.
Proof. induction a; simpl; auto. f_equal. auto. Qed.
Lemma chars_str l : chars (str l) = l.
Proof. apply list_ascii_of_string_of_list_ascii. Qed.

Lemma replace_from_forall (P : ascii -> bool) old new : forallb P new = true ->
  forall fuel s, forallb P s = true -> forallb P (replace_from fuel old new s) = true.
Proof.
  intros Hn. induction fuel as [|f IH]; intros s Hs; simpl; auto.
  destruct s as [|c s']; auto.
  destruct (starts_with old (c :: s')).
  - rewrite forallb_app, Hn. simpl. apply IH.
    rewrite forallb_forall in *. intros x Hx. apply Hs.
    clear - Hx. revert Hx. generalize (c :: s') as l. induction (List.length old) as [|n IHn]; intros l Hx; simpl in *; auto.
    destruct l; simpl in *; auto. 
  - simpl in *. apply andb_true_iff in Hs. destruct Hs as [Hc Hs]. rewrite Hc. simpl. apply IH; auto.
Qed.

Lemma replace_forall (P : ascii -> bool) old new s :
  forallb P (chars new) = true -> forallb P (chars s) = true -> forallb P (chars (replace old new s)) = true.
Proof.
  intros Hn Hs. unfold replace. rewrite chars_str. unfold replace_l.
  destruct (chars old); auto. apply replace_from_forall; auto.
Qed.

Lemma repeat_string_forall (P : ascii -> bool) c n :
  forallb P (chars c) = true -> forallb P (chars (repeat_string c n)) = true.
Proof.
  intro H. induction n; simpl; auto. rewrite chars_app, forallb_app, H. auto.
Qed.

Lemma fold_replace_forall (P : ascii -> bool) tab : 
  Forall (fun kv : string * string => forallb P (chars (snd kv)) = true) tab ->
  forall b, forallb P (chars b) = true ->
  forallb P (chars (fold_left (fun acc kv => replace (fst kv) (snd kv) acc) tab b)) = true.
Proof.
  induction 1 as [|kv tab Hkv _ IH]; intros b Hb; simpl; auto.
  apply IH. apply replace_forall; auto.
Qed.

Lemma dict_set_values (P : string -> Prop) k v : P v -> forall l,
  Forall (fun kv : string * string => P (snd kv)) l ->
  Forall (fun kv : string * string => P (snd kv)) (dict_set k v l).
Proof.
  intros Hv. induction l as [|[k' v'] l IH]; intro H; simpl.
  - constructor; auto.
  - inversion H; subst. destruct (String.eqb k' k); constructor; auto.
Qed.

Lemma alias_table_values (P : string -> Prop) T symtab : Forall P symtab ->
  Forall (fun kv : string * string => P (snd kv)) (alias_table T symtab).
Proof.
  intro H. unfold alias_table.
  assert (forall acc, Forall (fun kv : string * string => P (snd kv)) acc ->
     Forall (fun kv : string * string => P (snd kv))
       (fold_left (fun acc sym => if memb String.eqb (upper sym) (t_elements T) then dict_set (upper sym) sym acc else acc)
                  symtab acc)) as G.
  { induction H as [|s l Hs Hl IH]; intros acc Ha; simpl; auto.
    apply IH. destruct (memb String.eqb (upper s) (t_elements T)); auto.
    apply dict_set_values; auto. }
  apply G. constructor.
Qed.

Definition ident_str (s : string) : Prop := forallb is_ident_char (chars s) = true.

Lemma alias_legal_lemma T symtab s :
  Forall ident_str symtab -> ident_str (basename s) ->
  c_ident ("IDX_" ++ alias T symtab s) = true.
Proof.
  intros Hsym Hb. unfold c_ident. simpl. unfold alias.
  rewrite !chars_app, !forallb_app.
  assert (forallb is_ident_char
    (chars (fold_left (fun acc kv => replace (fst kv) (snd kv) acc) (alias_table T symtab) (basename s))) = true) as H1.
  { apply fold_replace_forall; auto. apply (alias_table_values ident_str). exact Hsym. }
  rewrite H1.
  assert (forallb is_ident_char (chars (if is_surface s then "G" else "")) = true) as H2
    by (destruct (is_surface s); reflexivity).
  rewrite H2. simpl.
  destruct (0 <=? charge s)%Z; apply repeat_string_forall; reflexivity.
Qed.

(** ** the alias determines (phase, normalised basename, charge) *)
Definition alias_safe (surf : bool) (b : string) : bool :=
  match rev (chars b) with
  | [] => false
  | x :: _ => negb (Ascii.eqb x "I"%char) && negb (Ascii.eqb x "M"%char)
  end && (surf || negb (starts_with ["G"%char] (chars b))).

Lemma chars_repeat_string c n : chars (repeat_string (String c EmptyString) n) = repeat_char c n.
Proof. induction n; simpl; auto. f_equal. exact IHn. Qed.

Lemma rev_repeat_char c n : rev (repeat_char c n) = repeat_char c n.
Proof.
  induction n; auto. rewrite repeat_char_snoc at 2. simpl. rewrite IHn. reflexivity.
Qed.

Lemma suffix_unique c1 c2 x1 x2 : x1 <> c1 -> x1 <> c2 -> x2 <> c1 -> x2 <> c2 ->
  forall k1 k2 r1 r2,
  (repeat_char c1 k1 ++ x1 :: r1)%list = (repeat_char c2 k2 ++ x2 :: r2)%list ->
  k1 = k2 /\ x1 = x2 /\ r1 = r2 /\ (0 < k1 -> c1 = c2).
Proof.
  intros H11 H12 H21 H22. induction k1 as [|k1 IH]; intros [|k2] r1 r2 H; simpl in H.
  - injection H as -> ->. repeat split; auto. lia.
  - injection H as -> _. congruence.
  - injection H as <- _. congruence.
  - injection H as -> H. destruct (IH _ _ _ H) as (-> & -> & -> & _). repeat split; auto.
Qed.

Definition suffix_of (ch : Z) : ascii * nat :=
  if (0 <=? ch)%Z then ("I"%char, Z.to_nat (ch + 1)) else ("M"%char, Z.to_nat (- ch)).

Lemma alias_of_chars surf b ch :
  chars (alias_of surf b ch) =
  ((if surf then ["G"%char] else []) ++ chars b ++ repeat_char (fst (suffix_of ch)) (snd (suffix_of ch)))%list.
Proof.
  unfold alias_of, suffix_of. rewrite !chars_app.
  destruct surf; destruct (0 <=? ch)%Z; simpl; rewrite chars_repeat_string; reflexivity.
Qed.

Lemma chars_inj a b : chars a = chars b -> a = b.
Proof.
  intro H. rewrite <- (string_of_list_ascii_of_string a), <- (string_of_list_ascii_of_string b).
  unfold chars in H. rewrite H. reflexivity.
Qed.

Lemma alias_injective_lemma s1 b1 c1 s2 b2 c2 :
  alias_safe s1 b1 = true -> alias_safe s2 b2 = true ->
  alias_of s1 b1 c1 = alias_of s2 b2 c2 -> s1 = s2 /\ b1 = b2 /\ c1 = c2.
Proof.
  intros S1 S2 H. apply (f_equal chars) in H. rewrite !alias_of_chars in H.
  unfold alias_safe in S1, S2. apply andb_true_iff in S1, S2.
  destruct S1 as [L1 G1], S2 as [L2 G2].
  destruct (rev (chars b1)) as [|x1 r1] eqn:E1; [discriminate|].
  destruct (rev (chars b2)) as [|x2 r2] eqn:E2; [discriminate|].
  apply andb_true_iff in L1, L2. destruct L1 as [L1i L1m], L2 as [L2i L2m].
  apply negb_true_iff in L1i, L1m, L2i, L2m.
  assert (forall x, Ascii.eqb x "I"%char = false -> Ascii.eqb x "M"%char = false ->
          forall ch, x <> fst (suffix_of ch)) as Hne.
  { intros x Hi Hm ch E. unfold suffix_of in E. destruct (0 <=? ch)%Z; simpl in E; subst; discriminate. }
  apply (f_equal (@rev ascii)) in H. rewrite !rev_app_distr, !rev_repeat_char, E1, E2 in H.
  simpl in H. rewrite <- !app_assoc in H. simpl in H.
  destruct (suffix_unique _ _ x1 x2 (Hne _ L1i L1m c1) (Hne _ L1i L1m c2) (Hne _ L2i L2m c1) (Hne _ L2i L2m c2)
              _ _ _ _ H) as (Hk & -> & Hr & Hc).
  assert (c1 = c2) as ->.
  { unfold suffix_of in Hk, Hc. destruct (Z.leb_spec 0 c1); destruct (Z.leb_spec 0 c2); simpl in *; try lia.
    - assert ("I"%char = "M"%char) by (apply Hc; lia). discriminate.
    - assert ("M"%char = "I"%char) by (apply Hc; lia). discriminate. }
  apply (f_equal (@rev ascii)) in Hr. rewrite !rev_app_distr in Hr.
  assert (chars b1 = rev (x2 :: r1)) as B1 by (rewrite <- E1, rev_involutive; reflexivity).
  assert (chars b2 = rev (x2 :: r2)) as B2 by (rewrite <- E2, rev_involutive; reflexivity).
  simpl in B1, B2.
  destruct s1, s2; simpl in Hr.
  - injection Hr as Hr. split; auto. split; auto. apply chars_inj. rewrite B1, B2, Hr. reflexivity.
  - exfalso. simpl in G2. apply negb_true_iff in G2.
    rewrite B2, <- Hr in G2. simpl in G2. discriminate.
  - exfalso. simpl in G1. apply negb_true_iff in G1.
    rewrite B1, Hr in G1. simpl in G1. discriminate.
  - split; auto. split; auto. apply chars_inj. rewrite B1, B2, Hr. reflexivity.
Qed.

Lemma alias_shape_lemma T symtab s :
  alias T symtab s = alias_of (is_surface s) (norm_basename T symtab s) (charge s).
Proof. unfold alias, alias_of, norm_basename. reflexivity. Qed.
