(** C17: what rendering can depend on besides the network description. *)
From Coq Require Import List Arith Bool String.
From Naunet Require Import Lib.ListX Model.Globals.
Import ListNotations.
Open Scope string_scope.

(* a description that carries its own element lists sees exactly them, whatever was built before *)
Lemma explicit_frame_lemma de dp d ds1 ds2 :
  nd_elements d <> [] \/ nd_pseudo d <> [] ->
  tables_seen de dp ds1 d = tables_seen de dp ds2 d /\
  tables_seen de dp ds1 d = (nd_elements d, nd_pseudo d).
Proof.
  intro H. unfold tables_seen, effective, build. simpl.
  destruct (nd_elements d) as [|e es] eqn:E1; destruct (nd_pseudo d) as [|p ps] eqn:E2; simpl.
  - destruct H; congruence.
  - split; reflexivity.
  - split; reflexivity.
  - split; reflexivity.
Qed.

(* a description that relies on the defaults sees the lists of whatever network was built last *)
Definition custom : ndesc := {| nd_elements := ["H"; "C"; "O"]; nd_pseudo := ["CR"]; nd_binding := [("#CO", "9999.0")] |}.
Definition plain : ndesc := {| nd_elements := []; nd_pseudo := []; nd_binding := [] |}.

Lemma default_leak_lemma de dp : de <> ["H"; "C"; "O"] ->
  tables_seen de dp [] plain = (de, dp) /\ tables_seen de dp [custom] plain = (["H"; "C"; "O"], ["CR"]) /\
  tables_seen de dp [] plain <> tables_seen de dp [custom] plain.
Proof.
  intro H. unfold tables_seen, history, build, effective. simpl. repeat split. intro E. apply H. injection E as E _. exact E.
Qed.

Lemma binding_leak_lemma :
  binding_seen [] plain "#CO" = None /\ binding_seen [custom] plain "#CO" = Some "9999.0".
Proof. split; reflexivity. Qed.
