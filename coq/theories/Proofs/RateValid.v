(** C05: validity of every emitted string as C *)
From Coq Require Import List Arith Bool String Ascii ZArith.
From Naunet Require Import Lib.ListX Lib.PyStr Model.CExpr Model.RateGas.
Import ListNotations.
(** without the sign clean-up the emitted text is not C: gamma < 0 gives "exp(--m/Tgas)" *)
Lemma native_unbeautified_refuted_lemma :
  match native_rate Pos Pos Neg false 100 101 102 110 111 120 1000 100%Z with
  | inr s => parse s = None /\ no_bad_token s = false
  | inl _ => False
  end.
Proof. vm_compute. split; reflexivity. Qed.

(** every emitted string is valid C: it parses and holds no fused operator *)
Definition valid_c (r : refusal + txt) : bool :=
  match r with
  | inr s => no_bad_token s && match parse s with Some _ => true | None => false end
  | inl _ => true
  end.
Definition all_cls : list cls := [Pos; Neg; Zero; NegZero].
Definition all3 (f : cls -> cls -> cls -> bool) : bool :=
  forallb (fun ka => forallb (fun kb => forallb (fun kc => f ka kb kc) all_cls) all_cls) all_cls.

Lemma all3_spec f : all3 f = true -> forall ka kb kc, f ka kb kc = true.
Proof.
  unfold all3, all_cls. intros H ka kb kc. simpl in H.
  rewrite !andb_true_iff in H. destruct ka, kb, kc; tauto.
Qed.

Lemma valid_c_lemma (beaut : bool) : beaut = true -> forall ka kb kc,
  forallb (fun f => valid_c (kida_rate ka kb kc f)) [1; 2; 3; 4; 5; 6; 7]%Z = true /\
  forallb (fun ty => valid_c (umist_rate ka kb kc 100 102 101 120 ty)) [Some 100; Some 101; Some 102; Some 120; None]%Z = true /\
  forallb (fun rt => valid_c (leeds_rate ka kb kc rt "") &&
                     valid_c (leeds_rate ka kb kc rt "GetShieldingFactor(IDX_H2I, h2col, h2col, Tgas, 0)"))
          [1; 2; 3; 4; 5; 11; 12; 15; 16; 17; 18; 19]%Z = true /\
  forallb (fun ty => valid_c (uclchem_rate ka kb kc 100 101 120 102 ty false) && valid_c (uclchem_rate ka kb kc 100 101 120 102 ty true))
          [100; 101; 102; 120]%Z = true /\
  forallb (fun ty => valid_c (native_rate ka kb kc beaut 100 101 102 110 111 120 1000 ty))
          [100; 101; 102; 110; 111; 120; 1000]%Z = true.
Proof.
  intros -> ka kb kc.
  repeat split; revert ka kb kc; apply all3_spec; vm_compute; reflexivity.
Qed.
