(** C05: Leeds gas-phase types *)
From Coq Require Import List Arith Bool String Ascii ZArith Reals Lra.
From Naunet Require Import Lib.ListX Lib.PyStr Model.CExpr Model.RateGas Proofs.RateSem.
Import ListNotations.
Open Scope R_scope.

Section Laws.
Variable litv : list ascii -> R.
Variable var : list ascii -> R.
Variable fn : list ascii -> list R -> R.
Variable mag : nat -> R.
Variable idx : list ascii -> R -> R.
Variable nm : nat -> R.
Hypothesis lit0 : litv ["0"; "."; "0"]%char = 0.
Hypothesis pow0 : forall x, fn ["p"; "o"; "w"]%char [x; 0] = 1.
Hypothesis exp0 : fn ["e"; "x"; "p"]%char [0] = 1.
Notation sem := (sem litv var fn mag idx nm).
Notation cval := (cval mag).
Notation V := (V var).
Notation Lt := (Lt litv).
Notation T := (T var).
Notation F2 := (F2 fn).
Notation law_arrhenius := (law_arrhenius litv var fn).
Notation law_cosmicray := (law_cosmicray var).
Notation law_photo := (law_photo var fn).
Notation law_ionpol1 := (law_ionpol1 litv var fn).
Notation law_ionpol2 := (law_ionpol2 litv var fn).
Notation law_crphot := (law_crphot litv var fn).
Ltac law := RateSem.law fn lit0 pow0 exp0.
Definition shield_call (idx col : string) (flag : string) : R :=
  fn (chars "GetShieldingFactor") [V idx; V "h2col"; V col; T; Lt flag].
(** Leeds gas-phase types *)
Definition zcr := V "zeta_cr" + V "zeta_xr".
Lemma leeds1_lemma ka kb kc :
  sem (leeds_rate ka kb kc 1 "") = Some (law_arrhenius (cval ka 0) (cval kb 1) (cval kc 2)).
Proof. unfold law_arrhenius. destruct ka, kb, kc; law. Qed.
Lemma leeds2_lemma ka kb kc :
  sem (leeds_rate ka kb kc 2 "") = Some (cval ka 0 * zcr / V "zism").
Proof. unfold zcr. destruct ka, kb, kc; law. Qed.
Lemma leeds3_lemma ka kb kc :
  sem (leeds_rate ka kb kc 3 "") =
  Some (cval ka 0 * (zcr / V "zism") * F2 "pow" (T / Lt "300.0") (cval kb 1) * cval kc 2 / (Lt "1.0" - V "omega")).
Proof. unfold zcr. destruct ka, kb, kc; law. Qed.
Lemma leeds4_lemma ka kb kc :
  sem (leeds_rate ka kb kc 4 "") = Some (V "G0" * law_photo (cval ka 0) (cval kc 2)).
Proof. unfold law_photo. destruct ka, kb, kc; law. Qed.
Lemma leeds4_shield_lemma ka kb kc :
  sem (leeds_rate ka kb kc 4 "GetShieldingFactor(IDX_COI, h2col, cocol, Tgas, 0)") =
  Some (V "G0" * law_photo (cval ka 0) (cval kc 2) * shield_call "IDX_COI" "cocol" "0").
Proof. unfold law_photo, shield_call. destruct ka, kb, kc; law. Qed.
Lemma leeds11_lemma ka kb kc :
  sem (leeds_rate ka kb kc 11 "") =
  Some (cval ka 0 * (zcr / V "zism") * F2 "pow" (T / Lt "300.0") (cval kb 1) * cval kc 2 / (Lt "1.0" - V "omega")).
Proof. unfold zcr. destruct ka, kb, kc; law. Qed.
Lemma leeds12_lemma ka kb kc :
  sem (leeds_rate ka kb kc 12 "") = Some (V "G0" * law_photo (cval ka 0) (cval kc 2)).
Proof. unfold law_photo. destruct ka, kb, kc; law. Qed.

End Laws.
