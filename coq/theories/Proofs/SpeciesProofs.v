(** C08: lemmas about the species-name parser. *)
From Coq Require Import List Arith Bool String Ascii ZArith NArith Lia Permutation.
From Naunet Require Import Lib.ListX Lib.PyStr Lib.Sexp Model.Species Model.SpeciesSpec.
Import ListNotations.

(** ** insertion sort keeps the elements *)
Lemma insert_sorted_in {X} (leb : X -> X -> bool) x l y :
  In y (insert_sorted leb x l) <-> y = x \/ In y l.
Proof.
  induction l as [|a l IH]; simpl. intuition.
  destruct (leb x a); simpl; [intuition | rewrite IH; intuition].
Qed.
Lemma isort_in {X} (leb : X -> X -> bool) l y : In y (isort leb l) <-> In y l.
Proof.
  induction l as [|a l IH]; simpl. tauto. rewrite insert_sorted_in, IH. intuition.
Qed.

(** ** list facts missing from the 8.16 standard library *)
Lemma nth_error_firstn_lt {X} (l : list X) : forall n k, k < n -> nth_error (firstn n l) k = nth_error l k.
Proof.
  induction l as [|x l IH]; intros [|n] [|k] H; simpl; auto; try lia. apply IH. lia.
Qed.
Lemma nth_error_skipn_add {X} (l : list X) : forall n k, nth_error (skipn n l) k = nth_error l (n + k).
Proof.
  induction l as [|x l IH]; intros [|n] k; simpl; auto. destruct (n + k); destruct k; auto.
Qed.
Lemma skipn_skipn_add {X} (l : list X) : forall a b, skipn a (skipn b l) = skipn (b + a) l.
Proof.
  induction l as [|x l IH]; intros a [|b]; simpl; auto. rewrite skipn_nil. destruct a; auto.
Qed.

(** ** slices *)
Lemma nth_error_slice (s : list ascii) a b k : k < b - a ->
  nth_error (slice s a b) k = nth_error s (a + k).
Proof.
  intro H. unfold slice. rewrite nth_error_firstn_lt by auto. apply nth_error_skipn_add.
Qed.

Lemma all_digits_forall l : all_digits l = true -> forallb is_digit l = true.
Proof. destruct l; simpl; [discriminate | auto]. Qed.

Lemma forallb_nth_error {X} (p : X -> bool) l k x :
  forallb p l = true -> nth_error l k = Some x -> p x = true.
Proof.
  intros H Hk. rewrite forallb_forall in H. apply H. eapply nth_error_In; eauto.
Qed.

(** ** the gaps between consecutive matches must be digit runs *)
Definition gap_ok (pn : list ascii) (z : nat * nat * string) : Prop :=
  let '(s, e, _) := z in e = s \/ all_digits (slice pn e s) = true.

Lemma count_loop_gaps T Y pn zs : forall st st',
  count_loop T Y pn zs st = inr st' -> Forall (gap_ok pn) zs.
Proof.
  induction zs as [|[[s e] n] zs IH]; intros st st' H; constructor.
  - simpl in H. unfold gap_ok. destruct (Nat.eqb_spec e s); auto. right.
    simpl in H. destruct (all_digits (slice pn e s)); auto. discriminate.
  - simpl in H.
    match type of H with (match ?X with _ => _ end) = _ => destruct X eqn:E end; try discriminate.
    eapply IH; eauto.
Qed.

Fixpoint gaps_ok (pn : list ascii) (p : nat) (spans : list (nat * nat)) (L : nat) : Prop :=
  match spans with
  | [] => p = L \/ all_digits (slice pn p L) = true
  | (s, e) :: r => (p = s \/ all_digits (slice pn p s) = true) /\ gaps_ok pn e r L
  end.

Lemma zs_gaps pn L ms : forall p (n0 : string),
  Forall (gap_ok pn)
    (combine (combine (map m_start ms ++ [L]) (p :: map m_end ms)) (n0 :: map (fun m => str (m_text m)) ms)) ->
  gaps_ok pn p (map (fun m => (m_start m, m_end m)) ms) L.
Proof.
  induction ms as [|m ms IH]; intros p n0 H; simpl in *.
  - inversion H; subst. unfold gap_ok in H2. auto.
  - inversion H; subst. unfold gap_ok in H2. split; auto. eapply IH; eauto.
Qed.

Lemma gaps_cover pn spans : forall p L i c,
  gaps_ok pn p spans L -> p <= i < L -> nth_error pn i = Some c ->
  is_digit c = true \/ exists s e, In (s, e) spans /\ s <= i < e.
Proof.
  induction spans as [|[s e] r IH]; intros p L i c H Hi Hc; simpl in H.
  - destruct H as [->|H]. lia. left.
    apply all_digits_forall in H. apply (forallb_nth_error is_digit _ (i - p) c H).
    rewrite nth_error_slice by lia. replace (p + (i - p)) with i by lia. exact Hc.
  - destruct H as [Hgap Hrest].
    destruct (Nat.lt_ge_cases i s) as [Hlt|Hge].
    + left. destruct Hgap as [->|Hd]. lia.
      apply all_digits_forall in Hd. apply (forallb_nth_error is_digit _ (i - p) c Hd).
      rewrite nth_error_slice by lia. replace (p + (i - p)) with i by lia. exact Hc.
    + destruct (Nat.lt_ge_cases i e) as [Hie|Hie].
      * right. exists s, e. simpl; auto.
      * destruct (IH e L i c Hrest) as [Hd|(s' & e' & Hin & Hr)]; auto. lia.
        right. exists s', e'. simpl; auto.
Qed.

(** every character of the parsed name (charge signs stripped) is a digit or lies
    inside a match of a configured component *)
Theorem parse_covers_lemma T Y name sp :
  parse_species T Y name = inr sp ->
  forall i c, nth_error (parsename_of (chars name)) i = Some c ->
  is_digit c = true \/
  exists m, In m (scan (components T Y) (parsename_of (chars name)) []) /\ m_start m <= i < m_end m.
Proof.
  unfold parse_species. set (pn := parsename_of (chars name)).
  set (ms := isort by_start (scan (components T Y) pn [])).
  intros H i c Hc.
  destruct (map m_start ms ++ [List.length pn])%list as [|s0 rest] eqn:Est. discriminate.
  destruct s0; [|discriminate].
  destruct (count_loop T Y pn (combine (combine (0 :: rest) (0 :: map m_end ms))
              ("" :: map (fun m : mtch => str (m_text m)) ms))
              {| p_counts := []; p_surface := None; p_grain := None |}) eqn:El; [discriminate|].
  apply count_loop_gaps in El. rewrite <- Est in El.
  apply zs_gaps in El.
  assert (Hi : i < List.length pn) by (apply nth_error_Some; congruence).
  destruct (gaps_cover pn _ 0 (List.length pn) i c El) as [Hd|(s & e & Hin & Hr)]; auto. lia.
  right. apply in_map_iff in Hin. destruct Hin as (m & Heq & Hm). inversion Heq; subst.
  exists m. split; auto. subst ms. apply (proj1 (isort_in by_start _ m)) in Hm. exact Hm.
Qed.

(** ** the matches are occurrences of configured components in the name *)
Lemma starts_with_length p : forall s, starts_with p s = true -> List.length p <= List.length s.
Proof.
  induction p as [|a p IH]; intros [|b s] H; simpl in *; try lia; try discriminate.
  apply andb_true_iff in H. destruct H as [_ H]. apply IH in H. lia.
Qed.

Lemma starts_with_nth p : forall s k c, starts_with p s = true -> nth_error p k = Some c -> nth_error s k = Some c.
Proof.
  induction p as [|a p IH]; intros [|b s] k c H Hk; simpl in *; try discriminate;
    try (destruct k; discriminate).
  - apply andb_true_iff in H. destruct H as [Hab H]. apply Ascii.eqb_eq in Hab. subst.
    destruct k; simpl in *; auto.
Qed.

Lemma find_all_from_sound p : forall fuel s pos st,
  In st (find_all_from fuel p s pos) ->
  exists k, st = pos + k /\ starts_with p (skipn k s) = true.
Proof.
  induction fuel as [|f IH]; intros s pos st H; simpl in H. destruct H.
  destruct s as [|c s']. destruct H.
  destruct (starts_with p (c :: s')) eqn:E.
  - destruct H as [<-|H].
    + exists 0. split; [lia | auto].
    + apply IH in H. destruct H as (k & -> & Hk). exists (List.length p + k). split. lia.
      rewrite skipn_skipn_add in Hk. exact Hk.
  - apply IH in H. destruct H as (k & -> & Hk). exists (S k). split. lia. auto.
Qed.

Lemma find_all_sound p s st : In st (find_all p s) -> starts_with p (skipn st s) = true.
Proof.
  unfold find_all. destruct p as [|a p]. intros [].
  intro H. apply find_all_from_sound in H. destruct H as (k & -> & H). auto.
Qed.

(** masked strings: same length, each character the original one or a blank *)
Definition masked_of (pn s : list ascii) : Prop :=
  List.length s = List.length pn /\
  forall i c, nth_error s i = Some c -> c = " "%char \/ nth_error pn i = Some c.

Lemma repeat_char_length c n : List.length (repeat_char c n) = n.
Proof. induction n; simpl; auto. Qed.
Lemma repeat_char_nth c n i x : nth_error (repeat_char c n) i = Some x -> x = c.
Proof. revert i. induction n; intros [|i] H; simpl in *; try discriminate; [congruence | eauto]. Qed.

Lemma mask_masked pn s a b : masked_of pn s -> a <= b <= List.length s -> masked_of pn (mask s a b).
Proof.
  intros [Hl Hc] Hab. unfold mask. split.
  - rewrite !app_length, firstn_length, repeat_char_length, skipn_length. lia.
  - intros i c Hi.
    destruct (Nat.lt_ge_cases i a) as [Hia|Hia].
    + rewrite nth_error_app1 in Hi by (rewrite firstn_length; lia).
      rewrite nth_error_firstn_lt in Hi by lia. auto.
    + rewrite nth_error_app2 in Hi by (rewrite firstn_length; lia).
      rewrite firstn_length in Hi. replace (Nat.min a (List.length s)) with a in Hi by lia.
      destruct (Nat.lt_ge_cases i b) as [Hib|Hib].
      * rewrite nth_error_app1 in Hi by (rewrite repeat_char_length; lia).
        left. eapply repeat_char_nth; eauto.
      * rewrite nth_error_app2 in Hi by (rewrite repeat_char_length; lia).
        rewrite repeat_char_length, nth_error_skipn_add in Hi.
        replace (b + (i - a - (b - a))) with i in Hi by lia. auto.
Qed.

Definition no_blank (t : list ascii) : Prop := ~ In " "%char t.

(* a match of a blank-free text in a masked string is a match in the original *)
Lemma masked_match pn s t st : masked_of pn s -> no_blank t -> t <> [] ->
  starts_with t (skipn st s) = true -> starts_with t (skipn st pn) = true /\ st + List.length t <= List.length pn.
Proof.
  intros [Hl Hc] Hnb Hne H. split.
  - clear Hl Hne. revert st H. induction t as [|a t IH]; intros st H; auto.
    assert (nth_error (skipn st s) 0 = Some a) as H0 by (eapply starts_with_nth; eauto; reflexivity).
    rewrite nth_error_skipn_add, Nat.add_0_r in H0.
    destruct (Hc _ _ H0) as [->|Hp]. { exfalso. apply Hnb. simpl; auto. }
    destruct (skipn st s) as [|b r] eqn:Es. discriminate.
    simpl in H. apply andb_true_iff in H. destruct H as [_ H].
    assert (skipn (S st) s = r) as Hr.
    { replace (S st) with (st + 1) by lia. rewrite <- skipn_skipn_add, Es. auto. }
    assert (exists r', skipn st pn = a :: r' /\ skipn (S st) pn = r') as (r' & Hp1 & Hp2).
    { clear - Hp. revert st Hp. induction pn as [|x pn IHp]; intros [|st] Hp; simpl in *; try discriminate.
      - injection Hp as ->. eauto.
      - apply IHp in Hp. destruct Hp as (r' & H1 & H2). exists r'. split; auto. }
    rewrite Hp1. simpl. rewrite Ascii.eqb_refl. simpl. rewrite <- Hp2. apply IH.
    + intro Hin. apply Hnb. simpl; auto.
    + rewrite Hr. auto.
  - apply starts_with_length in H. rewrite skipn_length in H.
    destruct t; [congruence | simpl in *; lia].
Qed.

Definition comp_match (pn : list ascii) (comps : list string) (m : mtch) : Prop :=
  exists c, In c comps /\ m_text m = unescape (chars c) /\
            m_end m = m_start m + List.length (m_text m) /\
            starts_with (m_text m) (skipn (m_start m) pn) = true /\ m_end m <= List.length pn.

Lemma fold_mask_masked pn n starts : forall s,
  masked_of pn s -> Forall (fun st => st + n <= List.length pn) starts ->
  masked_of pn (fold_left (fun cur st => mask cur st (st + n)) starts s).
Proof.
  induction starts as [|st r IH]; intros s Hs Hall; simpl; auto.
  inversion Hall; subst. apply IH; auto. apply mask_masked; auto.
  destruct Hs as [Hl _]. lia.
Qed.

Lemma scan_matches pn comps : forall s acc,
  Forall (fun c => no_blank (unescape (chars c))) comps ->
  masked_of pn s -> Forall (comp_match pn comps) acc ->
  Forall (comp_match pn comps) (scan comps s acc).
Proof.
  assert (Hgen : forall all cs s acc, incl cs all ->
    Forall (fun c => no_blank (unescape (chars c))) cs ->
    masked_of pn s -> Forall (comp_match pn all) acc -> Forall (comp_match pn all) (scan cs s acc)).
  { intros all cs. induction cs as [|c r IH]; intros s acc Hincl Hnb Hs Hacc; simpl; auto.
    apply Forall_cons_iff in Hnb. destruct Hnb as [Hnbc Hnb].
    assert (Hst : Forall (fun st => starts_with (unescape (chars c)) (skipn st pn) = true /\
                                    st + List.length (unescape (chars c)) <= List.length pn)
                         (find_all (unescape (chars c)) s)).
    { apply Forall_forall. intros st Hin.
      assert (unescape (chars c) <> []) as Hne by (intro E; rewrite E in Hin; destruct Hin).
      apply find_all_sound in Hin. eapply masked_match; eauto. }
    apply IH.
    - intros x Hx. apply Hincl. simpl; auto.
    - auto.
    - apply fold_mask_masked; auto. eapply Forall_impl; [|exact Hst]. simpl. tauto.
    - apply Forall_app. split; auto. apply Forall_forall. intros m Hm.
      apply in_map_iff in Hm. destruct Hm as (st & <- & Hin).
      rewrite Forall_forall in Hst. destruct (Hst _ Hin) as [H1 H2].
      exists c. simpl. repeat split; auto. apply Hincl. simpl; auto. }
  intros s acc. apply Hgen. apply incl_refl.
Qed.

(** ** rejection of foreign characters *)
Definition wf_tables (T : tables) (Y : symbols) : Prop :=
  Forall (fun c => no_blank (unescape (chars c))) (components T Y).

Theorem foreign_rejected_lemma T Y name sp : wf_tables T Y ->
  parse_species T Y name = inr sp ->
  forall i c, nth_error (parsename_of (chars name)) i = Some c ->
  is_digit c = true \/ exists comp, In comp (components T Y) /\ In c (unescape (chars comp)).
Proof.
  intros Hwf H i c Hc.
  destruct (parse_covers_lemma T Y name sp H i c Hc) as [Hd|(m & Hm & Hi)]; auto. right.
  pose proof (scan_matches (parsename_of (chars name)) (components T Y) (parsename_of (chars name)) [] Hwf) as Hs.
  assert (masked_of (parsename_of (chars name)) (parsename_of (chars name))) as Hself by (split; auto).
  specialize (Hs Hself (Forall_nil _)). rewrite Forall_forall in Hs.
  destruct (Hs _ Hm) as (comp & Hin & Htext & Hend & Hsw & Hlen).
  exists comp. split; auto. rewrite <- Htext.
  assert (nth_error (m_text m) (i - m_start m) = Some c) as Hn.
  { destruct (nth_error (m_text m) (i - m_start m)) eqn:E.
    - pose proof (starts_with_nth _ _ _ _ Hsw E) as H1. rewrite nth_error_skipn_add in H1.
      replace (m_start m + (i - m_start m)) with i in H1 by lia. congruence.
    - apply nth_error_None in E. lia. }
  eapply nth_error_In; eauto.
Qed.

(** ** charge *)
Lemma forallb_eqb_repeat c n : forallb (Ascii.eqb c) (repeat_char c n) = true.
Proof. induction n; simpl; auto. rewrite Ascii.eqb_refl. auto. Qed.

Lemma count_trailing_repeat c n : count_trailing_l c (repeat_char c n) = n.
Proof.
  destruct n; simpl; auto. rewrite Ascii.eqb_refl, forallb_eqb_repeat. simpl.
  rewrite repeat_char_length. auto.
Qed.

Lemma forallb_app_false {X} (p : X -> bool) l1 x l2 : p x = false -> forallb p (l1 ++ x :: l2)%list = false.
Proof.
  intro H. rewrite forallb_app. simpl. rewrite H. simpl. apply andb_false_r.
Qed.

Lemma count_trailing_app c pre x n : x <> c ->
  count_trailing_l c (pre ++ x :: repeat_char c n)%list = n.
Proof.
  intro Hx. assert (Ascii.eqb c x = false) as Hf.
  { apply not_true_is_false. intro E. apply Ascii.eqb_eq in E. congruence. }
  induction pre as [|a pre IH].
  - cbn [app count_trailing_l]. cbn [forallb]. rewrite Hf. cbn [andb]. apply count_trailing_repeat.
  - cbn [app count_trailing_l].
    change (a :: pre ++ x :: repeat_char c n)%list with ((a :: pre) ++ x :: repeat_char c n)%list.
    rewrite (forallb_app_false (Ascii.eqb c) (a :: pre) x _ Hf). exact IH.
Qed.

Lemma repeat_char_snoc c n : repeat_char c (S n) = (repeat_char c n ++ [c])%list.
Proof. induction n; simpl in *; auto. f_equal. exact IHn. Qed.

Lemma count_trailing_other c d pre n : d <> c -> 0 < n ->
  count_trailing_l c (pre ++ repeat_char d n)%list = 0.
Proof.
  intros Hd Hn. destruct n as [|n]; [lia|]. rewrite repeat_char_snoc, app_assoc.
  apply (count_trailing_app c (pre ++ repeat_char d n)%list d 0 Hd).
Qed.

(** charge of a name [pre ++ x :: signs]: the number of trailing '+' minus the
    number of trailing '-' *)
Lemma charge_plus_lemma T Y pre x n sp :
  t_replacement T = [] -> x <> "+"%char -> x <> "-"%char ->
  parse_species T Y (str (pre ++ x :: repeat_char "+"%char n)) = inr sp ->
  is_electron sp = false -> charge sp = Z.of_nat n.
Proof.
  intros Hr Hp Hm H He. unfold charge. rewrite He.
  assert (sp_name sp = str (pre ++ x :: repeat_char "+"%char n)) as Hn.
  { unfold parse_species in H. rewrite Hr in H.
    repeat match type of H with
           | (match ?X with _ => _ end) = _ => destruct X; try discriminate
           end.
    injection H as <-. reflexivity. }
  rewrite Hn. unfold chars. rewrite list_ascii_of_string_of_list_ascii.
  rewrite count_trailing_app by auto.
  destruct n as [|n].
  - change (repeat_char "+"%char 0) with (repeat_char "-"%char 0).
    rewrite (count_trailing_app "-"%char pre x 0) by auto. lia.
  - change (pre ++ x :: repeat_char "+"%char (S n))%list with (pre ++ [x] ++ repeat_char "+"%char (S n))%list.
    rewrite app_assoc. rewrite count_trailing_other; [lia | discriminate | lia].
Qed.

Lemma charge_minus_lemma T Y pre x n sp :
  t_replacement T = [] -> x <> "+"%char -> x <> "-"%char ->
  parse_species T Y (str (pre ++ x :: repeat_char "-"%char n)) = inr sp ->
  is_electron sp = false -> charge sp = (- Z.of_nat n)%Z.
Proof.
  intros Hr Hp Hm H He. unfold charge. rewrite He.
  assert (sp_name sp = str (pre ++ x :: repeat_char "-"%char n)) as Hn.
  { unfold parse_species in H. rewrite Hr in H.
    repeat match type of H with
           | (match ?X with _ => _ end) = _ => destruct X; try discriminate
           end.
    injection H as <-. reflexivity. }
  rewrite Hn. unfold chars. rewrite list_ascii_of_string_of_list_ascii.
  rewrite (count_trailing_app "-"%char) by auto.
  destruct n as [|n].
  - change (repeat_char "-"%char 0) with (repeat_char "+"%char 0).
    rewrite (count_trailing_app "+"%char pre x 0) by auto. lia.
  - change (pre ++ x :: repeat_char "-"%char (S n))%list with (pre ++ [x] ++ repeat_char "-"%char (S n))%list.
    rewrite app_assoc. rewrite count_trailing_other; [lia | discriminate | lia].
Qed.

(** ** longest symbol first: the component list is sorted by length, descending *)
From Coq Require Import Sorted.
Lemma insert_sorted_sorted (x : string) l :
  StronglySorted (fun a b => String.length b <= String.length a) l ->
  StronglySorted (fun a b => String.length b <= String.length a) (insert_sorted by_len_desc x l).
Proof.
  induction 1 as [|a l Hs IH Ha]; simpl. repeat constructor.
  unfold by_len_desc at 1. destruct (Nat.leb_spec (String.length a) (String.length x)).
  - constructor. constructor; auto. constructor; auto.
    rewrite Forall_forall in *. intros y Hy. specialize (Ha y Hy). lia.
  - constructor; auto. rewrite Forall_forall in *. intros y Hy.
    apply insert_sorted_in in Hy. destruct Hy as [->|Hy]; [lia | auto].
Qed.
Lemma components_sorted_lemma T Y :
  StronglySorted (fun a b => String.length b <= String.length a) (components T Y).
Proof.
  unfold components. induction (t_elements T ++ t_pseudo T ++ [y_grain Y; y_surface Y])%list; simpl.
  constructor. apply insert_sorted_sorted. auto.
Qed.

(** ** characters claimed by an earlier (longer) component are never reused *)
Definition span_disjoint (a b : mtch) : Prop := m_end a <= m_start b \/ m_end b <= m_start a.

Definition blanked (s : list ascii) (acc : list mtch) : Prop :=
  forall m, In m acc -> m_start m < m_end m /\
    forall i, m_start m <= i < m_end m -> nth_error s i = Some " "%char.

Lemma mask_keeps_blank s a b i : nth_error s i = Some " "%char -> a <= b <= List.length s ->
  nth_error (mask s a b) i = Some " "%char.
Proof.
  intros H Hab. assert (masked_of s s) as Hs by (split; auto).
  pose proof (mask_masked s s a b Hs Hab) as [Hl Hc].
  assert (i < List.length s) as Hi by (apply nth_error_Some; congruence).
  destruct (nth_error (mask s a b) i) eqn:E.
  - destruct (Hc _ _ E) as [->|E2]; auto. congruence.
  - apply nth_error_None in E. lia.
Qed.

Lemma mask_sets_blank s a b i : a <= i < b -> b <= List.length s ->
  nth_error (mask s a b) i = Some " "%char.
Proof.
  intros Hi Hb. unfold mask.
  rewrite nth_error_app2 by (rewrite firstn_length; lia).
  rewrite firstn_length. replace (Nat.min a (List.length s)) with a by lia.
  rewrite nth_error_app1 by (rewrite repeat_char_length; lia).
  assert (forall n k, k < n -> nth_error (repeat_char " "%char n) k = Some " "%char) as Hrep.
  { induction n; intros [|k] Hk; simpl; auto; try lia. apply IHn. lia. }
  apply Hrep. lia.
Qed.

Lemma mask_length s a b : a <= b <= List.length s -> List.length (mask s a b) = List.length s.
Proof.
  intro H. unfold mask. rewrite !app_length, firstn_length, repeat_char_length, skipn_length. lia.
Qed.

Lemma fold_mask_blank n starts : forall s i,
  Forall (fun st => st + n <= List.length s) starts ->
  (nth_error s i = Some " "%char \/ exists st, In st starts /\ st <= i < st + n) ->
  nth_error (fold_left (fun cur st => mask cur st (st + n)) starts s) i = Some " "%char.
Proof.
  induction starts as [|st r IH]; intros s i Hall H; simpl.
  - destruct H as [H|(st & [] & _)]. exact H.
  - inversion Hall as [|? ? Hst Hr]; subst. apply IH.
    + rewrite mask_length by lia. exact Hr.
    + destruct H as [H|(st' & [<-|Hin] & Hi)].
      * left. apply mask_keeps_blank; auto. lia.
      * left. apply mask_sets_blank; lia.
      * right. exists st'. auto.
Qed.

(* a blank-free text cannot match across a blank *)
Lemma match_not_blank t s st i : no_blank t -> starts_with t (skipn st s) = true ->
  st <= i < st + List.length t -> nth_error s i <> Some " "%char.
Proof.
  intros Hnb Hsw Hi Hb.
  destruct (nth_error t (i - st)) eqn:E.
  - pose proof (starts_with_nth _ _ _ _ Hsw E) as H1. rewrite nth_error_skipn_add in H1.
    replace (st + (i - st)) with i in H1 by lia. rewrite Hb in H1. injection H1 as <-.
    apply Hnb. eapply nth_error_In; eauto.
  - apply nth_error_None in E. lia.
Qed.

Lemma find_all_from_spaced p : p <> [] -> forall fuel s pos,
  StronglySorted (fun a b => a + List.length p <= b) (find_all_from fuel p s pos) /\
  Forall (fun a => pos <= a) (find_all_from fuel p s pos).
Proof.
  intro Hp. induction fuel as [|f IH]; intros s pos; simpl. split; constructor.
  destruct s as [|c s']. split; constructor.
  destruct (starts_with p (c :: s')).
  - destruct (IH (skipn (List.length p) (c :: s')) (pos + List.length p)) as [H1 H2]. split.
    + constructor; auto.
    + constructor. lia. eapply Forall_impl; [|exact H2]. simpl. intros; lia.
  - destruct (IH s' (S pos)) as [H1 H2]. split; auto.
    eapply Forall_impl; [|exact H2]. simpl. intros; lia.
Qed.

Definition all_disjoint (l : list mtch) : Prop := ForallOrdPairs span_disjoint l.

Lemma FOP_app {X} (R : X -> X -> Prop) l1 : forall l2,
  ForallOrdPairs R l1 -> ForallOrdPairs R l2 -> (forall a b, In a l1 -> In b l2 -> R a b) ->
  ForallOrdPairs R (l1 ++ l2).
Proof.
  induction l1 as [|x l1 IH]; intros l2 H1 H2 H12; simpl; auto.
  inversion H1; subst. constructor.
  - apply Forall_app. split; auto. apply Forall_forall. intros b Hb. apply H12; simpl; auto.
  - apply IH; auto. intros a b Ha Hb. apply H12; simpl; auto.
Qed.

Lemma scan_disjoint_lemma comps : forall s acc,
  Forall (fun c => no_blank (unescape (chars c))) comps ->
  blanked s acc -> all_disjoint acc -> all_disjoint (scan comps s acc).
Proof.
  induction comps as [|c r IH]; intros s acc Hnb Hbl Hd; simpl; auto.
  apply Forall_cons_iff in Hnb. destruct Hnb as [Hnbc Hnb].
  set (t := unescape (chars c)) in *. set (n := List.length t).
  assert (Hocc : forall st, In st (find_all t s) ->
            starts_with t (skipn st s) = true /\ st + n <= List.length s /\ t <> []).
  { intros st Hin. assert (t <> []) as Hne by (intro E; rewrite E in Hin; destruct Hin).
    apply find_all_sound in Hin. split; auto. split; auto.
    apply starts_with_length in Hin. rewrite skipn_length in Hin. unfold n.
    destruct t; [congruence | simpl in *; lia]. }
  assert (Hn : forall st, In st (find_all t s) -> 0 < n).
  { intros st Hin. destruct (Hocc st Hin) as (_ & _ & Hne). unfold n. destruct t; [congruence | simpl; lia]. }
  apply IH; auto.
  - (* blanked *)
    intros m Hm. apply in_app_or in Hm. destruct Hm as [Hm|Hm].
    + destruct (Hbl m Hm) as [Hlt Hb]. split; auto. intros i Hi.
      apply fold_mask_blank; [|left; auto].
      apply Forall_forall. intros st Hin. destruct (Hocc st Hin) as (_ & H & _). exact H.
    + apply in_map_iff in Hm. destruct Hm as (st & <- & Hin). simpl. split.
      * specialize (Hn st Hin). lia.
      * intros i Hi. apply fold_mask_blank.
        -- apply Forall_forall. intros st' Hin'. destruct (Hocc st' Hin') as (_ & H & _). exact H.
        -- right. exists st. auto.
  - (* disjoint *)
    apply FOP_app; auto.
    + (* new matches among themselves *)
      unfold find_all in *. destruct t as [|a t'] eqn:Et. constructor.
      assert (a :: t' <> []) as Hne by discriminate.
      destruct (find_all_from_spaced (a :: t') Hne (List.length s) s 0) as [Hs _].
      fold n in Hs. clear - Hs.
      induction Hs as [|x l Hl IHl Hx]; simpl; constructor; auto.
      apply Forall_forall. intros m Hm. apply in_map_iff in Hm. destruct Hm as (st & <- & Hin).
      left. simpl. rewrite Forall_forall in Hx. apply Hx. exact Hin.
    + intros m1 m2 H1 H2. apply in_map_iff in H2. destruct H2 as (st & <- & Hin). simpl.
      destruct (Hbl m1 H1) as [Hlt Hb]. destruct (Hocc st Hin) as (Hsw & Hlen & _).
      unfold span_disjoint. simpl.
      destruct (Nat.le_gt_cases (m_end m1) st) as [|H3]; auto.
      destruct (Nat.le_gt_cases (st + n) (m_start m1)) as [|H4]; auto.
      exfalso. pose proof (Hn st Hin) as Hpos.
      apply (match_not_blank t s st (Nat.max st (m_start m1)) Hnbc Hsw). fold n; lia.
      apply Hb. lia.
Qed.

Theorem matches_disjoint_lemma T Y pn : wf_tables T Y -> all_disjoint (scan (components T Y) pn []).
Proof.
  intro Hwf. apply scan_disjoint_lemma; auto.
  - intros m [].
  - constructor.
Qed.

(** decidable form of [wf_tables] *)
Lemma memb_In_ascii c l : memb Ascii.eqb c l = true <-> In c l.
Proof.
  induction l as [|a l IH]; simpl. split; [discriminate | tauto].
  rewrite orb_true_iff, IH, Ascii.eqb_eq. intuition.
Qed.
Lemma wf_tablesb_sound T Y : wf_tablesb T Y = true -> wf_tables T Y.
Proof.
  unfold wf_tablesb, wf_tables. rewrite forallb_forall, Forall_forall.
  intros H c Hc. specialize (H c Hc). unfold no_blankb in H. apply negb_true_iff in H.
  intro Hin. apply memb_In_ascii in Hin. congruence.
Qed.
