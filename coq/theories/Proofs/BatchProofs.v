(** Proofs about the grid-stride loop of the batched kernels (Model/Batch.v). *)
From Coq Require Import List Arith Lia PeanoNat.
From Naunet Require Import Model.Batch.
Import ListNotations.

Lemma stride_loop_in : forall fuel gs n cur c, 0 < gs ->
  In c (stride_loop fuel gs n cur) -> c < n /\ cur <= c /\ (c - cur) mod gs = 0.
Proof.
  induction fuel as [|f IH]; intros gs n cur c Hgs Hin; cbn [stride_loop] in Hin; [contradiction|].
  destruct (cur <? n) eqn:E; [|contradiction].
  apply Nat.ltb_lt in E. destruct Hin as [<- | Hin].
  - repeat split; try lia. rewrite Nat.sub_diag. apply Nat.mod_0_l. lia.
  - apply IH in Hin; [|exact Hgs]. destruct Hin as (H1 & H2 & H3). repeat split; try lia.
    replace (c - cur) with ((c - (cur + gs)) + 1 * gs) by lia.
    rewrite Nat.mod_add by lia. exact H3.
Qed.

Lemma stride_loop_complete : forall fuel gs n cur c, 0 < gs ->
  c < n -> cur <= c -> (c - cur) mod gs = 0 -> n - cur <= fuel ->
  In c (stride_loop fuel gs n cur).
Proof.
  induction fuel as [|f IH]; intros gs n cur c Hgs Hc Hle Hmod Hfuel; [lia|].
  cbn [stride_loop]. destruct (cur <? n) eqn:E.
  - destruct (Nat.eq_dec c cur) as [->|Hne]; [left; reflexivity|right].
    assert (Hd : gs <= c - cur).
    { destruct (Nat.lt_ge_cases (c - cur) gs) as [Hlt|]; [|assumption].
      rewrite Nat.mod_small in Hmod by assumption. lia. }
    apply IH; try lia.
    replace (c - cur) with ((c - (cur + gs)) + 1 * gs) in Hmod by lia.
    rewrite Nat.mod_add in Hmod by lia. exact Hmod.
  - apply Nat.ltb_ge in E. lia.
Qed.

Lemma stride_loop_increasing : forall fuel gs n cur c, 0 < gs ->
  In c (stride_loop fuel gs n (cur + gs)) -> cur < c.
Proof. intros. apply stride_loop_in in H0; [lia|assumption]. Qed.

Lemma stride_loop_nodup : forall fuel gs n cur, 0 < gs -> NoDup (stride_loop fuel gs n cur).
Proof.
  induction fuel as [|f IH]; intros gs n cur Hgs; cbn [stride_loop]; [constructor|].
  destruct (cur <? n); [|constructor].
  constructor; [|apply IH; exact Hgs].
  intro Hin. apply stride_loop_increasing in Hin; [lia|exact Hgs].
Qed.

(* every system of the batch is visited by exactly one thread, exactly once, whatever the launch geometry *)
Theorem grid_stride_partition : forall gs n c, 0 < gs -> c < n ->
  (forall tidx, tidx < gs -> (In c (thread_visits gs n tidx) <-> tidx = c mod gs)) /\
  (forall tidx, NoDup (thread_visits gs n tidx)).
Proof.
  intros gs n c Hgs Hc. split; [|intro; apply stride_loop_nodup; exact Hgs].
  intros tidx Ht. unfold thread_visits. split.
  - intro Hin. apply stride_loop_in in Hin; [|exact Hgs]. destruct Hin as (_ & Hle & Hmod).
    assert (Hc' : c = tidx + (c - tidx)) by lia.
    apply Nat.div_exact in Hmod; [|lia].
    rewrite Hc'. rewrite Hmod at 1. rewrite Nat.mul_comm, Nat.mod_add by lia.
    symmetry. apply Nat.mod_small. exact Ht.
  - intros ->. apply stride_loop_complete; try lia.
    + apply Nat.mod_le. lia.
    + pose proof (Nat.div_mod c gs ltac:(lia)) as Hdm.
      replace (c - c mod gs) with (c / gs * gs) by lia. apply Nat.mod_mul. lia.
Qed.

(* no thread visits a system outside the batch *)
Theorem grid_stride_in_bounds : forall gs n tidx c, 0 < gs -> In c (thread_visits gs n tidx) -> c < n.
Proof. intros gs n tidx c Hgs Hin. apply stride_loop_in in Hin; [tauto|exact Hgs]. Qed.

(* with one thread of one block (the host run of channel C) the loop visits 0 .. n-1 in order *)
Lemma one_thread_seq : forall fuel n cur, n - cur <= fuel -> stride_loop fuel 1 n cur = seq cur (n - cur).
Proof.
  induction fuel as [|f IH]; intros n cur Hf; cbn [stride_loop].
  - replace (n - cur) with 0 by lia. reflexivity.
  - destruct (cur <? n) eqn:E.
    + apply Nat.ltb_lt in E. rewrite IH by lia.
      replace (n - cur) with (S (n - (cur + 1))) by lia. cbn [seq]. f_equal. f_equal. lia.
    + apply Nat.ltb_ge in E. replace (n - cur) with 0 by lia. reflexivity.
Qed.
Theorem one_thread_visits_all_in_order : forall n, thread_visits 1 n 0 = seq 0 n.
Proof. intro n. unfold thread_visits. rewrite one_thread_seq by lia. f_equal. lia. Qed.

(* the result for system i depends on system i only: replacing the other systems changes nothing *)
Theorem kernel_pointwise : forall (S O : Type) (f : S -> O) (b : list S) (i : nat),
  nth_error (kernel_out f b) i = option_map f (nth_error b i).
Proof. intros. unfold kernel_out. apply nth_error_map. Qed.

(* the defective skeleton agrees with it on every batch iff g ignores its first argument on that batch *)
Theorem sys0_kernel_differs : forall (S O : Type) (f : S -> O) (g : S -> S -> O) (s0 s1 : S),
  (forall s, g s s = f s) -> g s0 s1 <> f s1 ->
  kernel_out_sys0 g [s0; s1] <> kernel_out f [s0; s1].
Proof. intros S O f g s0 s1 Hd Hne Heq. cbn in Heq. injection Heq as _ H. contradiction. Qed.

(** blocks of a batched array *)

Lemma block_index_injective_lemma : forall stride s s' i i', i < stride -> i' < stride ->
  block_index stride s i = block_index stride s' i' -> s = s' /\ i = i'.
Proof.
  unfold block_index. intros stride s s' i i' Hi Hi' H.
  assert (Hs : s = s').
  { destruct (Nat.lt_trichotomy s s') as [Hlt|[Heq|Hgt]]; [|exact Heq|]; exfalso; nia. }
  subst s'. split; [reflexivity|lia].
Qed.

Lemma block_index_in_bounds_lemma : forall stride n s i, s < n -> i < stride -> block_index stride s i < n * stride.
Proof. unfold block_index. intros. nia. Qed.

Lemma wrong_stride_aliases_lemma : forall stride stride', stride' < stride ->
  block_index stride' 1 0 = block_index stride' 0 stride' /\ stride' < stride.
Proof. unfold block_index. intros. split; lia. Qed.

(** the flat arrays of a batch are the concatenation of its systems *)

Lemma flat_layout_lemma : forall (A : Type) (d : A) (stride : nat) (b : list (list A)) (s i : nat),
  Forall (fun sys => length sys = stride) b -> s < length b -> i < stride ->
  nth (block_index stride s i) (concat b) d = nth i (nth s b []) d.
Proof.
  intros A d stride b. induction b as [|sys b IH]; intros s i Hall Hs Hi; [cbn in Hs; lia|].
  inversion Hall as [|? ? Hlen Hall']; subst.
  cbn [concat]. destruct s as [|s].
  - unfold block_index. cbn [nth Nat.mul Nat.add]. rewrite app_nth1 by lia. reflexivity.
  - unfold block_index. cbn [nth]. rewrite app_nth2 by (cbn; lia).
    replace (S s * length sys + i - length sys) with (s * length sys + i) by (cbn; lia).
    apply (IH s i Hall'); cbn in Hs; lia.
Qed.

Lemma flat_length_lemma : forall (A : Type) (stride : nat) (b : list (list A)),
  Forall (fun sys => length sys = stride) b -> length (concat b) = length b * stride.
Proof.
  intros A stride b Hall. induction Hall as [|sys b Hlen Hall IH]; [reflexivity|].
  cbn [concat length]. rewrite app_length, IH, Hlen. lia.
Qed.
