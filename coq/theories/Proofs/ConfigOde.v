(** C13/C20: ODE modifiers written on the command line are the ones stored. *)
From Coq Require Import List Arith Bool String Ascii Lia.
From Naunet Require Import Lib.ListX Lib.PyStr Model.Config Model.Decode
     Proofs.SpeciesProofs Proofs.IndexProofs Proofs.DecodeProofs.
Import ListNotations.
Open Scope string_scope.
Open Scope list_scope.

(** ** deleting one character with str.replace *)
Lemma replace_from_del c : forall fuel s, List.length s <= fuel ->
  replace_from fuel [c] [] s = filter (fun x => negb (Ascii.eqb c x)) s.
Proof.
  induction fuel as [|f IH]; intros s H.
  - destruct s; [reflexivity | simpl in H; lia].
  - destruct s as [|x s']; [reflexivity|].
    cbn [replace_from starts_with List.length skipn filter app]. rewrite andb_true_r.
    destruct (Ascii.eqb c x); simpl; [|f_equal]; apply IH; simpl in H; lia.
Qed.
Lemma replace_l_del c s : replace_l [c] [] s = filter (fun x => negb (Ascii.eqb c x)) s.
Proof. unfold replace_l. apply replace_from_del. lia. Qed.

Lemma filter_all {X} (p : X -> bool) l : forallb p l = true -> filter p l = l.
Proof.
  induction l as [|x l IH]; simpl; auto. intro H. apply andb_true_iff in H. destruct H as [H1 H2].
  rewrite H1, IH; auto.
Qed.

Lemma no_char_forallb c l : no_char c l -> forallb (fun x => negb (Ascii.eqb c x)) l = true.
Proof.
  unfold no_char. induction l as [|x l IH]; simpl; auto. intro H.
  destruct (Ascii.eqb_spec c x) as [->|Hne]; simpl.
  - exfalso. apply H. auto.
  - apply IH. intro Hin. apply H. auto.
Qed.

(** ** a blank-separated list of words *)
Lemma join_block ds : forall d0, 
  join_l " "%char (d0 :: ds) = block (map (fun w => (w, 0)) (removelast (d0 :: ds))) 0 ++ last (d0 :: ds) [].
Proof.
  induction ds as [|d ds IH]; intro d0.
  - simpl. reflexivity.
  - change (join_l " "%char (d0 :: d :: ds)) with (d0 ++ " "%char :: join_l " "%char (d :: ds)).
    rewrite IH. change (removelast (d0 :: d :: ds)) with (d0 :: removelast (d :: ds)).
    change (last (d0 :: d :: ds) []) with (last (d :: ds) []).
    cbn [map block repeat_char]. rewrite <- !app_assoc. reflexivity.
Qed.

Lemma edge_ok_join ds : forall d0, Forall word_ok (d0 :: ds) -> edge_ok (join_l " "%char (d0 :: ds)) = true.
Proof.
  intros d0 H. unfold edge_ok. apply andb_true_iff. split.
  - inversion H as [|? ? [Hne Hw] _]; subst. destruct d0 as [|c w]; [congruence|].
    simpl in Hw. apply andb_true_iff in Hw. destruct Hw as [Hc _].
    destruct ds; simpl; exact Hc.
  - revert d0 H. induction ds as [|d ds IH]; intros d0 H.
    + inversion H as [|? ? [Hne Hw] _]; subst. simpl.
      destruct (rev d0) as [|x r] eqn:E.
      { exfalso. apply (f_equal (@rev ascii)) in E. rewrite rev_involutive in E. auto. }
      rewrite forallb_forall in Hw. apply Hw. apply in_rev. rewrite E. simpl; auto.
    + change (join_l " "%char (d0 :: d :: ds)) with (d0 ++ " "%char :: join_l " "%char (d :: ds)).
      inversion H as [|? ? _ Hr]; subst. specialize (IH d Hr).
      remember (join_l " "%char (d :: ds)) as J.
      rewrite rev_app_distr. cbn [rev]. 
      destruct (rev J) as [|x r]; [discriminate|]. simpl. exact IH.
Qed.

Lemma last_word_ok ds : forall d0, Forall word_ok (d0 :: ds) -> word_ok (last (d0 :: ds) []).
Proof.
  induction ds as [|d ds IH]; intros d0 H; inversion H; subst; auto.
  change (last (d0 :: d :: ds) []) with (last (d :: ds) []). auto.
Qed.
Lemma removelast_words ds : forall d0, Forall word_ok (d0 :: ds) ->
  Forall (fun wp : list ascii * nat => word_ok (fst wp)) (map (fun w => (w, 0)) (removelast (d0 :: ds))).
Proof.
  induction ds as [|d ds IH]; intros d0 H. constructor.
  change (removelast (d0 :: d :: ds)) with (d0 :: removelast (d :: ds)). inversion H; subst.
  cbn [map]. constructor; auto.
Qed.
Lemma removelast_last {X} (l : list X) d : l <> [] -> removelast l ++ [last l d] = l.
Proof. intro H. symmetry. apply app_removelast_last. exact H. Qed.

(* split_ws(strip(rdep.replace("[","").replace("]",""))) gives the words back *)
Definition dep_ok (d : string) : Prop :=
  word_ok (chars d) /\ nosep ":"%char d /\ nosep ","%char d /\ nosep "["%char d /\ nosep "]"%char d.

Lemma no_char_join c ds : c <> " "%char -> Forall (no_char c) ds -> no_char c (join_l " "%char ds).
Proof.
  intros Hc H. induction H as [|d r Hd Hr IH]; simpl. intros [].
  destruct r as [|d2 r']. exact Hd.
  unfold no_char in *. intro Hin. apply in_app_or in Hin. destruct Hin as [Hin|[E|Hin]]; auto.
Qed.

Lemma dep_text_lemma deps : deps <> [] -> Forall dep_ok deps ->
  split_ws (strip (replace "]" "" (replace "[" "" ("[" ++ join " "%char deps ++ "]")%string))) = deps.
Proof.
  intros Hne Hd.
  destruct deps as [|d0 ds]; [congruence|].
  set (body := join_l " "%char (map chars (d0 :: ds))).
  assert (Hw : Forall word_ok (map chars (d0 :: ds))).
  { apply Forall_forall. intros w Hin. apply in_map_iff in Hin. destruct Hin as (d & <- & Hin).
    rewrite Forall_forall in Hd. destruct (Hd d Hin) as [H _]. exact H. }
  assert (Hb1 : no_char "["%char body).
  { apply no_char_join. discriminate. apply Forall_forall. intros w Hin. apply in_map_iff in Hin.
    destruct Hin as (d & <- & Hin). rewrite Forall_forall in Hd. destruct (Hd d Hin) as (_ & _ & _ & H & _). exact H. }
  assert (Hb2 : no_char "]"%char body).
  { apply no_char_join. discriminate. apply Forall_forall. intros w Hin. apply in_map_iff in Hin.
    destruct Hin as (d & <- & Hin). rewrite Forall_forall in Hd. destruct (Hd d Hin) as (_ & _ & _ & _ & H). exact H. }
  unfold strip, replace. rewrite !chars_str.
  assert (E0 : chars ("[" ++ join " "%char (d0 :: ds) ++ "]")%string = "["%char :: body ++ ["]"%char]).
  { rewrite !chars_app. unfold join. rewrite chars_str. reflexivity. }
  rewrite E0. change (chars "[") with ["["%char]. change (chars "]") with ["]"%char]. change (chars "") with (@nil ascii).
  rewrite !replace_l_del.
  assert (F1 : filter (fun x => negb (Ascii.eqb "["%char x)) ("["%char :: body ++ ["]"%char]) = body ++ ["]"%char]).
  { cbn [filter]. rewrite Ascii.eqb_refl. cbn [negb]. rewrite filter_app.
    rewrite (filter_all _ body) by (apply no_char_forallb; exact Hb1). reflexivity. }
  rewrite F1.
  assert (F2 : filter (fun x => negb (Ascii.eqb "]"%char x)) (body ++ ["]"%char]) = body).
  { rewrite filter_app. rewrite (filter_all _ body) by (apply no_char_forallb; exact Hb2).
    cbn [filter]. rewrite Ascii.eqb_refl. cbn [negb]. apply app_nil_r. }
  rewrite F2.
  rewrite strip_edge by (apply edge_ok_join; exact Hw).
  unfold split_ws. rewrite chars_str. unfold body. cbn [map] in *. rewrite join_block.
  rewrite split_ws_go_block_last; [| apply removelast_words; exact Hw | apply last_word_ok; exact Hw].
  rewrite map_map. cbn [fst]. rewrite map_id, map_app. cbn [map].
  rewrite <- (map_app str _ [last (chars d0 :: map chars ds) []]).
  change (chars d0 :: map chars ds) with (map chars (d0 :: ds)).
  rewrite removelast_last by discriminate. rewrite map_map.
  rewrite map_ext with (g := fun x => x); [apply map_id|]. intro a. apply str_chars.
Qed.
