(** C13/C20: ODE modifiers written on the command line are the ones stored. *)
From Coq Require Import List Arith Bool String Ascii Lia.
From Naunet Require Import Lib.ListX Lib.PyStr Model.Config Model.Decode
     Proofs.SpeciesProofs Proofs.IndexProofs Proofs.DecodeProofs Proofs.ConfigProofs.
Import ListNotations.
Open Scope string_scope.
Open Scope list_scope.

(** ** deleting one character with str.replace *)
Lemma replace_from_del c : forall fuel s, List.length s <= fuel ->
  replace_from fuel [c] [] s = filter (fun x => negb (Ascii.eqb c x)) s.
Proof.
  induction fuel as [|f IH]; intros s H.
  - destruct s; [reflexivity | simpl in H; lia].
  - destruct s as [|x s']; [reflexivity|].
    cbn [replace_from starts_with List.length skipn filter app]. rewrite andb_true_r.
    destruct (Ascii.eqb c x); simpl; [|f_equal]; apply IH; simpl in H; lia.
Qed.
Lemma replace_l_del c s : replace_l [c] [] s = filter (fun x => negb (Ascii.eqb c x)) s.
Proof. unfold replace_l. apply replace_from_del. lia. Qed.

Lemma filter_all {X} (p : X -> bool) l : forallb p l = true -> filter p l = l.
Proof.
  induction l as [|x l IH]; simpl; auto. intro H. apply andb_true_iff in H. destruct H as [H1 H2].
  rewrite H1, IH; auto.
Qed.

Lemma no_char_forallb c l : no_char c l -> forallb (fun x => negb (Ascii.eqb c x)) l = true.
Proof.
  unfold no_char. induction l as [|x l IH]; simpl; auto. intro H.
  destruct (Ascii.eqb_spec c x) as [->|Hne]; simpl.
  - exfalso. apply H. auto.
  - apply IH. intro Hin. apply H. auto.
Qed.

(** ** a blank-separated list of words *)
Lemma join_block ds : forall d0, 
  join_l " "%char (d0 :: ds) = block (map (fun w => (w, 0)) (removelast (d0 :: ds))) 0 ++ last (d0 :: ds) [].
Proof.
  induction ds as [|d ds IH]; intro d0.
  - simpl. reflexivity.
  - change (join_l " "%char (d0 :: d :: ds)) with (d0 ++ " "%char :: join_l " "%char (d :: ds)).
    rewrite IH. change (removelast (d0 :: d :: ds)) with (d0 :: removelast (d :: ds)).
    change (last (d0 :: d :: ds) []) with (last (d :: ds) []).
    cbn [map block repeat_char]. rewrite <- !app_assoc. reflexivity.
Qed.

Lemma edge_ok_join ds : forall d0, Forall word_ok (d0 :: ds) -> edge_ok (join_l " "%char (d0 :: ds)) = true.
Proof.
  intros d0 H. unfold edge_ok. apply andb_true_iff. split.
  - inversion H as [|? ? [Hne Hw] _]; subst. destruct d0 as [|c w]; [congruence|].
    simpl in Hw. apply andb_true_iff in Hw. destruct Hw as [Hc _].
    destruct ds; simpl; exact Hc.
  - revert d0 H. induction ds as [|d ds IH]; intros d0 H.
    + inversion H as [|? ? [Hne Hw] _]; subst. simpl.
      destruct (rev d0) as [|x r] eqn:E.
      { exfalso. apply (f_equal (@rev ascii)) in E. rewrite rev_involutive in E. auto. }
      rewrite forallb_forall in Hw. apply Hw. apply in_rev. rewrite E. simpl; auto.
    + change (join_l " "%char (d0 :: d :: ds)) with (d0 ++ " "%char :: join_l " "%char (d :: ds)).
      inversion H as [|? ? _ Hr]; subst. specialize (IH d Hr).
      remember (join_l " "%char (d :: ds)) as J.
      rewrite rev_app_distr. cbn [rev]. 
      destruct (rev J) as [|x r]; [discriminate|]. simpl. exact IH.
Qed.

Lemma last_word_ok ds : forall d0, Forall word_ok (d0 :: ds) -> word_ok (last (d0 :: ds) []).
Proof.
  induction ds as [|d ds IH]; intros d0 H; inversion H; subst; auto.
  change (last (d0 :: d :: ds) []) with (last (d :: ds) []). auto.
Qed.
Lemma removelast_words ds : forall d0, Forall word_ok (d0 :: ds) ->
  Forall (fun wp : list ascii * nat => word_ok (fst wp)) (map (fun w => (w, 0)) (removelast (d0 :: ds))).
Proof.
  induction ds as [|d ds IH]; intros d0 H. constructor.
  change (removelast (d0 :: d :: ds)) with (d0 :: removelast (d :: ds)). inversion H; subst.
  cbn [map]. constructor; auto.
Qed.
Lemma removelast_last {X} (l : list X) d : l <> [] -> removelast l ++ [last l d] = l.
Proof. intro H. symmetry. apply app_removelast_last. exact H. Qed.

(* split_ws(strip(rdep.replace("[","").replace("]",""))) gives the words back *)
Definition dep_ok (d : string) : Prop :=
  word_ok (chars d) /\ nosep ":"%char d /\ nosep ","%char d /\ nosep "["%char d /\ nosep "]"%char d.

Lemma no_char_join c ds : c <> " "%char -> Forall (no_char c) ds -> no_char c (join_l " "%char ds).
Proof.
  intros Hc H. induction H as [|d r Hd Hr IH]; simpl. intros [].
  destruct r as [|d2 r']. exact Hd.
  unfold no_char in *. intro Hin. apply in_app_or in Hin. destruct Hin as [Hin|[E|Hin]]; auto.
Qed.

Lemma dep_text_lemma deps : deps <> [] -> Forall dep_ok deps ->
  split_ws (strip (replace "]" "" (replace "[" "" ("[" ++ join " "%char deps ++ "]")%string))) = deps.
Proof.
  intros Hne Hd.
  destruct deps as [|d0 ds]; [congruence|].
  set (body := join_l " "%char (map chars (d0 :: ds))).
  assert (Hw : Forall word_ok (map chars (d0 :: ds))).
  { apply Forall_forall. intros w Hin. apply in_map_iff in Hin. destruct Hin as (d & <- & Hin).
    rewrite Forall_forall in Hd. destruct (Hd d Hin) as [H _]. exact H. }
  assert (Hb1 : no_char "["%char body).
  { apply no_char_join. discriminate. apply Forall_forall. intros w Hin. apply in_map_iff in Hin.
    destruct Hin as (d & <- & Hin). rewrite Forall_forall in Hd. destruct (Hd d Hin) as (_ & _ & _ & H & _). exact H. }
  assert (Hb2 : no_char "]"%char body).
  { apply no_char_join. discriminate. apply Forall_forall. intros w Hin. apply in_map_iff in Hin.
    destruct Hin as (d & <- & Hin). rewrite Forall_forall in Hd. destruct (Hd d Hin) as (_ & _ & _ & _ & H). exact H. }
  unfold strip, replace. rewrite !chars_str.
  assert (E0 : chars ("[" ++ join " "%char (d0 :: ds) ++ "]")%string = "["%char :: body ++ ["]"%char]).
  { rewrite !chars_app. unfold join. rewrite chars_str. reflexivity. }
  rewrite E0. change (chars "[") with ["["%char]. change (chars "]") with ["]"%char]. change (chars "") with (@nil ascii).
  rewrite !replace_l_del.
  assert (F1 : filter (fun x => negb (Ascii.eqb "["%char x)) ("["%char :: body ++ ["]"%char]) = body ++ ["]"%char]).
  { cbn [filter]. rewrite Ascii.eqb_refl. cbn [negb]. rewrite filter_app.
    rewrite (filter_all _ body) by (apply no_char_forallb; exact Hb1). reflexivity. }
  rewrite F1.
  assert (F2 : filter (fun x => negb (Ascii.eqb "]"%char x)) (body ++ ["]"%char]) = body).
  { rewrite filter_app. rewrite (filter_all _ body) by (apply no_char_forallb; exact Hb2).
    cbn [filter]. rewrite Ascii.eqb_refl. cbn [negb]. apply app_nil_r. }
  rewrite F2.
  rewrite strip_edge by (apply edge_ok_join; exact Hw).
  unfold split_ws. rewrite chars_str. unfold body. cbn [map] in *. rewrite join_block.
  rewrite split_ws_go_block_last; [| apply removelast_words; exact Hw | apply last_word_ok; exact Hw].
  rewrite map_map. cbn [fst]. rewrite map_id, map_app. cbn [map].
  rewrite <- (map_app str _ [last (chars d0 :: map chars ds) []]).
  change (chars d0 :: map chars ds) with (map chars (d0 :: ds)).
  rewrite removelast_last by discriminate. rewrite map_map.
  rewrite map_ext with (g := fun x => x); [apply map_id|]. intro a. apply str_chars.
Qed.

(** ** accumulating items of one species after the others *)
Definition mk_om (k : string) (fs : list string) (ds : list (list string)) : omod :=
  {| om_key := k; om_factors := fs; om_reactants := ds |}.

Lemma om_add_absent k f d : forall acc, ~ In k (map om_key acc) ->
  om_add k f d acc = acc ++ [mk_om k [f] [d]].
Proof.
  induction acc as [|m r IH]; intro H; simpl. reflexivity.
  destruct (String.eqb_spec (om_key m) k) as [E|E].
  - exfalso. apply H. simpl. auto.
  - f_equal. apply IH. intro Hin. apply H. simpl. auto.
Qed.

Lemma om_add_last k f d fs ds : forall acc, ~ In k (map om_key acc) ->
  om_add k f d (acc ++ [mk_om k fs ds]) = acc ++ [mk_om k (fs ++ [f]) (ds ++ [d])].
Proof.
  induction acc as [|m r IH]; intro H; simpl.
  - rewrite String.eqb_refl. reflexivity.
  - destruct (String.eqb_spec (om_key m) k) as [E|E].
    + exfalso. apply H. simpl. auto.
    + f_equal. apply IH. intro Hin. apply H. simpl. auto.
Qed.

(* the items of one modifier, added in order to a list that does not know its species *)
Lemma add_items k : forall fds f0 d0 acc, ~ In k (map om_key acc) ->
  fold_left (fun a (fd : string * list string) => om_add k (fst fd) (snd fd) a) fds (acc ++ [mk_om k f0 d0])
  = acc ++ [mk_om k (f0 ++ map fst fds) (d0 ++ map snd fds)].
Proof.
  induction fds as [|[f d] r IH]; intros f0 d0 acc H; simpl.
  - rewrite !app_nil_r. reflexivity.
  - rewrite om_add_last by exact H. rewrite IH by exact H. rewrite <- !app_assoc. reflexivity.
Qed.

Lemma map_fst_combine' {A B} (l : list A) : forall (l' : list B), List.length l = List.length l' -> map fst (combine l l') = l.
Proof. induction l as [|a l IH]; intros [|b l'] H; simpl in *; try discriminate; auto. f_equal. apply IH. lia. Qed.
Lemma map_snd_combine' {A B} (l : list A) : forall (l' : list B), List.length l = List.length l' -> map snd (combine l l') = l'.
Proof. induction l as [|a l IH]; intros [|b l'] H; simpl in *; try discriminate; auto. f_equal. apply IH. lia. Qed.

(** ** one line of --ode-modifier *)
Definition item_ok3 (k f : string) (ds : list string) : Prop :=
  nosep ":"%char k /\ nosep ";"%char k /\
  nosep ":"%char f /\ nosep ","%char f /\ nosep ";"%char f /\
  ds <> [] /\ Forall dep_ok ds /\ Forall (nosep ";"%char) ds.

Definition om_ok (m : omod) : Prop :=
  om_factors m <> [] /\ List.length (om_factors m) = List.length (om_reactants m) /\
  Forall (fun fd : string * list string => item_ok3 (om_key m) (fst fd) (snd fd))
         (combine (om_factors m) (om_reactants m)).

Definition ode_ok (ms : list omod) : Prop := NoDup (map om_key ms) /\ Forall om_ok ms.

Definition item_text (k : string) (fd : string * list string) : string :=
  (k ++ ":" ++ fst fd ++ ",[" ++ join " "%char (snd fd) ++ "]")%string.

Lemma print_om_items m : print_om m = map (item_text (om_key m)) (combine (om_factors m) (om_reactants m)).
Proof. reflexivity. Qed.

Lemma parse_item_text k fd : item_ok3 k (fst fd) (snd fd) ->
  parse_om_item (item_text k fd) = Some (k, fst fd, snd fd).
Proof.
  intros (Hk & _ & Hf1 & Hf2 & _ & Hne & Hd & _). unfold item_text.
  assert (Hd' : Forall (fun d => word_ok (chars d) /\ nosep ":"%char d /\ nosep ","%char d /\ nosep "["%char d /\ nosep "]"%char d) (snd fd)).
  { eapply Forall_impl; [|exact Hd]. intros d (H1 & H2 & H3 & H4 & H5). auto. }
  rewrite (parse_om_item_lemma k (fst fd) (snd fd) Hk Hf1 Hf2 Hd' Hne).
  rewrite dep_text_lemma; auto.
Qed.

Lemma item_text_nonempty k fd : item_text k fd <> ""%string.
Proof.
  unfold item_text. intro E. apply (f_equal chars) in E. rewrite chars_app in E.
  change (chars ("")%string) with (@nil ascii) in E.
  apply app_eq_nil in E. destruct E as [_ E]. rewrite chars_app in E. discriminate.
Qed.

(* parse_om_line over the items of [ms], starting from any accumulator that knows none of their species *)
Lemma parse_items_of_mod m : om_ok m -> forall acc, ~ In (om_key m) (map om_key acc) ->
  forall rest, 
  parse_om_line (map (item_text (om_key m)) (combine (om_factors m) (om_reactants m)) ++ rest) acc =
  parse_om_line rest (acc ++ [m]).
Proof.
  intros (Hne & Hlen & Hall) acc Hk rest.
  destruct m as [k fs ds]. simpl in *.
  destruct fs as [|f0 fs]; [congruence|]. destruct ds as [|d0 ds]; [discriminate|].
  simpl combine in *. inversion Hall as [|? ? H0 Hr]; subst.
  cbn [map app parse_om_line].
  destruct (String.eqb_spec (item_text k (f0, d0)) "") as [E|_]; [exfalso; eapply item_text_nonempty; eauto|].
  rewrite (parse_item_text k (f0, d0) H0). cbn [fst snd].
  rewrite om_add_absent by exact Hk.
  (* the remaining items *)
  assert (G : forall fds f1 d1, Forall (fun fd : string * list string => item_ok3 k (fst fd) (snd fd)) fds ->
            parse_om_line (map (item_text k) fds ++ rest) (acc ++ [mk_om k f1 d1]) =
            parse_om_line rest (acc ++ [mk_om k (f1 ++ map fst fds) (d1 ++ map snd fds)])).
  { induction fds as [|fd r IH]; intros f1 d1 HF; simpl.
    - rewrite !app_nil_r. reflexivity.
    - inversion HF as [|? ? Hfd Hr']; subst.
      destruct (String.eqb_spec (item_text k fd) "") as [E|_]; [exfalso; eapply item_text_nonempty; eauto|].
      rewrite (parse_item_text k fd Hfd). rewrite om_add_last by exact Hk.
      rewrite IH by exact Hr'. rewrite <- !app_assoc. reflexivity. }
  rewrite (G (combine fs ds) [f0] [d0] Hr).
  assert (List.length fs = List.length ds) as Hl by (simpl in Hlen; lia).
  rewrite map_fst_combine', map_snd_combine' by exact Hl. reflexivity.
Qed.

(** ** the whole option *)
Lemma parse_line_all : forall ms acc,
  NoDup (map om_key ms) -> Forall om_ok ms ->
  (forall m, In m ms -> ~ In (om_key m) (map om_key acc)) ->
  parse_om_line (flat_map print_om ms) acc = Some (acc ++ ms).
Proof.
  induction ms as [|m r IH]; intros acc Hnd Hok Hfresh; simpl.
  - rewrite app_nil_r. reflexivity.
  - inversion Hnd as [|? ? Hnin Hnd']; subst. inversion Hok as [|? ? Hm Hr]; subst.
    rewrite print_om_items.
    rewrite (parse_items_of_mod m Hm acc (Hfresh m (or_introl eq_refl))).
    rewrite IH; auto.
    + rewrite <- app_assoc. reflexivity.
    + intros m' Hin. rewrite map_app, in_app_iff. simpl. intros [H|[H|[]]].
      * apply (Hfresh m' (or_intror Hin)). exact H.
      * apply Hnin. rewrite H. apply in_map. exact Hin.
Qed.

Lemma item_text_nosemi k fd : item_ok3 k (fst fd) (snd fd) -> no_char ";"%char (chars (item_text k fd)).
Proof.
  intros (_ & Hk & _ & _ & Hf & _ & _ & Hds). unfold item_text, no_char.
  rewrite !chars_app. intro Hin.
  apply in_app_or in Hin. destruct Hin as [Hin|Hin]; [exact (Hk Hin)|].
  simpl in Hin. destruct Hin as [E|Hin]; [discriminate|].
  apply in_app_or in Hin. destruct Hin as [Hin|Hin]; [exact (Hf Hin)|].
  simpl in Hin. destruct Hin as [E|[E|Hin]]; try discriminate.
  apply in_app_or in Hin. destruct Hin as [Hin|[E|[]]]; try discriminate.
  unfold join in Hin. rewrite chars_str in Hin.
  revert Hin. apply no_char_join. discriminate.
  apply Forall_forall. intros w Hw. apply in_map_iff in Hw. destruct Hw as (d & <- & Hd).
  rewrite Forall_forall in Hds. exact (Hds d Hd).
Qed.

Theorem parse_ode_mods_print_lemma ms : ode_ok ms ->
  parse_ode_mods [join ";"%char (flat_map print_om ms)] [] = Some ms.
Proof.
  intros [Hnd Hok]. cbn [parse_ode_mods].
  destruct ms as [|m r].
  - reflexivity.
  - assert (Hne : flat_map print_om (m :: r) <> []).
    { inversion Hok as [|? ? (Hf & Hl & _) _]; subst. simpl. rewrite print_om_items.
      destruct (om_factors m) as [|f fs]; [congruence|]. destruct (om_reactants m) as [|d ds]; [discriminate|].
      simpl. discriminate. }
    rewrite split_on_join; [| exact Hne |].
    + rewrite (parse_line_all (m :: r) [] Hnd Hok) by (intros ? _ []). reflexivity.
    + apply Forall_forall. intros it Hit. apply in_flat_map in Hit. destruct Hit as (m' & Hm' & Hit).
      rewrite print_om_items in Hit. apply in_map_iff in Hit. destruct Hit as (fd & <- & Hfd).
      rewrite Forall_forall in Hok. destruct (Hok m' Hm') as (_ & _ & Hall).
      rewrite Forall_forall in Hall. apply item_text_nosemi. apply Hall. exact Hfd.
Qed.

(** ** the whole description, ODE modifiers included *)
Definition with_ode (c : cfg) (om : list omod) : cfg :=
  {| c_name := c_name c; c_description := c_description c; c_loads := c_loads c;
     c_elements := c_elements c; c_pseudo := c_pseudo c; c_replacement := c_replacement c;
     c_grain := c_grain c; c_surface := c_surface c; c_bulk := c_bulk c;
     c_allowed := c_allowed c; c_required := c_required c;
     c_binding := c_binding c; c_yield := c_yield c;
     c_grain_model := c_grain_model c; c_files := c_files c; c_formats := c_formats c;
     c_heating := c_heating c; c_cooling := c_cooling c; c_shielding := c_shielding c;
     c_rate_mods := c_rate_mods c; c_ode_mods := om;
     c_solver := c_solver c; c_device := c_device c; c_method := c_method c |}.

Theorem options_roundtrip_full_lemma c :
  wf_cfg (with_ode c []) -> ode_ok (c_ode_mods c) ->
  no_null (join ";"%char (flat_map print_om (c_ode_mods c))) ->
  init_config true (print_opts c) = Some c.
Proof.
  intros Hwf Hok Hnn. pose proof (options_roundtrip_lemma _ Hwf) as H0.
  unfold init_config in *.
  cbn [print_opts with_ode o_name o_description o_loading o_elements o_pseudo o_replacement o_surface o_bulk
    o_allowed o_extra o_binding o_yield o_grain_symbol o_grain_model o_files o_formats o_heating o_cooling o_shielding
    o_rate_mods o_ode_mods o_solver o_device o_method
    c_name c_description c_loads c_elements c_pseudo c_replacement c_grain c_surface c_bulk c_allowed c_required
    c_binding c_yield c_grain_model c_files c_formats c_heating c_cooling c_shielding c_rate_mods c_ode_mods
    c_solver c_device c_method] in *.
  cbn [map] in *. unfold no_null in Hnn. rewrite Hnn, (parse_ode_mods_print_lemma _ Hok).
  repeat match type of H0 with
         | context [match ?X with _ => _ end] =>
             match X with
             | parse_ode_mods _ _ => fail 1
             | _ => destruct X eqn:?; try discriminate
             end
         end.
  destruct (parse_ode_mods _ _) in H0; try discriminate.
  injection H0 as E1 E2 E3 E4 E5 E6 E7 E8 E9 E10 E11 E12 E13 E14 E15 E16 E17 E18 E19 E20 E21 E22 E23 E24.
  subst.
  repeat match goal with E : ?a = ?b |- context [?a] => rewrite E; clear E end.
  destruct c. reflexivity.
Qed.
