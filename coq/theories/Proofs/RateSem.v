(** C05: meaning of an emitted rate string and the published laws. *)
From Coq Require Import List Arith Bool String Ascii ZArith Reals Lra.
From Naunet Require Import Lib.ListX Lib.PyStr Model.CExpr Model.RateGas.
Import ListNotations.
Open Scope R_scope.

Section Sem.
(* any interpretation of literals, identifiers and library functions *)
Variable litv : list ascii -> R.
Variable var : list ascii -> R.
Variable fn : list ascii -> list R -> R.
Variable mag : nat -> R.          (* |alpha|, |beta|, |gamma| and the other printed numbers *)
Variable idx : list ascii -> R -> R.   (* array subscripts: y[IDX_x] *)
Variable nm : nat -> R.            (* identifier atoms (registry symbols) *)

Fixpoint denote (e : ex) : R :=
  match e with
  | ELit s => litv s
  | EMag i => mag i
  | EVar s => var s
  | EName i => nm i
  | ENeg a => - denote a
  | EPos a => denote a
  | EBin op a b =>
      match op with
      | "+"%char => denote a + denote b
      | "-"%char => denote a - denote b
      | "*"%char => denote a * denote b
      | "/"%char => denote a / denote b
      | _ => 0
      end
  | ECall f args => fn f (map denote args)
  | EIdx a i => idx a (denote i)
  | ERel ge a b =>
      if ge then (if Rle_lt_dec (denote b) (denote a) then 1 else 0)
      else (if Rlt_le_dec (denote b) (denote a) then 1 else 0)
  | ECond c a b =>
      match c with
      | ERel true x y => if Rle_lt_dec (denote y) (denote x) then denote a else denote b
      | ERel false x y => if Rlt_le_dec (denote y) (denote x) then denote a else denote b
      | _ => if Req_EM_T (denote c) 0 then denote b else denote a
      end
  end.

Definition sem (r : refusal + txt) : option R :=
  match r with
  | inr s => option_map denote (parse s)
  | inl _ => None
  end.

(* the real number a coefficient of a given class stands for *)
Definition cval (k : cls) (i : nat) : R :=
  match k with Pos => mag i | Neg => - mag i | Zero => 0 | NegZero => 0 end.

Definition V (s : string) : R := var (chars s).
Definition Lt (s : string) : R := litv (chars s).
Definition F1 (f : string) (x : R) : R := fn (chars f) [x].
Definition F2 (f : string) (x y : R) : R := fn (chars f) [x; y].

(** the laws, as the databases define them *)
Definition T := V "Tgas".
Definition law_arrhenius (al be ga : R) := al * F2 "pow" (T / Lt "300.0") be * F1 "exp" (- (ga / T)).
Definition law_cosmicray (al : R) := al * V "zeta".
Definition law_photo (al ga : R) := al * F1 "exp" (- (ga * V "Av")).
Definition law_ionpol1 (al be ga : R) :=
  al * be * (Lt "0.62" + Lt "0.4767" * ga * F1 "sqrt" (Lt "300.0" / T)).
Definition law_ionpol2 (al be ga : R) :=
  al * be * (Lt "1" + Lt "0.0967" * ga * F1 "sqrt" (Lt "300.0" / T) + ga * ga * (Lt "300.0" / T) / Lt "10.526").
Definition law_crphot (one : string) (al be ga : R) :=
  al * F2 "pow" (T / Lt "300.0") be * ga / (Lt one - V "omega").


End Sem.

(* evaluate the parser (a closed computation on atom strings), then the meaning *)
Ltac run_parse :=
  match goal with
  | |- context [parse ?s] =>
      let r := eval vm_compute in (parse s) in
      replace (parse s) with r by (vm_compute; reflexivity)
  end.

Ltac run_parse_all :=
  match goal with
  | |- context [parse ?s] =>
      let r := eval vm_compute in (parse s) in
      progress (replace (parse s) with r by (vm_compute; reflexivity))
  end.

Ltac unify_fn fn lit0 :=
  repeat match goal with
  | |- context [fn ?f (?x :: nil)] =>
      match goal with
      | |- context [fn f (?y :: nil)] =>
          lazymatch y with x => fail | _ => idtac end;
          replace (fn f (y :: nil)) with (fn f (x :: nil)) by (f_equal; f_equal; unfold Rdiv; rewrite ?lit0; ring)
      end
  | |- context [fn ?f (?x1 :: ?x2 :: nil)] =>
      match goal with
      | |- context [fn f (?y1 :: ?y2 :: nil)] =>
          lazymatch constr:((y1, y2)) with (x1, x2) => fail | _ => idtac end;
          replace (fn f (y1 :: y2 :: nil)) with (fn f (x1 :: x2 :: nil))
            by (f_equal; f_equal; [ | f_equal ]; unfold Rdiv; rewrite ?lit0; ring)
      end
  end.

Ltac zero_fn fn lit0 pow0 exp0 :=
  repeat match goal with
  | |- context [fn ?f (?x :: nil)] =>
      replace (fn f (x :: nil)) with 1 by (symmetry; rewrite <- exp0; f_equal; f_equal; unfold Rdiv; rewrite ?lit0; ring)
  | |- context [fn ?f (?x :: ?y :: nil)] =>
      replace (fn f (x :: y :: nil)) with 1 by (symmetry; rewrite <- (pow0 x); f_equal; f_equal; f_equal; unfold Rdiv; rewrite ?lit0; ring)
  end.

Ltac law fn lit0 pow0 exp0 :=
  unfold sem; cbn [kida_rate umist_rate leeds_rate uclchem_rate native_rate Z.eqb Pos.eqb];
  run_parse; cbn [option_map denote map];
  unfold T, cval, V, Lt, F1, F2; cbn [chars list_ascii_of_string];
  f_equal; unify_fn fn lit0; zero_fn fn lit0 pow0 exp0; unfold Rdiv; rewrite ?lit0; ring.
