(** C10: the merged symbol tables hold every symbol once, and a unit that passes the closure test
    declares every name before its first use. *)
From Coq Require Import List Arith Bool String Ascii Lia.
From Naunet Require Import Lib.ListX Lib.PyStr Model.CExpr Model.Symbols Proofs.DecodeProofs.
Import ListNotations.
Open Scope string_scope.
Open Scope list_scope.

Lemma dset_keys k v d : forall x, In x (map fst (dset k v d)) <-> x = k \/ In x (map fst d).
Proof.
  induction d as [|[k' v'] t IH]; intro x; simpl. intuition.
  destruct (String.eqb_spec k' k) as [->|Hne]; simpl.
  - intuition.
  - rewrite IH. intuition.
Qed.

Lemma dset_nodup k v d : NoDup (map fst d) -> NoDup (map fst (dset k v d)).
Proof.
  induction d as [|[k' v'] t IH]; intro H; simpl. constructor; [intros [] | constructor].
  inversion H as [|? ? Hn Hd]; subst.
  destruct (String.eqb_spec k' k) as [->|Hne]; simpl.
  - constructor; auto.
  - constructor; auto. rewrite dset_keys. intros [E|Hin]; [congruence | auto].
Qed.

Lemma fold_dset_nodup (kvs : list (string * string)) : forall d,
  NoDup (map fst d) -> NoDup (map fst (fold_left (fun d' kv => dset (fst kv) (snd kv) d') kvs d)).
Proof. induction kvs as [|kv r IH]; intros d H; simpl; auto. apply IH. apply dset_nodup; auto. Qed.

Lemma fold_dset_keys (kvs : list (string * string)) : forall d x,
  In x (map fst (fold_left (fun d' kv => dset (fst kv) (snd kv) d') kvs d)) <-> In x (map fst kvs) \/ In x (map fst d).
Proof.
  induction kvs as [|kv r IH]; intros d x; simpl. intuition.
  rewrite IH, dset_keys. intuition.
Qed.

(* every merged table holds each symbol exactly once ... *)
Lemma collect_nodup_lemma k comps : NoDup (map fst (collect k comps)).
Proof.
  unfold collect.
  assert (forall d, NoDup (map fst d) ->
    NoDup (map fst (fold_left (fun d c => fold_left (fun d' kv => dset (fst kv) (snd kv) d') (by_kind k c) d) comps d))) as G.
  { induction comps as [|c r IH]; intros d H; simpl; auto. apply IH. apply fold_dset_nodup; auto. }
  apply G. constructor.
Qed.

(* ... and misses none of the symbols any component registers *)
Lemma collect_complete_lemma k comps c sym :
  In c comps -> In sym (map fst (by_kind k c)) -> In sym (map fst (collect k comps)).
Proof.
  unfold collect.
  assert (forall d, In sym (map fst d) \/ (exists c', In c' comps /\ In sym (map fst (by_kind k c'))) ->
    In sym (map fst (fold_left (fun d c => fold_left (fun d' kv => dset (fst kv) (snd kv) d') (by_kind k c) d) comps d))) as G.
  { induction comps as [|c0 r IH]; intros d H; simpl.
    - destruct H as [H|(c' & [] & _)]; auto.
    - apply IH. destruct H as [H|(c' & [<-|Hc] & Hs)].
      + left. apply fold_dset_keys. auto.
      + left. apply fold_dset_keys. auto.
      + right. exists c'. auto. }
  intros Hc Hs. apply G. right. exists c. auto.
Qed.

Lemma subset_spec a b : subset a b = true -> forall x, In x a -> In x b.
Proof.
  unfold subset. rewrite forallb_forall. intros H x Hx. apply memb_In_str. auto.
Qed.

Lemma nodupb_spec l : nodupb l = true -> NoDup l.
Proof.
  induction l as [|x r IH]; simpl; intro H. constructor.
  apply andb_true_iff in H. destruct H as [H1 H2]. constructor; auto.
  intro Hin. apply memb_In_str in Hin. rewrite Hin in H1. discriminate.
Qed.

(* each derived quantity only uses names declared before it *)
Lemma deriveds_closed_sound ds : forall scope, deriveds_closed scope ds = true ->
  forall i k v, nth_error ds i = Some (k, v) ->
  forall x, In x (idents v) -> In x (scope ++ map fst (firstn i ds)).
Proof.
  induction ds as [|[k0 v0] r IH]; intros scope H i k v Hi x Hx. destruct i; discriminate.
  simpl in H. apply andb_true_iff in H. destruct H as [H1 H2].
  destruct i as [|i]; simpl in Hi.
  - injection Hi as <- <-. simpl. rewrite app_nil_r. eapply subset_spec; eauto.
  - specialize (IH _ H2 i k v Hi x Hx). simpl. rewrite <- app_assoc in IH. exact IH.
Qed.

Theorem unit_closed_sound_lemma macros comps uses : unit_closed macros comps uses = true ->
  let consts := map fst (collect KConst comps) in
  let params := map fst (collect KParam comps) in
  let ders := collect KDerived comps in
  let scope0 := fixed_names ++ macros ++ consts ++ params in
  NoDup (consts ++ params ++ map fst ders) /\
  (forall i k v, nth_error ders i = Some (k, v) -> forall x, In x (idents v) -> In x (scope0 ++ map fst (firstn i ders))) /\
  (forall u x, In u uses -> In x (idents u) -> In x (scope0 ++ map fst ders)).
Proof.
  unfold unit_closed. intro H. apply andb_true_iff in H. destruct H as [H H3]. apply andb_true_iff in H. destruct H as [H1 H2].
  split. apply nodupb_spec; auto. split.
  - intros i k v Hi x Hx. eapply deriveds_closed_sound; eauto.
  - intros u x Hu Hx. rewrite forallb_forall in H3. eapply subset_spec; eauto.
Qed.
