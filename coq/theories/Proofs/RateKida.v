(** C05: KIDA formulae *)
From Coq Require Import List Arith Bool String Ascii ZArith Reals Lra.
From Naunet Require Import Lib.ListX Lib.PyStr Model.CExpr Model.RateGas Proofs.RateSem.
Import ListNotations.
Open Scope R_scope.

Section Laws.
Variable litv : list ascii -> R.
Variable var : list ascii -> R.
Variable fn : list ascii -> list R -> R.
Variable mag : nat -> R.
Variable idx : list ascii -> R -> R.
Variable nm : nat -> R.
Hypothesis lit0 : litv ["0"; "."; "0"]%char = 0.
Hypothesis pow0 : forall x, fn ["p"; "o"; "w"]%char [x; 0] = 1.
Hypothesis exp0 : fn ["e"; "x"; "p"]%char [0] = 1.
Notation sem := (sem litv var fn mag idx nm).
Notation cval := (cval mag).
Notation V := (V var).
Notation Lt := (Lt litv).
Notation T := (T var).
Notation F2 := (F2 fn).
Notation law_arrhenius := (law_arrhenius litv var fn).
Notation law_cosmicray := (law_cosmicray var).
Notation law_photo := (law_photo var fn).
Notation law_ionpol1 := (law_ionpol1 litv var fn).
Notation law_ionpol2 := (law_ionpol2 litv var fn).
Notation law_crphot := (law_crphot litv var fn).
Ltac law := RateSem.law fn lit0 pow0 exp0.
Lemma kida1_lemma ka kb kc : sem (kida_rate ka kb kc 1) = Some (law_cosmicray (cval ka 0)).
Proof. unfold law_cosmicray. destruct ka, kb, kc; law. Qed.

Lemma kida2_lemma ka kb kc : sem (kida_rate ka kb kc 2) = Some (law_photo (cval ka 0) (cval kc 2)).
Proof. unfold law_photo. destruct ka, kb, kc; law. Qed.

Lemma kida3_lemma ka kb kc :
  sem (kida_rate ka kb kc 3) = Some (law_arrhenius (cval ka 0) (cval kb 1) (cval kc 2)).
Proof. unfold law_arrhenius. destruct ka, kb, kc; law. Qed.

Lemma kida4_lemma ka kb kc :
  sem (kida_rate ka kb kc 4) = Some (law_ionpol1 (cval ka 0) (cval kb 1) (cval kc 2)).
Proof. unfold law_ionpol1. destruct ka, kb, kc; law. Qed.

Lemma kida5_lemma ka kb kc :
  sem (kida_rate ka kb kc 5) = Some (law_ionpol2 (cval ka 0) (cval kb 1) (cval kc 2)).
Proof. unfold law_ionpol2. destruct ka, kb, kc; law. Qed.

Lemma kida_refuses_lemma ka kb kc :
  kida_rate ka kb kc 6 = inl RNotImplemented /\
  forall f, (f <? 1)%Z || (6 <? f)%Z = true -> kida_rate ka kb kc f = inl RUnknown.
Proof.
  split. reflexivity. intros f Hf.
  destruct f as [|p|p]; try reflexivity.
  destruct p as [[[p|p|]|[p|p|]|]|[[p|p|]|[p|p|]|]|]; try reflexivity; simpl in Hf; discriminate.
Qed.

End Laws.
