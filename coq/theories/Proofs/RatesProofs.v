From Coq Require Import List Arith Bool String ZArith QArith Lia Lqa.
From Naunet Require Import Lib.ListX Model.Rates.
Import ListNotations.
Close Scope Q_scope.

Lemma overwrite_one_spec mods pos ix : forall e,
  overwrite_one mods pos ix e
  = match last_match ix mods with
    | Some v => {| rs_guard := NoGuard; rs_index := pos; rs_expr := v |}
    | None => e
    end.
Proof.
  unfold overwrite_one. induction mods as [|[k v] mods IH]; intro e; simpl; auto.
  rewrite IH. destruct (last_match ix mods); auto. destruct (Z.eqb k ix); auto.
Qed.

Lemma apply_from_spec mods : forall idxs eqns p pos, List.length idxs = List.length eqns ->
  nth_error (apply_rate_mods_from p mods idxs eqns) pos
  = match nth_error eqns pos, nth_error idxs pos with
    | Some e, Some ix =>
        Some (match last_match ix mods with
              | Some v => {| rs_guard := NoGuard; rs_index := p + pos; rs_expr := v |}
              | None => e
              end)
    | _, _ => None
    end.
Proof.
  induction idxs as [|ix ir IH]; intros [|e er] p pos H; simpl in *; try discriminate.
  - destruct pos; auto.
  - destruct pos; simpl.
    + rewrite overwrite_one_spec, Nat.add_0_r. auto.
    + rewrite IH by lia. replace (S p + pos) with (p + S pos) by lia. auto.
Qed.

Lemma rate_mod_exact_lemma : forall (mods : list (Z * string)) (idxs : list Z) (eqns : list rate_stmt) (pos : nat),
  List.length idxs = List.length eqns ->
  nth_error (apply_rate_mods mods idxs eqns) pos
  = match nth_error eqns pos, nth_error idxs pos with
    | Some e, Some ix =>
        Some (match last_match ix mods with
              | Some v => {| rs_guard := NoGuard; rs_index := pos; rs_expr := v |}
              | None => e
              end)
    | _, _ => None
    end.
Proof. intros. unfold apply_rate_mods. rewrite apply_from_spec; auto. Qed.

Lemma render_indices_spec : forall idxs : list Z,
  render_indices idxs = if forallb (Z.eqb (-1)) idxs then map Z.of_nat (seq 0 (List.length idxs)) else idxs.
Proof. reflexivity. Qed.

(** C06 *)
Lemma Qle_bool_spec a b : reflect (a <= b)%Q (Qle_bool a b).
Proof. apply iff_reflect. symmetry. apply Qle_bool_iff. Qed.

Lemma guard_sem_lemma tmin tmax T :
  guard_holds (mk_guard tmin tmax) T = active tmin tmax T.
Proof.
  unfold mk_guard, active, Qpos_b, guard_holds.
  destruct (Qle_bool tmin 0), (Qle_bool tmax 0); simpl; auto.
  - rewrite andb_true_r. auto.
Qed.

Lemma assign_rates_nth rs pos :
  nth_error (assign_rates rs) pos
  = option_map (fun r => {| rs_guard := mk_guard (r_tmin r) (r_tmax r); rs_index := pos; rs_expr := r_expr r |})
               (nth_error rs pos).
Proof.
  unfold assign_rates, enumerate. 
  assert (forall a p, nth_error (map (fun p : nat * rate_src =>
         {| rs_guard := mk_guard (r_tmin (snd p)) (r_tmax (snd p));
            rs_index := fst p; rs_expr := r_expr (snd p) |}) (enumerate_from a rs)) p
     = option_map (fun r => {| rs_guard := mk_guard (r_tmin r) (r_tmax r); rs_index := a + p; rs_expr := r_expr r |})
               (nth_error rs p)) as H.
  { induction rs as [|r rs IH]; intros a p; simpl.
    - destruct p; auto.
    - destruct p; simpl. rewrite Nat.add_0_r. auto.
      rewrite IH. replace (S a + p) with (a + S p) by lia. auto. }
  apply (H 0 pos).
Qed.

Lemma no_window_lemma tmin tmax T : (tmin <= 0)%Q -> (tmax <= 0)%Q -> active tmin tmax T = true.
Proof.
  intros H1 H2. unfold active. apply Qle_bool_iff in H1, H2. rewrite H1, H2. auto.
Qed.

Lemma active_pos a b T : (0 < a)%Q -> (0 < b)%Q ->
  (active a b T = true <-> (a <= T /\ T < b)%Q).
Proof.
  intros Ha Hb. unfold active, Qlt_b.
  destruct (Qle_bool_spec a 0); [lra|]. destruct (Qle_bool_spec b 0); [lra|]. simpl.
  destruct (Qle_bool_spec a T), (Qle_bool_spec b T); simpl; split; intros; try discriminate; try lra; auto.
Qed.

(** adjacent windows b0 < b1 < ... < bn: exactly one is active on [b0, bn) *)
Fixpoint increasing (bs : list Q) : Prop :=
  match bs with
  | a :: ((b :: _) as r) => (a < b)%Q /\ increasing r
  | _ => True
  end.

Definition window_active (bs : list Q) (i : nat) (T : Q) : Prop :=
  exists a b, nth_error bs i = Some a /\ nth_error bs (S i) = Some b /\ active a b T = true.

Lemma increasing_lower a bs x : increasing (a :: bs) -> In x bs -> (a < x)%Q.
Proof.
  revert a. induction bs as [|b bs IH]; intros a H Hin. destruct Hin.
  destruct H as [Hab Hr]. destruct Hin as [<-|Hin]; auto.
  specialize (IH b Hr Hin). lra.
Qed.

Lemma partition_lemma bs T b0 bn :
  increasing bs -> Forall (fun b => 0 < b)%Q bs ->
  hd_error bs = Some b0 -> last bs 0%Q = bn -> (2 <= List.length bs)%nat ->
  (b0 <= T)%Q -> (T < bn)%Q ->
  exists i, window_active bs i T /\ forall j, window_active bs j T -> j = i.
Proof.
  revert b0. induction bs as [|a bs IH]; intros b0 Hinc Hpos Hhd Hlast Hlen H0 Hn.
  { simpl in Hlen. lia. }
  simpl in Hhd. injection Hhd as <-.
  destruct bs as [|b bs]. { simpl in Hlen. lia. }
  destruct Hinc as [Hab Hinc].
  inversion Hpos as [|? ? Ha Hpos']; subst. inversion Hpos' as [|? ? Hb Hpos'']; subst.
  destruct (Qlt_le_dec T b) as [Hlt|Hge].
  - (* first window *)
    exists 0%nat. split.
    + exists a, b. repeat split; auto. apply active_pos; auto.
    + intros j (x & y & Hx & Hy & Hact). destruct j; auto. exfalso.
      simpl in Hx, Hy.
      assert (In x (b :: bs)) as Hinx by (eapply nth_error_In; eauto).
      assert (b <= x)%Q as Hbx.
      { destruct Hinx as [<-|Hinx]. lra. pose proof (increasing_lower b bs x Hinc Hinx). lra. }
      assert (0 < x)%Q by lra.
      assert (In y (b :: bs)) as Hiny by (right; eapply nth_error_In; eauto).
      assert (0 < y)%Q by (rewrite Forall_forall in Hpos'; auto).
      apply active_pos in Hact; auto. lra.
  - (* later windows *)
    destruct bs as [|c bs].
    { simpl in Hn. lra. }
    destruct (IH b Hinc Hpos' eq_refl) as (i & Hi & Huniq); auto.
    { simpl. simpl in Hlen. lia. }
    exists (S i). split.
    + destruct Hi as (x & y & Hx & Hy & Hact). exists x, y. auto.
    + intros j (x & y & Hx & Hy & Hact). destruct j.
      * exfalso. simpl in Hx, Hy. injection Hx as <-. injection Hy as <-.
        apply active_pos in Hact; auto. lra.
      * f_equal. apply Huniq. exists x, y. auto.
Qed.

Lemma guard_sem_full : forall (tmin tmax T v : Q) (pos : nat) (e : string),
  stmt_value {| rs_guard := mk_guard tmin tmax; rs_index := pos; rs_expr := e |} T v
  = if active tmin tmax T then v else 0%Q.
Proof. intros. unfold stmt_value. simpl. rewrite guard_sem_lemma. auto. Qed.

Lemma overwrite_drops_guard : forall mods pos ix e v,
  last_match ix mods = Some v ->
  overwrite_one mods pos ix e = {| rs_guard := NoGuard; rs_index := pos; rs_expr := v |}.
Proof. intros. rewrite overwrite_one_spec, H. auto. Qed.

Definition c06_example_statement : Prop :=
  let bs := [10 # 1; 300 # 1; 1000 # 1; 41000 # 1]%Q in
  increasing bs /\ Forall (fun b => 0 < b)%Q bs /\
  window_active bs 1 (300 # 1)%Q /\ ~ window_active bs 0 (300 # 1)%Q /\
  active (-1 # 1) (-1 # 1) (5 # 1) = true /\ active (10 # 1) (0 # 1) (5 # 1) = false.
Lemma c06_example_proof : c06_example_statement.
Proof.
  unfold c06_example_statement. repeat split; try (vm_compute; congruence).
  - repeat constructor.
  - exists (300 # 1)%Q, (1000 # 1)%Q. repeat split.
  - intros (a & b & Ha & Hb & Hact). simpl in Ha, Hb. injection Ha as <-. injection Hb as <-.
    vm_compute in Hact. discriminate.
Qed.

(** nested guards without else branches are the conjunction of the guards *)
Lemma nested_value_lemma : forall (s : nstmt) (T v : Q),
  nstmt_value s T v = if forallb (fun g => guard_holds g T) (nstmt_guards s) then v else 0%Q.
Proof.
  induction s as [i e | g b IH]; intros T v; cbn [nstmt_value nstmt_guards forallb].
  - reflexivity.
  - destruct (guard_holds g T); cbn [andb]; [apply IH | reflexivity].
Qed.

Lemma nested_both_lemma : forall (a b T v : Q) (i : nat) (e : string),
  nstmt_value (NIf (Lower a) (NIf (Upper b) (NAssign i e))) T v
  = stmt_value {| rs_guard := Both a b; rs_index := i; rs_expr := e |} T v.
Proof.
  intros. unfold stmt_value. cbn [nstmt_value guard_holds rs_guard].
  destruct (Qle_bool a T); cbn [andb]; reflexivity.
Qed.
