(** Sums of products / quotients of atomic operands, as text: the lexer and the
    parser of Model/CExpr.v read them as the left-nested expression, for every
    list of terms (used by C04 helper statements and C16 renormalisation texts). *)
From Coq Require Import List Arith Bool String Ascii Lia.
From Naunet Require Import Lib.ListX Lib.PyStr Model.CExpr Model.OdeText Model.SumText Proofs.OdeTextProofs.
Import ListNotations.

(** ** operands *)
Definition opd_toks (o : opd) : list tok :=
  match o with
  | OArr a i => [TId (aname_chars a); TOp "["%char; TName i; TOp "]"%char]
  | OMag i => [TMag i]
  | ONm i => [TName i]
  end.
Definition opd_ex (o : opd) : ex :=
  match o with OArr a i => EIdx (aname_chars a) (EName i) | OMag i => EMag i | ONm i => EName i end.

Lemma punary_opd o rest n : 9 <= n -> punary n (opd_toks o ++ rest) = Some (opd_ex o, rest).
Proof.
  intro H. do 9 (destruct n as [|n]; [lia|]). destruct o as [a i|i|i]; [destruct a|..]; reflexivity.
Qed.

(** ** a chain  o0 (op o1) (op o2) ...  with op = * or / *)
Definition links_toks (ls : list link) : list tok := flat_map (fun l => TOp (op_char (fst l)) :: opd_toks (snd l)) ls.
Definition chain_ex (o : opd) (ls : list link) : ex :=
  fold_left (fun acc l => EBin (op_char (fst l)) acc (opd_ex (snd l))) ls (opd_ex o).

Lemma pterm_rest_links : forall ls l rest n, stops_term rest -> List.length ls + 11 <= n ->
  pterm_rest n l (links_toks ls ++ rest) =
  Some (fold_left (fun acc k => EBin (op_char (fst k)) acc (opd_ex (snd k))) ls l, rest).
Proof.
  induction ls as [|[d o] ls IH]; intros l rest n Hs Hn.
  - destruct n as [|n]; [simpl in Hn; lia|]. apply pterm_rest_stop. exact Hs.
  - destruct n as [|n]; [simpl in Hn; lia|].
    cbn [links_toks flat_map fst snd]. fold (links_toks ls). rewrite <- !app_assoc. cbn [app].
    destruct d; cbn [op_char].
    + rewrite pterm_rest_slash. rewrite punary_opd by (simpl in Hn; lia).
      rewrite IH; auto. simpl in Hn. lia.
    + rewrite pterm_rest_star. rewrite punary_opd by (simpl in Hn; lia).
      rewrite IH; auto. simpl in Hn. lia.
Qed.

Lemma pterm_chain o ls rest n : stops_term rest -> List.length ls + 13 <= n ->
  pterm n (opd_toks o ++ links_toks ls ++ rest) = Some (chain_ex o ls, rest).
Proof.
  intros Hs Hn. destruct n as [|n]; [lia|]. rewrite pterm_S.
  rewrite punary_opd by lia. apply pterm_rest_links; auto. lia.
Qed.

(** ** summands and sums *)
Definition smd_toks (x : smd) : list tok :=
  match x with SLit s => [TNum s] | SChain o ls => (opd_toks o ++ links_toks ls)%list end.
Definition smd_ex (x : smd) : ex := match x with SLit s => ELit s | SChain o ls => chain_ex o ls end.
Definition smd_size (x : smd) : nat := match x with SLit _ => 0 | SChain _ ls => List.length ls end.

Lemma pterm_smd x rest n : stops_term rest -> smd_size x + 13 <= n ->
  pterm n (smd_toks x ++ rest) = Some (smd_ex x, rest).
Proof.
  intros Hs Hn. destruct x as [s|o ls].
  - do 4 (destruct n as [|n]; [simpl in Hn; lia|]). cbn [smd_toks app].
    rewrite pterm_S.
    change (punary (S (S (S n))) (TNum s :: rest)) with (Some (ELit s, rest)).
    apply pterm_rest_stop. exact Hs.
  - cbn [smd_toks smd_ex]. rewrite <- app_assoc. apply pterm_chain; auto.
Qed.

Definition mores_toks (ms : list more) : list tok := flat_map (fun m => sign_tok (fst m) :: smd_toks (snd m)) ms.
Definition gsum_toks (x : smd) (ms : list more) : list tok := (smd_toks x ++ mores_toks ms)%list.
Definition gsum_ex (x : smd) (ms : list more) : ex :=
  fold_left (fun acc (m : more) => EBin (if fst m then "-"%char else "+"%char) acc (smd_ex (snd m))) ms (smd_ex x).
Definition gneed (ms : list more) : nat := fold_right (fun (m : more) k => Nat.max (smd_size (snd m)) k) 0 ms.

Lemma stops_term_mores ms rest : stops_term rest -> stops_term (mores_toks ms ++ rest).
Proof. destruct ms as [|[neg x] ms]; simpl; auto. destruct neg; intros _; exact I. Qed.

Lemma pexpr_rest_mores : forall ms l rest n, stops_expr rest -> List.length ms + gneed ms + 15 <= n ->
  pexpr_rest n l (mores_toks ms ++ rest) =
  Some (fold_left (fun acc (m : more) => EBin (if fst m then "-"%char else "+"%char) acc (smd_ex (snd m))) ms l, rest).
Proof.
  induction ms as [|[neg x] ms IH]; intros l rest n Hs Hn.
  - destruct n as [|n]; [simpl in Hn; lia|]. apply pexpr_rest_stop. exact Hs.
  - destruct n as [|n]; [simpl in Hn; lia|].
    cbn [mores_toks flat_map fst snd]. fold (mores_toks ms). rewrite <- !app_assoc. cbn [app].
    assert (Hp : pterm n (smd_toks x ++ mores_toks ms ++ rest) = Some (smd_ex x, (mores_toks ms ++ rest)%list)).
    { apply pterm_smd. apply stops_term_mores. destruct Hs; auto. simpl in Hn. lia. }
    destruct neg; unfold sign_tok; cbn [fold_left fst snd].
    + change (pexpr_rest (S n) l (TOp "-"%char :: (smd_toks x ++ mores_toks ms ++ rest)%list))
        with (match pterm n (smd_toks x ++ mores_toks ms ++ rest) with
              | Some (e, r') => pexpr_rest n (EBin "-"%char l e) r' | None => None end).
      rewrite Hp. apply IH; auto. simpl in Hn. lia.
    + change (pexpr_rest (S n) l (TOp "+"%char :: (smd_toks x ++ mores_toks ms ++ rest)%list))
        with (match pterm n (smd_toks x ++ mores_toks ms ++ rest) with
              | Some (e, r') => pexpr_rest n (EBin "+"%char l e) r' | None => None end).
      rewrite Hp. apply IH; auto. simpl in Hn. lia.
Qed.

Theorem parse_toks_gsum x ms : parse_toks (gsum_toks x ms) = Some (gsum_ex x ms).
Proof.
  unfold parse_toks.
  set (N := 10 * List.length (gsum_toks x ms) + 10).
  assert (HN : smd_size x + 16 <= N /\ List.length ms + gneed ms + 18 <= N).
  { unfold N, gsum_toks. rewrite app_length.
    assert (L1 : forall ls, List.length ls <= List.length (links_toks ls)).
    { induction ls as [|[d q] ls IHl]; simpl; auto. rewrite ?app_length. simpl. lia. }
    assert (L2 : forall y, smd_size y + 1 <= List.length (smd_toks y)).
    { destruct y as [s|o ls]; simpl; auto. rewrite app_length.
      assert (1 <= List.length (opd_toks o)) by (destruct o; simpl; lia).
      specialize (L1 ls). lia. }
    assert (G : forall l, List.length l + gneed l <= List.length (mores_toks l)).
    { induction l as [|[b y] l IH]; simpl; auto. rewrite app_length. specialize (L2 y). lia. }
    specialize (L2 x).
    specialize (G ms). split; lia. }
  clearbody N. destruct HN as [HN1 HN2]. do 3 (destruct N as [|N]; [lia|]).
  rewrite pcond_S, prel_S, pexpr_S.
  unfold gsum_toks.
  rewrite <- (app_nil_r (mores_toks ms)).
  rewrite pterm_smd; [| apply stops_term_mores; exact I | lia].
  rewrite pexpr_rest_mores; [| split; exact I | lia].
  reflexivity.
Qed.

(** ** the text *)

(* the only literal of these texts *)
Definition lit_ok (x : smd) : Prop := match x with SLit s => s = zero_lit | SChain _ _ => True end.
(* what follows a summand: the end, or the blank that starts the next one *)
Definition after_ok (r : txt) : Prop := r = [] \/ exists r', r = C " "%char :: r'.

Lemma lex_opd o r acc : lex_go 0 [] (opd_txt o ++ r)%list acc = lex_go 0 [] r (rev (opd_toks o) ++ acc)%list.
Proof. destruct o as [a i|i|i]; [destruct a; destruct r as [|[d| |] r']|..]; reflexivity. Qed.

Lemma lex_link sp l r acc :
  lex_go 0 [] (link_txt sp l ++ r)%list acc = lex_go 0 [] r (rev (TOp (op_char (fst l)) :: opd_toks (snd l)) ++ acc)%list.
Proof.
  destruct l as [d o]. unfold link_txt; cbn [fst snd].
  destruct sp, d, o as [a i|i|i]; try destruct a; destruct r as [|[c| |] r']; reflexivity.
Qed.

Lemma lex_links sp : forall ls r acc,
  lex_go 0 [] (links_txt sp ls ++ r)%list acc = lex_go 0 [] r (rev (links_toks ls) ++ acc)%list.
Proof.
  induction ls as [|l ls IH]; intros r acc. reflexivity.
  cbn [links_txt flat_map]. fold (links_txt sp ls). rewrite <- app_assoc, lex_link, IH. f_equal.
  cbn [links_toks flat_map]. fold (links_toks ls).
  change (TOp (op_char (fst l)) :: opd_toks (snd l) ++ links_toks ls)%list
    with ((TOp (op_char (fst l)) :: opd_toks (snd l)) ++ links_toks ls)%list.
  rewrite rev_app_distr, <- app_assoc. reflexivity.
Qed.

Lemma lex_smd sp x r acc : lit_ok x -> after_ok r ->
  lex_go 0 [] (smd_txt sp x ++ r)%list acc = lex_go 0 [] r (rev (smd_toks x) ++ acc)%list.
Proof.
  intros Hl Hr. destruct x as [s|o ls].
  - simpl in Hl. subst s. destruct Hr as [->|(r' & ->)]; reflexivity.
  - cbn [smd_txt smd_toks]. rewrite <- app_assoc, lex_opd, lex_links. f_equal.
    rewrite rev_app_distr, <- app_assoc. reflexivity.
Qed.

Lemma lex_more sp m r acc : lit_ok (snd m) -> after_ok r ->
  lex_go 0 [] (more_txt sp m ++ r)%list acc = lex_go 0 [] r (rev (sign_tok (fst m) :: smd_toks (snd m)) ++ acc)%list.
Proof.
  intros Hl Hr. destruct m as [neg x]. unfold more_txt; cbn [fst snd]. rewrite <- app_assoc. cbn [app].
  (* the sign, between two blanks *)
  assert (Hs : forall r0 acc0, lex_go 0 [] (C " "%char :: C (if neg then "-"%char else "+"%char) :: C " "%char :: r0) acc0
                               = lex_go 0 [] r0 (sign_tok neg :: acc0)).
  { intros r0 acc0. destruct neg; reflexivity. }
  rewrite Hs, lex_smd; auto. f_equal. cbn [rev]. rewrite <- app_assoc. reflexivity.
Qed.

Lemma after_ok_mores sp ms r : after_ok r -> after_ok (mores_txt sp ms ++ r)%list.
Proof. destruct ms as [|m ms]; simpl; auto. intros _. right. eexists. reflexivity. Qed.

Lemma lex_mores sp : forall ms r acc, Forall (fun m => lit_ok (snd m)) ms -> after_ok r ->
  lex_go 0 [] (mores_txt sp ms ++ r)%list acc = lex_go 0 [] r (rev (mores_toks ms) ++ acc)%list.
Proof.
  induction ms as [|m ms IH]; intros r acc Hl Hr. reflexivity.
  inversion Hl as [|? ? Hm Hms]; subst.
  cbn [mores_txt flat_map]. fold (mores_txt sp ms). rewrite <- app_assoc.
  rewrite lex_more; auto. 2:{ apply after_ok_mores. exact Hr. }
  rewrite IH; auto. f_equal. cbn [mores_toks flat_map]. fold (mores_toks ms).
  change (sign_tok (fst m) :: smd_toks (snd m) ++ mores_toks ms)%list
    with ((sign_tok (fst m) :: smd_toks (snd m)) ++ mores_toks ms)%list.
  rewrite rev_app_distr, <- app_assoc. reflexivity.
Qed.

Theorem lex_gsum sp x ms : lit_ok x -> Forall (fun m => lit_ok (snd m)) ms ->
  lex (gsum_txt sp x ms) = gsum_toks x ms.
Proof.
  intros Hx Hms. unfold lex, gsum_txt, gsum_toks.
  rewrite lex_smd; auto. 2:{ rewrite <- (app_nil_r (mores_txt sp ms)). apply after_ok_mores. left. reflexivity. }
  rewrite <- (app_nil_r (mores_txt sp ms)), lex_mores; auto. 2:{ left. reflexivity. }
  cbn [lex_go flush]. rewrite app_nil_r, rev_app_distr, !rev_involutive. reflexivity.
Qed.

Theorem parse_gsum sp x ms : lit_ok x -> Forall (fun m => lit_ok (snd m)) ms ->
  parse (gsum_txt sp x ms) = Some (gsum_ex x ms).
Proof. intros Hx Hms. unfold parse. rewrite lex_gsum by assumption. apply parse_toks_gsum. Qed.
