(** C08: the gas-phase counterpart of an ice species name. *)
From Coq Require Import List Arith Bool String Ascii ZArith NArith Lia.
From Naunet Require Import Lib.ListX Lib.PyStr Lib.Sexp Model.Species Model.SpeciesSpec
     Proofs.SpeciesProofs Proofs.IndexProofs Proofs.DecodeProofs Proofs.SpeciesRoundtrip.
From Naunet Require Import Proofs.DigitsProofs.
Import ListNotations.
Close Scope Z_scope.

Lemma starts_with_app p : forall r, starts_with p (p ++ r)%list = true.
Proof. induction p as [|a p IH]; intro r; simpl; auto. rewrite Ascii.eqb_refl. simpl. apply IH. Qed.

Lemma replace_from_no_occ p new : forall fuel s,
  (forall st, ~ occ p s st) -> replace_from fuel p new s = s.
Proof.
  induction fuel as [|f IH]; intros s H; simpl; auto.
  destruct s as [|c s']; auto.
  destruct (starts_with p (c :: s')) eqn:E.
  - exfalso. apply (H 0). exact E.
  - f_equal. apply IH. intros st Hst. apply (H (S st)). exact Hst.
Qed.

Lemma replace_prefix p rest : p <> [] -> (forall st, ~ occ p rest st) ->
  replace_l p [] (p ++ rest)%list = rest.
Proof.
  intros Hp Hno. unfold replace_l. destruct p as [|a p']; [congruence|].
  remember (a :: p') as p. rewrite app_length.
  assert (List.length p = S (List.length p')) as Hl by (subst; reflexivity).
  rewrite Hl. cbn [Nat.add replace_from].
  destruct (p ++ rest)%list as [|c s'] eqn:Es. { subst p; discriminate. }
  rewrite <- Es, starts_with_app. cbn [app].
  rewrite skipn_app, skipn_all, Nat.sub_diag. simpl skipn. cbn [app].
  apply replace_from_no_occ. exact Hno.
Qed.

(** once the surface group is set, the counting loop keeps it (or fails) *)
Lemma add_count_surface_keep T Y el c st st' g :
  add_count T Y el c st = inr st' -> p_surface st = Some g -> p_surface st' = Some g.
Proof.
  unfold add_count. intros H Hs.
  destruct (memb String.eqb el (t_pseudo T)). { injection H as <-. exact Hs. }
  destruct (String.eqb el (y_surface Y)). { rewrite Hs in H. discriminate. }
  destruct (String.eqb el (y_grain Y)).
  - destruct (p_grain st); [discriminate|]. injection H as <-. exact Hs.
  - injection H as <-. exact Hs.
Qed.

Lemma item_step_surface_keep T Y t d st st' g :
  item_step T Y t d st = inr st' -> p_surface st = Some g -> p_surface st' = Some g.
Proof.
  unfold item_step. intros H Hs.
  destruct (negb (Nat.eqb (List.length d) 0)).
  - destruct (all_digits d); [|discriminate]. eapply add_count_surface_keep; eauto.
  - destruct (String.eqb _ (y_grain Y) || String.eqb _ (y_surface Y))%bool.
    + eapply add_count_surface_keep; eauto.
    + destruct (negb (String.eqb _ "")).
      * eapply add_count_surface_keep; eauto.
      * injection H as <-. exact Hs.
Qed.

Lemma items_loop_surface_keep T Y : forall its st st' g,
  items_loop T Y its st = inr st' -> p_surface st = Some g -> p_surface st' = Some g.
Proof.
  induction its as [|[t d] r IH]; intros st st' g H Hs; simpl in H.
  - injection H as <-. exact Hs.
  - destruct (item_step T Y t d st) as [e|st1] eqn:E; [discriminate|].
    eapply IH; eauto. eapply item_step_surface_keep; eauto.
Qed.

(* digits after the prefix: none, or a number without a leading zero *)
Definition group_ok (d : list ascii) : Prop :=
  d = [] \/ (forallb is_digit d = true /\ match d with c :: _ => c <> "0"%char | [] => False end).

Lemma group_text d : group_ok d ->
  (if N.eqb (group_of d) 0 then "" else print_N (group_of d))%string = str d.
Proof.
  intros [->|[Hd Hc]]. reflexivity.
  destruct d as [|c r]; [destruct Hc|]. unfold group_of.
  simpl in Hd. apply andb_true_iff in Hd. destruct Hd as [Hcd Hr].
  pose proof (zval_pos c r Hcd Hc Hr) as Hpos.
  assert (Z.of_N (digits_val (c :: r) 0) = zval (c :: r) 0) as Hz by (rewrite digits_val_zval; reflexivity).
  destruct (N.eqb_spec (digits_val (c :: r) 0) 0) as [E|E].
  - rewrite E in Hz. change (Z.of_N 0) with 0%Z in Hz. lia.
  - apply print_digits_lemma. split. simpl. rewrite Hcd. exact Hr. left. exact Hc.
Qed.

Lemma all_digits_of d : d <> [] -> forallb is_digit d = true -> all_digits d = true.
Proof. intros Hne H. destruct d; [congruence|]. unfold all_digits. simpl in *. exact H. Qed.

Theorem surface_counterpart_lemma T Y name d0 its chg :
  wf_tables T Y -> t_replacement T = [] ->
  y_grain Y <> ""%string -> y_surface Y <> ""%string ->
  memb String.eqb (y_surface Y) (t_pseudo T) = false ->
  chars name = (chars (y_surface Y) ++ d0 ++ render its ++ chg)%list ->
  parsename_of (chars name) = render ((chars (y_surface Y), d0) :: its) ->
  Forall (fun it : item => In (fst it) (map txt (components T Y)) /\ fst it <> []) ((chars (y_surface Y), d0) :: its) ->
  unambiguous (components T Y) (render ((chars (y_surface Y), d0) :: its)) (positions 0 ((chars (y_surface Y), d0) :: its)) ->
  group_ok d0 ->
  (forall st, ~ occ (chars (y_surface Y) ++ d0)%list (render its ++ chg)%list st) ->
  forall sp, parse_species T Y name = inr sp ->
  sp_surface sp = Some (group_of d0) /\ is_surface sp = true /\ gasname sp = str (render its ++ chg)%list.
Proof.
  intros Hwf Hrep Hg Hs Hps Hname Hpn Hits HU Hgrp Hno sp Hsp.
  pose proof (name_roundtrip_lemma T Y name _ Hwf Hpn Hits HU) as R.
  (* the first two steps of the loop *)
  assert (E0 : item_step T Y [] [] st0 = inr st0).
  { unfold item_step, replaced, lookup_str. rewrite Hrep.
    cbn [find option_map List.length Nat.eqb negb str string_of_list_ascii].
    assert (String.eqb ""%string (y_grain Y) = false) as -> by (apply String.eqb_neq; congruence).
    assert (String.eqb ""%string (y_surface Y) = false) as -> by (apply String.eqb_neq; congruence).
    reflexivity. }
  assert (E1 : item_step T Y (chars (y_surface Y)) d0 st0 =
               inr {| p_counts := []; p_surface := Some (group_of d0); p_grain := None |}).
  { unfold item_step, replaced, lookup_str. rewrite Hrep. cbn [find option_map].
    rewrite str_chars.
    destruct d0 as [|c r].
    - cbn [List.length Nat.eqb negb]. rewrite String.eqb_refl, orb_true_r.
      unfold add_count. rewrite Hps, String.eqb_refl. reflexivity.
    - cbn [List.length Nat.eqb negb]. destruct Hgrp as [E|[Hd Hc]]; [discriminate|].
      rewrite (all_digits_of (c :: r)) by (auto; discriminate).
      unfold add_count. rewrite Hps, String.eqb_refl. reflexivity. }
  cbn [items_loop] in R. rewrite E0 in R. rewrite E1 in R.
  destruct (items_loop T Y its _) as [e|st] eqn:EL.
  - rewrite R in Hsp. discriminate.
  - destruct R as (sp' & Hp' & _ & Hsurf & _ & Hsym & Hnm). rewrite Hp' in Hsp. injection Hsp as <-.
    assert (p_surface st = Some (group_of d0)) as Hst.
    { eapply items_loop_surface_keep; [exact EL | reflexivity]. }
    rewrite Hst in Hsurf. split; [exact Hsurf|]. split.
    + unfold is_surface. rewrite Hsurf. reflexivity.
    + unfold gasname, is_surface. rewrite Hsurf.
      unfold surface_prefix_text. rewrite Hsurf, Hsym, (Hnm Hrep).
      rewrite (group_text d0 Hgrp).
      unfold replace. rewrite chars_app, chars_str, Hname. change (chars "") with (@nil ascii).
      rewrite app_assoc. rewrite replace_prefix; auto.
      destruct (chars (y_surface Y)) eqn:Ec; [|discriminate].
      exfalso. apply Hs. apply chars_inj. rewrite Ec. reflexivity.
Qed.

(** decidable form of "no occurrence" *)
Lemma no_occb_sound p s : no_occb p s = true -> forall st, ~ occ p s st.
Proof.
  unfold no_occb. rewrite andb_true_iff. intros [Hp Hall] st Hocc.
  assert (p <> []) as Hne. { intro E. rewrite E in Hp. discriminate. }
  pose proof (occ_bound _ _ _ Hne Hocc) as Hb.
  rewrite forallb_forall in Hall. specialize (Hall st). unfold occ in Hocc. rewrite Hocc in Hall.
  assert (In st (seq 0 (S (List.length s)))) as Hin by (apply in_seq; lia).
  specialize (Hall Hin). discriminate.
Qed.

Lemma group_okb_sound d : group_okb d = true -> group_ok d.
Proof.
  unfold group_okb, group_ok. destruct d as [|c r]; auto.
  intro H. apply andb_true_iff in H. destruct H as [H1 H2]. right. split; auto.
  intro E. subst. discriminate.
Qed.
