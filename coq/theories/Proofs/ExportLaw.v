(** C18: a reaction written in the native exchange format keeps only its ReactionType code;
    re-read, it is a native Reaction.  Which (format, subtype) pairs keep their law? *)
From Coq Require Import List Arith Bool String Ascii ZArith Reals Lra.
From Naunet Require Import Lib.ListX Lib.PyStr Model.CExpr Model.RateGas Model.RateGrain
     Proofs.RateSem Proofs.RateKida Proofs.RateUmist Proofs.RateLeeds Proofs.RateUcl.
Import ListNotations.
Open Scope R_scope.

Section Same.
Variable litv : list ascii -> R.
Variable var : list ascii -> R.
Variable fn : list ascii -> list R -> R.
Variable mag : nat -> R.
Variable idx : list ascii -> R -> R.
Variable nm : nat -> R.
Hypothesis lit0 : litv ["0"; "."; "0"]%char = 0.
Hypothesis pow0 : forall x, fn ["p"; "o"; "w"]%char [x; 0] = 1.
Hypothesis exp0 : fn ["e"; "x"; "p"]%char [0] = 1.
Notation sem := (sem litv var fn mag idx nm).
Notation native := (nat_rate true).

(* the pairs whose law survives the export: (format rate, native type code) *)
Lemma export_same_lemma ka kb kc :
  sem (kida_rate ka kb kc 1) = sem (native ka kb kc 101%Z) /\
  sem (kida_rate ka kb kc 2) = sem (native ka kb kc 102%Z) /\
  sem (kida_rate ka kb kc 3) = sem (native ka kb kc 100%Z) /\
  sem (kida_rate ka kb kc 4) = sem (native ka kb kc 110%Z) /\
  sem (kida_rate ka kb kc 5) = sem (native ka kb kc 111%Z) /\
  sem (umist ka kb kc (Some 100%Z)) = sem (native ka kb kc 100%Z) /\
  sem (umist ka kb kc (Some 102%Z)) = sem (native ka kb kc 102%Z) /\
  sem (umist ka kb kc (Some 120%Z)) = sem (native ka kb kc 120%Z) /\
  sem (leeds_rate ka kb kc 1 "") = sem (native ka kb kc 100%Z) /\
  sem (ucl ka kb kc 100%Z false) = sem (native ka kb kc 100%Z).
Proof.
  destruct (native_laws_lemma litv var fn mag idx nm lit0 pow0 exp0 ka kb kc) as (N100 & N101 & N102 & N110 & N111 & N120).
  repeat match goal with |- _ /\ _ => split end.
  - rewrite N101. apply kida1_lemma; assumption.
  - rewrite N102. apply kida2_lemma; assumption.
  - rewrite N100. apply kida3_lemma; assumption.
  - rewrite N110. apply kida4_lemma; assumption.
  - rewrite N111. apply kida5_lemma; assumption.
  - rewrite N100. apply umist_tb_lemma; assumption.
  - rewrite N102. apply umist_ph_lemma; assumption.
  - rewrite N120. apply umist_cr_lemma; assumption.
  - rewrite N100. apply leeds1_lemma; assumption.
  - rewrite N100. apply ucl_ma_lemma; assumption.
Qed.
End Same.

(** the pairs whose law is silently changed: one interpretation (satisfying the side
    conditions of C05) on which the two rates differ *)
Definition is_s (a : string) (s : list ascii) : bool := list_eqb Ascii.eqb s (chars a).
Definition w_lit (s : list ascii) : R := if is_s "0.0" s then 0 else 3.
Definition w_var (s : list ascii) : R := if is_s "zism" s then 5 else 2.
Definition w_fn (f : list ascii) (args : list R) : R := 1.
Definition w_mag (i : nat) : R := 1.
Definition w_idx (a : list ascii) (x : R) : R := 1.
Definition w_nm (i : nat) : R := 1.
Notation wsem := (sem w_lit w_var w_fn w_mag w_idx w_nm).

Lemma witness_ok : w_lit ["0"; "."; "0"]%char = 0 /\ (forall x, w_fn ["p"; "o"; "w"]%char [x; 0] = 1) /\ w_fn ["e"; "x"; "p"]%char [0] = 1.
Proof. repeat split. Qed.

Ltac differ :=
  unfold sem; cbn [umist umist_rate leeds_rate ucl uclchem_rate nat_rate native_rate Z.eqb Pos.eqb];
  repeat run_parse_all; cbn [option_map denote map];
  unfold w_lit, w_var, w_fn, w_mag, is_s; cbn [chars list_ascii_of_string list_eqb Ascii.eqb Bool.eqb andb];
  let H := fresh "H" in (intro H; injection H; clear H; intro H; lra).

Lemma export_differs_lemma :
  wsem (umist Pos Pos Pos (Some 101%Z)) <> wsem (nat_rate true Pos Pos Pos 101%Z) /\
  wsem (leeds_rate Pos Pos Pos 2 "") <> wsem (nat_rate true Pos Pos Pos 101%Z) /\
  wsem (leeds_rate Pos Pos Pos 3 "") <> wsem (nat_rate true Pos Pos Pos 120%Z) /\
  wsem (leeds_rate Pos Pos Pos 4 "") <> wsem (nat_rate true Pos Pos Pos 102%Z) /\
  wsem (ucl Pos Pos Pos 101%Z false) <> wsem (nat_rate true Pos Pos Pos 101%Z) /\
  wsem (ucl Pos Pos Pos 120%Z false) <> wsem (nat_rate true Pos Pos Pos 120%Z) /\
  wsem (ucl Pos Pos Pos 102%Z false) <> wsem (nat_rate true Pos Pos Pos 102%Z).
Proof. repeat match goal with |- _ /\ _ => split end; differ. Qed.

(* grain reactions: the native class binds the dust temperature to the gas temperature symbol,
   the Leeds class to Tdust: same atom string, different identifier *)
Definition leeds_syms := {| s_tgas := "Tgas"; s_tdust := "Tdust"; s_crrate := "zeta_cr"; s_zism := "zism";
                            s_radfield := "G0"; s_av := "Av"; s_h2form := "?" |}.
Definition native_syms := {| s_tgas := "Tgas"; s_tdust := "Tgas"; s_crrate := "zeta"; s_zism := "?";
                             s_radfield := "?"; s_av := "Av"; s_h2form := "?" |}.
Lemma export_dust_temperature_lemma :
  name_of leeds_syms "" "eb_GCOI" Ntdust <> name_of native_syms "" "eb_GCOI" Ntdust /\
  In (N Ntdust) hh93_thermal.
Proof. split. discriminate. vm_compute. tauto. Qed.
