(** C14: the network container stays consistent under any history of edits. *)
From Coq Require Import List Arith Bool ZArith Lia Permutation String.
From Naunet Require Import Lib.ListX Model.Dup Model.Network Proofs.DupProofs Proofs.SpeciesProofs.
Import ListNotations.

Lemma memb_nat_in x l : memb Nat.eqb x l = true <-> In x l.
Proof.
  induction l as [|a l IH]; simpl. split; [discriminate | intros []].
  rewrite orb_true_iff, IH, Nat.eqb_eq. intuition.
Qed.

Lemma set_add_in x s y : In y (set_add x s) <-> y = x \/ In y s.
Proof.
  unfold set_add. destruct (memb Nat.eqb x s) eqn:E.
  - apply memb_nat_in in E. split; [auto | intros [->|]; auto].
  - rewrite in_app_iff. simpl. intuition.
Qed.

Lemma NoDup_snoc {X} (x : X) l : NoDup l -> ~ In x l -> NoDup (l ++ [x]).
Proof.
  induction 1 as [|a l Ha Hl IH]; intro Hx; simpl. repeat constructor. intros [].
  constructor.
  - rewrite in_app_iff. simpl. intros [H|[H|[]]]; auto. subst. apply Hx. simpl; auto.
  - apply IH. intro H. apply Hx. simpl; auto.
Qed.

Lemma set_add_nodup x s : NoDup s -> NoDup (set_add x s).
Proof.
  intro H. unfold set_add. destruct (memb Nat.eqb x s) eqn:E; auto.
  apply NoDup_snoc; auto. intro Hin. apply memb_nat_in in Hin. congruence.
Qed.

Lemma set_union_in t : forall s y, In y (set_union s t) <-> In y s \/ In y t.
Proof.
  unfold set_union. induction t as [|x t IH]; intros s y; simpl. intuition.
  rewrite IH, set_add_in. intuition.
Qed.

Lemma set_union_nodup t : forall s, NoDup s -> NoDup (set_union s t).
Proof.
  unfold set_union. induction t as [|x t IH]; intros s H; simpl; auto.
  apply IH, set_add_nodup; auto.
Qed.

Record Inv (s : net) : Prop := {
  inv_reac : forall x, In x (reactants s) <-> exists r, In r (rl s) /\ In x (rx_reac r);
  inv_prod : forall x, In x (products s) <-> exists r, In r (rl s) /\ In x (rx_prod r);
  inv_nd_r : NoDup (reactants s);
  inv_nd_p : NoDup (products s);
  inv_kept : forallb (allowed_ok (allowed s)) (rl s) = true;
  inv_skip : forallb (fun r => negb (allowed_ok (allowed s) r)) (skipped s) = true;
}.

Lemma inv_empty a q : Inv (empty_net a q).
Proof.
  constructor; simpl; auto.
  - intro x; split; [intros [] | intros (r & [] & _)].
  - intro x; split; [intros [] | intros (r & [] & _)].
  - constructor.
  - constructor.
Qed.

Lemma inv_add s r : Inv s -> Inv (add_reaction s r).
Proof.
  intros [H1 H2 H3 H4 H5 H6]. unfold add_reaction.
  destruct (allowed_ok (allowed s) r) eqn:E; constructor; simpl; auto.
  - intro x. rewrite set_union_in, H1. split.
    + intros [(r' & Hr & Hx)|Hx]; [exists r' | exists r]; rewrite in_app_iff; simpl; auto.
    + intros (r' & Hr & Hx). apply in_app_iff in Hr. destruct Hr as [Hr|[<-|[]]]; eauto.
  - intro x. rewrite set_union_in, H2. split.
    + intros [(r' & Hr & Hx)|Hx]; [exists r' | exists r]; rewrite in_app_iff; simpl; auto.
    + intros (r' & Hr & Hx). apply in_app_iff in Hr. destruct Hr as [Hr|[<-|[]]]; eauto.
  - apply set_union_nodup; auto.
  - apply set_union_nodup; auto.
  - rewrite forallb_app. simpl. rewrite H5, E. auto.
  - rewrite forallb_app. simpl. rewrite H6, E. auto.
Qed.

Lemma fold_union_in (f : rx -> list nat) l : forall acc x,
  In x (fold_left (fun a r => set_union a (f r)) l acc) <-> In x acc \/ exists r, In r l /\ In x (f r).
Proof.
  induction l as [|r l IH]; intros acc x; simpl.
  - split; auto. intros [H|(r & [] & _)]; auto.
  - rewrite IH, set_union_in. split.
    + intros [[H|H]|(r' & Hr & Hx)]; eauto.
    + intros [H|(r' & [<-|Hr] & Hx)]; eauto.
Qed.

Lemma fold_union_nodup (f : rx -> list nat) l : forall acc,
  NoDup acc -> NoDup (fold_left (fun a r => set_union a (f r)) l acc).
Proof.
  induction l as [|r l IH]; intros acc H; simpl; auto. apply IH, set_union_nodup; auto.
Qed.

Lemma inv_rebuild s l : Inv s -> incl l (rl s) -> Inv (rebuild s l).
Proof.
  intros [H1 H2 H3 H4 H5 H6] Hincl. constructor; simpl; auto.
  - intro x. rewrite fold_union_in. split; [intros [[]|H]; auto | auto].
  - intro x. rewrite fold_union_in. split; [intros [[]|H]; auto | auto].
  - apply fold_union_nodup. constructor.
  - apply fold_union_nodup. constructor.
  - rewrite forallb_forall in *. auto.
Qed.

Lemma incl_filter {X} (p : X -> bool) l : incl (filter p l) l.
Proof. intros x H. apply filter_In in H. tauto. Qed.

Lemma incl_remove_nth {X} i (l : list X) : incl (remove_nth i l) l.
Proof.
  revert i. induction l as [|a l IH]; intros [|i] x H; simpl in *; auto.
  destruct H as [<-|H]; auto. right. eapply IH; eauto.
Qed.

Lemma incl_remove_idxs {X} d (l : list X) : incl (remove_idxs d l) l.
Proof.
  unfold remove_idxs. intros x H. apply in_map_iff in H. destruct H as ([i y] & <- & H).
  apply filter_In in H. destruct H as [H _]. simpl.
  unfold enumerate in H. apply (enumerate_from_in 0 l i y) in H. destruct H as [_ H].
  eapply nth_error_In; eauto.
Qed.

Lemma fold_add_inv l : forall s, Inv s -> Inv (fold_left add_reaction l s).
Proof. induction l as [|r l IH]; intros s H; simpl; auto. apply IH, inv_add; auto. Qed.

Lemma inv_step s o : Inv s -> Inv (step s o).
Proof.
  intro H. destruct o; simpl.
  - apply inv_add; auto.
  - destruct (Nat.ltb i (List.length (rl s))); auto. apply inv_rebuild; auto. apply incl_remove_nth.
  - apply inv_rebuild; auto. apply incl_remove_idxs.
  - apply inv_rebuild; auto. apply incl_filter.
  - apply inv_rebuild; auto. apply incl_filter.
  - apply fold_add_inv, inv_empty.
  - destruct H. constructor; auto.
  - apply inv_rebuild; auto. apply incl_remove_idxs.
  - destruct H as [H1 H2 H3 H4 H5 H6]. constructor; simpl; auto.
    + intro x. rewrite H1. unfold reindex_list. split.
      * intros (r & Hr & Hx). apply In_nth_error in Hr. destruct Hr as (i & Hi).
        exists {| rx_tag := rx_tag r; rx_idx := Z.of_nat i; rx_key := rx_key r |}. split; auto.
        apply in_map_iff. exists (i, r). split; auto.
        apply (enumerate_from_in 0 (rl s) i r). rewrite Nat.sub_0_r. split; auto. lia.
      * intros (r & Hr & Hx). apply in_map_iff in Hr. destruct Hr as ([i r'] & <- & Hr).
        apply (enumerate_from_in 0 (rl s) i r') in Hr. destruct Hr as [_ Hr].
        exists r'. split; auto. eapply nth_error_In; eauto.
    + intro x. rewrite H2. unfold reindex_list. split.
      * intros (r & Hr & Hx). apply In_nth_error in Hr. destruct Hr as (i & Hi).
        exists {| rx_tag := rx_tag r; rx_idx := Z.of_nat i; rx_key := rx_key r |}. split; auto.
        apply in_map_iff. exists (i, r). split; auto.
        apply (enumerate_from_in 0 (rl s) i r). rewrite Nat.sub_0_r. split; auto. lia.
      * intros (r & Hr & Hx). apply in_map_iff in Hr. destruct Hr as ([i r'] & <- & Hr).
        apply (enumerate_from_in 0 (rl s) i r') in Hr. destruct Hr as [_ Hr].
        exists r'. split; auto. eapply nth_error_In; eauto.
    + unfold reindex_list. rewrite forallb_forall in *. intros r Hr.
      apply in_map_iff in Hr. destruct Hr as ([i r'] & <- & Hr).
      apply (enumerate_from_in 0 (rl s) i r') in Hr. destruct Hr as [_ Hr].
      apply nth_error_In in Hr. apply H5 in Hr. exact Hr.
Qed.

Theorem inv_reachable_lemma a q ops : Inv (run (empty_net a q) ops).
Proof.
  unfold run. assert (forall s, Inv s -> Inv (fold_left step ops s)) as H.
  { induction ops as [|o ops IH]; intros s Hs; simpl; auto. apply IH, inv_step; auto. }
  apply H, inv_empty.
Qed.

(** exact effect of the operations on the held / parked reactions *)
Lemma fold_add_spec l : forall s,
  rl (fold_left add_reaction l s) = rl s ++ filter (allowed_ok (allowed s)) l /\
  skipped (fold_left add_reaction l s) = skipped s ++ filter (fun r => negb (allowed_ok (allowed s) r)) l /\
  allowed (fold_left add_reaction l s) = allowed s /\
  required (fold_left add_reaction l s) = required s.
Proof.
  induction l as [|r l IH]; intro s; simpl.
  - rewrite !app_nil_r. auto.
  - destruct (IH (add_reaction s r)) as (I1 & I2 & I3 & I4). rewrite I1, I2, I3, I4.
    unfold add_reaction. destruct (allowed_ok (allowed s) r) eqn:E; simpl; rewrite <- ?app_assoc; auto.
Qed.

Theorem set_allowed_spec_lemma s a :
  rl (step s (SetAllowed a)) = filter (allowed_ok a) (rl s ++ skipped s) /\
  skipped (step s (SetAllowed a)) = filter (fun r => negb (allowed_ok a r)) (rl s ++ skipped s) /\
  allowed (step s (SetAllowed a)) = a.
Proof.
  simpl. destruct (fold_add_spec (rl s ++ skipped s) (empty_net a (required s))) as (I1 & I2 & I3 & _).
  rewrite I1, I2, I3. simpl. auto.
Qed.

Lemma filter_partition_perm {X} (p : X -> bool) l :
  Permutation (filter p l ++ filter (fun x => negb (p x)) l) l.
Proof.
  induction l as [|x l IH]; simpl; auto.
  destruct (p x); simpl.
  - constructor. auto.
  - rewrite <- Permutation_middle. constructor. auto.
Qed.

Theorem set_allowed_no_loss_lemma s a :
  Permutation (rl (step s (SetAllowed a)) ++ skipped (step s (SetAllowed a))) (rl s ++ skipped s).
Proof.
  destruct (set_allowed_spec_lemma s a) as (-> & -> & _). apply filter_partition_perm.
Qed.

Theorem add_spec_lemma s r :
  (allowed_ok (allowed s) r = true ->
     rl (step s (Add r)) = rl s ++ [r] /\ skipped (step s (Add r)) = skipped s) /\
  (allowed_ok (allowed s) r = false ->
     rl (step s (Add r)) = rl s /\ skipped (step s (Add r)) = skipped s ++ [r]).
Proof.
  simpl. unfold add_reaction. split; intros ->; simpl; auto.
Qed.

Theorem remove_spec_lemma s :
  (forall i, i < List.length (rl s) -> rl (step s (RemoveIdx i)) = remove_nth i (rl s)) /\
  (forall l, rl (step s (RemoveIdxs l)) = remove_idxs l (rl s)) /\
  (forall r, rl (step s (RemoveInst r)) = filter (fun x => negb (rx_eqb x r)) (rl s)) /\
  (forall l, rl (step s (RemoveInsts l)) = filter (fun x => negb (existsb (rx_eqb x) l)) (rl s)) /\
  (forall o, match o with Add _ | SetAllowed _ => True | _ => skipped (step s o) = skipped s end).
Proof.
  repeat split; simpl; auto.
  - intros i Hi. apply Nat.ltb_lt in Hi. rewrite Hi. auto.
  - intros [] ; simpl; auto. destruct (Nat.ltb i (List.length (rl s))); auto.
Qed.

(** changing the allowed list later = constructing with it (adds-only histories) *)
Lemma run_adds a q adds :
  run (empty_net a q) (map Add adds) = fold_left add_reaction adds (empty_net a q).
Proof.
  unfold run. generalize (empty_net a q). induction adds as [|r l IH]; intro s; simpl; auto.
Qed.

Lemma filter_filter_perm {X} (p q : X -> bool) l :
  Permutation (filter p (filter q l ++ filter (fun x => negb (q x)) l)) (filter p l).
Proof.
  induction l as [|x l IH]; simpl; auto.
  destruct (q x) eqn:Q; simpl.
  - destruct (p x); simpl; auto.
  - rewrite filter_app in *. simpl. destruct (p x); simpl; auto.
    rewrite <- Permutation_middle. constructor. auto.
Qed.

Theorem allowed_late_lemma a0 a q adds :
  let late := step (run (empty_net a0 q) (map Add adds)) (SetAllowed a) in
  let ctor := run (empty_net a q) (map Add adds) in
  Permutation (rl late) (rl ctor) /\
  (forall x, In x (species_set late) <-> In x (species_set ctor)).
Proof.
  intros late ctor.
  assert (Hp : Permutation (rl late) (rl ctor)).
  { unfold late, ctor. destruct (set_allowed_spec_lemma (run (empty_net a0 q) (map Add adds)) a) as (-> & _).
    rewrite !run_adds.
    destruct (fold_add_spec adds (empty_net a0 q)) as (-> & -> & _).
    destruct (fold_add_spec adds (empty_net a q)) as (-> & _). simpl.
    apply filter_filter_perm. }
  split; auto.
  assert (Il : Inv late) by (unfold late; apply inv_step, inv_reachable_lemma).
  assert (Ic : Inv ctor) by (unfold ctor; apply inv_reachable_lemma).
  assert (Hreq : required late = required ctor).
  { unfold late, ctor. simpl. rewrite !run_adds.
    destruct (fold_add_spec (rl (fold_left add_reaction adds (empty_net a0 q)) ++
                             skipped (fold_left add_reaction adds (empty_net a0 q)))
                            (empty_net a (required (fold_left add_reaction adds (empty_net a0 q))))) as (_ & _ & _ & ->).
    destruct (fold_add_spec adds (empty_net a0 q)) as (_ & _ & _ & ->).
    destruct (fold_add_spec adds (empty_net a q)) as (_ & _ & _ & ->). auto. }
  intro x. unfold species_set. rewrite !set_union_in, Hreq.
  rewrite (inv_reac _ Il), (inv_reac _ Ic), (inv_prod _ Il), (inv_prod _ Ic).
  split; intros [[(r & Hr & Hx)|(r & Hr & Hx)]|H]; auto.
  - left; left. exists r. split; auto. eapply Permutation_in; eauto.
  - left; right. exists r. split; auto. eapply Permutation_in; eauto.
  - left; left. exists r. split; auto. eapply Permutation_in; [symmetry|]; eauto.
  - left; right. exists r. split; auto. eapply Permutation_in; [symmetry|]; eauto.
Qed.

(** sources and sinks *)
Theorem source_sink_lemma s : Inv s -> forall x,
  (In x (sources s) <-> (exists r, In r (rl s) /\ In x (rx_reac r)) /\ ~ (exists r, In r (rl s) /\ In x (rx_prod r))) /\
  (In x (sinks s) <-> (exists r, In r (rl s) /\ In x (rx_prod r)) /\ ~ (exists r, In r (rl s) /\ In x (rx_reac r))).
Proof.
  intros H x. unfold sources, sinks, set_diff. rewrite !filter_In, !negb_true_iff.
  rewrite <- (inv_reac _ H), <- (inv_prod _ H).
  split; split; intros [H1 H2]; split; auto.
  - intro Hc. apply memb_nat_in in Hc. congruence.
  - destruct (memb Nat.eqb x (products s)) eqn:E; auto. apply memb_nat_in in E. tauto.
  - intro Hc. apply memb_nat_in in Hc. congruence.
  - destruct (memb Nat.eqb x (reactants s)) eqn:E; auto. apply memb_nat_in in E. tauto.
Qed.

Lemma remove_idxs_map {X Y} (f : X -> Y) d (l : list X) :
  map f (remove_idxs d l) = remove_idxs d (map f l).
Proof.
  unfold remove_idxs, enumerate. generalize 0 as a.
  induction l as [|r l IH]; intro a; simpl; auto.
  destruct (negb (memb Nat.eqb a d)); simpl; rewrite IH; auto.
Qed.

(** removing duplicates through the network *)
Theorem remove_dups_lemma s :
  Forall known_type (map rx_key (rl s)) ->
  find_dup rxn_eqb (map rx_key (rl (step s RemoveDups))) = ([], []).
Proof.
  intro Hk. simpl.
  rewrite remove_idxs_map.
  destruct (default_on_known_thm (map rx_key (rl s)) Hk) as [Heq (Hr & Hs & Ht)].
  rewrite Heq.
  assert (Forall known_type (remove_idxs (fst (find_dup rxn_eqb_strict (map rx_key (rl s)))) (map rx_key (rl s)))) as Hk'.
  { apply Forall_forall. intros x Hx. apply incl_remove_idxs in Hx. rewrite Forall_forall in Hk. auto. }
  destruct (default_on_known_thm _ Hk') as [-> _].
  apply (remove_roundtrip_lemma rxn_eqb_strict Hr Hs Ht).
Qed.

(** ** the append steps of the `naunet extend` command (append_by): for every species of the network AS IT IS NOW
    that has a counterpart, one reaction species -> counterpart is added; nothing else changes *)
Lemma add_reaction_rl s r x : In x (rl (add_reaction s r)) -> In x (rl s) \/ x = r.
Proof.
  unfold add_reaction. destruct (allowed_ok (allowed s) r); simpl; auto.
  rewrite in_app_iff. simpl. intuition.
Qed.
Lemma add_reaction_keeps s r x : In x (rl s) -> In x (rl (add_reaction s r)).
Proof. unfold add_reaction. destruct (allowed_ok (allowed s) r); simpl; auto. rewrite in_app_iff. auto. Qed.

Section Append.
Variable f : nat -> option nat.
Variable ty : Z.
Let stepf := fun acc x => match f x with Some y => add_reaction acc (mk_simple 0 [x] [y] ty) | None => acc end.

Lemma append_fold_inv l : forall s, Inv s -> Inv (fold_left stepf l s).
Proof.
  induction l as [|x l IH]; intros s H; simpl; auto. apply IH. unfold stepf. destruct (f x); auto. apply inv_add; auto.
Qed.
Lemma append_fold_rl l : forall s r, In r (rl (fold_left stepf l s)) ->
  In r (rl s) \/ exists x y, In x l /\ f x = Some y /\ r = mk_simple 0 [x] [y] ty.
Proof.
  induction l as [|x l IH]; intros s r H; simpl in H; auto.
  apply IH in H. destruct H as [H|(x' & y & Hx & Hf & ->)].
  - unfold stepf in H. destruct (f x) as [y|] eqn:Hf; auto.
    apply add_reaction_rl in H. destruct H as [H| ->]; auto.
    right. exists x, y. simpl; auto.
  - right. exists x', y. simpl; auto.
Qed.
Lemma append_fold_keeps l : forall s r, In r (rl s) -> In r (rl (fold_left stepf l s)).
Proof.
  induction l as [|x l IH]; intros s r H; simpl; auto. apply IH. unfold stepf. destruct (f x); auto.
  apply add_reaction_keeps; auto.
Qed.

Theorem append_by_inv_lemma s : Inv s -> Inv (append_by f ty s).
Proof. intro H. unfold append_by. apply append_fold_inv. exact H. Qed.

(* every reaction of the result was held before or is  x -> f x  for a species x of a reaction held before *)
Theorem append_by_spec_lemma s r : Inv s -> In r (rl (append_by f ty s)) ->
  In r (rl s) \/
  exists x y, f x = Some y /\ r = mk_simple 0 [x] [y] ty /\
              exists r0, In r0 (rl s) /\ (In x (rx_reac r0) \/ In x (rx_prod r0)).
Proof.
  intros HI H. unfold append_by in H. apply append_fold_rl in H.
  destruct H as [H|(x & y & Hx & Hf & ->)]; auto.
  right. exists x, y. repeat split; auto.
  apply (proj1 (SpeciesProofs.isort_in Nat.leb _ x)) in Hx. apply set_union_in in Hx.
  destruct Hx as [Hx|Hx].
  - apply (inv_reac s HI) in Hx. destruct Hx as (r0 & Hr0 & Hx). exists r0. auto.
  - apply (inv_prod s HI) in Hx. destruct Hx as (r0 & Hr0 & Hx). exists r0. auto.
Qed.
Theorem append_by_keeps_lemma s r : In r (rl s) -> In r (rl (append_by f ty s)).
Proof. intro H. unfold append_by. apply append_fold_keeps. exact H. Qed.
End Append.

Lemma reduce_by_inv al s : Inv (reduce_by al s).
Proof. unfold reduce_by. apply fold_add_inv, inv_empty. Qed.

Lemma fold_add_rl_unrestricted l : forall s, allowed s = [] -> rl (fold_left add_reaction l s) = (rl s ++ l)%list.
Proof.
  induction l as [|r l IH]; intros s Ha; simpl. rewrite app_nil_r; reflexivity.
  assert (Hs : add_reaction s r = {| rl := rl s ++ [r]; skipped := skipped s; reactants := set_union (reactants s) (rx_reac r);
                                     products := set_union (products s) (rx_prod r); allowed := allowed s; required := required s |}).
  { unfold add_reaction, allowed_ok. rewrite Ha. reflexivity. }
  rewrite IH; rewrite Hs; simpl; auto. rewrite <- app_assoc. reflexivity.
Qed.

(* reduce-by-species keeps exactly the reactions all of whose species are listed, in order *)
Lemma reduce_by_rl al s :
  rl (reduce_by al s) = filter (fun r => forallb (fun x => memb Nat.eqb x al) (rx_reac r ++ rx_prod r)) (rl s).
Proof. unfold reduce_by. rewrite fold_add_rl_unrestricted; reflexivity. Qed.

Lemma remove_species_inv xs s : Inv s -> Inv (remove_species xs s).
Proof. intro H. unfold remove_species. apply inv_rebuild; auto. apply incl_remove_idxs. Qed.

Theorem extend_inv_lemma reduce remove dups appends l : Inv (extend reduce remove dups appends l).
Proof.
  unfold extend.
  set (s0 := fold_left add_reaction l (empty_net [] [])).
  assert (H0 : Inv s0) by (apply fold_add_inv, inv_empty).
  set (s1 := match reduce with Some al => reduce_by al s0 | None => s0 end).
  assert (H1 : Inv s1) by (unfold s1; destruct reduce; [apply reduce_by_inv | exact H0]).
  set (s2 := match remove with [] => s1 | _ => remove_species remove s1 end).
  assert (H2 : Inv s2) by (unfold s2; destruct remove; [exact H1 | apply remove_species_inv; exact H1]).
  set (s3 := if dups then step s2 RemoveDups else s2).
  assert (H3 : Inv s3) by (unfold s3; destruct dups; [apply inv_step; exact H2 | exact H2]).
  apply inv_step.
  assert (G : forall ps s, Inv s -> Inv (fold_left (fun s p => append_by (fst p) (snd p) s) ps s)).
  { induction ps as [|p ps IH]; intros s Hs; simpl; auto. apply IH. apply append_by_inv_lemma. exact Hs. }
  apply G. exact H3.
Qed.
